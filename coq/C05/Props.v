(* C05 — property theorems (parametric in the registry, in base64 and in str.isspace).
   Nothing but statements closed by `exact`, each followed by Print Assumptions. *)
From Coq Require Import ZArith List Bool.
From S2T Require Import Lib.PyStr C05.Model C05.Proofs C05.Roundtrip C05.Tables C05.Base64 C05.Markers.
Import ListNotations.
Open Scope N_scope.

(* to_json / serialize of a value without foreign leaves (timedelta, Decimal, ...) is accepted by the
   JSON encoder, with and without binary payloads *)
Theorem C05_dumps_ok :
  forall (enc : bytes -> str) (include_binary : bool) (v : val),
    no_other v = true ->
    encodable (serialize enc include_binary v) = true
    /\ encodable (serialize_extraction enc include_binary v) = true.
Proof.
  intros enc b v H. split; [exact (dumps_ok_lemma enc b v H)|].
  unfold serialize_extraction. pose proof (dumps_ok_lemma enc b v H) as E.
  destruct (serialize enc b v); cbn [encodable forallb snd] in *; try rewrite E; reflexivity.
Qed.
Print Assumptions C05_dumps_ok.

(* with binary payloads excluded exactly the binary values become null and nothing else changes *)
Theorem C05_no_binary :
  forall (enc : bytes -> str) (v : val),
    serialize enc false v = serialize enc true (null_binary v)
    /\ serialize_extraction enc false v = serialize_extraction enc true (null_binary v).
Proof.
  intros enc v. split; [exact (no_binary_lemma enc v)|].
  unfold serialize_extraction. rewrite (no_binary_lemma enc v). reflexivity.
Qed.
Print Assumptions C05_no_binary.

(* serialising a BytesIO encodes its whole content whatever its position and leaves the position unchanged *)
Theorem C05_position_restored :
  forall (enc : bytes -> str) (c : bytes) (p : N),
    bytesio_to_base64 enc {| b_content := c; b_pos := p |} = (enc c, {| b_content := c; b_pos := p |}).
Proof. exact position_restored_lemma. Qed.
Print Assumptions C05_position_restored.

(* --json : one result gives that result's object, any other number an array of the objects *)
Theorem C05_cli_shape :
  forall (enc : bytes -> str) (include_binary : bool) (results : list val),
    (forall r, results = [r] ->
       serialize_results enc include_binary results = serialize_extraction enc include_binary r
       /\ is_object (serialize_results enc include_binary results) = true)
    /\ (List.length results <> 1%nat ->
        serialize_results enc include_binary results = JList (map (serialize_extraction enc include_binary) results)
        /\ Forall (fun j => is_object j = true) (map (serialize_extraction enc include_binary) results)).
Proof. exact cli_shape_lemma. Qed.
Print Assumptions C05_cli_shape.

(* --json-unit : one result gives the array of its units' objects, several an array of such arrays *)
Theorem C05_cli_unit_shape :
  forall (enc : bytes -> str) (units : val -> list val) (include_binary : bool) (results : list val),
    (forall r, results = [r] ->
       serialize_unit_results enc units include_binary results
       = JList (map (serialize_extraction enc include_binary) (units r)))
    /\ (List.length results <> 1%nat ->
        serialize_unit_results enc units include_binary results =
        JList (map (fun r => JList (map (serialize_extraction enc include_binary) (units r))) results)).
Proof. exact cli_unit_shape_lemma. Qed.
Print Assumptions C05_cli_unit_shape.

(* ROUND TRIP (strongest true statement; the unrestricted one is refuted below and in C05/Inst.v).
   For every base64 codec with dec (enc b) = b, every isspace, every well-formed registry and every
   dataclass instance v that is well-typed at its hints (has_type: constructed, fields stripped where
   __post_init__ strips), has no foreign leaf and no dict key that str()s to _type/_bytes/_bytesio:
   from_json(json.loads(json.dumps(v.to_json()))) succeeds and returns canon v — the same class, the
   same to_json (with and without binary payloads), the same binary payloads. *)
Theorem C05_roundtrip_partial :
  forall (enc : bytes -> str) (dec : str -> option bytes) (isspace : N -> bool) (R : registry),
    (forall b, dec (enc b) = Some b) -> registry_wf R = true ->
    forall c fl, let v := VData c fl in
      has_type isspace R v TAny = true -> keys_not_markers v = true -> no_other v = true ->
      exists w, pipeline enc dec isspace R v = Some w /\ w = canon v
                /\ to_json enc w = to_json enc v /\ class_of w = Some c
                /\ (dict_keys_distinct v = true -> payloads w = payloads v)
                /\ (forall b, serialize enc b w = serialize enc b v).
Proof. exact roundtrip_pipeline. Qed.
Print Assumptions C05_roundtrip_partial.

(* the same at any position and hint (what _deserialize_value does with a field) *)
Theorem C05_roundtrip_value :
  forall (enc : bytes -> str) (dec : str -> option bytes) (isspace : N -> bool) (R : registry),
    (forall b, dec (enc b) = Some b) -> registry_wf R = true ->
    forall v T, has_type isspace R v T = true -> keys_not_markers v = true ->
      deser dec isspace R false (serialize enc true v) T = Some (canon v).
Proof. exact roundtrip_value. Qed.
Print Assumptions C05_roundtrip_value.

(* the codec law is satisfiable *)
Example C05_codec_law_satisfiable :
  exists (enc : bytes -> str) (dec : str -> option bytes), forall b, dec (enc b) = Some b.
Proof. exists (fun b => b), (fun x => Some x). reflexivity. Qed.
Print Assumptions C05_codec_law_satisfiable.

(* REFUTED without keys_not_markers, for EVERY registry and codec: a row dict of a spreadsheet
   (hint List[Dict[str, Any]]) whose header cell is named `_bytes` over an integer cell is well-typed and
   JSON-clean, yet the deserialiser raises on its own serialisation. *)
Theorem C05_markers_refuted_any_registry :
  exists v T, forall (enc : bytes -> str) (dec : str -> option bytes) (isspace : N -> bool) (R : registry),
    has_type isspace R v T = true /\ no_other v = true /\ keys_not_markers v = false
    /\ deser dec isspace R false (serialize enc true v) T = None.
Proof.
  exists (VList [VDict [(KStr (s "_bytes"), VInt 5)]]),
         (TList (Some (TDict (Some (TPrim (s "str"), TAny))))).
  intros enc dec isspace R. repeat split; reflexivity.
Qed.
Print Assumptions C05_markers_refuted_any_registry.

(* every value the XLSX reader stores for a cell of a kind openpyxl produces (text, number, bool, date/time,
   duration, error, empty) is free of foreign leaves — so, by C05_dumps_ok, a sheet of such cells is encodable *)
Theorem C05_xlsx_cell_json_clean :
  forall c : cell, cell_known c = true ->
    no_other (get_cell_value c) = true /\ plain (get_cell_value c) = true.
Proof. intros c H. destruct c; try discriminate H; split; reflexivity. Qed.
Print Assumptions C05_xlsx_cell_json_clean.

(* the CLI writes either the complete JSON document of the shaped payload or nothing *)
Theorem C05_cli_all_or_nothing :
  forall (enc : bytes -> str) (include_binary : bool) (results : list val),
    (forallb no_other results = true ->
       cli_json (serialize_results enc include_binary results) = CliJson (serialize_results enc include_binary results))
    /\ (forall payload, cli_json payload = CliError \/ cli_json payload = CliJson payload).
Proof.
  intros enc b results. split.
  - intro H. unfold cli_json.
    assert (E : encodable (serialize_results enc b results) = true).
    { destruct results as [|r [|r2 rest]].
      - reflexivity.
      - cbn [forallb] in H. apply andb_true_iff in H as [H _]. exact (proj2 (C05_dumps_ok enc b r H)).
      - cbn [serialize_results encodable]. apply forallb_forall. intros j Hj.
        apply in_map_iff in Hj as [x [<- Hx]].
        apply (proj2 (C05_dumps_ok enc b x (proj1 (forallb_forall _ _) H x Hx))). }
    rewrite E. reflexivity.
  - intro payload. unfold cli_json. destruct (encodable payload); [right | left]; reflexivity.
Qed.
Print Assumptions C05_cli_all_or_nothing.

(* SAME OBJECT, TABLES INCLUDED.  If moreover every dict key is a str (and the keys of each dict are pairwise
   distinct, as in any Python dict whose keys are all str), the restored object is the original itself up to
   container kinds (tuple/set -> list, bytearray -> bytes, BytesIO rewound): every dict keeps its keys with
   their types, its entries and their order, hence get_table()/get_dim() of row-dict sheets, unit texts and
   payloads are those of the original. *)
Theorem C05_roundtrip_same_object :
  forall (enc : bytes -> str) (dec : str -> option bytes) (isspace : N -> bool) (R : registry),
    (forall b, dec (enc b) = Some b) -> registry_wf R = true ->
    forall c fl, let v := VData c fl in
      has_type isspace R v TAny = true -> keys_not_markers v = true -> no_other v = true ->
      keys_are_strings v = true -> dict_keys_distinct v = true ->
      pipeline enc dec isspace R v = Some (norm v) /\ payloads (norm v) = payloads v.
Proof.
  intros enc dec isspace R Hlaw Hwf c fl v Ht Hm Ho Hk Hd.
  destruct (roundtrip_pipeline enc dec isspace R Hlaw Hwf c fl Ht Hm Ho) as [w [Hp [Hw [_ [_ [Hpay _]]]]]].
  fold v in Hp, Hw, Hpay. rewrite Hw in Hp, Hpay. rewrite (canon_norm v Hk Hd) in Hp, Hpay.
  split; [exact Hp | exact (Hpay Hd)].
Qed.
Print Assumptions C05_roundtrip_same_object.

(* REFUTED without keys_are_strings, for every registry and codec: a dict with an int key (rendered "2020")
   at an unparameterised dict hint is well-typed, JSON-clean and free of marker keys; the deserialiser
   succeeds but returns a dict keyed by the STRING "2020" — not the original (str() in the serialiser,
   and json.dumps itself, stringify non-string keys). *)
Theorem C05_nonstring_keys_refuted :
  exists v T, forall (enc : bytes -> str) (dec : str -> option bytes) (isspace : N -> bool) (R : registry),
    has_type isspace R v T = true /\ no_other v = true /\ keys_not_markers v = true
    /\ keys_are_strings v = false
    /\ exists w, deser dec isspace R false (serialize enc true v) T = Some w /\ w <> norm v.
Proof.
  exists (VDict [(KObj (s "2020"), VInt 1)]), (TDict None).
  intros enc dec isspace R. repeat split; try reflexivity.
  exists (VDict [(KStr (s "2020"), VInt 1)]). split; [reflexivity | discriminate].
Qed.
Print Assumptions C05_nonstring_keys_refuted.

(* BASE64, ALL LENGTHS.  For the executable RFC 4648 codec of the model (tied to Python's base64 by the
   correspondence) decoding the encoding returns the bytes — for every byte string, of every length. *)
Theorem C05_base64_roundtrip_all_lengths :
  forall b : bytes, forallb is_byte b = true -> b64dec (b64enc b) = Some b.
Proof. exact b64_roundtrip. Qed.
Print Assumptions C05_base64_roundtrip_all_lengths.

(* the encoding of a buffer may be produced piecewise exactly when every piece but the last has a length
   divisible by 3 ... *)
Theorem C05_base64_chunks_at_multiples_of_3 :
  forall a b : bytes, (List.length a mod 3 = 0)%nat -> b64enc (a ++ b) = b64enc a ++ b64enc b.
Proof. exact b64enc_app3. Qed.
Print Assumptions C05_base64_chunks_at_multiples_of_3.

(* ... and REFUTED otherwise: joining the encodings of pieces of other lengths is not an encoding of the
   whole (padding in the middle), e.g. pieces of 1 byte — or of 1 MiB, 1048576 mod 3 = 1. *)
Theorem C05_base64_chunks_unaligned_refuted :
  exists a b : bytes, forallb is_byte (a ++ b) = true
    /\ b64enc a ++ b64enc b <> b64enc (a ++ b)
    /\ b64dec (b64enc a ++ b64enc b) <> Some (a ++ b)
    /\ (1048576 mod 3 <> 0)%N.
Proof. exists [1], [2]. repeat split; vm_compute; discriminate. Qed.
Print Assumptions C05_base64_chunks_unaligned_refuted.

(* ROUND TRIP WITH THE CONCRETE CODEC: no abstract codec law is left.  With the model's RFC 4648 encoder and
   strict decoder, for every instance whose payload bytes are < 256 (true of every Python bytes / bytearray /
   BytesIO), under the hypotheses of C05_roundtrip_partial, from_json(loads(dumps(to_json v))) = canon v. *)
Theorem C05_roundtrip_concrete_codec :
  forall (isspace : N -> bool) (R : registry), registry_wf R = true ->
    forall c fl, let v := VData c fl in
      has_type isspace R v TAny = true -> keys_not_markers v = true -> no_other v = true -> bytes_ok v = true ->
      exists w, pipeline b64enc b64dec isspace R v = Some w /\ w = canon v
                /\ to_json b64enc w = to_json b64enc v /\ class_of w = Some c
                /\ (dict_keys_distinct v = true -> payloads w = payloads v)
                /\ (forall b, serialize b64enc b w = serialize b64enc b v).
Proof. exact roundtrip_concrete_codec. Qed.
Print Assumptions C05_roundtrip_concrete_codec.

(* the encoder's output is canonical base64 (accepted by the strict decoder) ... *)
Theorem C05_base64_encoder_output_canonical :
  forall b : bytes, forallb is_byte b = true -> b64_canonical (b64enc b) = true.
Proof. exact b64enc_canonical. Qed.
Print Assumptions C05_base64_encoder_output_canonical.

(* ... hence from_json never sees non-canonical input produced by to_json: ANY decoder that agrees with the strict
   one on canonical strings (Python's lenient b64decode does) restores the same object — what a decoder does with
   non-canonical input (discarded characters, inner padding, missing padding) is never exercised. *)
Theorem C05_decoder_sees_only_canonical :
  forall (dec' : str -> option bytes) (isspace : N -> bool) (R : registry),
    (forall t, b64_canonical t = true -> dec' t = b64dec t) -> registry_wf R = true ->
    forall c fl, let v := VData c fl in
      has_type isspace R v TAny = true -> keys_not_markers v = true -> no_other v = true -> bytes_ok v = true ->
      exists w, pipeline b64enc dec' isspace R v = Some w /\ w = canon v
                /\ to_json b64enc w = to_json b64enc v /\ class_of w = Some c
                /\ (dict_keys_distinct v = true -> payloads w = payloads v)
                /\ (forall b, serialize b64enc b w = serialize b64enc b v).
Proof. exact roundtrip_any_lenient_decoder. Qed.
Print Assumptions C05_decoder_sees_only_canonical.

(* deserialize_extraction raises its documented ValueError exactly for a non-dict or a dict without `_type` *)
Theorem C05_from_json_value_error :
  forall (dec : str -> option bytes) (isspace : N -> bool) (R : registry) (j : json),
    from_json_outcome dec isspace R j = OValueError <->
    (is_object j = false \/ exists kvs, j = JObj kvs /\ has_key K_TYPE kvs = false).
Proof. exact from_json_value_error. Qed.
Print Assumptions C05_from_json_value_error.

(* WHICH marker-named content keys are confused (open finding marker-key-in-content-dict), exactly:
   (1) a dict with a key that str()s to `_bytes` / `_bytesio` is NEVER restored — for every hint, registry, codec and
       whatever its other entries are, from_json raises or hands back a bytes / BytesIO object; *)
Theorem C05_binary_marker_key_always_confused :
  forall (enc : bytes -> str) (dec : str -> option bytes) (isspace : N -> bool) (R : registry) kvs T,
    dict_has_key K_BYTESIO kvs || dict_has_key K_BYTES kvs = true ->
    deser dec isspace R false (serialize enc true (VDict kvs)) T <> Some (canon (VDict kvs)).
Proof.
  intros enc dec isspace R kvs T H E.
  pose proof (binary_marker_key_confused enc dec isspace R kvs T H) as C.
  rewrite E, canon_dict in C. discriminate C.
Qed.
Print Assumptions C05_binary_marker_key_always_confused.

(* (2) and conversely: a dict of well-behaved values without a `_type` key is restored at an untyped position IF AND
       ONLY IF none of its keys is a binary marker; *)
Theorem C05_binary_marker_key_iff :
  forall (enc : bytes -> str) (dec : str -> option bytes) (isspace : N -> bool) (R : registry),
    (forall b, dec (enc b) = Some b) -> registry_wf R = true ->
    forall kvs,
      forallb (fun kv => plain (snd kv) && keys_not_markers (snd kv)) kvs = true ->
      dict_has_key K_TYPE kvs = false ->
      (deser dec isspace R false (serialize enc true (VDict kvs)) TAny = Some (canon (VDict kvs))
       <-> dict_has_key K_BYTESIO kvs || dict_has_key K_BYTES kvs = false).
Proof. exact binary_marker_iff. Qed.
Print Assumptions C05_binary_marker_key_iff.

(* (3) a `_type` member naming a REGISTERED class turns the object into an instance of that class (or the constructor
       raises) — it is never handed back as a dict; *)
Theorem C05_type_marker_builds_dataclass :
  forall (dec : str -> option bytes) (isspace : N -> bool) (R : registry) (top : bool) O T c r k,
    has_key K_BYTESIO O = false -> has_key K_BYTES O = false ->
    assoc K_TYPE O = Some (JStr (c :: r)) -> find_cls R (c :: r) = Some k ->
    match deser dec isspace R top (JObj O) T with
    | Some w => is_data w = true
    | None => True
    end.
Proof. exact type_marker_builds_dataclass. Qed.
Print Assumptions C05_type_marker_builds_dataclass.

(* (4) but keys_not_markers is NOT necessary: a `_type` key whose value is neither a registered class name nor a
       non-empty list/dict is harmless — {"_type": 5} is restored as itself, for every registry and codec.  The exact
       gap between C05_roundtrip_partial and an "if and only if" is this case. *)
Theorem C05_keys_not_markers_not_necessary :
  exists v T, forall (enc : bytes -> str) (dec : str -> option bytes) (isspace : N -> bool) (R : registry),
    keys_not_markers v = false /\ has_type isspace R v T = true
    /\ deser dec isspace R false (serialize enc true v) T = Some (canon v).
Proof.
  exists (VDict [(KStr K_TYPE, VInt 5)]), TAny. intros enc dec isspace R. repeat split; reflexivity.
Qed.
Print Assumptions C05_keys_not_markers_not_necessary.
