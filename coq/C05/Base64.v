(* C05 — the base64 codec model: decoding the encoding returns the bytes, for EVERY length; encoding may
   be split exactly at multiples of 3 bytes and nowhere else. *)
From Coq Require Import ZArith List Bool Lia ZifyBool.
From S2T Require Import Lib.PyStr C05.Model.
Import ListNotations.
Open Scope N_scope.
Ltac Zify.zify_post_hook ::= Z.to_euclidean_division_equations.

Definition sext_check (i : N) : bool :=
  match b64idx (b64ch i) with Some j => N.eqb j i | None => false end && negb (N.eqb (b64ch i) B64_PAD).

Lemma sext_all : forallb sext_check (map N.of_nat (seq 0 64)) = true.
Proof. vm_compute. reflexivity. Qed.

Lemma sextet_ok i : i < 64 -> b64idx (b64ch i) = Some i /\ N.eqb (b64ch i) B64_PAD = false.
Proof.
  intro H.
  assert (Hin : In i (map N.of_nat (seq 0 64))).
  { apply in_map_iff. exists (N.to_nat i). split; [apply N2Nat.id | apply in_seq; lia]. }
  pose proof (proj1 (forallb_forall _ _) sext_all i Hin) as C. unfold sext_check in C.
  apply andb_true_iff in C. destruct C as [C1 C2].
  destruct (b64idx (b64ch i)) as [j|] eqn:E; [|discriminate C1].
  apply N.eqb_eq in C1. subst j. split; [reflexivity | apply negb_true_iff; exact C2].
Qed.

Lemma idx_ch i : i < 64 -> b64idx (b64ch i) = Some i.
Proof. intro H. exact (proj1 (sextet_ok i H)). Qed.
Lemma ch_not_pad i : i < 64 -> N.eqb (b64ch i) B64_PAD = false.
Proof. intro H. exact (proj2 (sextet_ok i H)). Qed.

Section Ind3.
  Variable A : Type.
  Variable P : list A -> Prop.
  Hypothesis H0 : P [].
  Hypothesis H1 : forall x, P [x].
  Hypothesis H2 : forall x y, P [x; y].
  Hypothesis H3 : forall x y z r, P r -> P (x :: y :: z :: r).
  Fixpoint list_ind3 (l : list A) : P l :=
    match l with
    | [] => H0
    | [x] => H1 x
    | [x; y] => H2 x y
    | x :: y :: z :: r => H3 x y z r (list_ind3 r)
    end.
End Ind3.

Local Opaque b64ch b64idx.

Theorem b64_roundtrip : forall b, forallb is_byte b = true -> b64dec (b64enc b) = Some b.
Proof.
  induction b as [| x | x y | x y z r IH] using list_ind3; intro Hb.
  - reflexivity.
  - cbn [forallb] in Hb. unfold is_byte in Hb.
    assert (Hx : x < 256) by lia.
    cbn [b64enc b64dec].
    rewrite (idx_ch (x / 4)) by lia. rewrite (idx_ch ((x mod 4) * 16)) by lia.
    rewrite !N.eqb_refl.
    replace (((x mod 4) * 16) mod 16 =? 0) with true by (symmetry; apply N.eqb_eq; lia).
    f_equal. f_equal. lia.
  - cbn [forallb] in Hb. unfold is_byte in Hb.
    assert (Hx : x < 256) by lia. assert (Hy : y < 256) by lia.
    cbn [b64enc b64dec].
    rewrite (idx_ch (x / 4)) by lia. rewrite (idx_ch ((x mod 4) * 16 + y / 16)) by lia.
    rewrite (ch_not_pad ((y mod 16) * 4)) by lia.
    rewrite (idx_ch ((y mod 16) * 4)) by lia.
    rewrite N.eqb_refl.
    replace (((y mod 16) * 4) mod 4 =? 0) with true by (symmetry; apply N.eqb_eq; lia).
    f_equal. f_equal; [lia|]. f_equal. lia.
  - cbn [forallb] in Hb.
    apply andb_true_iff in Hb. destruct Hb as [Bx Hb]. apply andb_true_iff in Hb. destruct Hb as [By Hb].
    apply andb_true_iff in Hb. destruct Hb as [Bz Hr]. unfold is_byte in Bx, By, Bz.
    assert (Hx : x < 256) by lia. assert (Hy : y < 256) by lia. assert (Hz : z < 256) by lia.
    cbn [b64enc b64dec].
    rewrite (idx_ch (x / 4)) by lia. rewrite (idx_ch ((x mod 4) * 16 + y / 16)) by lia.
    rewrite (ch_not_pad ((y mod 16) * 4 + z / 64)) by lia.
    rewrite (idx_ch ((y mod 16) * 4 + z / 64)) by lia.
    rewrite (ch_not_pad (z mod 64)) by lia.
    rewrite (idx_ch (z mod 64)) by lia.
    rewrite (IH Hr).
    f_equal. f_equal; [lia|]. f_equal; [lia|]. f_equal. lia.
Qed.

(* encoding in pieces: allowed exactly at multiples of three bytes *)
Lemma b64enc_app3 : forall a b, (List.length a mod 3 = 0)%nat -> b64enc (a ++ b) = b64enc a ++ b64enc b.
Proof.
  induction a as [| x | x y | x y z r IH] using list_ind3; intros b H.
  - reflexivity.
  - cbn [List.length] in H. discriminate H.
  - cbn [List.length] in H. discriminate H.
  - cbn [List.length] in H.
    assert (Hr : (List.length r mod 3 = 0)%nat).
    { replace (S (S (S (List.length r)))) with (List.length r + 1 * 3)%nat in H by lia.
      rewrite Nat.mod_add in H by lia. exact H. }
    cbn [app b64enc]. rewrite (IH b Hr). reflexivity.
Qed.

Lemma length_b64enc : forall b, List.length (b64enc b) = (4 * ((List.length b + 2) / 3))%nat.
Proof.
  induction b as [| x | x y | x y z r IH] using list_ind3; try reflexivity.
  cbn [b64enc List.length]. rewrite IH.
  replace (S (S (S (List.length r))) + 2)%nat with (1 * 3 + (List.length r + 2))%nat by lia.
  rewrite Nat.div_add_l by lia. lia.
Qed.

(* ------------------------------------------------------------------------------------------ *)
(* the round trip with the concrete codec, and: the decoder only ever sees canonical input      *)
From S2T Require Import C05.Roundtrip.

Lemma b64enc_canonical : forall b, forallb is_byte b = true -> b64_canonical (b64enc b) = true.
Proof. intros b H. unfold b64_canonical. rewrite (b64_roundtrip b H). reflexivity. Qed.

Theorem roundtrip_any_lenient_decoder :
  forall (dec' : str -> option bytes) (isspace : N -> bool) (R : registry),
    (forall t, b64_canonical t = true -> dec' t = b64dec t) -> registry_wf R = true ->
    forall c fl, let v := VData c fl in
      has_type isspace R v TAny = true -> keys_not_markers v = true -> no_other v = true -> bytes_ok v = true ->
      exists w, pipeline b64enc dec' isspace R v = Some w /\ w = canon v
                /\ to_json b64enc w = to_json b64enc v /\ class_of w = Some c
                /\ (dict_keys_distinct v = true -> payloads w = payloads v)
                /\ (forall b, serialize b64enc b w = serialize b64enc b v).
Proof.
  intros dec' isspace R Hagree Rwf c fl v H K Nn B.
  assert (law : forall b, forallb is_byte b = true -> dec' (b64enc b) = Some b).
  { intros b Hb. rewrite (Hagree _ (b64enc_canonical b Hb)). exact (b64_roundtrip b Hb). }
  exact (roundtrip_pipeline_ok b64enc dec' isspace R (forallb is_byte) law Rwf c fl H K Nn B).
Qed.

Theorem roundtrip_concrete_codec :
  forall (isspace : N -> bool) (R : registry), registry_wf R = true ->
    forall c fl, let v := VData c fl in
      has_type isspace R v TAny = true -> keys_not_markers v = true -> no_other v = true -> bytes_ok v = true ->
      exists w, pipeline b64enc b64dec isspace R v = Some w /\ w = canon v
                /\ to_json b64enc w = to_json b64enc v /\ class_of w = Some c
                /\ (dict_keys_distinct v = true -> payloads w = payloads v)
                /\ (forall b, serialize b64enc b w = serialize b64enc b v).
Proof.
  intros isspace R Rwf c fl v H K Nn B.
  exact (roundtrip_any_lenient_decoder b64dec isspace R (fun t _ => eq_refl) Rwf c fl H K Nn B).
Qed.

Lemma from_json_value_error : forall dec isspace R j,
  from_json_outcome dec isspace R j = OValueError <->
  (is_object j = false \/ exists kvs, j = JObj kvs /\ has_key K_TYPE kvs = false).
Proof.
  intros dec isspace R j. split.
  - destruct j; cbn [from_json_outcome is_object]; intro H; try (left; reflexivity).
    destruct (has_key K_TYPE kvs) eqn:E.
    + destruct (from_json dec isspace R (JObj kvs)); discriminate H.
    + right. exists kvs. split; [reflexivity | exact E].
  - intros [H | [kvs [-> E]]].
    + destruct j; cbn [is_object] in H; try reflexivity. discriminate H.
    + cbn [from_json_outcome]. rewrite E. reflexivity.
Qed.
