(* C05 — exactly which marker-named content keys are confused.  keys_not_markers is sufficient for the round
   trip (Roundtrip.v); here: a binary marker key ALWAYS breaks it, a `_type` key breaks it when its value names a
   registered class, and a `_type` key with any other scalar value is harmless (so the condition is not necessary). *)
From Coq Require Import ZArith List Bool Lia ZifyBool.
From S2T Require Import Lib.PyStr C05.Model C05.Roundtrip.
Import ListNotations.
Open Scope N_scope.

Definition is_dict (v : val) : bool := match v with VDict _ => true | _ => false end.
Definition is_data (v : val) : bool := match v with VData _ _ => true | _ => false end.

Definition dict_has_key (k : str) (kvs : list (key * val)) : bool :=
  mem_str k (map (fun kv => render (fst kv)) kvs).

Lemma ser_dict_has_key enc k kvs :
  dict_has_key k kvs = true ->
  exists O, serialize enc true (VDict kvs) = JObj O /\ has_key k O = true.
Proof.
  intro H. rewrite serialize_dict. eexists. split; [reflexivity|].
  apply has_key_In. rewrite map_fst_vmap. apply dict_of_keys.
  unfold dict_has_key in H. apply mem_str_In in H. unfold rk. rewrite map_map. exact H.
Qed.

(* a dict with a key that str()s to `_bytes` or `_bytesio` is never restored as a dict: the deserialiser raises or
   returns a bytes / BytesIO object — whatever the hint, the registry, the codec, the other entries *)
Lemma binary_marker_key_confused :
  forall enc dec isspace R kvs T,
    dict_has_key K_BYTESIO kvs || dict_has_key K_BYTES kvs = true ->
    match deser dec isspace R false (serialize enc true (VDict kvs)) T with
    | Some w => is_dict w = false
    | None => True
    end.
Proof.
  intros enc dec isspace R kvs T H.
  destruct (dict_has_key K_BYTESIO kvs) eqn:E1.
  - destruct (ser_dict_has_key enc _ _ E1) as [O [-> HO]].
    rewrite deser_obj, HO. cbn [negb andb].
    destruct (b64_bytes dec (assoc K_BYTESIO O)); cbn [option_map]; [reflexivity | exact I].
  - cbn [orb] in H. destruct (ser_dict_has_key enc _ _ H) as [O [-> HO]].
    rewrite deser_obj, HO. cbn [negb andb].
    destruct (has_key K_BYTESIO O).
    + destruct (b64_bytes dec (assoc K_BYTESIO O)); cbn [option_map]; [reflexivity | exact I].
    + destruct (b64_bytes dec (assoc K_BYTES O)); cbn [option_map]; [reflexivity | exact I].
Qed.

Lemma construct_is_data isspace c kw :
  match construct isspace c kw with Some w => is_data w = true | None => True end.
Proof.
  unfold construct. destruct (c_abstract c); [exact I|].
  destruct (sequence _); [|exact I]. unfold post_init.
  destruct (sequence _); cbn [option_map]; [reflexivity | exact I].
Qed.

(* a JSON object without binary markers whose `_type` member is the name of a registered class is turned into an
   instance of that class (or the constructor raises) — never returned as a dict *)
Lemma type_marker_builds_dataclass :
  forall dec isspace R top O T c r k,
    has_key K_BYTESIO O = false -> has_key K_BYTES O = false ->
    assoc K_TYPE O = Some (JStr (c :: r)) -> find_cls R (c :: r) = Some k ->
    match deser dec isspace R top (JObj O) T with
    | Some w => is_data w = true
    | None => True
    end.
Proof.
  intros dec isspace R top O T c r k H1 H2 HA HF.
  rewrite deser_obj, H1, H2. rewrite !andb_false_r.
  assert (HK : has_key K_TYPE O = true) by (unfold has_key; rewrite HA; reflexivity).
  rewrite HK, orb_true_r. unfold dc. rewrite HA. cbn [resolve_cls]. rewrite HF.
  apply construct_is_data.
Qed.

Lemma dict_has_key_false k kvs :
  dict_has_key k kvs = false -> forall kv, In kv kvs -> str_eqb (render (fst kv)) k = false.
Proof.
  unfold dict_has_key. intros H kv Hin.
  destruct (str_eqb (render (fst kv)) k) eqn:E; [|reflexivity].
  apply str_eqb_eq in E. assert (Hm : mem_str k (map (fun kv => render (fst kv)) kvs) = true).
  { apply mem_str_In. apply in_map_iff. exists kv. split; [exact E | exact Hin]. }
  rewrite Hm in H. discriminate H.
Qed.

(* the pair, at one dict node: a dict of well-behaved values without a `_type` key is restored at an untyped position
   IF AND ONLY IF none of its keys str()s to a binary marker *)
Lemma binary_marker_iff :
  forall enc dec isspace R, (forall b, dec (enc b) = Some b) -> registry_wf R = true ->
  forall kvs,
    forallb (fun kv => plain (snd kv) && keys_not_markers (snd kv)) kvs = true ->
    dict_has_key K_TYPE kvs = false ->
    (deser dec isspace R false (serialize enc true (VDict kvs)) TAny = Some (canon (VDict kvs))
     <-> dict_has_key K_BYTESIO kvs || dict_has_key K_BYTES kvs = false).
Proof.
  intros enc dec isspace R law Rwf kvs Hv Ht. split.
  - intro E. destruct (dict_has_key K_BYTESIO kvs || dict_has_key K_BYTES kvs) eqn:B; [|reflexivity].
    pose proof (binary_marker_key_confused enc dec isspace R kvs TAny B) as C.
    rewrite E in C. rewrite canon_dict in C. discriminate C.
  - intro B. apply orb_false_iff in B. destruct B as [B1 B2].
    apply (roundtrip_value enc dec isspace R law Rwf).
    + cbn [has_type unwrap_optional]. apply forallb_forall. intros kv Hin.
      pose proof (forallb_In _ _ _ Hv Hin) as H. cbv beta in H. apply andb_true_iff in H. exact (proj1 H).
    + cbn [keys_not_markers]. apply forallb_forall. intros kv Hin.
      pose proof (forallb_In _ _ _ Hv Hin) as H. cbv beta in H. apply andb_true_iff in H. destruct H as [_ H].
      rewrite H, andb_true_r. unfold markers. cbn [mem_str].
      rewrite (dict_has_key_false _ _ B1 kv Hin), (dict_has_key_false _ _ B2 kv Hin), (dict_has_key_false _ _ Ht kv Hin).
      reflexivity.
Qed.
