(* C05 — correspondence helpers: decidable equality on val/json, oracles instantiated from recorded
   tables, boolean case checkers evaluated by vm_compute on cases recorded from the implementation. *)
From Coq Require Import ZArith List Bool Lia ZifyBool.
From S2T Require Import Lib.PyStr C05.Model C05.Roundtrip.
Import ListNotations.
Open Scope N_scope.

Definition key_eqb (a b : key) : bool :=
  match a, b with
  | KStr x, KStr y => str_eqb x y
  | KObj x, KObj y => str_eqb x y
  | _, _ => false
  end.

Section ListEq.
  Context {A : Type} (eqb : A -> A -> bool).
  Fixpoint list_eqb (a b : list A) : bool :=
    match a, b with
    | [], [] => true
    | x :: a', y :: b' => eqb x y && list_eqb a' b'
    | _, _ => false
    end.
End ListEq.

Fixpoint val_eqb (a b : val) {struct a} : bool :=
  match a, b with
  | VNone, VNone => true
  | VBool x, VBool y => Bool.eqb x y
  | VInt x, VInt y => Z.eqb x y
  | VFloat x, VFloat y => str_eqb x y
  | VStr x, VStr y => str_eqb x y
  | VBytes x, VBytes y => str_eqb x y
  | VBytearray x, VBytearray y => str_eqb x y
  | VBytesIO x p, VBytesIO y q => str_eqb x y && N.eqb p q
  | VList x, VList y | VTuple x, VTuple y | VSet x, VSet y =>
      (fix go (x y : list val) {struct x} : bool :=
         match x, y with
         | [], [] => true
         | u :: x', w :: y' => val_eqb u w && go x' y'
         | _, _ => false
         end) x y
  | VDict x, VDict y =>
      (fix go (x y : list (key * val)) {struct x} : bool :=
         match x, y with
         | [], [] => true
         | (k, u) :: x', (k', w) :: y' => key_eqb k k' && val_eqb u w && go x' y'
         | _, _ => false
         end) x y
  | VData c x, VData d y =>
      str_eqb c d &&
      (fix go (x y : list (str * val)) {struct x} : bool :=
         match x, y with
         | [], [] => true
         | (k, u) :: x', (k', w) :: y' => str_eqb k k' && val_eqb u w && go x' y'
         | _, _ => false
         end) x y
  | VOther x, VOther y => str_eqb x y
  | _, _ => false
  end.

Fixpoint json_eqb (a b : json) {struct a} : bool :=
  match a, b with
  | JNull, JNull => true
  | JBool x, JBool y => Bool.eqb x y
  | JInt x, JInt y => Z.eqb x y
  | JFloat x, JFloat y => str_eqb x y
  | JStr x, JStr y => str_eqb x y
  | JList x, JList y =>
      (fix go (x y : list json) {struct x} : bool :=
         match x, y with
         | [], [] => true
         | u :: x', w :: y' => json_eqb u w && go x' y'
         | _, _ => false
         end) x y
  | JObj x, JObj y =>
      (fix go (x y : list (str * json)) {struct x} : bool :=
         match x, y with
         | [], [] => true
         | (k, u) :: x', (k', w) :: y' => str_eqb k k' && json_eqb u w && go x' y'
         | _, _ => false
         end) x y
  | JOther x, JOther y => str_eqb x y
  | _, _ => false
  end.

Definition opt_eqb {A} (eqb : A -> A -> bool) (a b : option A) : bool :=
  match a, b with
  | Some x, Some y => eqb x y
  | None, None => true
  | _, _ => false
  end.

(* oracles from recorded tables: base64 values recorded from the real library for exactly the
   byte strings / strings of the case.  A missing entry yields a value that cannot agree by
   accident (the encoder returns a string with a NUL, the decoder fails). *)
Definition enc_of (tab : list (bytes * str)) (b : bytes) : str :=
  match assoc b tab with Some x => x | None => [0] end.
Definition dec_of (tab : list (str * option bytes)) (x : str) : option bytes :=
  match assoc x tab with Some r => r | None => None end.
Definition isspace_of (ws : list N) (c : N) : bool := existsb (N.eqb c) ws.

(* serialiser case: value, recorded encoder table, implementation's output with and without binary,
   and implementation's serialize_extraction output (to_json) *)
Definition ser_case (c : val * list (bytes * str) * json * json * json) : bool :=
  let '(v, tab, jt, jf, tj) := c in
  json_eqb (serialize (enc_of tab) true v) jt
  && json_eqb (serialize (enc_of tab) false v) jf
  && json_eqb (to_json (enc_of tab) v) tj.

(* deserialiser case: top?, JSON input, hint, recorded decoder table, implementation's result
   (None = raised) *)
Definition deser_case (R : registry) (ws : list N)
    (c : bool * json * ty * list (str * option bytes) * option val) : bool :=
  let '(top, j, T, tab, r) := c in
  opt_eqb val_eqb
    (if top then from_json (dec_of tab) (isspace_of ws) R j
     else deser (dec_of tab) (isspace_of ws) R false j T) r.

(* CLI case: results, their units, include_binary, implementation's two payloads *)
Definition cli_case (c : list (val * list val) * list (bytes * str) * bool * json * json) : bool :=
  let '(rs, tab, ib, pj, pu) := c in
  let units := fun v => match find (fun r => val_eqb (fst r) v) rs with Some r => snd r | None => [] end in
  json_eqb (serialize_results (enc_of tab) ib (map fst rs)) pj
  && json_eqb (serialize_unit_results (enc_of tab) units ib (map fst rs)) pu.

(* every class named in a hint is a scalar, a registered dataclass, or one of the (non-dataclass)
   interface classes of data_types — a hint of any other class fails this obligation *)
Section Hints.
  Variable R : registry.
  Variable ifaces : list str.
  Variable ws : list N.
  Fixpoint hint_known (t : ty) : bool :=
    match t with
    | TPrim n => scalar_name n || (match find_cls R n with Some _ => true | None => false end) || mem_str n ifaces
    | TList (Some a) => hint_known a
    | TDict (Some (k, v)) => hint_known k && hint_known v
    | TUnion args | TUnionPep args => forallb hint_known args
    | TOpaque => false
    | _ => true
    end.
  Definition hints_known : bool :=
    forallb (fun c => forallb (fun f => hint_known (f_ty f)) (c_fields c)) R.

  (* every default value is a value the deserialiser rebuilds at its hint, and is JSON-clean *)
  Definition defaults_ok : bool :=
    forallb (fun c => forallb (fun f =>
      match f_default f with
      | Some d => has_type (isspace_of ws) R d (f_ty f) && no_other d && keys_not_markers d
      | None => true
      end) (c_fields c)) R.
End Hints.

(* whole pipeline on a generated instance: model's from_json(loads(dumps(to_json v))) against the
   implementation's restored object (None = an exception escaped) *)
Definition pipe_case (R : registry) (ws : list N)
    (c : val * list (bytes * str) * list (str * option bytes) * option val) : bool :=
  let '(v, etab, dtab, r) := c in
  opt_eqb val_eqb (pipeline (enc_of etab) (dec_of dtab) (isspace_of ws) R v) r.

(* hypotheses of C05_roundtrip, evaluated on an instance *)
Definition hyps (R : registry) (ws : list N) (v : val) : bool :=
  has_type (isspace_of ws) R v TAny && keys_not_markers v && no_other v.

(* xlsx cell normalisation: openpyxl value kind, implementation's _get_cell_value result *)
Definition cell_case (c : cell * val) : bool := val_eqb (get_cell_value (fst c)) (snd c).

(* hypotheses of C05_roundtrip_same_object *)
Definition hyps_strict (R : registry) (ws : list N) (v : val) : bool :=
  hyps R ws v && keys_are_strings v && dict_keys_distinct v.

(* code: 0 = outside C05_roundtrip_partial, 1 = its hypotheses hold, 2 = those of C05_roundtrip_same_object too *)
Definition hyp_level (R : registry) (ws : list N) (v : val) : nat :=
  if hyps_strict R ws v then 2%nat else if hyps R ws v then 1%nat else 0%nat.

(* the model's base64 against the real library: bytes, base64.b64encode(bytes) *)
Definition b64_case (c : bytes * str) : bool :=
  str_eqb (b64enc (fst c)) (snd c) && opt_eqb str_eqb (b64dec (snd c)) (Some (fst c)).

(* strict-canonical predicate against the library: string, (b64decode(validate=True) succeeds and re-encodes to it) *)
Definition canon_case (c : str * bool) : bool := Bool.eqb (b64_canonical (fst c)) (snd c).

(* top-level outcome class: 0 = a value, 1 = ValueError itself, 2 = any other exception *)
Definition outcome_code (o : outcome) : nat := match o with OVal _ => 0 | OValueError => 1 | ORaise => 2 end.
Definition top_outcome_case (R : registry) (ws : list N) (c : json * list (str * option bytes) * nat) : bool :=
  let '(j, tab, code) := c in
  Nat.eqb (outcome_code (from_json_outcome (dec_of tab) (isspace_of ws) R j)) code.

(* instances with the CONCRETE codec (no recorded tables): the serialiser output always; the whole pipeline where
   the hypotheses of C05_roundtrip_concrete_codec hold (elsewhere Python's lenient decoder may differ from the
   strict one on document strings sitting under marker keys) *)
Definition b64_inst_case (R : registry) (ws : list N) (c : val * json * option val) : bool :=
  let '(v, jt, r) := c in
  json_eqb (serialize b64enc true v) jt
  && (if hyps R ws v && bytes_ok v
      then opt_eqb val_eqb (pipeline b64enc b64dec (isspace_of ws) R v) r else true).
