(* C05 — executable model of sharepoint2text/parsing/extractors/serialization.py (to_json / from_json),
   of the dataclass construction it triggers (defaults, __post_init__ strips), and of the CLI payload
   shaping in sharepoint2text/cli.py.  Definitions only; the code is modelled AS IT IS.

   Oracles (Section variables, never axioms): base64 encode/decode, str.isspace.
   The json module is the identity on the encodable fragment (see json_text_roundtrip). *)
From Coq Require Import ZArith List Bool Lia ZifyBool.
From S2T Require Import Lib.PyStr.
Import ListNotations.
Open Scope N_scope.

Definition bytes := list N.

(* ------------------------------------------------------------------------------------------ *)
(* Python values that can sit in a dataclass field                                             *)

(* a dict key: a str, or any other hashable object given by its str() rendering (the serialiser
   only ever applies str() to keys) *)
Inductive key := KStr (k : str) | KObj (rendered : str).
Definition render (k : key) : str := match k with KStr x => x | KObj r => r end.

Inductive val :=
| VNone
| VBool (b : bool)
| VInt (z : Z)
| VFloat (tok : str)                       (* a FINITE float, as its repr token (json round-trips it exactly); nan/inf are VOther: NaN/Infinity is not JSON *)
| VStr (x : str)
| VBytes (b : bytes)
| VBytearray (b : bytes)
| VBytesIO (content : bytes) (pos : N)
| VList (l : list val)
| VTuple (l : list val)
| VSet (l : list val)                      (* in iteration order *)
| VDict (kvs : list (key * val))           (* in insertion order *)
| VData (cls : str) (flds : list (str * val))   (* dataclass instance: type(v).__name__, fields(v) in order *)
| VOther (tag : str).                      (* any other object (timedelta, Decimal, a class, ...): returned as is *)

(* what _serialize_for_json returns: JSON-shaped Python data, possibly with foreign leaves *)
Inductive json :=
| JNull
| JBool (b : bool)
| JInt (z : Z)
| JFloat (tok : str)
| JStr (x : str)
| JList (l : list json)
| JObj (kvs : list (str * json))           (* a dict with str keys, in insertion order *)
| JOther (tag : str).                      (* not encodable by json.dumps (TypeError) *)

(* type hints as typing.get_type_hints returns them *)
Inductive ty :=
| TAny                                     (* typing.Any *)
| TNone                                    (* type(None) *)
| TPrim (name : str)                       (* a class, by __name__: str int bool float, or a dataclass (decided
                                              against the registry at run time) *)
| TBytes | TBytearray | TBytesIO
| TList (a : option ty)                    (* get_origin is list; args[0] if args *)
| TDict (kv : option (ty * ty))            (* get_origin is dict *)
| TUnion (args : list ty)                  (* typing.Union / typing.Optional : get_origin is typing.Union *)
| TUnionPep (args : list ty)               (* X | Y : get_origin is types.UnionType — NOT unwrapped by the code *)
| TOpaque.                                 (* any other annotation (tuple[...], Literal, ...): passes through *)

Record field := { f_name : str; f_ty : ty; f_default : option val }.   (* default / default_factory() *)
Record cls := { c_name : str; c_fields : list field; c_strip : list str; c_abstract : bool }.
(* c_strip: the fields X with `self.X = self.X.strip()` in __post_init__;
   c_abstract: the class cannot be instantiated (abstract methods / Protocol): its constructor raises TypeError *)
Definition registry := list cls.

(* ------------------------------------------------------------------------------------------ *)
(* constants                                                                                   *)
Definition K_TYPE := s "_type".
Definition K_BYTES := s "_bytes".
Definition K_BYTESIO := s "_bytesio".
Definition K_VALUE := s "value".
Definition markers : list str := [K_BYTESIO; K_BYTES; K_TYPE].
Definition IMAGE_METADATA := s "ImageMetadata".
Definition UNIT_NUMBER := s "unit_number".
Definition UNIT_INDEX := s "unit_index".
Definition IMAGE_NUMBER := s "image_number".
Definition IMAGE_INDEX := s "image_index".

(* ------------------------------------------------------------------------------------------ *)
(* dict construction:  d[k] = v  keeps the position of an existing key                         *)
Fixpoint dict_set {A} (k : str) (v : A) (d : list (str * A)) : list (str * A) :=
  match d with
  | [] => [(k, v)]
  | (k', v') :: r => if str_eqb k k' then (k', v) :: r else (k', v') :: dict_set k v r
  end.

Definition dict_of {A} (l : list (str * A)) : list (str * A) :=
  fold_left (fun d kv => dict_set (fst kv) (snd kv) d) l [].

Fixpoint sequence {A} (l : list (option A)) : option (list A) :=
  match l with
  | [] => Some []
  | None :: _ => None
  | Some a :: r => match sequence r with Some t => Some (a :: t) | None => None end
  end.

(* ------------------------------------------------------------------------------------------ *)
(* io.BytesIO as (content, position) with the three calls _bytesio_to_base64 makes             *)
Record bio := { b_content : bytes; b_pos : N }.
Definition bio_tell (b : bio) : N := b_pos b.
Definition bio_seek (b : bio) (p : N) : bio := {| b_content := b_content b; b_pos := p |}.
Definition bio_read (b : bio) : bytes * bio :=
  let n := N.of_nat (List.length (b_content b)) in
  (skipn (N.to_nat (b_pos b)) (b_content b),
   {| b_content := b_content b; b_pos := N.max (b_pos b) n |}).

(* str.strip() for a given isspace *)
Definition strip_with (sp : N -> bool) (x : str) : str :=
  rev (dropWhile sp (rev (dropWhile sp x))).

Section Model.
  Variable enc : bytes -> str.              (* base64.b64encode(b).decode("utf-8") *)
  Variable dec : str -> option bytes.       (* base64.b64decode(s.encode("utf-8")); None = raises *)
  Variable isspace : N -> bool.             (* str.isspace of one code point *)

  Definition strip := strip_with isspace.

  (* _bytesio_to_base64: tell, seek(0), read, seek(position) *)
  Definition bytesio_to_base64 (b : bio) : str * bio :=
    let position := bio_tell b in
    let b1 := bio_seek b 0 in
    let '(data, b2) := bio_read b1 in
    let b3 := bio_seek b2 position in
    (enc data, b3).

  (* _serialize_for_json, branch order as coded *)
  Fixpoint serialize (include_binary : bool) (v : val) : json :=
    match v with
    | VBytesIO c p =>
        if include_binary
        then JObj [(K_BYTESIO, JStr (fst (bytesio_to_base64 {| b_content := c; b_pos := p |})))]
        else JNull
    | VBytes b | VBytearray b =>
        if include_binary then JObj [(K_BYTES, JStr (enc b))] else JNull
    | VData c fl =>
        JObj (dict_of ((K_TYPE, JStr c)
                       :: map (fun nv => let '(n, x) := nv in (n, serialize include_binary x)) fl))
    | VDict kvs =>
        JObj (dict_of (map (fun kv => let '(k, x) := kv in (render k, serialize include_binary x)) kvs))
    | VList l | VTuple l | VSet l => JList (map (serialize include_binary) l)
    | VNone => JNull
    | VBool b => JBool b
    | VInt z => JInt z
    | VFloat t => JFloat t
    | VStr x => JStr x
    | VOther t => JOther t
    end.

  (* serialize_extraction / to_json *)
  Definition serialize_extraction (include_binary : bool) (v : val) : json :=
    match serialize include_binary v with
    | JObj kvs => JObj kvs
    | j => JObj [(K_VALUE, j)]
    end.
  Definition to_json (v : val) : json := serialize_extraction true v.

  (* json.dumps succeeds (no foreign leaf; keys are str by construction; cycles/depth not modelled) *)
  Fixpoint encodable (j : json) : bool :=
    match j with
    | JOther _ => false
    | JList l => forallb encodable l
    | JObj kvs => forallb (fun kv => encodable (snd kv)) kvs
    | _ => true
    end.

  (* json.loads(json.dumps(j)): identity where dumps succeeds, else TypeError *)
  Definition json_text_roundtrip (j : json) : option json := if encodable j then Some j else None.

  (* a JSON value used as a Python value ("return value" branches of the deserialiser) *)
  Fixpoint embed (j : json) : val :=
    match j with
    | JNull => VNone
    | JBool b => VBool b
    | JInt z => VInt z
    | JFloat t => VFloat t
    | JStr x => VStr x
    | JList l => VList (map embed l)
    | JObj kvs => VDict (map (fun kv => let '(k, x) := kv in (KStr k, embed x)) kvs)
    | JOther t => VOther t
    end.

  (* ---------------------------------------------------------------------------------------- *)
  Variable R : registry.

  Definition find_cls (n : str) : option cls := find (fun c => str_eqb (c_name c) n) R.
  Definition find_field (c : cls) (n : str) : option field :=
    find (fun f => str_eqb (f_name f) n) (c_fields c).

  Definition is_tnone (t : ty) : bool := match t with TNone => true | _ => false end.

  (* _unwrap_optional: only typing.Union with exactly two args one of which is NoneType *)
  Definition unwrap_optional (t : ty) : ty :=
    match t with
    | TUnion args =>
        match filter (fun a => negb (is_tnone a)) args with
        | [x] => if Nat.eqb (List.length args) 2 then x else t
        | _ => t
        end
    | _ => t
    end.

  Definition elem_ty (a : option ty) : ty := match a with Some t => t | None => TAny end.
  Definition value_ty (kv : option (ty * ty)) : ty := match kv with Some (_, t) => t | None => TAny end.

  Definition b64_bytes (j : option json) : option bytes :=
    match j with Some (JStr x) => dec x | _ => None end.       (* non-str: AttributeError on .encode *)

  (* `type_name = data.get("_type"); if type_name and type_name in registry` :
     None = TypeError (unhashable), Some None = cannot determine / falls to expected, Some (Some c) *)
  Definition resolve_cls (tn : option json) (expected : option cls) : option (option cls) :=
    match tn with
    | Some (JStr (c :: r)) =>
        match find_cls (c :: r) with Some k => Some (Some k) | None => Some expected end
    | Some (JList (_ :: _)) | Some (JObj (_ :: _)) => None
    | _ => Some expected
    end.

  (* __post_init__: self.X = self.X.strip() for X in c_strip (AttributeError unless str) *)
  Definition post_init (c : cls) (fl : list (str * val)) : option val :=
    option_map (VData (c_name c))
      (sequence (map (fun nv =>
         if mem_str (fst nv) (c_strip c)
         then match snd nv with VStr x => Some (fst nv, VStr (strip x)) | _ => None end
         else Some nv) fl)).

  (* cls( **kwargs ): every field from kwargs, else its default, else TypeError; then __post_init__ *)
  Definition construct (c : cls) (kw : list (str * option val)) : option val :=
    if c_abstract c then None else
    match sequence (map (fun f => match assoc (f_name f) kw with
                                  | Some r => r
                                  | None => f_default f
                                  end) (c_fields c)) with
    | Some vals => post_init c (combine (map f_name (c_fields c)) vals)
    | None => None
    end.

  (* the kwargs entries one JSON member (k, x) contributes for class c; `d T` decodes x at type T.
     Includes the ImageMetadata backwards-compatibility shims (unit_index / image_index). *)
  Definition shim (c : cls) (keys : list str) (k : str) (old new : str) (d : ty -> option val)
    : list (str * option val) :=
    if str_eqb (c_name c) IMAGE_METADATA && str_eqb k old && negb (mem_str new keys)
    then match find_field c new with Some f => [(new, d (f_ty f))] | None => [] end
    else [].

  Definition entries_for (c : cls) (keys : list str) (k : str) (d : ty -> option val)
    : list (str * option val) :=
    (match find_field c k with Some f => [(k, d (f_ty f))] | None => [] end)
    ++ shim c keys k UNIT_INDEX UNIT_NUMBER d
    ++ shim c keys k IMAGE_INDEX IMAGE_NUMBER d.

  (* _deserialize_value (top = false) and the body of _deserialize_dataclass.
     top = true is deserialize_extraction's direct call of _deserialize_dataclass(data): the two
     binary marker tests are not made.  None = an exception escapes. *)
  Fixpoint deser (top : bool) (j : json) (T : ty) {struct j} : option val :=
    match j with
    | JNull => Some VNone
    | JObj kvs =>
        let dataclass (expected : option cls) : option val :=
          match resolve_cls (assoc K_TYPE kvs) expected with
          | None => None
          | Some None => Some (embed (JObj kvs))
          | Some (Some c) =>
              construct c
                (flat_map (fun kv => let '(k, x) := kv in
                             entries_for c (map fst kvs) k (fun T' => deser false x T')) kvs)
          end in
        if negb top && has_key K_BYTESIO kvs then
          option_map (fun b => VBytesIO b 0) (b64_bytes (assoc K_BYTESIO kvs))
        else if negb top && has_key K_BYTES kvs then
          option_map VBytes (b64_bytes (assoc K_BYTES kvs))
        else if top || has_key K_TYPE kvs then dataclass None
        else
          match unwrap_optional T with
          | TDict kv =>
              option_map (fun l => VDict l)
                (sequence (map (fun kx => let '(k, x) := kx in
                                  option_map (fun v => (KStr k, v)) (deser false x (value_ty kv))) kvs))
          | TPrim n =>
              match find_cls n with
              | Some c => dataclass (Some c)
              | None => Some (embed (JObj kvs))
              end
          | _ => Some (embed (JObj kvs))
          end
    | JList l =>
        match unwrap_optional T with
        | TList a => option_map VList (sequence (map (fun x => deser false x (elem_ty a)) l))
        | _ => Some (embed (JList l))
        end
    | JStr x =>
        match unwrap_optional T with
        | TBytes | TBytearray => option_map VBytes (dec x)
        | TBytesIO => option_map (fun b => VBytesIO b 0) (dec x)
        | _ => Some (VStr x)
        end
    | JBool b => Some (VBool b)
    | JInt z => Some (VInt z)
    | JFloat t => Some (VFloat t)
    | JOther t => Some (VOther t)
    end.

  (* deserialize_extraction / ExtractionInterface.from_json *)
  Definition from_json (j : json) : option val :=
    match j with
    | JObj kvs => if has_key K_TYPE kvs then deser true j TAny else None      (* ValueError *)
    | _ => None                                                               (* ValueError *)
    end.

  (* x -> to_json -> json.dumps -> json.loads -> from_json *)
  Definition pipeline (v : val) : option val :=
    match json_text_roundtrip (to_json v) with
    | Some j => from_json j
    | None => None
    end.

  (* ---------------------------------------------------------------------------------------- *)
  (* predicates of the theorems (all boolean)                                                  *)

  Definition all {A} (f : A -> bool) (l : list A) : bool := forallb f l.

  (* no foreign leaf anywhere *)
  Fixpoint no_other (v : val) : bool :=
    match v with
    | VOther _ => false
    | VList l | VTuple l | VSet l => forallb no_other l
    | VDict kvs => forallb (fun kv => no_other (snd kv)) kvs
    | VData _ fl => forallb (fun nv => no_other (snd nv)) fl
    | _ => true
    end.

  (* no dict key anywhere renders to one of the encoding's own markers *)
  Fixpoint keys_not_markers (v : val) : bool :=
    match v with
    | VList l | VTuple l | VSet l => forallb keys_not_markers l
    | VDict kvs => forallb (fun kv => negb (mem_str (render (fst kv)) markers) && keys_not_markers (snd kv)) kvs
    | VData _ fl => forallb (fun nv => keys_not_markers (snd nv)) fl
    | _ => true
    end.

  (* plain data: no binary, no dataclass, no foreign leaf (what survives an untyped position) *)
  Fixpoint plain (v : val) : bool :=
    match v with
    | VNone | VBool _ | VInt _ | VFloat _ | VStr _ => true
    | VList l | VTuple l | VSet l => forallb plain l
    | VDict kvs => forallb (fun kv => plain (snd kv)) kvs
    | _ => false
    end.

  Definition is_stripped (x : str) : bool :=
    match x with [] => true | c :: _ => negb (isspace c) && negb (isspace (last x c)) end.

  (* v is a value the deserialiser, directed by T, rebuilds: binary values and registered dataclass
     instances anywhere (markers are tested first), a str anywhere but at a bytes/BytesIO hint,
     lists of well-typed items at list hints and of plain items elsewhere, likewise dicts; a
     dataclass instance has exactly its class's fields, each well-typed at its hint, with the
     __post_init__-stripped fields already stripped (true of every constructed instance). *)
  Fixpoint has_type (v : val) (T : ty) {struct v} : bool :=
    match v with
    | VNone | VBool _ | VInt _ | VFloat _ => true
    | VBytes _ | VBytearray _ | VBytesIO _ _ => true
    | VStr _ =>
        match unwrap_optional T with TBytes | TBytearray | TBytesIO => false | _ => true end
    | VList l | VTuple l | VSet l =>
        match unwrap_optional T with
        | TList a => forallb (fun x => has_type x (elem_ty a)) l
        | _ => forallb plain l
        end
    | VDict kvs =>
        match unwrap_optional T with
        | TDict kv => forallb (fun kx => has_type (snd kx) (value_ty kv)) kvs
        | TPrim n => match find_cls n with Some _ => false | None => forallb (fun kx => plain (snd kx)) kvs end
        | _ => forallb (fun kx => plain (snd kx)) kvs
        end
    | VData c fl =>
        match find_cls c with
        | None => false
        | Some k =>
            negb (c_abstract k) &&
            (fix go (fl : list (str * val)) (fs : list field) {struct fl} : bool :=
               match fl, fs with
               | [], [] => true
               | (n, x) :: fl', f :: fs' =>
                   str_eqb n (f_name f) && has_type x (f_ty f)
                   && (if mem_str n (c_strip k)
                       then match x with VStr y => is_stripped y | _ => false end else true)
                   && go fl' fs'
               | _, _ => false
               end) fl (c_fields k)
        end
    | VOther _ => true
    end.

  (* what from_json returns for v: tuples/sets come back as lists, bytearray as bytes, a BytesIO
     at position 0, dict keys as their str() (later duplicates overwrite) *)
  Fixpoint canon (v : val) : val :=
    match v with
    | VBytearray b => VBytes b
    | VBytesIO c _ => VBytesIO c 0
    | VList l | VTuple l | VSet l => VList (map canon l)
    | VDict kvs =>
        VDict (map (fun kv => (KStr (fst kv), snd kv))
                 (dict_of (map (fun kv => let '(k, x) := kv in (render k, canon x)) kvs)))
    | VData c fl => VData c (map (fun nv => let '(n, x) := nv in (n, canon x)) fl)
    | x => x
    end.

  (* exactly the binary values replaced by None *)
  Fixpoint null_binary (v : val) : val :=
    match v with
    | VBytes _ | VBytearray _ | VBytesIO _ _ => VNone
    | VList l => VList (map null_binary l)
    | VTuple l => VTuple (map null_binary l)
    | VSet l => VSet (map null_binary l)
    | VDict kvs => VDict (map (fun kv => let '(k, x) := kv in (k, null_binary x)) kvs)
    | VData c fl => VData c (map (fun nv => let '(n, x) := nv in (n, null_binary x)) fl)
    | x => x
    end.

  Definition class_of (v : val) : option str := match v with VData c _ => Some c | _ => None end.

  (* all binary payloads, in traversal order *)
  Fixpoint payloads (v : val) : list bytes :=
    match v with
    | VBytes b | VBytearray b => [b]
    | VBytesIO c _ => [c]
    | VList l | VTuple l | VSet l => flat_map payloads l
    | VDict kvs => flat_map (fun kv => payloads (snd kv)) kvs
    | VData _ fl => flat_map (fun nv => payloads (snd nv)) fl
    | _ => []
    end.

  (* ---------------------------------------------------------------------------------------- *)
  (* registry well-formedness (re-decided for the dumped registry on every run)                *)

  Fixpoint nodup_str (l : list str) : bool :=
    match l with [] => true | x :: r => negb (mem_str x r) && nodup_str r end.

  Definition scalar_name (n : str) : bool :=
    mem_str n [s "str"; s "int"; s "float"; s "bool"].

  (* the hint lies in the grammar the proofs cover, and a value of the annotated kind is rebuilt
     under it: a PEP-604 union (not unwrapped by the code) may only combine None with scalars *)
  Fixpoint ty_ok (t : ty) : bool :=
    match t with
    | TAny | TNone | TBytes | TBytearray | TBytesIO => true
    | TPrim _ => true      (* which class names may occur is a separate obligation: Corr.hints_known *)
    | TList (Some a) => ty_ok a
    | TList None => true
    | TDict (Some (k, v)) => (match k with TPrim n => str_eqb n (s "str") | _ => false end) && ty_ok v
    | TDict None => true
    | TUnion args =>
        match args with
        | [a; TNone] | [TNone; a] => ty_ok a && negb (is_tnone a)
        | _ => false
        end
    | TUnionPep args =>
        forallb (fun a => match a with TNone => true | TPrim n => scalar_name n | _ => false end) args
    | TOpaque => false
    end.

  Definition cls_ok (c : cls) : bool :=
    nodup_str (map f_name (c_fields c))
    && forallb (fun f => negb (mem_str (f_name f) markers) && ty_ok (f_ty f)) (c_fields c)
    && forallb (fun x => mem_str x (map f_name (c_fields c))) (c_strip c).

  Definition registry_wf : bool :=
    nodup_str (map c_name R) && forallb cls_ok R
    && forallb (fun c => match c_name c with [] => false | _ => true end) R.

  (* ---------------------------------------------------------------------------------------- *)
  (* CLI payload shaping (cli.py)                                                              *)
  Variable units : val -> list val.         (* list(result.iterate_units()) — oracle *)

  Definition serialize_results (include_binary : bool) (results : list val) : json :=
    match results with
    | [r] => serialize_extraction include_binary r
    | _ => JList (map (serialize_extraction include_binary) results)
    end.

  Definition serialize_unit_results (include_binary : bool) (results : list val) : json :=
    match results with
    | [r] => JList (map (serialize_extraction include_binary) (units r))
    | _ => JList (map (fun r => JList (map (serialize_extraction include_binary) (units r))) results)
    end.

  Definition is_object (j : json) : bool := match j with JObj _ => true | _ => false end.

End Model.

(* ------------------------------------------------------------------------------------------ *)
(* xlsx_extractor._get_cell_value (as repaired by fixes/C05-xlsx-duration-cell.patch) on the values
   openpyxl (read_only, data_only) hands out for a cell                                         *)
Inductive cell :=
| CNone
| CStr (x : str)                 (* text and error cells *)
| CInt (z : Z)
| CFloat (tok : str)
| CBool (b : bool)
| CDateTimeLike (iso : str)      (* datetime / date / time; iso = value.isoformat() (oracle) *)
| CTimedelta (text : str)        (* duration cells; text = str(value) (oracle) *)
| CForeign (tag : str).          (* anything else: passed through unchanged *)

Definition get_cell_value (c : cell) : val :=
  match c with
  | CNone => VNone
  | CDateTimeLike iso => VStr iso
  | CTimedelta text => VStr text
  | CStr x => VStr x
  | CInt z => VInt z
  | CFloat t => VFloat t
  | CBool b => VBool b
  | CForeign t => VOther t
  end.

Definition cell_known (c : cell) : bool := match c with CForeign _ => false | _ => true end.

(* cli.main's JSON branch: the payload is encoded completely, then written (exit 0); if encoding
   fails nothing is written to stdout (exit 1) *)
Inductive cli_outcome :=
| CliJson (payload : json)       (* exit 0, stdout = json.dumps(payload) + "\n" *)
| CliError.                      (* exit 1, stdout empty *)

Definition cli_json (payload : json) : cli_outcome :=
  if encodable payload then CliJson payload else CliError.

(* ------------------------------------------------------------------------------------------ *)
(* dict keys.  The serialiser applies str() to every dict key (and json.dumps would stringify int /
   float / bool / None keys anyway), so from_json can only return str keys: a dict with a non-string
   key is never restored as itself.                                                              *)
Definition key_is_str (k : key) : bool := match k with KStr _ => true | KObj _ => false end.

Fixpoint keys_are_strings (v : val) : bool :=
  match v with
  | VList l | VTuple l | VSet l => forallb keys_are_strings l
  | VDict kvs => forallb (fun kv => key_is_str (fst kv) && keys_are_strings (snd kv)) kvs
  | VData _ fl => forallb (fun nv => keys_are_strings (snd nv)) fl
  | _ => true
  end.

(* the value itself up to container kind only: tuple/set -> list, bytearray -> bytes, BytesIO rewound;
   every dict keeps its keys (with their types), its entries and their order — so tables built from
   row dicts (XlsSheet.get_table / get_dim), unit texts and payloads are those of the original *)
Fixpoint norm (v : val) : val :=
  match v with
  | VBytearray b => VBytes b
  | VBytesIO c _ => VBytesIO c 0
  | VList l | VTuple l | VSet l => VList (map norm l)
  | VDict kvs => VDict (map (fun kv => let '(k, x) := kv in (k, norm x)) kvs)
  | VData c fl => VData c (map (fun nv => let '(n, x) := nv in (n, norm x)) fl)
  | x => x
  end.

(* ------------------------------------------------------------------------------------------ *)
(* RFC 4648 base64 (standard alphabet, '=' padding) — an executable candidate for the enc/dec oracles.
   b64dec is the STRICT decoder (canonical input only); Python's b64decode is more lenient, but on the
   serialiser's own output the two agree (checked by the correspondence).                         *)
Definition B64_ALPHABET : list N :=
  s "ABCDEFGHIJKLMNOPQRSTUVWXYZabcdefghijklmnopqrstuvwxyz0123456789+/".
Definition B64_PAD : N := 61.
Definition b64ch (i : N) : N := nth (N.to_nat i) B64_ALPHABET 0.
Fixpoint index_of (c : N) (l : list N) (i : N) : option N :=
  match l with
  | [] => None
  | x :: r => if N.eqb x c then Some i else index_of c r (i + 1)
  end.
Definition b64idx (c : N) : option N := index_of c B64_ALPHABET 0.

Fixpoint b64enc (b : list N) : list N :=
  match b with
  | [] => []
  | [x] => [b64ch (x / 4); b64ch ((x mod 4) * 16); B64_PAD; B64_PAD]
  | [x; y] => [b64ch (x / 4); b64ch ((x mod 4) * 16 + y / 16); b64ch ((y mod 16) * 4); B64_PAD]
  | x :: y :: z :: r =>
      b64ch (x / 4) :: b64ch ((x mod 4) * 16 + y / 16) :: b64ch ((y mod 16) * 4 + z / 64)
      :: b64ch (z mod 64) :: b64enc r
  end.

Fixpoint b64dec (t : list N) : option (list N) :=
  match t with
  | [] => Some []
  | a :: b :: c :: d :: r =>
      match b64idx a, b64idx b with
      | Some p, Some q =>
          if N.eqb c B64_PAD then
            if N.eqb d B64_PAD then
              match r with
              | [] => if N.eqb (q mod 16) 0 then Some [p * 4 + q / 16] else None
              | _ => None
              end
            else None
          else
            match b64idx c with
            | Some u =>
                if N.eqb d B64_PAD then
                  match r with
                  | [] => if N.eqb (u mod 4) 0 then Some [p * 4 + q / 16; (q mod 16) * 16 + u / 4] else None
                  | _ => None
                  end
                else
                  match b64idx d with
                  | Some w =>
                      match b64dec r with
                      | Some tl => Some ((p * 4 + q / 16) :: ((q mod 16) * 16 + u / 4) :: ((u mod 4) * 64 + w) :: tl)
                      | None => None
                      end
                  | None => None
                  end
            | None => None
            end
      | _, _ => None
      end
  | _ => None
  end.

Definition is_byte (x : N) : bool := N.ltb x 256.

(* every binary payload of v satisfies okb; with okb = "all elements < 256" this holds of every Python
   bytes / bytearray / BytesIO object *)
Fixpoint payloads_ok (okb : bytes -> bool) (v : val) : bool :=
  match v with
  | VBytes b | VBytearray b => okb b
  | VBytesIO c _ => okb c
  | VList l | VTuple l | VSet l => forallb (payloads_ok okb) l
  | VDict kvs => forallb (fun kv => payloads_ok okb (snd kv)) kvs
  | VData _ fl => forallb (fun nv => payloads_ok okb (snd nv)) fl
  | _ => true
  end.
Definition bytes_ok (v : val) : bool := payloads_ok (forallb is_byte) v.

(* accepted by the strict RFC 4648 decoder: alphabet characters only, length a multiple of 4, '=' only as
   the last one or two characters and then with zero pad bits — "canonical" base64 *)
Definition b64_canonical (t : str) : bool := match b64dec t with Some _ => true | None => false end.

(* deserialize_extraction's documented failure (ValueError: not a dict / no `_type`) told apart from any
   other escaping exception *)
Inductive outcome := OVal (v : val) | OValueError | ORaise.
Definition from_json_outcome (dec : str -> option bytes) (isspace : N -> bool) (R : registry) (j : json) : outcome :=
  match j with
  | JObj kvs =>
      if has_key K_TYPE kvs
      then match from_json dec isspace R j with Some v => OVal v | None => ORaise end
      else OValueError
  | _ => OValueError
  end.
