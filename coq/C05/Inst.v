(* C05 — obligations re-decided by the kernel for the registry generated from the repository on this run. *)
From Coq Require Import ZArith List Bool.
From S2T Require Import Lib.PyStr C05.Model C05.Corr Gen.C05Registry.
Import ListNotations.
Open Scope N_scope.

(* premise of the round-trip theorems: names unique, no field named like a marker, every hint in the
   modelled grammar with PEP-604 unions over scalars only, strip fields are fields *)
Theorem C05_registry_wf : registry_wf R = true.
Proof. vm_compute. reflexivity. Qed.
Print Assumptions C05_registry_wf.

(* every class named in a hint is a scalar, a registered dataclass or a data_types interface *)
Theorem C05_hints_known : hints_known R IFACES = true.
Proof. vm_compute. reflexivity. Qed.
Print Assumptions C05_hints_known.

(* every default / default_factory() value satisfies the round-trip hypotheses at its hint *)
Theorem C05_defaults_ok : defaults_ok R WS = true.
Proof. vm_compute. reflexivity. Qed.
Print Assumptions C05_defaults_ok.

(* REFUTED on today's registry: a well-typed, JSON-clean XLS result whose header cell is named `_bytes`
   is not restored (from_json raises), whatever base64 codec is used *)
Theorem C05_markers_never_confused_refuted :
  has_type (isspace_of WS) R marker_witness TAny = true /\ no_other marker_witness = true
  /\ keys_not_markers marker_witness = false
  /\ forall enc dec, pipeline enc dec (isspace_of WS) R marker_witness = None.
Proof.
  split; [vm_compute; reflexivity|]. split; [vm_compute; reflexivity|]. split; [vm_compute; reflexivity|].
  intros enc dec. vm_compute. reflexivity.
Qed.
Print Assumptions C05_markers_never_confused_refuted.

(* the hypotheses of C05_roundtrip_partial are satisfiable by an instance with nested dataclasses and
   binary payloads, and the model restores it *)
Theorem C05_roundtrip_hyps_satisfiable :
  hyps_strict R WS clean_witness = true /\ bytes_ok clean_witness = true /\ payloads clean_witness <> [].
Proof. split; [vm_compute; reflexivity |]. split; [vm_compute; reflexivity | vm_compute; discriminate]. Qed.
Print Assumptions C05_roundtrip_hyps_satisfiable.
