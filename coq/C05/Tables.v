(* C05 — dict keys: with string keys (pairwise distinct) the restored object is the original up to
   container kinds; with a non-string key it is not (refutation). *)
From Coq Require Import ZArith List Bool Lia ZifyBool.
From S2T Require Import Lib.PyStr C05.Model C05.Roundtrip.
Import ListNotations.
Open Scope N_scope.

Lemma canon_norm : forall v,
  keys_are_strings v = true -> dict_keys_distinct v = true -> canon v = norm v.
Proof.
  induction v as [| | | | | | | |l IH|l IH|l IH|kvs IH|c fl IH|] using val_ind'; intros Hk Hd;
    try reflexivity.
  - cbn [canon norm]. f_equal. apply map_ext_in. intros x Hx. rewrite Forall_forall in IH.
    apply (IH x Hx); [exact (forallb_In _ _ _ Hk Hx) | exact (forallb_In _ _ _ Hd Hx)].
  - cbn [canon norm]. f_equal. apply map_ext_in. intros x Hx. rewrite Forall_forall in IH.
    apply (IH x Hx); [exact (forallb_In _ _ _ Hk Hx) | exact (forallb_In _ _ _ Hd Hx)].
  - cbn [canon norm]. f_equal. apply map_ext_in. intros x Hx. rewrite Forall_forall in IH.
    apply (IH x Hx); [exact (forallb_In _ _ _ Hk Hx) | exact (forallb_In _ _ _ Hd Hx)].
  - cbn [keys_are_strings] in Hk. cbn [dict_keys_distinct] in Hd.
    apply andb_true_iff in Hd. destruct Hd as [Hd1 Hd2].
    rewrite canon_dict. rewrite dict_of_fresh.
    2:{ unfold rk. rewrite map_map. cbn [fst]. apply nodup_str_NoDup. exact Hd1. }
    cbn [norm]. f_equal. unfold rk. rewrite !map_map. apply map_ext_in.
    intros [k x] Hx. unfold kstr, vmap. cbn [fst snd].
    pose proof (forallb_In _ _ _ Hk Hx) as Hkx. cbn [fst snd] in Hkx.
    apply andb_true_iff in Hkx. destruct Hkx as [Hs Hkx].
    rewrite Forall_forall in IH. pose proof (IH (k, x) Hx Hkx (forallb_In _ _ _ Hd2 Hx)) as E.
    cbn [snd] in E. rewrite E.
    destruct k as [k|k]; [reflexivity | discriminate Hs].
  - cbn [keys_are_strings] in Hk. cbn [dict_keys_distinct] in Hd. rewrite canon_data. cbn [norm].
    f_equal. apply map_ext_in. intros [n x] Hx. unfold vmap. cbn [fst snd].
    rewrite Forall_forall in IH.
    pose proof (IH (n, x) Hx (forallb_In _ _ _ Hk Hx) (forallb_In _ _ _ Hd Hx)) as E.
    cbn [snd] in E. rewrite E. reflexivity.
Qed.
