(* C05 — lemmas: induction principle for the nested inductive `val`, dict construction, encodability,
   include_binary=False, BytesIO position, CLI shaping.  (The round-trip development is C05/Roundtrip.v.) *)
From Coq Require Import ZArith List Bool Lia ZifyBool.
From S2T Require Import Lib.PyStr C05.Model.
Import ListNotations.
Open Scope N_scope.

Section ValInd.
  Variable P : val -> Prop.
  Hypothesis HNone : P VNone.
  Hypothesis HBool : forall b, P (VBool b).
  Hypothesis HInt : forall z, P (VInt z).
  Hypothesis HFloat : forall t, P (VFloat t).
  Hypothesis HStr : forall x, P (VStr x).
  Hypothesis HBytes : forall b, P (VBytes b).
  Hypothesis HBytearray : forall b, P (VBytearray b).
  Hypothesis HBytesIO : forall c p, P (VBytesIO c p).
  Hypothesis HList : forall l, Forall P l -> P (VList l).
  Hypothesis HTuple : forall l, Forall P l -> P (VTuple l).
  Hypothesis HSet : forall l, Forall P l -> P (VSet l).
  Hypothesis HDict : forall kvs, Forall (fun kv => P (snd kv)) kvs -> P (VDict kvs).
  Hypothesis HData : forall c fl, Forall (fun nv => P (snd nv)) fl -> P (VData c fl).
  Hypothesis HOther : forall t, P (VOther t).

  Fixpoint val_induction (v : val) : P v :=
    match v with
    | VNone => HNone
    | VBool b => HBool b
    | VInt z => HInt z
    | VFloat t => HFloat t
    | VStr x => HStr x
    | VBytes b => HBytes b
    | VBytearray b => HBytearray b
    | VBytesIO c p => HBytesIO c p
    | VList l =>
        HList l ((fix go (l : list val) : Forall P l :=
                    match l with [] => Forall_nil _ | x :: r => Forall_cons x (val_induction x) (go r) end) l)
    | VTuple l =>
        HTuple l ((fix go (l : list val) : Forall P l :=
                     match l with [] => Forall_nil _ | x :: r => Forall_cons x (val_induction x) (go r) end) l)
    | VSet l =>
        HSet l ((fix go (l : list val) : Forall P l :=
                   match l with [] => Forall_nil _ | x :: r => Forall_cons x (val_induction x) (go r) end) l)
    | VDict kvs =>
        HDict kvs ((fix go (l : list (key * val)) : Forall (fun kv => P (snd kv)) l :=
                      match l with
                      | [] => Forall_nil _
                      | kv :: r => Forall_cons kv (val_induction (snd kv)) (go r)
                      end) kvs)
    | VData c fl =>
        HData c fl ((fix go (l : list (str * val)) : Forall (fun nv => P (snd nv)) l :=
                       match l with
                       | [] => Forall_nil _
                       | nv :: r => Forall_cons nv (val_induction (snd nv)) (go r)
                       end) fl)
    | VOther t => HOther t
    end.
End ValInd.

(* ------------------------------------------------------------------------------------------ *)
(* dict construction preserves a property of all values                                        *)
Lemma forallb_dict_set {A} (g : A -> bool) k v (d : list (str * A)) :
  forallb (fun kv => g (snd kv)) d = true -> g v = true ->
  forallb (fun kv => g (snd kv)) (dict_set k v d) = true.
Proof.
  induction d as [|[k' v'] d IH]; cbn [dict_set forallb snd]; intros Hd Hv.
  - rewrite Hv. reflexivity.
  - apply andb_true_iff in Hd as [H1 H2].
    destruct (str_eqb k k'); cbn [forallb snd].
    + rewrite Hv, H2. reflexivity.
    + rewrite H1, (IH H2 Hv). reflexivity.
Qed.

Lemma forallb_dict_of_acc {A} (g : A -> bool) (l acc : list (str * A)) :
  forallb (fun kv => g (snd kv)) acc = true -> forallb (fun kv => g (snd kv)) l = true ->
  forallb (fun kv => g (snd kv)) (fold_left (fun d kv => dict_set (fst kv) (snd kv) d) l acc) = true.
Proof.
  revert acc; induction l as [|[k v] l IH]; cbn [fold_left forallb fst snd]; intros acc Ha Hl; [exact Ha|].
  apply andb_true_iff in Hl as [H1 H2].
  apply IH; [apply forallb_dict_set; assumption | exact H2].
Qed.

Lemma forallb_dict_of {A} (g : A -> bool) (l : list (str * A)) :
  forallb (fun kv => g (snd kv)) l = true -> forallb (fun kv => g (snd kv)) (dict_of l) = true.
Proof. intro H. unfold dict_of. apply forallb_dict_of_acc; [reflexivity | exact H]. Qed.

Lemma forallb_map_Forall {A B} (f : A -> B) (g : B -> bool) (h : A -> bool) (l : list A) :
  Forall (fun x => h x = true -> g (f x) = true) l -> forallb h l = true -> forallb g (map f l) = true.
Proof.
  induction 1 as [|x l Hx _ IH]; cbn [forallb map]; intro H; [reflexivity|].
  apply andb_true_iff in H as [H1 H2]. rewrite (Hx H1), (IH H2). reflexivity.
Qed.

Section Lemmas.
  Variable enc : bytes -> str.

  (* no foreign leaf => json.dumps succeeds, with or without binary payloads *)
  Lemma dumps_ok_lemma : forall (b : bool) (v : val), no_other v = true -> encodable (serialize enc b v) = true.
  Proof.
    intro b. induction v using val_induction; cbn [serialize no_other encodable]; intro Hn;
      try reflexivity; try discriminate.
    - destruct b; reflexivity.
    - destruct b; reflexivity.
    - destruct b; reflexivity.
    - eapply forallb_map_Forall; [|exact Hn]. exact H.
    - eapply forallb_map_Forall; [|exact Hn]. exact H.
    - eapply forallb_map_Forall; [|exact Hn]. exact H.
    - apply forallb_dict_of.
      eapply (forallb_map_Forall _ (fun kv : str * json => encodable (snd kv))); [|exact Hn].
      eapply Forall_impl; [|exact H]. intros [k x]; cbn [snd]. auto.
    - apply forallb_dict_of. cbn [forallb snd encodable].
      eapply (forallb_map_Forall _ (fun kv : str * json => encodable (snd kv))); [|exact Hn].
      eapply Forall_impl; [|exact H]. intros [k x]; cbn [snd]. auto.
  Qed.

  (* include_binary=False is include_binary=True on the value whose binary leaves are None *)
  Lemma map_ext_Forall {A B} (f g : A -> B) (l : list A) :
    Forall (fun x => f x = g x) l -> map f l = map g l.
  Proof. induction 1 as [|x l Hx _ IH]; cbn [map]; [reflexivity | rewrite Hx, IH; reflexivity]. Qed.

  Lemma no_binary_lemma : forall v, serialize enc false v = serialize enc true (null_binary v).
  Proof.
    induction v using val_induction; cbn [serialize null_binary]; try reflexivity.
    - rewrite map_map. f_equal. apply map_ext_Forall. exact H.
    - rewrite map_map. f_equal. apply map_ext_Forall. exact H.
    - rewrite map_map. f_equal. apply map_ext_Forall. exact H.
    - rewrite map_map. f_equal. f_equal. apply map_ext_Forall.
      eapply Forall_impl; [|exact H]. intros [k x]; cbn [snd]. intro E. rewrite E. reflexivity.
    - rewrite map_map. f_equal. f_equal. f_equal. apply map_ext_Forall.
      eapply Forall_impl; [|exact H]. intros [k x]; cbn [snd]. intro E. rewrite E. reflexivity.
  Qed.

  (* _bytesio_to_base64 encodes the whole content whatever the position, and restores the position *)
  Lemma position_restored_lemma : forall (c : bytes) (p : N),
    bytesio_to_base64 enc {| b_content := c; b_pos := p |} = (enc c, {| b_content := c; b_pos := p |}).
  Proof. intros c p. reflexivity. Qed.

  Lemma serialize_extraction_object : forall b v, is_object (serialize_extraction enc b v) = true.
  Proof. intros b v. unfold serialize_extraction. destruct (serialize enc b v); reflexivity. Qed.

  Lemma serialize_extraction_data : forall b c fl,
    serialize_extraction enc b (VData c fl) = serialize enc b (VData c fl).
  Proof. intros. reflexivity. Qed.

  Lemma cli_shape_lemma : forall (b : bool) (results : list val),
    (forall r, results = [r] ->
       serialize_results enc b results = serialize_extraction enc b r
       /\ is_object (serialize_results enc b results) = true)
    /\ (List.length results <> 1%nat ->
        serialize_results enc b results = JList (map (serialize_extraction enc b) results)
        /\ Forall (fun j => is_object j = true) (map (serialize_extraction enc b) results)).
  Proof.
    intros b results. split.
    - intros r ->. cbn [serialize_results]. split; [reflexivity | apply serialize_extraction_object].
    - intro Hn. split.
      + destruct results as [|r [|r2 rest]]; cbn [serialize_results]; try reflexivity.
        exfalso; apply Hn; reflexivity.
      + apply Forall_forall. intros j Hj. apply in_map_iff in Hj as [x [<- _]]. apply serialize_extraction_object.
  Qed.

  Lemma cli_unit_shape_lemma : forall (units : val -> list val) (b : bool) (results : list val),
    (forall r, results = [r] ->
       serialize_unit_results enc units b results = JList (map (serialize_extraction enc b) (units r)))
    /\ (List.length results <> 1%nat ->
        serialize_unit_results enc units b results =
        JList (map (fun r => JList (map (serialize_extraction enc b) (units r))) results)).
  Proof.
    intros units b results. split.
    - intros r ->. reflexivity.
    - intro Hn. destruct results as [|r [|r2 rest]]; cbn [serialize_unit_results]; try reflexivity.
      exfalso; apply Hn; reflexivity.
  Qed.
End Lemmas.
