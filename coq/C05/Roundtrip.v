(* C05 -- round-trip theorems for the model of to_json / from_json (C05/Model.v). *)
From Coq Require Import ZArith List Bool Lia ZifyBool.
From S2T Require Import Lib.PyStr C05.Model.
Import ListNotations.

(* ------------------------------------------------------------------------------------------ *)
(* 1. induction principle for the nested inductive val                                         *)

Section ValInd.
  Variable P : val -> Prop.
  Hypothesis HNone : P VNone.
  Hypothesis HBool : forall b, P (VBool b).
  Hypothesis HInt : forall z, P (VInt z).
  Hypothesis HFloat : forall t, P (VFloat t).
  Hypothesis HStr : forall x, P (VStr x).
  Hypothesis HBytes : forall b, P (VBytes b).
  Hypothesis HBytearray : forall b, P (VBytearray b).
  Hypothesis HBytesIO : forall c p, P (VBytesIO c p).
  Hypothesis HList : forall l, Forall P l -> P (VList l).
  Hypothesis HTuple : forall l, Forall P l -> P (VTuple l).
  Hypothesis HSet : forall l, Forall P l -> P (VSet l).
  Hypothesis HDict : forall kvs, Forall (fun kv => P (snd kv)) kvs -> P (VDict kvs).
  Hypothesis HData : forall c fl, Forall (fun nv => P (snd nv)) fl -> P (VData c fl).
  Hypothesis HOther : forall t, P (VOther t).

  Fixpoint val_ind' (v : val) : P v :=
    match v as v0 return P v0 with
    | VNone => HNone
    | VBool b => HBool b
    | VInt z => HInt z
    | VFloat t => HFloat t
    | VStr x => HStr x
    | VBytes b => HBytes b
    | VBytearray b => HBytearray b
    | VBytesIO c p => HBytesIO c p
    | VList l =>
        HList l ((fix go (l : list val) : Forall P l :=
                    match l with
                    | [] => Forall_nil P
                    | x :: r => Forall_cons x (val_ind' x) (go r)
                    end) l)
    | VTuple l =>
        HTuple l ((fix go (l : list val) : Forall P l :=
                     match l with
                     | [] => Forall_nil P
                     | x :: r => Forall_cons x (val_ind' x) (go r)
                     end) l)
    | VSet l =>
        HSet l ((fix go (l : list val) : Forall P l :=
                   match l with
                   | [] => Forall_nil P
                   | x :: r => Forall_cons x (val_ind' x) (go r)
                   end) l)
    | VDict kvs =>
        HDict kvs ((fix go (l : list (key * val)) : Forall (fun kv => P (snd kv)) l :=
                      match l with
                      | [] => Forall_nil _
                      | kv :: r =>
                          Forall_cons kv
                            (match kv as p return P (snd p) with (_, x) => val_ind' x end) (go r)
                      end) kvs)
    | VData c fl =>
        HData c fl ((fix go (l : list (str * val)) : Forall (fun nv => P (snd nv)) l :=
                       match l with
                       | [] => Forall_nil _
                       | nv :: r =>
                           Forall_cons nv
                             (match nv as p return P (snd p) with (_, x) => val_ind' x end) (go r)
                       end) fl)
    | VOther t => HOther t
    end.
End ValInd.

(* ------------------------------------------------------------------------------------------ *)
(* generic list lemmas                                                                         *)

Lemma sequence_map_some {A B} (f : A -> option B) (g : A -> B) (l : list A) :
  (forall x, In x l -> f x = Some (g x)) -> sequence (map f l) = Some (map g l).
Proof.
  induction l as [|a l IH]; intro H; cbn [map sequence]; [reflexivity|].
  rewrite (H a (or_introl eq_refl)). rewrite IH; [reflexivity|].
  intros x Hx. apply H. right; exact Hx.
Qed.

Lemma sequence_map_id {A} (f : A -> option A) (l : list A) :
  (forall x, In x l -> f x = Some x) -> sequence (map f l) = Some l.
Proof.
  intro H. rewrite (sequence_map_some f (fun x => x) l H). rewrite map_id. reflexivity.
Qed.

Lemma sequence_Forall2 {A B C} (h : B -> option C) (g : A -> C) (l1 : list A) (l2 : list B) :
  Forall2 (fun a b => h b = Some (g a)) l1 l2 -> sequence (map h l2) = Some (map g l1).
Proof.
  induction 1 as [|a b l1 l2 Hab HF IH]; cbn [map sequence]; [reflexivity|].
  rewrite Hab, IH. reflexivity.
Qed.

Lemma flat_map_singleton {A B} (F : A -> list B) (G : A -> B) (l : list A) :
  (forall x, In x l -> F x = [G x]) -> flat_map F l = map G l.
Proof.
  induction l as [|a l IH]; intro H; cbn [flat_map map]; [reflexivity|].
  rewrite (H a (or_introl eq_refl)). rewrite IH; [reflexivity|].
  intros x Hx. apply H. right; exact Hx.
Qed.

Lemma flat_map_map {A B C} (f : A -> B) (F : B -> list C) (l : list A) :
  flat_map F (map f l) = flat_map (fun x => F (f x)) l.
Proof.
  induction l as [|a l IH]; cbn [flat_map map]; [reflexivity|]. rewrite IH. reflexivity.
Qed.

Lemma flat_map_ext_in {A B} (F G : A -> list B) (l : list A) :
  (forall x, In x l -> F x = G x) -> flat_map F l = flat_map G l.
Proof.
  induction l as [|a l IH]; intro H; cbn [flat_map]; [reflexivity|].
  rewrite (H a (or_introl eq_refl)). rewrite IH; [reflexivity|].
  intros x Hx. apply H. right; exact Hx.
Qed.

Lemma combine_map_map {A B C} (f : A -> B) (g : A -> C) (l : list A) :
  combine (map f l) (map g l) = map (fun x => (f x, g x)) l.
Proof.
  induction l as [|a l IH]; cbn [map combine]; [reflexivity|]. rewrite IH. reflexivity.
Qed.

Lemma Forall2_mono {A B} (P Q : A -> B -> Prop) (l1 : list A) (l2 : list B) :
  (forall a b, In a l1 -> In b l2 -> P a b -> Q a b) -> Forall2 P l1 l2 -> Forall2 Q l1 l2.
Proof.
  intros H HF. induction HF as [|a b l1 l2 Hab HF IH]; constructor.
  - apply H; [left; reflexivity | left; reflexivity | exact Hab].
  - apply IH. intros a' b' Ha Hb. apply H; right; assumption.
Qed.

Lemma Forall2_In_l {A B} (P : A -> B -> Prop) l1 l2 a :
  Forall2 P l1 l2 -> In a l1 -> exists b, In b l2 /\ P a b.
Proof.
  induction 1 as [|a0 b0 l1 l2 Hab HF IH]; intro Hin; [destruct Hin|].
  destruct Hin as [->|Hin].
  - exists b0. split; [left; reflexivity | exact Hab].
  - destruct (IH Hin) as [b [Hb Pb]]. exists b. split; [right; exact Hb | exact Pb].
Qed.

Lemma Forall2_In_r {A B} (P : A -> B -> Prop) l1 l2 b :
  Forall2 P l1 l2 -> In b l2 -> exists a, In a l1 /\ P a b.
Proof.
  induction 1 as [|a0 b0 l1 l2 Hab HF IH]; intro Hin; [destruct Hin|].
  destruct Hin as [->|Hin].
  - exists a0. split; [left; reflexivity | exact Hab].
  - destruct (IH Hin) as [a [Ha Pa]]. exists a. split; [right; exact Ha | exact Pa].
Qed.

Lemma Forall2_map_eq {A B C} (f : A -> C) (g : B -> C) l1 l2 :
  Forall2 (fun a b => f a = g b) l1 l2 -> map f l1 = map g l2.
Proof.
  induction 1 as [|a b l1 l2 Hab HF IH]; cbn [map]; [reflexivity|]. rewrite Hab, IH. reflexivity.
Qed.

Lemma forallb_In {A} (f : A -> bool) l x : forallb f l = true -> In x l -> f x = true.
Proof. intros H Hx. rewrite forallb_forall in H. apply H. exact Hx. Qed.

(* ------------------------------------------------------------------------------------------ *)
(* nodup_str / NoDup, assoc / has_key                                                          *)

Lemma mem_str_false x l : mem_str x l = false <-> ~ In x l.
Proof.
  split.
  - intros H Hin. apply mem_str_In in Hin. congruence.
  - intro H. destruct (mem_str x l) eqn:E; [|reflexivity]. exfalso. apply H. apply mem_str_In. exact E.
Qed.

Lemma nodup_str_NoDup l : nodup_str l = true <-> NoDup l.
Proof.
  induction l as [|x l IH]; cbn [nodup_str].
  - split; [constructor | reflexivity].
  - rewrite andb_true_iff, negb_true_iff, mem_str_false, IH. split.
    + intros [H1 H2]. constructor; assumption.
    + intro H. inversion H; subst. split; assumption.
Qed.

Lemma has_key_false {A} k (l : list (str * A)) : has_key k l = false <-> ~ In k (map fst l).
Proof.
  split.
  - intros H Hin. apply has_key_In in Hin. congruence.
  - intro H. destruct (has_key k l) eqn:E; [|reflexivity]. exfalso. apply H. apply has_key_In. exact E.
Qed.

Lemma assoc_NoDup_In {A} k (v : A) (l : list (str * A)) :
  NoDup (map fst l) -> In (k, v) l -> assoc k l = Some v.
Proof.
  induction l as [|[k' v'] l IH]; cbn [map fst assoc]; intros ND Hin; [destruct Hin|].
  inversion ND as [|? ? Hnot ND']; subst.
  destruct Hin as [E|Hin].
  - inversion E; subst. rewrite str_eqb_refl. reflexivity.
  - destruct (str_eqb k k') eqn:E.
    + apply str_eqb_eq in E; subst. exfalso. apply Hnot.
      apply in_map_iff. exists (k', v). split; [reflexivity | exact Hin].
    + apply IH; assumption.
Qed.

Lemma find_None_forall {A} (f : A -> bool) l : (forall x, In x l -> f x = false) -> find f l = None.
Proof.
  induction l as [|a l IH]; intro H; cbn [find]; [reflexivity|].
  rewrite (H a (or_introl eq_refl)). apply IH. intros x Hx. apply H. right; exact Hx.
Qed.

(* ------------------------------------------------------------------------------------------ *)
(* dict construction                                                                            *)

Definition dict_from {A} (acc l : list (str * A)) : list (str * A) :=
  fold_left (fun d kv => dict_set (fst kv) (snd kv) d) l acc.

Lemma dict_of_from {A} (l : list (str * A)) : dict_of l = dict_from [] l.
Proof. reflexivity. Qed.

Lemma dict_from_cons {A} (acc : list (str * A)) kv l :
  dict_from acc (kv :: l) = dict_from (dict_set (fst kv) (snd kv) acc) l.
Proof. reflexivity. Qed.

Definition vmap {A B} (g : A -> B) (kv : str * A) : str * B := (fst kv, g (snd kv)).

Lemma dict_set_In {A} k (v : A) d k' x :
  In (k', x) (dict_set k v d) -> (k' = k /\ x = v) \/ In (k', x) d.
Proof.
  induction d as [|[k0 v0] d IH]; cbn [dict_set]; intro H.
  - destruct H as [E|[]]. inversion E; subst. left; split; reflexivity.
  - destruct (str_eqb k k0) eqn:E.
    + apply str_eqb_eq in E; subst. destruct H as [E|H].
      * inversion E; subst. left; split; reflexivity.
      * right; right; exact H.
    + destruct H as [E'|H].
      * right; left; exact E'.
      * destruct (IH H) as [L|Rr]; [left; exact L | right; right; exact Rr].
Qed.

Lemma dict_set_keys {A} k (v : A) d k' :
  In k' (map fst (dict_set k v d)) <-> k' = k \/ In k' (map fst d).
Proof.
  induction d as [|[k0 v0] d IH]; cbn [dict_set map fst In].
  - split; [intros [E|[]]; left; auto | intros [E|[]]; left; auto].
  - destruct (str_eqb k k0) eqn:E.
    + apply str_eqb_eq in E; subst. cbn [map fst In]. split; [tauto|]. intros [->|H]; tauto.
    + cbn [map fst In]. rewrite IH. tauto.
Qed.

Lemma dict_set_fresh {A} k (v : A) d : ~ In k (map fst d) -> dict_set k v d = d ++ [(k, v)].
Proof.
  induction d as [|[k0 v0] d IH]; cbn [dict_set map fst In app]; intro H; [reflexivity|].
  destruct (str_eqb k k0) eqn:E.
  - apply str_eqb_eq in E; subst. exfalso; apply H; left; reflexivity.
  - rewrite IH; [reflexivity|]. intro H'. apply H. right; exact H'.
Qed.

Lemma dict_set_NoDup {A} k (v : A) d : NoDup (map fst d) -> NoDup (map fst (dict_set k v d)).
Proof.
  induction d as [|[k0 v0] d IH]; cbn [dict_set map fst]; intro ND.
  - constructor; [intros [] | constructor].
  - inversion ND as [|? ? Hnot ND']; subst. destruct (str_eqb k k0) eqn:E.
    + cbn [map fst]. constructor; assumption.
    + cbn [map fst]. constructor; [|apply IH; exact ND'].
      rewrite dict_set_keys. intros [->|H]; [|contradiction].
      rewrite str_eqb_refl in E. discriminate.
Qed.

Lemma dict_set_vmap {A B} (g : A -> B) k v d :
  dict_set k (g v) (map (vmap g) d) = map (vmap g) (dict_set k v d).
Proof.
  induction d as [|[k0 v0] d IH]; cbn [dict_set map vmap fst snd]; [reflexivity|].
  destruct (str_eqb k k0); cbn [map vmap fst snd]; [reflexivity|]. rewrite IH. reflexivity.
Qed.

Lemma dict_from_In {A} (l acc : list (str * A)) k x :
  In (k, x) (dict_from acc l) -> In (k, x) acc \/ In (k, x) l.
Proof.
  revert acc. induction l as [|[k0 v0] l IH]; intros acc H.
  - left; exact H.
  - rewrite dict_from_cons in H. cbn [fst snd] in H. destruct (IH _ H) as [H1|H1].
    + destruct (dict_set_In _ _ _ _ _ H1) as [[-> ->]|H2]; [right; left; reflexivity | left; exact H2].
    + right; right; exact H1.
Qed.

Lemma dict_from_keys {A} (l acc : list (str * A)) k :
  In k (map fst (dict_from acc l)) <-> In k (map fst acc) \/ In k (map fst l).
Proof.
  revert acc. induction l as [|[k0 v0] l IH]; intro acc.
  - cbn [dict_from fold_left map In]. tauto.
  - rewrite dict_from_cons, IH, dict_set_keys. cbn [map fst snd In]. split.
    + intros [[->|H]|H]; auto.
    + intros [H|[->|H]]; auto.
Qed.

Lemma dict_from_NoDup {A} (l acc : list (str * A)) :
  NoDup (map fst acc) -> NoDup (map fst (dict_from acc l)).
Proof.
  revert acc. induction l as [|kv l IH]; intros acc ND; [exact ND|].
  rewrite dict_from_cons. apply IH. apply dict_set_NoDup. exact ND.
Qed.

Lemma dict_from_vmap {A B} (g : A -> B) (l acc : list (str * A)) :
  dict_from (map (vmap g) acc) (map (vmap g) l) = map (vmap g) (dict_from acc l).
Proof.
  revert acc. induction l as [|kv l IH]; intro acc; [reflexivity|].
  cbn [map]. rewrite !dict_from_cons. cbn [vmap fst snd]. rewrite dict_set_vmap. apply IH.
Qed.

Lemma dict_from_fresh {A} (l acc : list (str * A)) :
  NoDup (map fst (acc ++ l)) -> dict_from acc l = acc ++ l.
Proof.
  revert acc. induction l as [|[k v] l IH]; intros acc ND.
  - cbn [dict_from fold_left]. rewrite app_nil_r. reflexivity.
  - rewrite dict_from_cons. cbn [fst snd].
    assert (Hk : ~ In k (map fst acc)).
    { rewrite map_app in ND. cbn [map fst] in ND. apply NoDup_remove_2 in ND.
      intro H. apply ND. apply in_or_app. left; exact H. }
    rewrite (dict_set_fresh k v acc Hk). rewrite IH.
    + rewrite <- app_assoc. reflexivity.
    + rewrite <- app_assoc. exact ND.
Qed.

Lemma dict_of_In {A} (l : list (str * A)) k x : In (k, x) (dict_of l) -> In (k, x) l.
Proof. intro H. apply dict_from_In in H. destruct H as [[]|H]; exact H. Qed.

Lemma dict_of_keys {A} (l : list (str * A)) k : In k (map fst (dict_of l)) <-> In k (map fst l).
Proof. rewrite dict_of_from, dict_from_keys. cbn [map In]. tauto. Qed.

Lemma dict_of_NoDup {A} (l : list (str * A)) : NoDup (map fst (dict_of l)).
Proof. apply dict_from_NoDup. constructor. Qed.

Lemma dict_of_vmap {A B} (g : A -> B) (l : list (str * A)) :
  dict_of (map (vmap g) l) = map (vmap g) (dict_of l).
Proof. exact (dict_from_vmap g l []). Qed.

Lemma dict_of_fresh {A} (l : list (str * A)) : NoDup (map fst l) -> dict_of l = l.
Proof. intro ND. exact (dict_from_fresh l [] ND). Qed.

Lemma dict_of_idem {A} (l : list (str * A)) : dict_of (dict_of l) = dict_of l.
Proof. apply dict_of_fresh. apply dict_of_NoDup. Qed.

Lemma dict_of_forallb {A} (f : A -> bool) (l : list (str * A)) :
  forallb (fun kv => f (snd kv)) l = true -> forallb (fun kv => f (snd kv)) (dict_of l) = true.
Proof.
  intro H. apply forallb_forall. intros [k x] Hin. apply dict_of_In in Hin.
  exact (forallb_In _ _ _ H Hin).
Qed.

(* ------------------------------------------------------------------------------------------ *)
(* pair-lambda normal forms                                                                    *)

Definition rk (kvs : list (key * val)) : list (str * val) :=
  map (fun kv => (render (fst kv), snd kv)) kvs.

Definition kstr (kv : str * val) : key * val := (KStr (fst kv), snd kv).

Lemma map_render {B} (f : val -> B) (kvs : list (key * val)) :
  map (fun kv : key * val => let '(k, x) := kv in (render k, f x)) kvs = map (vmap f) (rk kvs).
Proof. unfold rk. rewrite map_map. apply map_ext. intros [k x]. reflexivity. Qed.

Lemma map_field {B} (f : val -> B) (fl : list (str * val)) :
  map (fun nv : str * val => let '(n, x) := nv in (n, f x)) fl = map (vmap f) fl.
Proof. apply map_ext. intros [k x]. reflexivity. Qed.

Lemma map_fst_vmap {A B} (g : A -> B) (l : list (str * A)) : map fst (map (vmap g) l) = map fst l.
Proof. rewrite map_map. apply map_ext. intros [k x]. reflexivity. Qed.

Lemma vmap_vmap {A B C} (g : A -> B) (h : B -> C) (l : list (str * A)) :
  map (vmap h) (map (vmap g) l) = map (vmap (fun x => h (g x))) l.
Proof. rewrite map_map. apply map_ext. intros [k x]. reflexivity. Qed.

Lemma vmap_ext_in {A B} (g h : A -> B) (l : list (str * A)) :
  (forall k x, In (k, x) l -> g x = h x) -> map (vmap g) l = map (vmap h) l.
Proof.
  intro H. apply map_ext_in. intros [k x] Hin. unfold vmap. cbn [fst snd]. rewrite (H k x Hin). reflexivity.
Qed.

Lemma embed_obj (D : list (str * json)) : embed (JObj D) = VDict (map kstr (map (vmap embed) D)).
Proof. cbn [embed]. f_equal. rewrite map_map. apply map_ext. intros [k x]. reflexivity. Qed.

Lemma rk_dict_In (kvs : list (key * val)) k x :
  In (k, x) (dict_of (rk kvs)) -> exists k0, In (k0, x) kvs /\ render k0 = k.
Proof.
  intro H. apply dict_of_In in H. unfold rk in H. apply in_map_iff in H.
  destruct H as [[k0 x0] [E Hin]]. cbn [fst snd] in E. inversion E; subst.
  exists k0. split; [exact Hin | reflexivity].
Qed.

Lemma rk_dict_Forall (Q : val -> Prop) (kvs : list (key * val)) :
  Forall (fun kv => Q (snd kv)) kvs -> forall k x, In (k, x) (dict_of (rk kvs)) -> Q x.
Proof.
  intros HF k x Hin. apply rk_dict_In in Hin. destruct Hin as [k0 [Hin _]].
  rewrite Forall_forall in HF. exact (HF (k0, x) Hin).
Qed.

Lemma rk_dict_keys (kvs : list (key * val)) k :
  In k (map fst (dict_of (rk kvs))) -> exists kv, In kv kvs /\ render (fst kv) = k.
Proof.
  intro H. apply (proj1 (dict_of_keys _ _)) in H. unfold rk in H. rewrite map_map in H. cbn [fst] in H.
  apply in_map_iff in H. destruct H as [kv [E Hin]]. exists kv. split; [exact Hin | exact E].
Qed.

Section Ser.
  Variable enc : bytes -> str.

  Lemma serialize_dict b kvs :
    serialize enc b (VDict kvs) = JObj (map (vmap (serialize enc b)) (dict_of (rk kvs))).
  Proof. cbn [serialize]. rewrite map_render, dict_of_vmap. reflexivity. Qed.

  Lemma serialize_data b c fl :
    serialize enc b (VData c fl) = JObj (dict_of ((K_TYPE, JStr c) :: map (vmap (serialize enc b)) fl)).
  Proof. cbn [serialize]. rewrite map_field. reflexivity. Qed.

  Lemma canon_dict kvs : canon (VDict kvs) = VDict (map kstr (map (vmap canon) (dict_of (rk kvs)))).
  Proof. cbn [canon]. rewrite map_render, dict_of_vmap. reflexivity. Qed.

  Lemma canon_data c fl : canon (VData c fl) = VData c (map (vmap canon) fl).
  Proof. cbn [canon]. rewrite map_field. reflexivity. Qed.

  (* plain values survive an untyped position *)
  Lemma embed_plain b : forall v, plain v = true -> embed (serialize enc b v) = canon v.
  Proof.
    induction v as [| | | | | | | |l IH|l IH|l IH|kvs IH|c fl IH|] using val_ind'; intro Hp;
      try reflexivity; try discriminate Hp.
    - cbn [plain] in Hp. cbn [serialize embed canon]. f_equal. rewrite map_map. apply map_ext_in.
      intros x Hx. rewrite Forall_forall in IH. apply IH; [exact Hx | exact (forallb_In _ _ _ Hp Hx)].
    - cbn [plain] in Hp. cbn [serialize embed canon]. f_equal. rewrite map_map. apply map_ext_in.
      intros x Hx. rewrite Forall_forall in IH. apply IH; [exact Hx | exact (forallb_In _ _ _ Hp Hx)].
    - cbn [plain] in Hp. cbn [serialize embed canon]. f_equal. rewrite map_map. apply map_ext_in.
      intros x Hx. rewrite Forall_forall in IH. apply IH; [exact Hx | exact (forallb_In _ _ _ Hp Hx)].
    - cbn [plain] in Hp. rewrite serialize_dict, canon_dict, embed_obj. f_equal. f_equal.
      rewrite vmap_vmap. apply vmap_ext_in. intros k x Hin.
      apply rk_dict_In in Hin. destruct Hin as [k0 [Hin _]].
      rewrite Forall_forall in IH. apply (IH (k0, x) Hin). exact (forallb_In _ _ _ Hp Hin).
  Qed.
End Ser.

(* ------------------------------------------------------------------------------------------ *)
(* str.strip() on an already stripped string                                                   *)

Lemma rev_head_last {A} (x : list A) (d : A) : x <> [] -> exists r, rev x = last x d :: r.
Proof.
  intro H. destruct (exists_last H) as [l' [a E]]. subst x.
  rewrite rev_app_distr, last_last. cbn [rev app]. exists (rev l'). reflexivity.
Qed.

Lemma strip_stripped (sp : N -> bool) (y : str) : is_stripped sp y = true -> strip_with sp y = y.
Proof.
  unfold is_stripped, strip_with. destruct y as [|c r]; [reflexivity|].
  intro H. apply andb_true_iff in H. destruct H as [H1 H2].
  apply negb_true_iff in H1. apply negb_true_iff in H2.
  cbn [dropWhile]. rewrite H1.
  destruct (rev_head_last (c :: r) c) as [t E]; [discriminate|].
  rewrite E. cbn [dropWhile]. rewrite H2. rewrite <- E. apply rev_involutive.
Qed.

(* ------------------------------------------------------------------------------------------ *)
(* fields of a class                                                                            *)

Lemma find_field_In k f :
  NoDup (map f_name (c_fields k)) -> In f (c_fields k) -> find_field k (f_name f) = Some f.
Proof.
  unfold find_field. induction (c_fields k) as [|f0 fs IH]; cbn [map find]; intros ND Hin; [destruct Hin|].
  inversion ND as [|? ? Hnot ND']; subst. destruct Hin as [->|Hin].
  - rewrite str_eqb_refl. reflexivity.
  - destruct (str_eqb (f_name f0) (f_name f)) eqn:E.
    + apply str_eqb_eq in E. exfalso. apply Hnot. rewrite E. apply in_map. exact Hin.
    + apply IH; assumption.
Qed.

Lemma find_field_None k n : ~ In n (map f_name (c_fields k)) -> find_field k n = None.
Proof.
  intro H. unfold find_field. apply find_None_forall. intros f Hf.
  apply str_eqb_neq. intro E. apply H. rewrite <- E. apply in_map. exact Hf.
Qed.

Lemma find_field_Some k n f : find_field k n = Some f -> f_name f = n /\ In f (c_fields k).
Proof.
  unfold find_field. intro H. apply find_some in H. destruct H as [H1 H2].
  apply str_eqb_eq in H2. split; assumption.
Qed.

Lemma shim_nil k keys kk old new d :
  (forall f, In f (c_fields k) -> In (f_name f) keys) -> shim k keys kk old new d = [].
Proof.
  intro H. unfold shim. destruct (find_field k new) as [f|] eqn:E.
  - apply find_field_Some in E. destruct E as [E1 E2]. specialize (H f E2). rewrite E1 in H.
    apply mem_str_In in H. rewrite H. cbn [negb]. rewrite andb_false_r. reflexivity.
  - destruct (str_eqb (c_name k) IMAGE_METADATA && str_eqb kk old && negb (mem_str new keys)); reflexivity.
Qed.

Lemma find_cls_Some R c k : find_cls R c = Some k -> In k R /\ c_name k = c.
Proof.
  unfold find_cls. intro H. apply find_some in H. destruct H as [H1 H2].
  apply str_eqb_eq in H2. split; assumption.
Qed.

Lemma marker_bytesio : In K_BYTESIO markers. Proof. left; reflexivity. Qed.
Lemma marker_bytes : In K_BYTES markers. Proof. right; left; reflexivity. Qed.
Lemma marker_type : In K_TYPE markers. Proof. right; right; left; reflexivity. Qed.

Lemma type_ne_bytesio : K_BYTESIO <> K_TYPE. Proof. apply str_eqb_neq. vm_compute. reflexivity. Qed.
Lemma type_ne_bytes : K_BYTES <> K_TYPE. Proof. apply str_eqb_neq. vm_compute. reflexivity. Qed.

(* ------------------------------------------------------------------------------------------ *)
Section RT.
  Variables (enc : bytes -> str) (dec : str -> option bytes) (isspace : N -> bool) (R : registry).
  Variable okb : bytes -> bool.          (* the byte strings on which the codec law is assumed *)
  Hypothesis dec_enc : forall b, okb b = true -> dec (enc b) = Some b.
  Hypothesis Rwf : registry_wf R = true.

  Notation deser' := (deser dec isspace R).
  Notation has_type' := (has_type isspace R).

  (* the body of _deserialize_dataclass *)
  Definition dc (kvs : list (str * json)) (expected : option cls) : option val :=
    match resolve_cls R (assoc K_TYPE kvs) expected with
    | None => None
    | Some None => Some (embed (JObj kvs))
    | Some (Some c) =>
        construct isspace c
          (flat_map (fun kv => entries_for c (map fst kvs) (fst kv) (fun T' => deser' false (snd kv) T')) kvs)
    end.

  Lemma deser_obj top kvs T :
    deser' top (JObj kvs) T =
      if negb top && has_key K_BYTESIO kvs then
        option_map (fun b => VBytesIO b 0) (b64_bytes dec (assoc K_BYTESIO kvs))
      else if negb top && has_key K_BYTES kvs then
        option_map VBytes (b64_bytes dec (assoc K_BYTES kvs))
      else if top || has_key K_TYPE kvs then dc kvs None
      else
        match unwrap_optional T with
        | TDict kv =>
            option_map (fun l => VDict l)
              (sequence (map (fun kx => option_map (fun v => (KStr (fst kx), v))
                                          (deser' false (snd kx) (value_ty kv))) kvs))
        | TPrim n =>
            match find_cls R n with
            | Some c => dc kvs (Some c)
            | None => Some (embed (JObj kvs))
            end
        | _ => Some (embed (JObj kvs))
        end.
  Proof.
    assert (Edc : forall expected,
      match resolve_cls R (assoc K_TYPE kvs) expected with
      | None => None
      | Some None => Some (embed (JObj kvs))
      | Some (Some c) =>
          construct isspace c
            (flat_map (fun kv : str * json => let '(k, x) := kv in
                         entries_for c (map fst kvs) k (fun T' => deser' false x T')) kvs)
      end = dc kvs expected).
    { intro expected. unfold dc. destruct (resolve_cls R (assoc K_TYPE kvs) expected) as [[c|]|]; try reflexivity.
      f_equal. apply flat_map_ext. intros [k x]. reflexivity. }
    assert (Eseq : forall kv,
      map (fun kx : str * json => let '(k, x) := kx in
             option_map (fun v => (KStr k, v)) (deser' false x (value_ty kv))) kvs
      = map (fun kx => option_map (fun v => (KStr (fst kx), v)) (deser' false (snd kx) (value_ty kv))) kvs).
    { intro kv. apply map_ext. intros [k x]. reflexivity. }
    cbn [deser]. rewrite !Edc.
    destruct (negb top && has_key K_BYTESIO kvs); [reflexivity|].
    destruct (negb top && has_key K_BYTES kvs); [reflexivity|].
    destruct (top || has_key K_TYPE kvs); [reflexivity|].
    destruct (unwrap_optional T); try reflexivity.
    - destruct (find_cls R name) as [c|]; [apply Edc | reflexivity].
    - rewrite Eseq. reflexivity.
  Qed.

  (* the field relation has_type imposes on a dataclass instance *)
  Definition field_rel (k : cls) (nv : str * val) (f : field) : Prop :=
    fst nv = f_name f /\ has_type' (snd nv) (f_ty f) = true
    /\ (mem_str (fst nv) (c_strip k) = true -> exists y, snd nv = VStr y /\ is_stripped isspace y = true).

  Lemma has_type_data c fl T :
    has_type' (VData c fl) T = true ->
    exists k, find_cls R c = Some k /\ c_abstract k = false /\ Forall2 (field_rel k) fl (c_fields k).
  Proof.
    intro H. cbn [has_type] in H. destruct (find_cls R c) as [k|]; [|discriminate H].
    apply andb_true_iff in H. destruct H as [Ha H]. apply negb_true_iff in Ha.
    exists k. split; [reflexivity|]. split; [exact Ha|]. revert H. generalize (c_fields k) as fs.
    induction fl as [|[n x] fl IH]; intros [|f fs] H; try discriminate H.
    - constructor.
    - apply andb_true_iff in H. destruct H as [H H4]. apply andb_true_iff in H. destruct H as [H H3].
      apply andb_true_iff in H. destruct H as [H1 H2]. apply str_eqb_eq in H1.
      constructor; [|apply IH; exact H4].
      unfold field_rel. cbn [fst snd]. split; [exact H1|]. split; [exact H2|].
      intro Hm. rewrite Hm in H3. destruct x; try discriminate H3. exists x. split; [reflexivity | exact H3].
  Qed.

  Lemma cls_facts c k :
    find_cls R c = Some k ->
    c_name k = c /\ c <> []
    /\ NoDup (map f_name (c_fields k))
    /\ (forall f, In f (c_fields k) -> ~ In (f_name f) markers).
  Proof.
    intro Hf. apply find_cls_Some in Hf. destruct Hf as [Hin Hn].
    unfold registry_wf in Rwf. apply andb_true_iff in Rwf. destruct Rwf as [W W3].
    apply andb_true_iff in W. destruct W as [W1 W2].
    pose proof (forallb_In _ _ _ W2 Hin) as Hok. pose proof (forallb_In _ _ _ W3 Hin) as Hne.
    cbv beta in Hne. rewrite Hn in Hne.
    unfold cls_ok in Hok. apply andb_true_iff in Hok. destruct Hok as [Hok O3].
    apply andb_true_iff in Hok. destruct Hok as [O1 O2].
    split; [exact Hn|]. split; [intro E; rewrite E in Hne; discriminate Hne|].
    split; [apply nodup_str_NoDup; exact O1|].
    intros f Hfi. pose proof (forallb_In _ _ _ O2 Hfi) as Hm. cbv beta in Hm.
    apply andb_true_iff in Hm. destruct Hm as [Hm _]. apply negb_true_iff in Hm.
    apply mem_str_false. exact Hm.
  Qed.

  Lemma data_roundtrip top c fl k T :
    find_cls R c = Some k ->
    c_abstract k = false ->
    Forall2 (field_rel k) fl (c_fields k) ->
    (forall nv, In nv fl -> forall T', has_type' (snd nv) T' = true ->
                deser' false (serialize enc true (snd nv)) T' = Some (canon (snd nv))) ->
    deser' top (serialize enc true (VData c fl)) T = Some (canon (VData c fl)).
  Proof.
    intros Hfind Habs HF IH.
    destruct (cls_facts c k Hfind) as [Hname [Hne [ND Hmark]]].
    assert (Hnames : map fst fl = map f_name (c_fields k)).
    { apply Forall2_map_eq. eapply Forall2_mono; [|exact HF]. intros a b _ _ [E _]. exact E. }
    assert (HnotM : forall m, In m markers -> ~ In m (map fst fl)).
    { intros m Hm Hin. rewrite Hnames in Hin. apply in_map_iff in Hin. destruct Hin as [f [E Hf]].
      apply (Hmark f Hf). rewrite E. exact Hm. }
    set (O := (K_TYPE, JStr c) :: map (vmap (serialize enc true)) fl).
    assert (Hkeys : map fst O = K_TYPE :: map fst fl).
    { unfold O. cbn [map fst]. rewrite map_fst_vmap. reflexivity. }
    assert (NDO : NoDup (map fst O)).
    { rewrite Hkeys. constructor; [apply HnotM; exact marker_type|]. rewrite Hnames. exact ND. }
    rewrite serialize_data. fold O. rewrite (dict_of_fresh O NDO).
    assert (K1 : has_key K_BYTESIO O = false).
    { apply has_key_false. rewrite Hkeys. intros [E|Hin]; [exact (type_ne_bytesio (eq_sym E))|].
      exact (HnotM _ marker_bytesio Hin). }
    assert (K2 : has_key K_BYTES O = false).
    { apply has_key_false. rewrite Hkeys. intros [E|Hin]; [exact (type_ne_bytes (eq_sym E))|].
      exact (HnotM _ marker_bytes Hin). }
    assert (K3 : has_key K_TYPE O = true).
    { apply has_key_In. rewrite Hkeys. left; reflexivity. }
    rewrite deser_obj, K1, K2, K3. rewrite !andb_false_r, orb_true_r.
    unfold dc.
    assert (A : assoc K_TYPE O = Some (JStr c)).
    { unfold O. cbn [assoc]. rewrite str_eqb_refl. reflexivity. }
    rewrite A.
    assert (RC : resolve_cls R (Some (JStr c)) None = Some (Some k)).
    { unfold resolve_cls. destruct c as [|c0 r]; [exfalso; apply Hne; reflexivity|]. rewrite Hfind. reflexivity. }
    rewrite RC.
    assert (Hallkeys : forall f, In f (c_fields k) -> In (f_name f) (map fst O)).
    { intros f Hf. rewrite Hkeys, Hnames. right. apply in_map. exact Hf. }
    (* kwargs *)
    assert (KW : flat_map (fun kv => entries_for k (map fst O) (fst kv) (fun T' => deser' false (snd kv) T')) O
                 = map (fun nv => (fst nv, Some (canon (snd nv)))) fl).
    { unfold O at 2. cbn [flat_map fst snd]. unfold entries_for at 1.
      rewrite (find_field_None k K_TYPE).
      2:{ rewrite <- Hnames. apply HnotM. exact marker_type. }
      rewrite !(shim_nil k (map fst O)) by exact Hallkeys. cbn [app].
      rewrite flat_map_map. apply flat_map_singleton. intros nv Hnv.
      unfold vmap. cbn [fst snd]. unfold entries_for.
      rewrite !(shim_nil k (map fst O)) by exact Hallkeys. rewrite app_nil_r.
      destruct (Forall2_In_l _ _ _ _ HF Hnv) as [f [Hf [E1 [E2 _]]]].
      rewrite E1. rewrite (find_field_In k f ND Hf). rewrite (IH nv Hnv _ E2). reflexivity. }
    rewrite KW. unfold construct. rewrite Habs.
    set (KWl := map (fun nv : str * val => (fst nv, Some (canon (snd nv)))) fl).
    assert (NDK : NoDup (map fst KWl)).
    { replace (map fst KWl) with (map fst fl); [rewrite Hnames; exact ND|].
      unfold KWl. rewrite map_map. reflexivity. }
    assert (SQ : sequence (map (fun f => match assoc (f_name f) KWl with
                                         | Some r => r
                                         | None => f_default f
                                         end) (c_fields k))
                 = Some (map (fun nv => canon (snd nv)) fl)).
    { apply sequence_Forall2. eapply Forall2_mono; [|exact HF].
      intros nv f Hnv Hf [E1 _]. cbv beta.
      rewrite (assoc_NoDup_In (f_name f) (Some (canon (snd nv))) KWl NDK); [reflexivity|].
      unfold KWl. apply in_map_iff. exists nv. split; [rewrite E1; reflexivity | exact Hnv]. }
    rewrite SQ. rewrite <- Hnames. rewrite combine_map_map.
    change (map (fun x : str * val => (fst x, canon (snd x))) fl) with (map (vmap canon) fl).
    unfold post_init. rewrite sequence_map_id.
    - cbn [option_map]. rewrite Hname, canon_data. reflexivity.
    - intros nv' Hnv'. apply in_map_iff in Hnv'. destruct Hnv' as [nv [E Hnv]]. subst nv'.
      unfold vmap. cbn [fst snd].
      destruct (mem_str (fst nv) (c_strip k)) eqn:Em; [|reflexivity].
      destruct (Forall2_In_l _ _ _ _ HF Hnv) as [f [Hf [_ [_ E3]]]].
      destruct (E3 Em) as [y [Ey Hy]]. rewrite Ey. cbn [canon]. unfold strip.
      rewrite (strip_stripped isspace y Hy). reflexivity.
  Qed.

  Lemma has_key_singleton_bytes_io (j : json) : has_key K_BYTESIO [(K_BYTES, j)] = false.
  Proof. reflexivity. Qed.
  Lemma has_key_singleton_bytes (j : json) : has_key K_BYTES [(K_BYTES, j)] = true.
  Proof. reflexivity. Qed.
  Lemma assoc_singleton_bytes (j : json) : assoc K_BYTES [(K_BYTES, j)] = Some j.
  Proof. reflexivity. Qed.
  Lemma has_key_singleton_bytesio (j : json) : has_key K_BYTESIO [(K_BYTESIO, j)] = true.
  Proof. reflexivity. Qed.
  Lemma assoc_singleton_bytesio (j : json) : assoc K_BYTESIO [(K_BYTESIO, j)] = Some j.
  Proof. reflexivity. Qed.

  Lemma bytesio_b64 c p : fst (bytesio_to_base64 enc {| b_content := c; b_pos := p |}) = enc c.
  Proof. reflexivity. Qed.

  (* sequences (list / tuple / set) share one argument *)
  Lemma seq_roundtrip (l : list val) T :
    Forall (fun v => forall T, has_type' v T = true -> keys_not_markers v = true ->
                               payloads_ok okb v = true ->
                               deser' false (serialize enc true v) T = Some (canon v)) l ->
    match unwrap_optional T with
    | TList a => forallb (fun x => has_type' x (elem_ty a)) l
    | _ => forallb plain l
    end = true ->
    forallb keys_not_markers l = true ->
    forallb (payloads_ok okb) l = true ->
    deser' false (JList (map (serialize enc true) l)) T = Some (VList (map canon l)).
  Proof.
    intros IH H K B. rewrite Forall_forall in IH. cbn [deser].
    assert (Hplain : forallb plain l = true ->
                     Some (embed (JList (map (serialize enc true) l))) = Some (VList (map canon l))).
    { intro Hp. cbn [embed]. f_equal. f_equal. rewrite map_map. apply map_ext_in.
      intros x Hx. apply embed_plain. exact (forallb_In _ _ _ Hp Hx). }
    destruct (unwrap_optional T) as [| | | | | |a| | | |]; try (exact (Hplain H)).
    rewrite map_map. rewrite (sequence_map_some _ canon); [reflexivity|].
    intros x Hx. apply IH; [exact Hx | exact (forallb_In _ _ _ H Hx) | exact (forallb_In _ _ _ K Hx)
                            | exact (forallb_In _ _ _ B Hx)].
  Qed.

  Theorem roundtrip_value_ok : forall v T,
    has_type' v T = true -> keys_not_markers v = true -> payloads_ok okb v = true ->
    deser' false (serialize enc true v) T = Some (canon v).
  Proof.
    induction v as [| | | | | | | |l IH|l IH|l IH|kvs IH|c fl IH|] using val_ind'; intros T H K B.
    - reflexivity.
    - reflexivity.
    - reflexivity.
    - reflexivity.
    - (* VStr *)
      cbn [has_type] in H. cbn [serialize deser canon].
      destruct (unwrap_optional T); try reflexivity; discriminate H.
    - (* VBytes *)
      cbn [serialize canon]. rewrite deser_obj. cbn [negb andb].
      rewrite has_key_singleton_bytes_io, has_key_singleton_bytes, assoc_singleton_bytes.
      cbn [b64_bytes]. cbn [payloads_ok] in B. rewrite (dec_enc _ B). reflexivity.
    - (* VBytearray *)
      cbn [serialize canon]. rewrite deser_obj. cbn [negb andb].
      rewrite has_key_singleton_bytes_io, has_key_singleton_bytes, assoc_singleton_bytes.
      cbn [b64_bytes]. cbn [payloads_ok] in B. rewrite (dec_enc _ B). reflexivity.
    - (* VBytesIO *)
      cbn [serialize canon]. rewrite bytesio_b64. rewrite deser_obj. cbn [negb andb].
      rewrite has_key_singleton_bytesio, assoc_singleton_bytesio.
      cbn [b64_bytes]. cbn [payloads_ok] in B. rewrite (dec_enc _ B). reflexivity.
    - cbn [has_type] in H. cbn [keys_not_markers] in K. cbn [payloads_ok] in B. cbn [serialize canon].
      apply seq_roundtrip; assumption.
    - cbn [has_type] in H. cbn [keys_not_markers] in K. cbn [payloads_ok] in B. cbn [serialize canon].
      apply seq_roundtrip; assumption.
    - cbn [has_type] in H. cbn [keys_not_markers] in K. cbn [payloads_ok] in B. cbn [serialize canon].
      apply seq_roundtrip; assumption.
    - (* VDict *)
      cbn [keys_not_markers] in K.
      pose proof (serialize_dict enc true kvs) as ES.
      set (D0 := dict_of (rk kvs)) in ES.
      set (O := map (vmap (serialize enc true)) D0) in ES.
      assert (HM : forall m, In m markers -> has_key m O = false).
      { intros m Hm. apply has_key_false. unfold O. rewrite map_fst_vmap. intro Hin.
        apply rk_dict_keys in Hin. destruct Hin as [kv [Hkv E]].
        pose proof (forallb_In _ _ _ K Hkv) as Hk. cbv beta in Hk.
        apply andb_true_iff in Hk. destruct Hk as [Hk _]. apply negb_true_iff in Hk.
        apply mem_str_false in Hk. apply Hk. rewrite E. exact Hm. }
      assert (Hplain : forallb (fun kx => plain (snd kx)) kvs = true ->
                       Some (embed (JObj O)) = Some (canon (VDict kvs))).
      { intro Hp. rewrite <- ES. f_equal. apply embed_plain. exact Hp. }
      rewrite ES, deser_obj.
      rewrite (HM _ marker_bytesio), (HM _ marker_bytes), (HM _ marker_type). cbn [negb andb orb].
      cbn [has_type] in H.
      destruct (unwrap_optional T) as [| |n| | | | |kv| | |]; try (exact (Hplain H)).
      + destruct (find_cls R n); [discriminate H | exact (Hplain H)].
      + unfold O. rewrite map_map.
        rewrite (sequence_map_some _ (fun kx => (KStr (fst kx), canon (snd kx)))).
        * cbn [option_map]. rewrite canon_dict. fold D0. rewrite map_map. reflexivity.
        * intros [k x] Hin. unfold vmap. cbn [fst snd].
          destruct (rk_dict_In _ _ _ Hin) as [k0 [Hin0 _]].
          rewrite Forall_forall in IH. pose proof (IH (k0, x) Hin0 (value_ty kv)) as IHx.
          cbn [snd] in IHx. rewrite IHx; [reflexivity| | |].
          -- exact (forallb_In _ _ _ H Hin0).
          -- pose proof (forallb_In _ _ _ K Hin0) as Hk. cbv beta in Hk.
             apply andb_true_iff in Hk. destruct Hk as [_ Hk]. exact Hk.
          -- cbn [payloads_ok] in B. exact (forallb_In _ _ _ B Hin0).
    - (* VData *)
      destruct (has_type_data c fl T H) as [k [Hfind [Habs HF]]].
      apply (data_roundtrip false c fl k T Hfind Habs HF).
      intros nv Hnv T' HT. rewrite Forall_forall in IH. apply (IH nv Hnv T' HT).
      + cbn [keys_not_markers] in K. exact (forallb_In _ _ _ K Hnv).
      + cbn [payloads_ok] in B. exact (forallb_In _ _ _ B Hnv).
    - reflexivity.
  Qed.

  Theorem roundtrip_top_ok : forall c fl,
    has_type' (VData c fl) TAny = true -> keys_not_markers (VData c fl) = true ->
    payloads_ok okb (VData c fl) = true ->
    from_json dec isspace R (to_json enc (VData c fl)) = Some (canon (VData c fl)).
  Proof.
    intros c fl H K B.
    destruct (has_type_data c fl TAny H) as [k [Hfind [Habs HF]]].
    assert (E : deser' true (serialize enc true (VData c fl)) TAny = Some (canon (VData c fl))).
    { apply (data_roundtrip true c fl k TAny Hfind Habs HF).
      intros nv Hnv T' HT. apply roundtrip_value_ok; [exact HT| |].
      - cbn [keys_not_markers] in K. exact (forallb_In _ _ _ K Hnv).
      - cbn [payloads_ok] in B. exact (forallb_In _ _ _ B Hnv). }
    unfold to_json, serialize_extraction.
    rewrite serialize_data in *. unfold from_json.
    set (O := dict_of ((K_TYPE, JStr c) :: map (vmap (serialize enc true)) fl)) in *.
    assert (K3 : has_key K_TYPE O = true).
    { apply has_key_In. unfold O. apply dict_of_keys. left; reflexivity. }
    rewrite K3. exact E.
  Qed.

  (* ---------------------------------------------------------------------------------------- *)
  (* 3. corollaries                                                                            *)

  Lemma rk_kstr (L : list (str * val)) : rk (map kstr L) = L.
  Proof.
    unfold rk. rewrite map_map. rewrite <- (map_id L) at 2. apply map_ext. intros [k x]. reflexivity.
  Qed.

  Theorem serialize_canon : forall b v, serialize enc b (canon v) = serialize enc b v.
  Proof.
    intro b.
    induction v as [| | | | | | | |l IH|l IH|l IH|kvs IH|c fl IH|] using val_ind'; try reflexivity.
    - cbn [canon serialize]. f_equal. rewrite map_map. apply map_ext_in.
      intros x Hx. rewrite Forall_forall in IH. exact (IH x Hx).
    - cbn [canon serialize]. f_equal. rewrite map_map. apply map_ext_in.
      intros x Hx. rewrite Forall_forall in IH. exact (IH x Hx).
    - cbn [canon serialize]. f_equal. rewrite map_map. apply map_ext_in.
      intros x Hx. rewrite Forall_forall in IH. exact (IH x Hx).
    - rewrite canon_dict, !serialize_dict. f_equal. rewrite rk_kstr.
      rewrite dict_of_vmap, dict_of_idem, vmap_vmap. apply vmap_ext_in.
      intros k x Hin.
      exact (rk_dict_Forall (fun x => serialize enc b (canon x) = serialize enc b x) kvs IH k x Hin).
    - rewrite canon_data, !serialize_data. rewrite vmap_vmap. f_equal. f_equal. f_equal.
      apply vmap_ext_in. intros k x Hin. rewrite Forall_forall in IH. exact (IH (k, x) Hin).
  Qed.

  Lemma dumps_ok : forall b v, no_other v = true -> encodable (serialize enc b v) = true.
  Proof.
    intro b.
    induction v as [| | | | | | | |l IH|l IH|l IH|kvs IH|c fl IH|] using val_ind'; intro Hn;
      try reflexivity; try discriminate Hn; try (destruct b; reflexivity).
    - cbn [no_other] in Hn. cbn [serialize encodable]. apply forallb_forall. intros j Hj.
      apply in_map_iff in Hj. destruct Hj as [x [E Hx]]. subst j.
      rewrite Forall_forall in IH. apply (IH x Hx). exact (forallb_In _ _ _ Hn Hx).
    - cbn [no_other] in Hn. cbn [serialize encodable]. apply forallb_forall. intros j Hj.
      apply in_map_iff in Hj. destruct Hj as [x [E Hx]]. subst j.
      rewrite Forall_forall in IH. apply (IH x Hx). exact (forallb_In _ _ _ Hn Hx).
    - cbn [no_other] in Hn. cbn [serialize encodable]. apply forallb_forall. intros j Hj.
      apply in_map_iff in Hj. destruct Hj as [x [E Hx]]. subst j.
      rewrite Forall_forall in IH. apply (IH x Hx). exact (forallb_In _ _ _ Hn Hx).
    - cbn [no_other] in Hn. rewrite serialize_dict. cbn [encodable]. apply forallb_forall.
      intros kj Hj. apply in_map_iff in Hj. destruct Hj as [[k x] [E Hx]]. subst kj.
      unfold vmap. cbn [fst snd]. destruct (rk_dict_In _ _ _ Hx) as [k0 [Hin _]].
      rewrite Forall_forall in IH. apply (IH (k0, x) Hin). exact (forallb_In _ _ _ Hn Hin).
    - cbn [no_other] in Hn. rewrite serialize_data. cbn [encodable]. apply forallb_forall.
      intros [k j] Hj. apply dict_of_In in Hj. cbn [snd]. destruct Hj as [E|Hj].
      + inversion E; subst. reflexivity.
      + apply in_map_iff in Hj. destruct Hj as [[n x] [E Hx]]. unfold vmap in E. cbn [fst snd] in E.
        inversion E; subst. rewrite Forall_forall in IH. apply (IH (k, x) Hx).
        exact (forallb_In _ _ _ Hn Hx).
  Qed.

  (* rendered keys of every dict are pairwise distinct *)
  Fixpoint dict_keys_distinct (v : val) : bool :=
    match v with
    | VList l | VTuple l | VSet l => forallb dict_keys_distinct l
    | VDict kvs =>
        nodup_str (map (fun kv => render (fst kv)) kvs)
        && forallb (fun kv => dict_keys_distinct (snd kv)) kvs
    | VData _ fl => forallb (fun nv => dict_keys_distinct (snd nv)) fl
    | _ => true
    end.

  Lemma payloads_canon : forall v, dict_keys_distinct v = true -> payloads (canon v) = payloads v.
  Proof.
    induction v as [| | | | | | | |l IH|l IH|l IH|kvs IH|c fl IH|] using val_ind'; intro Hd;
      try reflexivity.
    - cbn [dict_keys_distinct] in Hd. cbn [canon payloads]. rewrite flat_map_map.
      apply flat_map_ext_in. intros x Hx. rewrite Forall_forall in IH.
      apply (IH x Hx). exact (forallb_In _ _ _ Hd Hx).
    - cbn [dict_keys_distinct] in Hd. cbn [canon payloads]. rewrite flat_map_map.
      apply flat_map_ext_in. intros x Hx. rewrite Forall_forall in IH.
      apply (IH x Hx). exact (forallb_In _ _ _ Hd Hx).
    - cbn [dict_keys_distinct] in Hd. cbn [canon payloads]. rewrite flat_map_map.
      apply flat_map_ext_in. intros x Hx. rewrite Forall_forall in IH.
      apply (IH x Hx). exact (forallb_In _ _ _ Hd Hx).
    - cbn [dict_keys_distinct] in Hd. apply andb_true_iff in Hd. destruct Hd as [Hd1 Hd2].
      rewrite canon_dict. rewrite dict_of_fresh.
      2:{ unfold rk. rewrite map_map. cbn [fst]. apply nodup_str_NoDup. exact Hd1. }
      cbn [payloads]. unfold rk. rewrite !flat_map_map. apply flat_map_ext_in.
      intros [k x] Hx. unfold kstr, vmap. cbn [fst snd]. rewrite Forall_forall in IH.
      apply (IH (k, x) Hx). exact (forallb_In _ _ _ Hd2 Hx).
    - cbn [dict_keys_distinct] in Hd. rewrite canon_data. cbn [payloads]. rewrite flat_map_map.
      apply flat_map_ext_in. intros [k x] Hx. unfold vmap. cbn [fst snd].
      rewrite Forall_forall in IH. apply (IH (k, x) Hx). exact (forallb_In _ _ _ Hd Hx).
  Qed.

  Theorem roundtrip_pipeline_ok : forall c fl, let v := VData c fl in
    has_type' v TAny = true -> keys_not_markers v = true -> no_other v = true ->
    payloads_ok okb v = true ->
    exists w, pipeline enc dec isspace R v = Some w /\ w = canon v
              /\ to_json enc w = to_json enc v /\ class_of w = Some c
              /\ (dict_keys_distinct v = true -> payloads w = payloads v)
              /\ (forall b, serialize enc b w = serialize enc b v).
  Proof.
    intros c fl v H K Nn B. exists (canon v).
    assert (TJ : to_json enc v = serialize enc true v).
    { unfold v, to_json, serialize_extraction. rewrite serialize_data. reflexivity. }
    split.
    { unfold pipeline, json_text_roundtrip. rewrite TJ. rewrite (dumps_ok true v Nn).
      rewrite <- TJ. exact (roundtrip_top_ok c fl H K B). }
    split; [reflexivity|].
    split.
    { unfold to_json, serialize_extraction. rewrite serialize_canon. reflexivity. }
    split.
    { unfold v. rewrite canon_data. reflexivity. }
    split.
    { intro Hd. exact (payloads_canon v Hd). }
    intro b. apply serialize_canon.
  Qed.
End RT.

(* the versions under the unconditional codec law *)
Lemma payloads_ok_true : forall v, payloads_ok (fun _ => true) v = true.
Proof.
  induction v as [| | | | | | | |l IH|l IH|l IH|kvs IH|c fl IH|] using val_ind'; try reflexivity;
    cbn [payloads_ok]; apply forallb_forall; rewrite Forall_forall in IH; intros x Hx; exact (IH x Hx).
Qed.

Theorem roundtrip_value :
  forall enc dec isspace R, (forall b, dec (enc b) = Some b) -> registry_wf R = true ->
  forall v T, has_type isspace R v T = true -> keys_not_markers v = true ->
    deser dec isspace R false (serialize enc true v) T = Some (canon v).
Proof.
  intros enc dec isspace R law Rwf v T H K.
  exact (roundtrip_value_ok enc dec isspace R (fun _ => true) (fun b _ => law b) Rwf v T H K (payloads_ok_true v)).
Qed.

Theorem roundtrip_top :
  forall enc dec isspace R, (forall b, dec (enc b) = Some b) -> registry_wf R = true ->
  forall c fl, has_type isspace R (VData c fl) TAny = true -> keys_not_markers (VData c fl) = true ->
    from_json dec isspace R (to_json enc (VData c fl)) = Some (canon (VData c fl)).
Proof.
  intros enc dec isspace R law Rwf c fl H K.
  exact (roundtrip_top_ok enc dec isspace R (fun _ => true) (fun b _ => law b) Rwf c fl H K (payloads_ok_true _)).
Qed.

Theorem roundtrip_pipeline :
  forall enc dec isspace R, (forall b, dec (enc b) = Some b) -> registry_wf R = true ->
  forall c fl, let v := VData c fl in
    has_type isspace R v TAny = true -> keys_not_markers v = true -> no_other v = true ->
    exists w, pipeline enc dec isspace R v = Some w /\ w = canon v
              /\ to_json enc w = to_json enc v /\ class_of w = Some c
              /\ (dict_keys_distinct v = true -> payloads w = payloads v)
              /\ (forall b, serialize enc b w = serialize enc b v).
Proof.
  intros enc dec isspace R law Rwf c fl v H K Nn.
  exact (roundtrip_pipeline_ok enc dec isspace R (fun _ => true) (fun b _ => law b) Rwf c fl H K Nn (payloads_ok_true _)).
Qed.

Print Assumptions val_ind'.
Print Assumptions roundtrip_value.
Print Assumptions roundtrip_top.
Print Assumptions serialize_canon.
Print Assumptions dumps_ok.
Print Assumptions payloads_canon.
Print Assumptions roundtrip_pipeline.
