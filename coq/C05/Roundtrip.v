(* C05 -- round-trip theorems for the model of to_json / from_json (C05/Model.v). *)
From Coq Require Import ZArith List Bool Lia ZifyBool.
From S2T Require Import Lib.PyStr C05.Model.
Import ListNotations.

(* ------------------------------------------------------------------------------------------ *)
(* 1. induction principle for the nested inductive val                                         *)

Section ValInd.
  Variable P : val -> Prop.
  Hypothesis HNone : P VNone.
  Hypothesis HBool : forall b, P (VBool b).
  Hypothesis HInt : forall z, P (VInt z).
  Hypothesis HFloat : forall t, P (VFloat t).
  Hypothesis HStr : forall x, P (VStr x).
  Hypothesis HBytes : forall b, P (VBytes b).
  Hypothesis HBytearray : forall b, P (VBytearray b).
  Hypothesis HBytesIO : forall c p, P (VBytesIO c p).
  Hypothesis HList : forall l, Forall P l -> P (VList l).
  Hypothesis HTuple : forall l, Forall P l -> P (VTuple l).
  Hypothesis HSet : forall l, Forall P l -> P (VSet l).
  Hypothesis HDict : forall kvs, Forall (fun kv => P (snd kv)) kvs -> P (VDict kvs).
  Hypothesis HData : forall c fl, Forall (fun nv => P (snd nv)) fl -> P (VData c fl).
  Hypothesis HOther : forall t, P (VOther t).

  Fixpoint val_ind' (v : val) : P v :=
    match v as v0 return P v0 with
    | VNone => HNone
    | VBool b => HBool b
    | VInt z => HInt z
    | VFloat t => HFloat t
    | VStr x => HStr x
    | VBytes b => HBytes b
    | VBytearray b => HBytearray b
    | VBytesIO c p => HBytesIO c p
    | VList l =>
        HList l ((fix go (l : list val) : Forall P l :=
                    match l with
                    | [] => Forall_nil P
                    | x :: r => Forall_cons x (val_ind' x) (go r)
                    end) l)
    | VTuple l =>
        HTuple l ((fix go (l : list val) : Forall P l :=
                     match l with
                     | [] => Forall_nil P
                     | x :: r => Forall_cons x (val_ind' x) (go r)
                     end) l)
    | VSet l =>
        HSet l ((fix go (l : list val) : Forall P l :=
                   match l with
                   | [] => Forall_nil P
                   | x :: r => Forall_cons x (val_ind' x) (go r)
                   end) l)
    | VDict kvs =>
        HDict kvs ((fix go (l : list (key * val)) : Forall (fun kv => P (snd kv)) l :=
                      match l with
                      | [] => Forall_nil _
                      | kv :: r =>
                          Forall_cons kv
                            (match kv as p return P (snd p) with (_, x) => val_ind' x end) (go r)
                      end) kvs)
    | VData c fl =>
        HData c fl ((fix go (l : list (str * val)) : Forall (fun nv => P (snd nv)) l :=
                       match l with
                       | [] => Forall_nil _
                       | nv :: r =>
                           Forall_cons nv
                             (match nv as p return P (snd p) with (_, x) => val_ind' x end) (go r)
                       end) fl)
    | VOther t => HOther t
    end.
End ValInd.

(* ------------------------------------------------------------------------------------------ *)
(* generic list lemmas                                                                         *)

Lemma sequence_map_some {A B} (f : A -> option B) (g : A -> B) (l : list A) :
  (forall x, In x l -> f x = Some (g x)) -> sequence (map f l) = Some (map g l).
Proof.
  induction l as [|a l IH]; intro H; cbn [map sequence]; [reflexivity|].
  rewrite (H a (or_introl eq_refl)). rewrite IH; [reflexivity|].
  intros x Hx. apply H. right; exact Hx.
Qed.

Lemma sequence_map_id {A} (f : A -> option A) (l : list A) :
  (forall x, In x l -> f x = Some x) -> sequence (map f l) = Some l.
Proof.
  intro H. rewrite (sequence_map_some f (fun x => x) l H). rewrite map_id. reflexivity.
Qed.

Lemma sequence_Forall2 {A B C} (h : B -> option C) (g : A -> C) (l1 : list A) (l2 : list B) :
  Forall2 (fun a b => h b = Some (g a)) l1 l2 -> sequence (map h l2) = Some (map g l1).
Proof.
  induction 1 as [|a b l1 l2 Hab HF IH]; cbn [map sequence]; [reflexivity|].
  rewrite Hab, IH. reflexivity.
Qed.

Lemma flat_map_singleton {A B} (F : A -> list B) (G : A -> B) (l : list A) :
  (forall x, In x l -> F x = [G x]) -> flat_map F l = map G l.
Proof.
  induction l as [|a l IH]; intro H; cbn [flat_map map]; [reflexivity|].
  rewrite (H a (or_introl eq_refl)). rewrite IH; [reflexivity|].
  intros x Hx. apply H. right; exact Hx.
Qed.

Lemma flat_map_map {A B C} (f : A -> B) (F : B -> list C) (l : list A) :
  flat_map F (map f l) = flat_map (fun x => F (f x)) l.
Proof.
  induction l as [|a l IH]; cbn [flat_map map]; [reflexivity|]. rewrite IH. reflexivity.
Qed.

Lemma flat_map_ext_in {A B} (F G : A -> list B) (l : list A) :
  (forall x, In x l -> F x = G x) -> flat_map F l = flat_map G l.
Proof.
  induction l as [|a l IH]; intro H; cbn [flat_map]; [reflexivity|].
  rewrite (H a (or_introl eq_refl)). rewrite IH; [reflexivity|].
  intros x Hx. apply H. right; exact Hx.
Qed.

Lemma combine_map_map {A B C} (f : A -> B) (g : A -> C) (l : list A) :
  combine (map f l) (map g l) = map (fun x => (f x, g x)) l.
Proof.
  induction l as [|a l IH]; cbn [map combine]; [reflexivity|]. rewrite IH. reflexivity.
Qed.

Lemma Forall2_mono {A B} (P Q : A -> B -> Prop) (l1 : list A) (l2 : list B) :
  (forall a b, In a l1 -> In b l2 -> P a b -> Q a b) -> Forall2 P l1 l2 -> Forall2 Q l1 l2.
Proof.
  intros H HF. induction HF as [|a b l1 l2 Hab HF IH]; constructor.
  - apply H; [left; reflexivity | left; reflexivity | exact Hab].
  - apply IH. intros a' b' Ha Hb. apply H; right; assumption.
Qed.

Lemma Forall2_In_l {A B} (P : A -> B -> Prop) l1 l2 a :
  Forall2 P l1 l2 -> In a l1 -> exists b, In b l2 /\ P a b.
Proof.
  induction 1 as [|a0 b0 l1 l2 Hab HF IH]; intro Hin; [destruct Hin|].
  destruct Hin as [->|Hin].
  - exists b0. split; [left; reflexivity | exact Hab].
  - destruct (IH Hin) as [b [Hb Pb]]. exists b. split; [right; exact Hb | exact Pb].
Qed.

Lemma Forall2_In_r {A B} (P : A -> B -> Prop) l1 l2 b :
  Forall2 P l1 l2 -> In b l2 -> exists a, In a l1 /\ P a b.
Proof.
  induction 1 as [|a0 b0 l1 l2 Hab HF IH]; intro Hin; [destruct Hin|].
  destruct Hin as [->|Hin].
  - exists a0. split; [left; reflexivity | exact Hab].
  - destruct (IH Hin) as [a [Ha Pa]]. exists a. split; [right; exact Ha | exact Pa].
Qed.

Lemma Forall2_map_eq {A B C} (f : A -> C) (g : B -> C) l1 l2 :
  Forall2 (fun a b => f a = g b) l1 l2 -> map f l1 = map g l2.
Proof.
  induction 1 as [|a b l1 l2 Hab HF IH]; cbn [map]; [reflexivity|]. rewrite Hab, IH. reflexivity.
Qed.

Lemma forallb_In {A} (f : A -> bool) l x : forallb f l = true -> In x l -> f x = true.
Proof. intros H Hx. rewrite forallb_forall in H. apply H. exact Hx. Qed.

(* ------------------------------------------------------------------------------------------ *)
(* nodup_str / NoDup, assoc / has_key                                                          *)

Lemma mem_str_false x l : mem_str x l = false <-> ~ In x l.
Proof.
  rewrite <- mem_str_In. destruct (mem_str x l); split; intro H; try reflexivity; try discriminate.
  - exfalso. apply H. reflexivity.
  - intro H'. discriminate.
Qed.

Lemma nodup_str_NoDup l : nodup_str l = true <-> NoDup l.
Proof.
  induction l as [|x l IH]; cbn [nodup_str].
  - split; [constructor | reflexivity].
  - rewrite andb_true_iff, negb_true_iff, mem_str_false, IH. split.
    + intros [H1 H2]. constructor; assumption.
    + intro H. inversion H; subst. split; assumption.
Qed.

Lemma has_key_false {A} k (l : list (str * A)) : has_key k l = false <-> ~ In k (map fst l).
Proof.
  rewrite <- has_key_In. destruct (has_key k l); split; intro H; try reflexivity; try discriminate.
  - exfalso. apply H. reflexivity.
  - intro H'. discriminate.
Qed.

Lemma assoc_NoDup_In {A} k (v : A) (l : list (str * A)) :
  NoDup (map fst l) -> In (k, v) l -> assoc k l = Some v.
Proof.
  induction l as [|[k' v'] l IH]; cbn [map fst assoc]; intros ND Hin; [destruct Hin|].
  inversion ND as [|? ? Hnot ND']; subst.
  destruct Hin as [E|Hin].
  - inversion E; subst. rewrite str_eqb_refl. reflexivity.
  - destruct (str_eqb k k') eqn:E.
    + apply str_eqb_eq in E; subst. exfalso. apply Hnot.
      apply in_map_iff. exists (k', v). split; [reflexivity | exact Hin].
    + apply IH; assumption.
Qed.

Lemma find_None_forall {A} (f : A -> bool) l : (forall x, In x l -> f x = false) -> find f l = None.
Proof.
  induction l as [|a l IH]; intro H; cbn [find]; [reflexivity|].
  rewrite (H a (or_introl eq_refl)). apply IH. intros x Hx. apply H. right; exact Hx.
Qed.

(* ------------------------------------------------------------------------------------------ *)
(* dict construction                                                                            *)

Definition dict_from {A} (acc l : list (str * A)) : list (str * A) :=
  fold_left (fun d kv => dict_set (fst kv) (snd kv) d) l acc.

Lemma dict_of_from {A} (l : list (str * A)) : dict_of l = dict_from [] l.
Proof. reflexivity. Qed.

Lemma dict_from_cons {A} (acc : list (str * A)) kv l :
  dict_from acc (kv :: l) = dict_from (dict_set (fst kv) (snd kv) acc) l.
Proof. reflexivity. Qed.

Definition vmap {A B} (g : A -> B) (kv : str * A) : str * B := (fst kv, g (snd kv)).

Lemma dict_set_In {A} k (v : A) d k' x :
  In (k', x) (dict_set k v d) -> (k' = k /\ x = v) \/ In (k', x) d.
Proof.
  induction d as [|[k0 v0] d IH]; cbn [dict_set]; intro H.
  - destruct H as [E|[]]. inversion E; subst. left; split; reflexivity.
  - destruct (str_eqb k k0) eqn:E.
    + apply str_eqb_eq in E; subst. destruct H as [E|H].
      * inversion E; subst. left; split; reflexivity.
      * right; right; exact H.
    + destruct H as [E'|H].
      * right; left; exact E'.
      * destruct (IH H) as [L|Rr]; [left; exact L | right; right; exact Rr].
Qed.

Lemma dict_set_keys {A} k (v : A) d k' :
  In k' (map fst (dict_set k v d)) <-> k' = k \/ In k' (map fst d).
Proof.
  induction d as [|[k0 v0] d IH]; cbn [dict_set map fst In].
  - split; [intros [E|[]]; left; auto | intros [E|[]]; left; auto].
  - destruct (str_eqb k k0) eqn:E.
    + apply str_eqb_eq in E; subst. cbn [map fst In]. split; [tauto|]. intros [->|H]; tauto.
    + cbn [map fst In]. rewrite IH. tauto.
Qed.

Lemma dict_set_fresh {A} k (v : A) d : ~ In k (map fst d) -> dict_set k v d = d ++ [(k, v)].
Proof.
  induction d as [|[k0 v0] d IH]; cbn [dict_set map fst In app]; intro H; [reflexivity|].
  destruct (str_eqb k k0) eqn:E.
  - apply str_eqb_eq in E; subst. exfalso; apply H; left; reflexivity.
  - rewrite IH; [reflexivity|]. intro H'. apply H. right; exact H'.
Qed.

Lemma dict_set_NoDup {A} k (v : A) d : NoDup (map fst d) -> NoDup (map fst (dict_set k v d)).
Proof.
  induction d as [|[k0 v0] d IH]; cbn [dict_set map fst]; intro ND.
  - constructor; [intros [] | constructor].
  - inversion ND as [|? ? Hnot ND']; subst. destruct (str_eqb k k0) eqn:E.
    + cbn [map fst]. constructor; assumption.
    + cbn [map fst]. constructor; [|apply IH; exact ND'].
      rewrite dict_set_keys. intros [->|H]; [|contradiction].
      rewrite str_eqb_refl in E. discriminate.
Qed.

Lemma dict_set_vmap {A B} (g : A -> B) k v d :
  dict_set k (g v) (map (vmap g) d) = map (vmap g) (dict_set k v d).
Proof.
  induction d as [|[k0 v0] d IH]; cbn [dict_set map vmap fst snd]; [reflexivity|].
  destruct (str_eqb k k0); cbn [map vmap fst snd]; [reflexivity|]. rewrite IH. reflexivity.
Qed.

Lemma dict_from_In {A} (l acc : list (str * A)) k x :
  In (k, x) (dict_from acc l) -> In (k, x) acc \/ In (k, x) l.
Proof.
  revert acc. induction l as [|[k0 v0] l IH]; intros acc H.
  - left; exact H.
  - rewrite dict_from_cons in H. cbn [fst snd] in H. destruct (IH _ H) as [H1|H1].
    + destruct (dict_set_In _ _ _ _ _ H1) as [[-> ->]|H2]; [right; left; reflexivity | left; exact H2].
    + right; right; exact H1.
Qed.

Lemma dict_from_keys {A} (l acc : list (str * A)) k :
  In k (map fst (dict_from acc l)) <-> In k (map fst acc) \/ In k (map fst l).
Proof.
  revert acc. induction l as [|[k0 v0] l IH]; intro acc.
  - cbn [dict_from fold_left map In]. tauto.
  - rewrite dict_from_cons, IH, dict_set_keys. cbn [map fst snd In]. split.
    + intros [[->|H]|H]; auto.
    + intros [H|[->|H]]; auto.
Qed.

Lemma dict_from_NoDup {A} (l acc : list (str * A)) :
  NoDup (map fst acc) -> NoDup (map fst (dict_from acc l)).
Proof.
  revert acc. induction l as [|kv l IH]; intros acc ND; [exact ND|].
  rewrite dict_from_cons. apply IH. apply dict_set_NoDup. exact ND.
Qed.

Lemma dict_from_vmap {A B} (g : A -> B) (l acc : list (str * A)) :
  dict_from (map (vmap g) acc) (map (vmap g) l) = map (vmap g) (dict_from acc l).
Proof.
  revert acc. induction l as [|kv l IH]; intro acc; [reflexivity|].
  cbn [map]. rewrite !dict_from_cons. cbn [vmap fst snd]. rewrite dict_set_vmap. apply IH.
Qed.

Lemma dict_from_fresh {A} (l acc : list (str * A)) :
  NoDup (map fst (acc ++ l)) -> dict_from acc l = acc ++ l.
Proof.
  revert acc. induction l as [|[k v] l IH]; intros acc ND.
  - cbn [dict_from fold_left]. rewrite app_nil_r. reflexivity.
  - rewrite dict_from_cons. cbn [fst snd].
    assert (Hk : ~ In k (map fst acc)).
    { rewrite map_app in ND. cbn [map fst] in ND. apply NoDup_remove_2 in ND.
      intro H. apply ND. apply in_or_app. left; exact H. }
    rewrite (dict_set_fresh k v acc Hk). rewrite IH.
    + rewrite <- app_assoc. reflexivity.
    + rewrite <- app_assoc. exact ND.
Qed.

Lemma dict_of_In {A} (l : list (str * A)) k x : In (k, x) (dict_of l) -> In (k, x) l.
Proof. intro H. apply dict_from_In in H. destruct H as [[]|H]; exact H. Qed.

Lemma dict_of_keys {A} (l : list (str * A)) k : In k (map fst (dict_of l)) <-> In k (map fst l).
Proof. rewrite dict_of_from, dict_from_keys. cbn [map In]. tauto. Qed.

Lemma dict_of_NoDup {A} (l : list (str * A)) : NoDup (map fst (dict_of l)).
Proof. apply dict_from_NoDup. constructor. Qed.

Lemma dict_of_vmap {A B} (g : A -> B) (l : list (str * A)) :
  dict_of (map (vmap g) l) = map (vmap g) (dict_of l).
Proof. exact (dict_from_vmap g l []). Qed.

Lemma dict_of_fresh {A} (l : list (str * A)) : NoDup (map fst l) -> dict_of l = l.
Proof. intro ND. exact (dict_from_fresh l [] ND). Qed.

Lemma dict_of_idem {A} (l : list (str * A)) : dict_of (dict_of l) = dict_of l.
Proof. apply dict_of_fresh. apply dict_of_NoDup. Qed.

Lemma dict_of_forallb {A} (f : A -> bool) (l : list (str * A)) :
  forallb (fun kv => f (snd kv)) l = true -> forallb (fun kv => f (snd kv)) (dict_of l) = true.
Proof.
  intro H. apply forallb_forall. intros [k x] Hin. apply dict_of_In in Hin.
  exact (forallb_In _ _ _ H Hin).
Qed.
