(* C03 — lemmas about the PPTX slide-order / resolve_part_name / EPUB spine model (Order.v). *)
From Coq Require Import ZArith List Bool Lia ZifyBool Permutation.
From S2T Require Import Lib.PyStr C03.Lib C03.Model C03.Proofs C03.Docx C03.Sect C03.Order C03.ProofsO.
Import ListNotations.

(* ------------------------------------------------------------------ PPTX slide order *)
Lemma slide_order_app rels a b :
  compute_slide_order rels (a ++ b) = compute_slide_order rels a ++ compute_slide_order rels b.
Proof. unfold compute_slide_order. rewrite map_app, concat_app. reflexivity. Qed.

Lemma assoc_In_iff {A} (l : list (str * A)) k v :
  NoDup (map fst l) -> (assoc k l = Some v <-> In (k, v) l).
Proof.
  intro ND. split; [apply assoc_In|].
  induction l as [|[k' v'] l IH]; simpl; [contradiction|]. inversion ND as [|x xs NI ND']; subst.
  intros [E|H].
  - inversion E; subst. rewrite str_eqb_refl. reflexivity.
  - destruct (str_eqb k k') eqn:Q.
    + apply str_eqb_eq in Q. subst. exfalso. apply NI. apply in_map_iff. exists (k', v). auto.
    + apply IH; assumption.
Qed.

Lemma assoc_perm {A} (l l' : list (str * A)) k :
  NoDup (map fst l) -> Permutation l l' -> assoc k l = assoc k l'.
Proof.
  intros ND P. assert (ND' : NoDup (map fst l')).
  { eapply Permutation_NoDup; [apply Permutation_map; exact P | exact ND]. }
  destruct (assoc k l) as [v|] eqn:E.
  - symmetry. apply (assoc_In_iff l' k v ND'). eapply Permutation_in; [exact P|]. apply (assoc_In_iff l k v ND). exact E.
  - destruct (assoc k l') as [v'|] eqn:E'; [|reflexivity].
    apply (assoc_In_iff l' k v' ND') in E'. apply Permutation_sym in P.
    apply (Permutation_in _ P) in E'. apply (assoc_In_iff l k v' ND) in E'. congruence.
Qed.

(* with unique relationship ids the slide order does not depend on the order of the Relationship elements:
   it is the p:sldIdLst order *)
Lemma slide_order_rel_order_irrelevant rels rels' ids :
  NoDup (map fst (rels_entries rels)) -> Permutation rels rels' ->
  compute_slide_order rels ids = compute_slide_order rels' ids.
Proof.
  intros ND P. unfold compute_slide_order. f_equal. apply map_ext. intros [rid|]; [|reflexivity].
  destruct (nonempty rid); [|reflexivity]. unfold dict_get.
  assert (PE : Permutation (rels_entries rels) (rels_entries rels')) by (unfold rels_entries; apply perm_concat_map; exact P).
  rewrite (assoc_perm (rev (rels_entries rels)) (rev (rels_entries rels')) rid); [reflexivity | |].
  - eapply Permutation_NoDup; [apply Permutation_map; apply Permutation_rev | exact ND].
  - eapply Permutation_trans; [apply Permutation_sym, Permutation_rev|].
    eapply Permutation_trans; [exact PE | apply Permutation_rev].
Qed.

(* ------------------------------------------------------------------ resolve_part_name *)
Lemma resolve_absolute b1 b2 target :
  startswith target [SLASH] = true -> resolve_part_name b1 target = resolve_part_name b2 target.
Proof. intro H. unfold resolve_part_name, resolve_segments. rewrite H. reflexivity. Qed.

Definition noslash (p : str) : bool := negb (existsb (N.eqb SLASH) p).

Lemma split_noslash x : forall cur, noslash (rev cur) = true -> forallb noslash (split_slash_acc x cur) = true.
Proof.
  induction x as [|c r IH]; intros cur H; simpl.
  - rewrite H. reflexivity.
  - destruct (N.eqb c SLASH) eqn:E; simpl.
    + rewrite H. simpl. apply IH. reflexivity.
    + apply IH. cbn [rev]. unfold noslash in *. rewrite existsb_app. cbn [existsb].
      apply negb_true_iff in H. rewrite H.
      assert (E' : N.eqb SLASH c = false) by (rewrite N.eqb_sym; exact E). rewrite E'. reflexivity.
Qed.

Lemma removelast_forallb {A} (f : A -> bool) l : forallb f l = true -> forallb f (removelast l) = true.
Proof.
  induction l as [|x l IH]; [reflexivity|]. intro H. simpl in H. apply andb_true_iff in H as [H1 H2].
  destruct l as [|y l']; [reflexivity|]. change (removelast (x :: y :: l')) with (x :: removelast (y :: l')).
  simpl. rewrite H1. apply IH. exact H2.
Qed.

Lemma resolve_step_clean segs part :
  forallb clean_segment segs = true -> noslash part = true -> forallb clean_segment (resolve_step segs part) = true.
Proof.
  intros H NS. unfold resolve_step. destruct (str_eqb part [DOTC; DOTC]) eqn:E1; [apply removelast_forallb; exact H|].
  destruct (nonempty part && negb (str_eqb part [DOTC])) eqn:E2; [|exact H].
  rewrite forallb_app, H. simpl. unfold clean_segment. apply andb_true_iff in E2 as [N D].
  rewrite N, D, E1. unfold noslash in NS. rewrite NS. reflexivity.
Qed.

Lemma fold_resolve_clean parts : forall segs,
  forallb clean_segment segs = true -> forallb noslash parts = true ->
  forallb clean_segment (fold_left resolve_step parts segs) = true.
Proof.
  induction parts as [|p r IH]; intros segs H NS; simpl; [exact H|].
  simpl in NS. apply andb_true_iff in NS as [N1 N2]. apply IH; [apply resolve_step_clean; assumption | exact N2].
Qed.

(* the resolved member name has only clean segments (non-empty, not "." / "..", no slash) — given that the base
   directory has (the base's own "." / ".." segments are passed through unchanged: that is the gap) *)
Lemma resolve_segments_clean base target :
  forallb clean_segment (filter nonempty (split_slash base)) = true ->
  forallb clean_segment (resolve_segments base target) = true.
Proof.
  intro HB. unfold resolve_segments. apply fold_resolve_clean.
  - destruct (startswith target [SLASH]); [reflexivity | exact HB].
  - apply split_noslash. reflexivity.
Qed.

(* ------------------------------------------------------------------ EPUB *)
Lemma read_epub_chapters_wf members ct opf_dir manifest spine :
  wf_source (CEpub (read_epub_chapters members ct opf_dir manifest spine)) = true.
Proof. unfold read_epub_chapters. apply (epub_spine_loop_incr 0). Qed.

(* a chapter exists exactly for the spine positions whose item passes the gate; its number is that position
   (non-linear itemrefs are ordinary positions) *)
Lemma read_epub_chapters_positions members ct opf_dir manifest spine c :
  In c (read_epub_chapters members ct opf_dir manifest spine) <->
  exists i item_id, ch_number c = (Z.of_nat i + 1)%Z /\ nth_error spine i = Some item_id
                    /\ chapter_of members ct opf_dir manifest item_id = Some (ch_text c).
Proof.
  unfold read_epub_chapters. rewrite epub_spine_loop_positions. split.
  - intros [i [E1 E2]]. rewrite nth_error_map in E2. destruct (nth_error spine i) as [item_id|] eqn:N; [|discriminate].
    simpl in E2. inversion E2. exists i, item_id. auto.
  - intros [i [item_id [E1 [E2 E3]]]]. exists i. split; [exact E1|]. rewrite nth_error_map, E2. simpl. rewrite E3. reflexivity.
Qed.
