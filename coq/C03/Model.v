(* C03 — executable model of the unit / full-text logic of
   sharepoint2text/parsing/extractors/data_types.py (page, slide, sheet, chapter, message and
   single-unit formats).  Definitions only.  A unit is observed through exactly what the property
   mentions: get_metadata().unit_number and get_text(). *)
From Coq Require Import ZArith List Bool.
From S2T Require Import Lib.PyStr C03.Lib.
Import ListNotations.
Open Scope N_scope.

Record unit_ := mkU { u_num : Z; u_text : str }.

Definition unit_numbers (us : list unit_) : list Z := map u_num us.
Definition unit_texts (us : list unit_) : list str := map u_text us.

(* data_types._join_unit_text *)
Definition join_unit_text (us : list unit_) : str := strip (joinNL (unit_texts us)).

(* ------------------------------------------------------------------ PDF *)
(* PdfContent.pages : list of PdfPage(text) *)
Definition pdf_units (pages : list str) : list unit_ :=
  map (fun kp => mkU (fst kp) (snd kp)) (enum_from 1 pages).
Definition pdf_full_text (pages : list str) : str := join_unit_text (pdf_units pages).

(* ------------------------------------------------------------------ plain / html / odg / odf *)
(* PlainTextContent.content, HtmlContent.content, OdgContent.full_text, OdfContent.full_text *)
Definition single_units (content : str) : list unit_ := [mkU 1 (strip content)].
Definition single_full_text (content : str) : str := join_unit_text (single_units content).

(* ------------------------------------------------------------------ e-mail (eml, msg, one mbox message) *)
Record email := mkEmail { body_plain : str; body_html : str }.
Definition email_units (e : email) : list unit_ :=
  if nonempty (body_plain e) then [mkU 1 (body_plain e)]
  else if nonempty (body_html e) then [mkU 1 (body_html e)]
  else [mkU 1 []].
Definition email_full_text (e : email) : str := join_unit_text (email_units e).

(* ------------------------------------------------------------------ PPTX *)
Record pptx_slide := mkPptxSlide {
  px_number : Z;
  px_base_text : str;
  px_formulas : list (bool * str);     (* (is_display, latex) *)
  px_image_descriptions : list str     (* image.description per image *)
}.

Definition DOLLAR : N := 36.
Definition pptx_formula_text (f : bool * str) : str :=
  if fst f then [DOLLAR; DOLLAR] ++ snd f ++ [DOLLAR; DOLLAR] else [DOLLAR] ++ snd f ++ [DOLLAR].

(* PptxSlide.get_text(include_image_captions) *)
Definition pptx_slide_text (captions : bool) (sl : pptx_slide) : str :=
  joinNL ((if nonempty (px_base_text sl) then [px_base_text sl] else [])
          ++ map pptx_formula_text (px_formulas sl)
          ++ (if captions
              then map (fun d => s "[Image: " ++ d ++ s "]") (filter nonempty (px_image_descriptions sl))
              else [])).

Definition pptx_units (captions : bool) (slides : list pptx_slide) : list unit_ :=
  map (fun sl => mkU (px_number sl) (strip (pptx_slide_text captions sl))) slides.
Definition pptx_full_text (captions : bool) (slides : list pptx_slide) : str :=
  join_unit_text (pptx_units captions slides).

(* ------------------------------------------------------------------ PPT / ODP slides (text_combined) *)
Record slide := mkSlide {
  sl_number : Z;
  sl_title : option str;               (* PptSlideContent.title may be None; OdpSlide.title is a str *)
  sl_body : list str;
  sl_other : list str
}.

Definition text_combined (sl : slide) : str :=
  joinNL ((match sl_title sl with Some t => if nonempty t then [t] else [] | None => [] end)
          ++ sl_body sl ++ sl_other sl).

Definition ppt_units (slides : list slide) : list unit_ :=
  map (fun sl => mkU (sl_number sl) (text_combined sl)) slides.
(* PptContent.get_full_text: NOT derived from _join_unit_text *)
Definition ppt_full_text (slides : list slide) : str :=
  joinNL (filter nonempty (map (fun u => strip (u_text u)) (ppt_units slides))).

Definition odp_units (slides : list slide) : list unit_ :=
  map (fun sl => mkU (sl_number sl) (joinNL [text_combined sl])) slides.
Definition odp_full_text (slides : list slide) : str := join_unit_text (odp_units slides).

(* ------------------------------------------------------------------ XLSX / XLS / ODS sheets *)
Record sheet := mkSheet { sh_name : str; sh_text : str }.

Definition xlsx_units (sheets : list sheet) : list unit_ :=
  map (fun ks => mkU (fst ks) (sh_name (snd ks) ++ [NL] ++ strip (sh_text (snd ks)))) (enum_from 1 sheets).
Definition xlsx_full_text (sheets : list sheet) : str := join_unit_text (xlsx_units sheets).

Definition xls_units (sheets : list sheet) : list unit_ :=
  map (fun ks => mkU (fst ks) (strip (sh_text (snd ks)))) (enum_from 1 sheets).
(* XlsContent.get_full_text returns the stored full_text field, stripped *)
Definition xls_full_text (stored_full_text : str) : str := strip stored_full_text.

Definition ods_units (sheets : list sheet) : list unit_ :=
  map (fun ks => mkU (fst ks) (strip (sh_name (snd ks) ++ [NL] ++ strip (sh_text (snd ks))))) (enum_from 1 sheets).
Definition ods_full_text (sheets : list sheet) : str := join_unit_text (ods_units sheets).

(* ------------------------------------------------------------------ EPUB chapters *)
Record chapter := mkChapter { ch_number : Z; ch_text : str }.
Definition epub_units (chapters : list chapter) : list unit_ :=
  map (fun c => mkU (ch_number c) (ch_text c)) chapters.
Definition epub_full_text (chapters : list chapter) : str := join_unit_text (epub_units chapters).

(* epub_extractor.read_epub spine loop: chapter_number counts every spine item, items whose
   chapter cannot be extracted (None) are skipped.  [items] = per spine item the extracted text or None. *)
Fixpoint epub_spine_loop (k : Z) (items : list (option str)) : list chapter :=
  match items with
  | [] => []
  | Some t :: r => mkChapter (k + 1) t :: epub_spine_loop (k + 1) r
  | None :: r => epub_spine_loop (k + 1) r
  end.

(* pptx_extractor.read_pptx slide loop / pdf page loop: enumerate(start=1) *)
Definition pptx_slide_loop (slides : list (str * list (bool * str) * list str)) : list pptx_slide :=
  map (fun ks => let '(b, f, d) := snd ks in mkPptxSlide (fst ks) b f d) (enum_from 1 slides).

(* ------------------------------------------------------------------ RTF *)
Record rtf := mkRtf { rtf_pages : list str; rtf_full_text : str; rtf_paragraphs : list str }.

Definition rtf_units (c : rtf) : list unit_ :=
  match rtf_pages c with
  | _ :: _ =>
      map (fun kp => mkU (fst kp) (snd kp))
          (filter (fun kp => nonempty (strip (snd kp))) (enum_from 1 (rtf_pages c)))
  | [] =>
      if nonempty (rtf_full_text c) then [mkU 1 (rtf_full_text c)]
      else let combined := joinNL (filter (fun p => nonempty (strip p)) (rtf_paragraphs c)) in
           if nonempty combined then [mkU 1 combined] else []
  end.

Definition rtf_get_full_text (c : rtf) : str :=
  if nonempty (rtf_full_text c) then rtf_full_text c else join_unit_text (rtf_units c).

(* ------------------------------------------------------------------ one type for the correspondence *)
Inductive content :=
| CPdf (pages : list str)
| CPlain (content : str)
| CHtml (content : str)
| COdg (full_text : str)
| COdf (full_text : str)
| CEmail (e : email)
| CPptx (captions : bool) (slides : list pptx_slide)
| CPpt (slides : list slide)
| COdp (slides : list slide)
| CXlsx (sheets : list sheet)
| CXls (sheets : list sheet) (stored_full_text : str)
| COds (sheets : list sheet)
| CEpub (chapters : list chapter)
| CRtf (c : rtf).

Definition units (c : content) : list unit_ :=
  match c with
  | CPdf p => pdf_units p
  | CPlain x | CHtml x | COdg x | COdf x => single_units x
  | CEmail e => email_units e
  | CPptx cap sl => pptx_units cap sl
  | CPpt sl => ppt_units sl
  | COdp sl => odp_units sl
  | CXlsx sh => xlsx_units sh
  | CXls sh _ => xls_units sh
  | COds sh => ods_units sh
  | CEpub ch => epub_units ch
  | CRtf r => rtf_units r
  end.

Definition full_text (c : content) : str :=
  match c with
  | CPdf p => pdf_full_text p
  | CPlain x | CHtml x | COdg x | COdf x => single_full_text x
  | CEmail e => email_full_text e
  | CPptx cap sl => pptx_full_text cap sl
  | CPpt sl => ppt_full_text sl
  | COdp sl => odp_full_text sl
  | CXlsx sh => xlsx_full_text sh
  | CXls _ ft => xls_full_text ft
  | COds sh => ods_full_text sh
  | CEpub ch => epub_full_text ch
  | CRtf r => rtf_get_full_text r
  end.

(* the formats whose documentation derives the full text from the units *)
Definition derives_full_text_from_units (c : content) : bool :=
  match c with
  | CPpt _ | CXls _ _ | CRtf _ => false
  | _ => true
  end.
