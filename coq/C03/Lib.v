(* C03 — Python str semantics used by the unit model: str.strip()/lstrip()/rstrip() with Python's
   whitespace set, "sep".join(list), truthiness of str.  Definitions and basic lemmas. *)
From Coq Require Import ZArith List Bool Lia ZifyBool Sorted.
From S2T Require Import Lib.PyStr.
Import ListNotations.
Open Scope N_scope.

(* code points c with chr(c).isspace() in CPython 3.12 == the set str.strip() removes.
   Inst.v proves this list equal to the table dumped from the running interpreter. *)
Definition PY_SPACES : list N :=
  [9; 10; 11; 12; 13; 28; 29; 30; 31; 32; 133; 160; 5760; 8192; 8193; 8194; 8195; 8196; 8197; 8198;
   8199; 8200; 8201; 8202; 8232; 8233; 8239; 8287; 12288].

Definition is_space (c : N) : bool := existsb (N.eqb c) PY_SPACES.

Definition NL : N := 10.

Definition lstrip (x : str) : str := dropWhile is_space x.
Definition rstrip (x : str) : str := rev (dropWhile is_space (rev x)).
Definition strip (x : str) : str := rstrip (lstrip x).

(* bool(s) for a str *)
Definition nonempty (x : str) : bool := match x with [] => false | _ => true end.

(* sep.join(l) *)
Fixpoint join (sep : str) (l : list str) : str :=
  match l with
  | [] => []
  | [x] => x
  | x :: r => x ++ sep ++ join sep r
  end.

Definition joinNL (l : list str) : str := join [NL] l.

(* enumerate(l, start=k) *)
Fixpoint enum_from {A} (k : Z) (l : list A) : list (Z * A) :=
  match l with
  | [] => []
  | x :: r => (k, x) :: enum_from (k + 1) r
  end.

(* [k, k+1, ..., k+n-1] *)
Fixpoint zseq (k : Z) (n : nat) : list Z :=
  match n with O => [] | S n' => k :: zseq (k + 1) n' end.

(* ------------------------------------------------------------------ lemmas *)

Lemma dropWhile_idem {A} (f : A -> bool) l : dropWhile f (dropWhile f l) = dropWhile f l.
Proof.
  induction l as [|x l IH]; simpl; [reflexivity|].
  destruct (f x) eqn:E; [exact IH|]. simpl. rewrite E. reflexivity.
Qed.

Lemma lstrip_idem x : lstrip (lstrip x) = lstrip x.
Proof. apply dropWhile_idem. Qed.

Lemma rstrip_idem x : rstrip (rstrip x) = rstrip x.
Proof. unfold rstrip. rewrite rev_involutive, dropWhile_idem. reflexivity. Qed.

Lemma dropWhile_nil_or_head {A} (f : A -> bool) l :
  dropWhile f l = [] \/ exists x r, dropWhile f l = x :: r /\ f x = false.
Proof.
  destruct (dropWhile f l) as [|x r] eqn:E; [left; reflexivity|].
  right. exists x, r. split; [reflexivity|]. eapply dropWhile_head; exact E.
Qed.

Lemma dropWhile_id_head {A} (f : A -> bool) x r : f x = false -> dropWhile f (x :: r) = x :: r.
Proof. intro H. simpl. rewrite H. reflexivity. Qed.

(* stripping the right end keeps a non-space first character in place *)
Lemma rstrip_keeps_head x r : is_space x = false -> exists r', rstrip (x :: r) = x :: r'.
Proof.
  intro Hx. unfold rstrip. simpl rev.
  assert (G : forall l, exists l', dropWhile is_space (l ++ [x]) = l' ++ [x]).
  { induction l as [|y l IH]; simpl.
    - rewrite Hx. exists []. reflexivity.
    - destruct (is_space y); [exact IH|]. exists (y :: l). reflexivity. }
  destruct (G (rev r)) as [l' E]. rewrite E, rev_app_distr. simpl. eauto.
Qed.

Lemma lstrip_rstrip_fixed x : lstrip x = x -> lstrip (rstrip x) = rstrip x.
Proof.
  intro H. destruct x as [|c r]; [reflexivity|].
  assert (Hc : is_space c = false).
  { unfold lstrip in H. simpl in H. destruct (is_space c) eqn:E; [|reflexivity].
    exfalso. pose proof (takeWhile_dropWhile is_space r) as T.
    assert (L : (List.length (dropWhile is_space r) <= List.length r)%nat).
    { rewrite <- T at 2. rewrite app_length. lia. }
    rewrite H in L. simpl in L. lia. }
  destruct (rstrip_keeps_head c r Hc) as [r' E]. rewrite E.
  unfold lstrip. apply dropWhile_id_head. exact Hc.
Qed.

Lemma strip_idem x : strip (strip x) = strip x.
Proof.
  unfold strip. rewrite (lstrip_rstrip_fixed (lstrip x) (lstrip_idem x)). apply rstrip_idem.
Qed.

Lemma strip_nil : strip [] = [].
Proof. reflexivity. Qed.

Lemma join_single sep x : join sep [x] = x.
Proof. reflexivity. Qed.

Lemma enum_from_fst {A} k (l : list A) : map fst (enum_from k l) = zseq k (List.length l).
Proof. revert k; induction l as [|x l IH]; intro k; simpl; [reflexivity|]. rewrite IH. reflexivity. Qed.

Lemma enum_from_snd {A} k (l : list A) : map snd (enum_from k l) = l.
Proof. revert k; induction l as [|x l IH]; intro k; simpl; [reflexivity|]. rewrite IH. reflexivity. Qed.

Lemma enum_from_nth {A} k (l : list A) i x :
  nth_error l i = Some x -> nth_error (enum_from k l) i = Some ((k + Z.of_nat i)%Z, x).
Proof.
  revert k i; induction l as [|y l IH]; intros k i H; destruct i as [|i]; simpl in *; try discriminate.
  - inversion H; subst. f_equal. f_equal. lia.
  - rewrite (IH (k + 1)%Z i H). f_equal. f_equal. lia.
Qed.

Lemma zseq_lower k n : Forall (fun z => (k <= z)%Z) (zseq k n).
Proof.
  revert k; induction n as [|n IH]; intro k; simpl; constructor; [lia|].
  eapply Forall_impl; [|apply (IH (k + 1)%Z)]. simpl; intros; lia.
Qed.

Lemma zseq_sorted k n : StronglySorted Z.lt (zseq k n).
Proof.
  revert k; induction n as [|n IH]; intro k; simpl; constructor; [apply IH|].
  eapply Forall_impl; [|apply (zseq_lower (k + 1)%Z n)]. simpl; intros; lia.
Qed.

Lemma zseq_nth k n i : (i < n)%nat -> nth_error (zseq k n) i = Some (k + Z.of_nat i)%Z.
Proof.
  revert k i; induction n as [|n IH]; intros k i H; [lia|].
  destruct i as [|i]; simpl; [f_equal; lia|]. rewrite IH by lia. f_equal. lia.
Qed.

Lemma zseq_length k n : List.length (zseq k n) = n.
Proof. revert k; induction n as [|n IH]; intro k; simpl; [reflexivity|]. rewrite IH. reflexivity. Qed.

(* a strictly sorted list has no repeated element *)
Lemma sorted_lt_NoDup l : StronglySorted Z.lt l -> NoDup l.
Proof.
  induction 1 as [|x l S IH F]; constructor; [|exact IH].
  intro I. rewrite Forall_forall in F. specialize (F x I). lia.
Qed.
