(* C03 — property theorems.  Nothing but statements closed by `exact`, each followed by Print Assumptions.
   `content` ranges over every unit-bearing dataclass of data_types.py that the property lists
   (pdf, plain, html, odg, odf, e-mail, pptx, ppt, odp, xlsx, xls, ods, epub, rtf); `units c` is
   [(u.get_metadata().unit_number, u.get_text()) for u in c.iterate_units()], `full_text c` is c.get_full_text(). *)
From Coq Require Import ZArith List Bool Sorted Permutation.
From S2T Require Import Lib.PyStr C03.Lib C03.Model C03.Proofs C03.Extract C03.Docx C03.ProofsX C03.ProofsM C03.Sect C03.ProofsS C03.ProofsD C03.Odf C03.ProofsO C03.Order C03.ProofsR.
Import ListNotations.
Open Scope Z_scope.

(* for every format whose documentation derives the full text from the units (pdf, pptx, odp, xlsx, ods,
   epub, html, plain text, e-mail, odg, odf): get_full_text() = strip("\n".join(unit texts)) *)
Theorem C03_full_text_is_join :
  forall c : content, derives_full_text_from_units c = true ->
    full_text c = strip (joinNL (unit_texts (units c))).
Proof. exact full_text_is_join. Qed.
Print Assumptions C03_full_text_is_join.

Example C03_full_text_hyp_satisfiable : derives_full_text_from_units (CPdf [s "a"; s "b"]) = true.
Proof. reflexivity. Qed.
Print Assumptions C03_full_text_hyp_satisfiable.

(* unit numbers are strictly increasing — for every format, given that the extractor stored slide numbers
   1..n / strictly increasing chapter numbers (wf_source; proved of the extractor loops below) *)
Theorem C03_numbers_strict :
  forall c : content, wf_source c = true -> StronglySorted Z.lt (unit_numbers (units c)).
Proof. exact numbers_strict. Qed.
Print Assumptions C03_numbers_strict.

Theorem C03_numbers_never_repeat :
  forall c : content, wf_source c = true -> NoDup (unit_numbers (units c)).
Proof. exact numbers_no_repeat. Qed.
Print Assumptions C03_numbers_never_repeat.

Example C03_wf_source_satisfiable :
  wf_source (CPptx false [mkPptxSlide 1 (s "a") [] []; mkPptxSlide 2 [] [] []]) = true.
Proof. reflexivity. Qed.
Print Assumptions C03_wf_source_satisfiable.

(* ... and equal to the 1-based source positions: 1..n for pages/slides/sheets, the stored chapter numbers for
   EPUB, [1] for the single-unit formats *)
Theorem C03_numbers_are_positions :
  forall c : content, wf_source c = true ->
    match source_count c with
    | Some n => match c with
                | CEpub ch => unit_numbers (units c) = map ch_number ch
                | _ => unit_numbers (units c) = zseq 1 n
                end
    | None => match c with CRtf _ => True | _ => unit_numbers (units c) = [1] end
    end.
Proof. exact numbers_of_units. Qed.
Print Assumptions C03_numbers_are_positions.

(* exactly one unit per page / slide / sheet / chapter (empty and whitespace-only ones included) *)
Theorem C03_one_unit_per_source :
  forall (c : content) (n : nat), source_count c = Some n -> List.length (units c) = n.
Proof. exact one_unit_per_source. Qed.
Print Assumptions C03_one_unit_per_source.

Theorem C03_single_unit_formats :
  forall c : content, source_count c = None -> (forall r, c <> CRtf r) -> exists t, units c = [mkU 1 t].
Proof. exact single_unit. Qed.
Print Assumptions C03_single_unit_formats.

(* unit k holds the text of source k, under number k *)
Theorem C03_units_partition_body_pdf :
  forall pages k p, nth_error pages k = Some p -> nth_error (pdf_units pages) k = Some (mkU (Z.of_nat k + 1) p).
Proof. exact pdf_partition. Qed.
Print Assumptions C03_units_partition_body_pdf.

Theorem C03_units_partition_body_xlsx :
  forall sheets k sh, nth_error sheets k = Some sh ->
    nth_error (xlsx_units sheets) k = Some (mkU (Z.of_nat k + 1) (sh_name sh ++ [NL] ++ strip (sh_text sh))).
Proof. exact xlsx_partition. Qed.
Print Assumptions C03_units_partition_body_xlsx.

Theorem C03_units_partition_body_xls :
  forall sheets k sh, nth_error sheets k = Some sh ->
    nth_error (xls_units sheets) k = Some (mkU (Z.of_nat k + 1) (strip (sh_text sh))).
Proof. exact xls_partition. Qed.
Print Assumptions C03_units_partition_body_xls.

Theorem C03_units_partition_body_ods :
  forall sheets k sh, nth_error sheets k = Some sh ->
    nth_error (ods_units sheets) k = Some (mkU (Z.of_nat k + 1) (strip (sh_name sh ++ [NL] ++ strip (sh_text sh)))).
Proof. exact ods_partition. Qed.
Print Assumptions C03_units_partition_body_ods.

Theorem C03_units_partition_body_pptx :
  forall cap slides k sl, nth_error slides k = Some sl ->
    nth_error (pptx_units cap slides) k = Some (mkU (px_number sl) (strip (pptx_slide_text cap sl))).
Proof. exact pptx_partition. Qed.
Print Assumptions C03_units_partition_body_pptx.

Theorem C03_units_partition_body_ppt :
  forall slides k sl, nth_error slides k = Some sl ->
    nth_error (ppt_units slides) k = Some (mkU (sl_number sl) (text_combined sl)).
Proof. exact ppt_partition. Qed.
Print Assumptions C03_units_partition_body_ppt.

Theorem C03_units_partition_body_odp :
  forall slides k sl, nth_error slides k = Some sl ->
    nth_error (odp_units slides) k = Some (mkU (sl_number sl) (text_combined sl)).
Proof. exact odp_partition. Qed.
Print Assumptions C03_units_partition_body_odp.

Theorem C03_units_partition_body_epub :
  forall chapters k c, nth_error chapters k = Some c ->
    nth_error (epub_units chapters) k = Some (mkU (ch_number c) (ch_text c)).
Proof. exact epub_partition. Qed.
Print Assumptions C03_units_partition_body_epub.

(* RtfContent with explicit pages: the units are exactly the non-blank pages, each numbered by its position in
   RtfContent.pages *)
Theorem C03_rtf_units_are_nonblank_pages :
  forall (r : rtf) (u : unit_), rtf_pages r <> [] ->
    (In u (rtf_units r) <->
     exists k, u_num u = Z.of_nat k + 1 /\ nth_error (rtf_pages r) k = Some (u_text u)
               /\ nonempty (strip (u_text u)) = true).
Proof. exact rtf_units_pages. Qed.
Print Assumptions C03_rtf_units_are_nonblank_pages.

(* ---------------------------------------------------------------- extractor-side numbering *)
Theorem C03_pptx_slide_loop_numbers :
  forall cap l, wf_source (CPptx cap (pptx_slide_loop l)) = true.
Proof. exact pptx_slide_loop_wf. Qed.
Print Assumptions C03_pptx_slide_loop_numbers.

Theorem C03_epub_spine_loop_numbers :
  forall items, wf_source (CEpub (epub_spine_loop 0 items)) = true.
Proof. intro items. exact (epub_spine_loop_incr 0 items). Qed.
Print Assumptions C03_epub_spine_loop_numbers.

(* chapter numbers are the spine positions of the items that produced a chapter *)
Theorem C03_epub_numbers_are_spine_positions :
  forall items c, In c (epub_spine_loop 0 items) <->
    exists i, ch_number c = Z.of_nat i + 1 /\ nth_error items i = Some (Some (ch_text c)).
Proof. exact epub_spine_loop_positions. Qed.
Print Assumptions C03_epub_numbers_are_spine_positions.

Theorem C03_ppt_build_slides_numbers :
  forall T l, map sl_number (build_slides T l) = zseq 1 (List.length l).
Proof. exact build_slides_numbers. Qed.
Print Assumptions C03_ppt_build_slides_numbers.

(* REFUTED for PPT (finding ppt:empty-slide-dropped-renumbers-following): one slide per SlidePersistAtom *)
Theorem C03_ppt_one_unit_per_slide_refuted :
  exists evs, List.length (parse_slide_list_container evs) <> count_persist evs
              /\ nth_error (slides_by_persist_atom evs) 2 = Some [mkBlock (s "three") None]
              /\ nth_error (parse_slide_list_container evs) 1 = Some [mkBlock (s "three") None].
Proof. exact ppt_empty_slide_dropped. Qed.
Print Assumptions C03_ppt_one_unit_per_slide_refuted.

(* PARTIAL: holds when every slide has text *)
Theorem C03_ppt_one_unit_per_slide_partial :
  forall evs, forallb has_text (slides_by_persist_atom evs) = true ->
    parse_slide_list_container evs = slides_by_persist_atom evs
    /\ List.length (parse_slide_list_container evs) = count_persist evs.
Proof.
  intros evs H. split; [exact (parse_slide_list_all_text evs H)|].
  rewrite (parse_slide_list_all_text evs H). exact (slides_by_persist_atom_length evs).
Qed.
Print Assumptions C03_ppt_one_unit_per_slide_partial.

Example C03_ppt_partial_hyp_satisfiable :
  forallb has_text (slides_by_persist_atom [EvPersist; EvText (s "a"); EvPersist; EvHeader 0; EvText (s "b")]) = true.
Proof. reflexivity. Qed.
Print Assumptions C03_ppt_partial_hyp_satisfiable.

(* the slides of a parsed PPT document are numbered 1..n — including the raw-text fallback (repaired by
   fixes/C03-ppt-raw-fallback-duplicate-slide.patch; before, the fallback appended a second slide 1) *)
Theorem C03_ppt_document_numbers :
  forall T sl cs raw, wf_source (CPpt (parse_ppt_document T sl cs raw)) = true.
Proof. exact parse_ppt_document_wf. Qed.
Print Assumptions C03_ppt_document_numbers.

Theorem C03_ppt_document_numbers_never_repeat :
  forall T sl cs raw, NoDup (unit_numbers (ppt_units (parse_ppt_document T sl cs raw))).
Proof. intros T sl cs raw. exact (numbers_no_repeat _ (parse_ppt_document_wf T sl cs raw)). Qed.
Print Assumptions C03_ppt_document_numbers_never_repeat.

(* regression witness: the unrepaired fallback violated it *)
Theorem C03_ppt_unrepaired_fallback_duplicate :
  exists T sl cs raw, ~ NoDup (unit_numbers (ppt_units (parse_ppt_document_unrepaired T sl cs raw))).
Proof. exact ppt_unrepaired_fallback_duplicate. Qed.
Print Assumptions C03_ppt_unrepaired_fallback_duplicate.

(* REFUTED for RTF (finding rtf:blank-page-dropped-renumbers-following): unit number = explicit page position *)
Theorem C03_rtf_page_positions_refuted :
  exists (segs : list str) (j : nat) (u : unit_),
    In u (rtf_units (rtf_of_segments (fun x => x) segs [] []))
    /\ nth_error segs j = Some (u_text u) /\ u_num u <> Z.of_nat j + 1.
Proof. exact rtf_blank_page_renumbers. Qed.
Print Assumptions C03_rtf_page_positions_refuted.

(* PARTIAL: without blank pages unit k is explicit page k (normalised), for every regex normaliser *)
Theorem C03_rtf_page_positions_partial :
  forall (norm : str -> str) segs ft paras k sg,
    no_blank_page norm segs = true -> nth_error segs k = Some sg ->
    nth_error (rtf_units (rtf_of_segments norm segs ft paras)) k
    = Some (mkU (Z.of_nat k + 1) (rtf_page_text norm sg)).
Proof. exact rtf_positions_no_blank. Qed.
Print Assumptions C03_rtf_page_positions_partial.

Example C03_rtf_partial_hyp_satisfiable : no_blank_page (fun x => x) [s "a"; s " b "] = true.
Proof. reflexivity. Qed.
Print Assumptions C03_rtf_partial_hyp_satisfiable.

(* ---------------------------------------------------------------- mbox *)
(* one message per "From " separator line, each holding exactly its own body lines, when no body line matches
   the separator pattern (escaped bodies); lines = split_lines of the mailbox bytes *)
Theorem C03_mbox_one_per_message :
  forall msgs : list mbox_msg, forallb msg_ok msgs = true ->
    mbox_collect (flat msgs) false [] = bodies msgs.
Proof. exact collect_all. Qed.
Print Assumptions C03_mbox_one_per_message.

Example C03_mbox_hyp_satisfiable :
  forallb msg_ok [(s "From a@b Mon Jan  1 00:00:00 2024" ++ [NL], [s "Subject: x" ++ [NL]; s ">From me 2024" ++ [NL]])] = true.
Proof. vm_compute. reflexivity. Qed.
Print Assumptions C03_mbox_hyp_satisfiable.

(* ---------------------------------------------------------------- DOCX heading sections *)
(* REFUTED (three findings): every non-empty body paragraph is covered by a unit's heading path or lines *)
Theorem C03_docx_sections_cover_refuted :
  exists d t, In t (body_texts d) /\ ~ In t (covered_texts (docx_units d)).
Proof. exact docx_sections_cover_refuted. Qed.
Print Assumptions C03_docx_sections_cover_refuted.

Theorem C03_docx_page_break_text_dropped :
  uncovered docx_break (s "Subtitle") = true.
Proof. exact docx_break_uncovered. Qed.
Print Assumptions C03_docx_page_break_text_dropped.

Theorem C03_docx_empty_heading_section_dropped :
  uncovered docx_empty_heading (s "body") = true /\ docx_units docx_empty_heading = [].
Proof. exact docx_empty_heading_uncovered. Qed.
Print Assumptions C03_docx_empty_heading_section_dropped.

(* heading-section units are numbered 1..n in emission order, whatever the paragraphs, anchors and breaks *)
Theorem C03_docx_numbers_strict :
  forall d : docx, map du_num (docx_units d) = zseq 1 (List.length (docx_units d))
                   /\ StronglySorted Z.lt (map du_num (docx_units d)).
Proof. intro d. split; [exact (docx_numbers d) | exact (docx_numbers_strict d)]. Qed.
Print Assumptions C03_docx_numbers_strict.

(* PARTIAL (positive) DOCX cover: in a clean document — no non-empty paragraph before the first heading, every
   heading has text, no paragraph carries a page break (= exactly the three open DOCX findings excluded) — every
   non-empty body paragraph (headings included) is covered by a unit's heading path or lines *)
Theorem C03_docx_sections_cover_partial :
  forall d : docx, docx_clean d = true ->
    forall t, In t (body_texts d) -> In t (covered_texts (docx_units d)).
Proof. exact docx_cover_clean. Qed.
Print Assumptions C03_docx_sections_cover_partial.

Example C03_docx_clean_satisfiable :
  docx_clean (mkd [P "" None false; P "H1" (Some 1) false; P "body" None false; P "H2" (Some 2) false]) = true.
Proof. reflexivity. Qed.
Print Assumptions C03_docx_clean_satisfiable.

(* ---------------------------------------------------------------- DOC / ODT heading sections *)
(* units are numbered 1..n *)
Theorem C03_doc_numbers_strict :
  forall d : doc, map obs_num (doc_units d) = zseq 1 (List.length (doc_units d))
                  /\ StronglySorted Z.lt (map obs_num (doc_units d)).
Proof. intro d. split; [exact (doc_units_numbers d) | rewrite doc_units_numbers; apply zseq_sorted]. Qed.
Print Assumptions C03_doc_numbers_strict.

Theorem C03_odt_numbers_strict :
  forall d : odt, map obs_num (odt_units d) = zseq 1 (List.length (odt_units d))
                  /\ StronglySorted Z.lt (map obs_num (odt_units d)).
Proof. intro d. split; [exact (odt_units_numbers d) | rewrite odt_units_numbers; apply zseq_sorted]. Qed.
Print Assumptions C03_odt_numbers_strict.

(* the non-empty body lines are exactly (order, multiplicity) the concatenation of the units' lines —
   unconditionally, for both front-ends *)
Theorem C03_doc_body_lines_exact :
  forall lines tables,
    List.concat (map su_lines (section_units (doc_items lines tables))) = line_texts (doc_items lines tables).
Proof. intros lines tables. exact (section_lines_exact _ (doc_items_stripped lines tables)). Qed.
Print Assumptions C03_doc_body_lines_exact.

Theorem C03_odt_body_lines_exact :
  forall ps b n,
    List.concat (map su_lines (section_units (odt_items ps b n))) = line_texts (odt_items ps b n).
Proof. intros ps b n. exact (section_lines_exact _ (odt_items_stripped ps b n)). Qed.
Print Assumptions C03_odt_body_lines_exact.

(* REFUTED (findings doc:/odt:heading-without-body-in-no-unit): heading texts are covered by a heading path *)
Theorem C03_doc_sections_cover_refuted :
  exists d t, let items := doc_items (dc_lines d) (dc_tables d) in
    In t (item_texts items) /\ ~ In t (scovered (section_units items)).
Proof. exists doc_witness, (s "Chapter 1"). exact (suncovered_spec _ _ (proj1 doc_heading_uncovered)). Qed.
Print Assumptions C03_doc_sections_cover_refuted.

Theorem C03_odt_sections_cover_refuted :
  exists d t, let items := odt_items (od_paras d) false (od_ntables d) in
    In t (item_texts items) /\ ~ In t (scovered (section_units items)).
Proof. exists odt_witness, (s "A"). exact (suncovered_spec _ _ (proj1 odt_heading_uncovered)). Qed.
Print Assumptions C03_odt_sections_cover_refuted.

(* headings only: no unit at all (DOC: and an IndexError before fixes/C03-doc-units-empty.patch) *)
Theorem C03_doc_headings_only_no_unit :
  doc_units doc_witness2 = [] /\ doc_raised_index_error doc_witness2 = true.
Proof. exact doc_headings_only. Qed.
Print Assumptions C03_doc_headings_only_no_unit.

Theorem C03_odt_headings_only_no_unit : odt_units odt_witness2 = [].
Proof. exact odt_headings_only. Qed.
Print Assumptions C03_odt_headings_only_no_unit.

(* PARTIAL: when every section (heading with text) has at least one non-empty body line, every heading and body
   text is covered — for DOC and ODT *)
Theorem C03_doc_sections_cover_partial :
  forall lines tables, sections_ok (doc_items lines tables) false = true ->
    forall t, In t (item_texts (doc_items lines tables)) -> In t (scovered (section_units (doc_items lines tables))).
Proof. intros lines tables. exact (sections_cover_partial _ (doc_items_stripped lines tables)). Qed.
Print Assumptions C03_doc_sections_cover_partial.

Theorem C03_odt_sections_cover_partial :
  forall ps b n, sections_ok (odt_items ps b n) false = true ->
    forall t, In t (item_texts (odt_items ps b n)) -> In t (scovered (section_units (odt_items ps b n))).
Proof. intros ps b n. exact (sections_cover_partial _ (odt_items_stripped ps b n)). Qed.
Print Assumptions C03_odt_sections_cover_partial.

Example C03_sections_ok_satisfiable :
  sections_ok (doc_items [L "preface" "preface"; L "Chapter 1" "chapter 1"; L "text" "text"] []) false = true.
Proof. vm_compute. reflexivity. Qed.
Print Assumptions C03_sections_ok_satisfiable.

(* the ODT unit heading path (title merged in, equal neighbours collapsed) keeps every token of the walk's path *)
Theorem C03_odt_merged_path_keeps_tokens :
  forall base path t, In t path -> In t (merge_path base path).
Proof. exact merge_path_incl. Qed.
Print Assumptions C03_odt_merged_path_keeps_tokens.

(* ---------------------------------------------------------------- ODP / ODS unit assembly (extractor side) *)
(* _iter_slide_frames: shape groups (draw:g), also nested, are transparent; other children contribute nothing *)
Theorem C03_odp_groups_transparent :
  forall cs rest f, page_frames (ShGroup cs :: rest) = page_frames cs ++ page_frames rest
                    /\ page_frames (ShFrame f :: rest) = f :: page_frames rest
                    /\ page_frames (ShOther :: rest) = page_frames rest.
Proof. intros cs rest f. exact (conj (page_frames_group cs rest) (conj (page_frames_frame f rest) (page_frames_other rest))). Qed.
Print Assumptions C03_odp_groups_transparent.

(* every non-empty paragraph text of a page's frames — whatever the nesting, positions (sort) and styles
   (title/body/other) — is in exactly one of the slide's text fields, with its multiplicity, and nothing else is *)
Theorem C03_odp_slide_texts_exact :
  forall num children, Permutation (slide_texts (extract_slide num children)) (page_texts children).
Proof. exact extract_slide_texts. Qed.
Print Assumptions C03_odp_slide_texts_exact.

(* read_odp: slides are numbered 1..n, and unit k carries number k and exactly page k's texts *)
Theorem C03_odp_read_numbers : forall pages, wf_source (COdp (read_odp_slides pages)) = true.
Proof. exact read_odp_wf. Qed.
Print Assumptions C03_odp_read_numbers.

Theorem C03_odp_unit_of_page :
  forall pages k page, nth_error pages k = Some page ->
    exists l, Permutation l (page_texts page)
              /\ nth_error (odp_units (read_odp_slides pages)) k = Some (mkU (Z.of_nat k + 1) (joinNL l)).
Proof. exact read_odp_unit_texts. Qed.
Print Assumptions C03_odp_unit_of_page.

(* _extract_sheet: the cell texts returned for a sheet are exactly (order, multiplicity) the display texts of the
   sheet's cells after wrapper flattening and repeat expansion — trimming of trailing rows/columns never removes a
   cell that carries a value *)
Theorem C03_ods_sheet_cells_exact :
  forall children, List.concat (sheet_lines children) = source_cell_texts children.
Proof. exact sheet_lines_exact. Qed.
Print Assumptions C03_ods_sheet_cells_exact.

(* read_ods: unit k carries number k, sheet k's name and sheet k's text only *)
Theorem C03_ods_unit_of_sheet :
  forall tables k name children, nth_error tables k = Some (name, children) ->
    nth_error (ods_units (read_ods_sheets tables)) k
    = Some (mkU (Z.of_nat k + 1) (strip (name ++ [NL] ++ strip (sheet_text children)))).
Proof. exact read_ods_unit. Qed.
Print Assumptions C03_ods_unit_of_sheet.

Theorem C03_ods_read_numbers :
  forall tables, unit_numbers (ods_units (read_ods_sheets tables)) = zseq 1 (List.length tables).
Proof. exact read_ods_numbers. Qed.
Print Assumptions C03_ods_read_numbers.

(* ---------------------------------------------------------------- PPTX slide order, resolve_part_name, EPUB spine *)
(* _compute_slide_order follows the p:sldIdLst order: the order of a concatenated list is the concatenation *)
Theorem C03_pptx_slide_order_follows_sldIdLst :
  forall rels a b, compute_slide_order rels (a ++ b) = compute_slide_order rels a ++ compute_slide_order rels b.
Proof. exact slide_order_app. Qed.
Print Assumptions C03_pptx_slide_order_follows_sldIdLst.

(* ... and, with unique relationship ids, it does not depend on the order of the Relationship elements *)
Theorem C03_pptx_slide_order_rel_order_irrelevant :
  forall rels rels' ids, NoDup (map fst (rels_entries rels)) -> Permutation rels rels' ->
    compute_slide_order rels ids = compute_slide_order rels' ids.
Proof. exact slide_order_rel_order_irrelevant. Qed.
Print Assumptions C03_pptx_slide_order_rel_order_irrelevant.

(* resolve_part_name: an absolute target ignores the base directory *)
Theorem C03_resolve_absolute_ignores_base :
  forall b1 b2 target, startswith target [SLASH] = true -> resolve_part_name b1 target = resolve_part_name b2 target.
Proof. exact resolve_absolute. Qed.
Print Assumptions C03_resolve_absolute_ignores_base.

(* PARTIAL: every segment of the resolved name is clean (non-empty, not "." / "..", no slash) when the base directory's
   segments are; gap: "." / ".." segments of the BASE directory are passed through unchanged *)
Theorem C03_resolve_segments_clean_partial :
  forall base target, forallb clean_segment (filter nonempty (split_slash base)) = true ->
    forallb clean_segment (resolve_segments base target) = true.
Proof. exact resolve_segments_clean. Qed.
Print Assumptions C03_resolve_segments_clean_partial.

Example C03_resolve_hyp_satisfiable :
  forallb clean_segment (filter nonempty (split_slash (s "OEBPS/text/"))) = true
  /\ resolve_part_name (s "OEBPS/text/") (s "../img/./a.png") = s "OEBPS/img/a.png".
Proof. vm_compute. split; reflexivity. Qed.
Print Assumptions C03_resolve_hyp_satisfiable.

(* read_epub: chapter numbers strictly increasing; a chapter exists exactly for the spine positions whose item passes
   the gate of _extract_chapter, numbered by that position (itemrefs with linear="no" are ordinary positions) *)
Theorem C03_epub_read_numbers :
  forall members ct opf_dir manifest spine,
    wf_source (CEpub (read_epub_chapters members ct opf_dir manifest spine)) = true.
Proof. exact read_epub_chapters_wf. Qed.
Print Assumptions C03_epub_read_numbers.

Theorem C03_epub_chapter_of_spine_position :
  forall members ct opf_dir manifest spine c,
    In c (read_epub_chapters members ct opf_dir manifest spine) <->
    exists i item_id, ch_number c = Z.of_nat i + 1 /\ nth_error spine i = Some item_id
                      /\ chapter_of members ct opf_dir manifest item_id = Some (ch_text c).
Proof. exact read_epub_chapters_positions. Qed.
Print Assumptions C03_epub_chapter_of_spine_position.
