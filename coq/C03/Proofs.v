(* C03 — lemmas about the data_types.py unit model. *)
From Coq Require Import ZArith List Bool Lia ZifyBool Sorted.
From S2T Require Import Lib.PyStr C03.Lib C03.Model.
Import ListNotations.
Open Scope Z_scope.

(* ------------------------------------------------------------------ well-formed source numbering *)
Fixpoint zlist_eqb (a b : list Z) : bool :=
  match a, b with
  | [], [] => true
  | x :: a', y :: b' => Z.eqb x y && zlist_eqb a' b'
  | _, _ => false
  end.

Lemma zlist_eqb_eq a b : zlist_eqb a b = true <-> a = b.
Proof.
  revert b; induction a as [|x a IH]; destruct b as [|y b]; simpl; split; intro H;
    try reflexivity; try discriminate.
  - apply andb_true_iff in H as [H1 H2]. apply Z.eqb_eq in H1. apply IH in H2. congruence.
  - inversion H; subst. rewrite Z.eqb_refl. simpl. apply IH. reflexivity.
Qed.

(* strictly increasing, all > lo *)
Fixpoint incr_from (lo : Z) (l : list Z) : bool :=
  match l with
  | [] => true
  | x :: r => Z.ltb lo x && incr_from x r
  end.

Lemma incr_from_sorted lo l :
  incr_from lo l = true -> StronglySorted Z.lt l /\ Forall (fun z => lo < z) l.
Proof.
  revert lo; induction l as [|x l IH]; intros lo H; simpl in *; [split; constructor|].
  apply andb_true_iff in H as [H1 H2]. apply Z.ltb_lt in H1. destruct (IH x H2) as [S F].
  split; constructor; auto.
  eapply Forall_impl; [|exact F]. simpl; intros; lia.
Qed.

Lemma incr_from_zseq lo k n : lo < k -> incr_from lo (zseq k n) = true.
Proof.
  revert lo k; induction n as [|n IH]; intros lo k H; simpl; [reflexivity|].
  apply andb_true_iff; split; [apply Z.ltb_lt; exact H | apply IH; lia].
Qed.

(* what the extractor must guarantee about the numbers it stores in the content object:
   slides are numbered 1..n in list order; chapter numbers increase strictly from >= 1 *)
Definition wf_source (c : content) : bool :=
  match c with
  | CPptx _ sl => zlist_eqb (map px_number sl) (zseq 1 (List.length sl))
  | CPpt sl | COdp sl => zlist_eqb (map sl_number sl) (zseq 1 (List.length sl))
  | CEpub ch => incr_from 0 (map ch_number ch)
  | _ => true
  end.

(* number of source pages / slides / sheets / chapters (None: the format is a single flowing unit) *)
Definition source_count (c : content) : option nat :=
  match c with
  | CPdf p => Some (List.length p)
  | CPptx _ sl => Some (List.length sl)
  | CPpt sl | COdp sl => Some (List.length sl)
  | CXlsx sh | CXls sh _ | COds sh => Some (List.length sh)
  | CEpub ch => Some (List.length ch)
  | _ => None
  end.

(* ------------------------------------------------------------------ generic facts *)
Lemma map_enum_nums {A} (f : Z * A -> unit_) k (l : list A) :
  (forall p, u_num (f p) = fst p) -> unit_numbers (map f (enum_from k l)) = zseq k (List.length l).
Proof.
  intro H. unfold unit_numbers. rewrite map_map.
  rewrite (map_ext _ fst) by (intro p; apply H). apply enum_from_fst.
Qed.

Lemma map_enum_nth {A} (f : Z * A -> unit_) k (l : list A) i x :
  nth_error l i = Some x -> nth_error (map f (enum_from k l)) i = Some (f (k + Z.of_nat i, x)).
Proof. intro H. rewrite nth_error_map, (enum_from_nth k l i x H). reflexivity. Qed.

Lemma enum_filter_sorted {A} (f : Z * A -> bool) (l : list A) k :
  StronglySorted Z.lt (map fst (filter f (enum_from k l)))
  /\ Forall (fun z => k <= z) (map fst (filter f (enum_from k l))).
Proof.
  revert k; induction l as [|x l IH]; intro k; simpl; [split; constructor|].
  destruct (IH (k + 1)) as [S F].
  assert (F' : Forall (fun z => k < z) (map fst (filter f (enum_from (k + 1) l)))).
  { eapply Forall_impl; [|exact F]. simpl; intros; lia. }
  destruct (f (k, x)); simpl.
  - split; constructor; auto; try lia. eapply Forall_impl; [|exact F']. simpl; intros; lia.
  - split; [exact S|]. eapply Forall_impl; [|exact F']. simpl; intros; lia.
Qed.

Lemma enum_filter_In {A} (f : Z * A -> bool) (l : list A) k p :
  In p (filter f (enum_from k l)) <->
  (exists i, fst p = k + Z.of_nat i /\ nth_error l i = Some (snd p)) /\ f p = true.
Proof.
  rewrite filter_In. split; intros [H1 H2]; split; auto.
  - clear H2. revert k H1; induction l as [|x l IH]; intros k H1; simpl in H1; [contradiction|].
    destruct H1 as [<-|H1].
    + exists O. simpl. split; [lia | reflexivity].
    + destruct (IH _ H1) as [i [E1 E2]]. exists (S i). simpl. split; [lia | exact E2].
  - destruct H1 as [i [E1 E2]]. destruct p as [n y]; simpl in *. subst n.
    eapply nth_error_In. apply enum_from_nth. exact E2.
Qed.

(* ------------------------------------------------------------------ full text = strip(join(units)) *)
Lemma full_text_is_join c :
  derives_full_text_from_units c = true ->
  full_text c = strip (joinNL (unit_texts (units c))).
Proof. destruct c; simpl; intro H; try discriminate; reflexivity. Qed.

(* single flowing unit formats: the join is the unit's own text (strip is idempotent) *)
Lemma single_full_text_eq x : single_full_text x = strip x.
Proof. unfold single_full_text, join_unit_text, single_units. simpl. apply strip_idem. Qed.

(* ------------------------------------------------------------------ numbering *)
Lemma numbers_of_units c :
  wf_source c = true ->
  match source_count c with
  | Some n => match c with
              | CEpub ch => unit_numbers (units c) = map ch_number ch
              | _ => unit_numbers (units c) = zseq 1 n
              end
  | None => match c with
            | CRtf r => True
            | _ => unit_numbers (units c) = [1]
            end
  end.
Proof.
  destruct c; simpl; intro W; try reflexivity; try exact I.
  - apply map_enum_nums. reflexivity.
  - unfold email_units. destruct (nonempty (body_plain e)); [reflexivity|].
    destruct (nonempty (body_html e)); reflexivity.
  - apply zlist_eqb_eq in W. unfold pptx_units, unit_numbers. rewrite map_map. simpl. exact W.
  - apply zlist_eqb_eq in W. unfold ppt_units, unit_numbers. rewrite map_map. simpl. exact W.
  - apply zlist_eqb_eq in W. unfold odp_units, unit_numbers. rewrite map_map. simpl. exact W.
  - apply map_enum_nums. reflexivity.
  - apply map_enum_nums. reflexivity.
  - apply map_enum_nums. reflexivity.
  - unfold epub_units, unit_numbers. rewrite map_map. reflexivity.
Qed.

Lemma rtf_numbers_sorted r : StronglySorted Z.lt (unit_numbers (rtf_units r)).
Proof.
  unfold rtf_units. destruct (rtf_pages r) as [|p ps] eqn:E.
  - destruct (nonempty (rtf_full_text r)); [repeat constructor|].
    match goal with |- context [if ?b then _ else _] => destruct b end; repeat constructor.
  - unfold unit_numbers. rewrite map_map. simpl map at 1.
    apply (enum_filter_sorted (fun kp => nonempty (strip (snd kp))) (p :: ps) 1).
Qed.

Lemma numbers_strict c : wf_source c = true -> StronglySorted Z.lt (unit_numbers (units c)).
Proof.
  intro W. pose proof (numbers_of_units c W) as H.
  destruct c; cbn [units source_count] in *.
  all: try (rewrite H; apply zseq_sorted).
  all: try (rewrite H; repeat constructor; fail).
  - rewrite H. simpl in W. apply incr_from_sorted in W. apply W.
  - apply rtf_numbers_sorted.
Qed.

Lemma numbers_no_repeat c : wf_source c = true -> NoDup (unit_numbers (units c)).
Proof. intro W. apply sorted_lt_NoDup, numbers_strict, W. Qed.

Lemma enum_from_length {A} k (l : list A) : List.length (enum_from k l) = List.length l.
Proof. rewrite <- (map_length fst), enum_from_fst, zseq_length. reflexivity. Qed.

(* one unit per page / slide / sheet / chapter *)
Lemma one_unit_per_source c n : source_count c = Some n -> List.length (units c) = n.
Proof.
  destruct c; simpl; intro H; inversion H; subst; clear H;
    unfold pdf_units, pptx_units, ppt_units, odp_units, xlsx_units, xls_units, ods_units, epub_units;
    rewrite map_length; try reflexivity; apply enum_from_length.
Qed.

Lemma single_unit c : source_count c = None -> (forall r, c <> CRtf r) ->
  exists t, units c = [mkU 1 t].
Proof.
  destruct c; simpl; intros H NR; try discriminate; try (eexists; reflexivity).
  - unfold email_units. destruct (nonempty (body_plain e)); [eexists; reflexivity|].
    destruct (nonempty (body_html e)); eexists; reflexivity.
  - exfalso. eapply NR. reflexivity.
Qed.

(* ------------------------------------------------------------------ unit k holds the text of source k *)
Lemma pdf_partition pages k p :
  nth_error pages k = Some p -> nth_error (pdf_units pages) k = Some (mkU (Z.of_nat k + 1) p).
Proof. intro H. unfold pdf_units. rewrite (map_enum_nth _ 1 pages k p H). cbn [fst snd]. f_equal. f_equal. lia. Qed.

Lemma xlsx_partition sheets k sh :
  nth_error sheets k = Some sh ->
  nth_error (xlsx_units sheets) k = Some (mkU (Z.of_nat k + 1) (sh_name sh ++ [NL] ++ strip (sh_text sh))).
Proof. intro H. unfold xlsx_units. rewrite (map_enum_nth _ 1 sheets k sh H). cbn [fst snd]. f_equal. f_equal. lia. Qed.

Lemma xls_partition sheets k sh :
  nth_error sheets k = Some sh ->
  nth_error (xls_units sheets) k = Some (mkU (Z.of_nat k + 1) (strip (sh_text sh))).
Proof. intro H. unfold xls_units. rewrite (map_enum_nth _ 1 sheets k sh H). cbn [fst snd]. f_equal. f_equal. lia. Qed.

Lemma ods_partition sheets k sh :
  nth_error sheets k = Some sh ->
  nth_error (ods_units sheets) k
  = Some (mkU (Z.of_nat k + 1) (strip (sh_name sh ++ [NL] ++ strip (sh_text sh)))).
Proof. intro H. unfold ods_units. rewrite (map_enum_nth _ 1 sheets k sh H). cbn [fst snd]. f_equal. f_equal. lia. Qed.

Lemma pptx_partition cap slides k sl :
  nth_error slides k = Some sl ->
  nth_error (pptx_units cap slides) k = Some (mkU (px_number sl) (strip (pptx_slide_text cap sl))).
Proof. intro H. unfold pptx_units. rewrite nth_error_map, H. reflexivity. Qed.

Lemma ppt_partition slides k sl :
  nth_error slides k = Some sl ->
  nth_error (ppt_units slides) k = Some (mkU (sl_number sl) (text_combined sl)).
Proof. intro H. unfold ppt_units. rewrite nth_error_map, H. reflexivity. Qed.

Lemma odp_partition slides k sl :
  nth_error slides k = Some sl ->
  nth_error (odp_units slides) k = Some (mkU (sl_number sl) (text_combined sl)).
Proof. intro H. unfold odp_units. rewrite nth_error_map, H. reflexivity. Qed.

Lemma epub_partition chapters k c :
  nth_error chapters k = Some c ->
  nth_error (epub_units chapters) k = Some (mkU (ch_number c) (ch_text c)).
Proof. intro H. unfold epub_units. rewrite nth_error_map, H. reflexivity. Qed.

(* RTF with explicit pages: the units are exactly the non-blank pages, each under its position in
   RtfContent.pages *)
Lemma rtf_units_pages r u :
  rtf_pages r <> [] ->
  (In u (rtf_units r) <->
   exists k, u_num u = Z.of_nat k + 1 /\ nth_error (rtf_pages r) k = Some (u_text u)
             /\ nonempty (strip (u_text u)) = true).
Proof.
  intro NE. unfold rtf_units. destruct (rtf_pages r) as [|p ps] eqn:E; [contradiction|].
  rewrite in_map_iff. split.
  - intros [[n t] [<- H]]. apply enum_filter_In in H. cbn [fst snd u_num u_text] in *.
    destruct H as [[i [E1 E2]] F]. exists i. split; [lia|]. split; [exact E2 | exact F].
  - intros [k [E1 [E2 F]]]. exists (u_num u, u_text u). split; [destruct u; reflexivity|].
    apply enum_filter_In. cbn [fst snd]. split; [|exact F]. exists k. split; [lia | exact E2].
Qed.

(* ------------------------------------------------------------------ extractor loops *)
Lemma pptx_slide_loop_wf cap l : wf_source (CPptx cap (pptx_slide_loop l)) = true.
Proof.
  cbn [wf_source]. apply zlist_eqb_eq. unfold pptx_slide_loop. rewrite map_map, map_length.
  rewrite enum_from_length. rewrite <- (enum_from_fst 1 l). apply map_ext.
  intros [k [[b f] d]]. reflexivity.
Qed.

Lemma epub_spine_loop_incr k items : incr_from k (map ch_number (epub_spine_loop k items)) = true.
Proof.
  assert (G : forall items lo k, lo <= k -> incr_from lo (map ch_number (epub_spine_loop k items)) = true).
  { clear. induction items as [|[t|] r IH]; intros lo k H; simpl; [reflexivity| |].
    - apply andb_true_iff; split; [apply Z.ltb_lt; lia | apply IH; lia].
    - apply IH; lia. }
  apply G. lia.
Qed.

(* chapter numbers are the 1-based spine positions of the items that produced a chapter *)
Lemma epub_spine_loop_positions items c :
  In c (epub_spine_loop 0 items) <->
  exists i, ch_number c = Z.of_nat i + 1 /\ nth_error items i = Some (Some (ch_text c)).
Proof.
  assert (G : forall items k c, In c (epub_spine_loop k items) <->
            exists i, ch_number c = k + Z.of_nat i + 1 /\ nth_error items i = Some (Some (ch_text c))).
  { clear. induction items as [|[t|] r IH]; intros k c; simpl.
    - split; [contradiction | intros [[|i] [_ H]]; discriminate].
    - rewrite IH. split.
      + intros [<-|[i [E1 E2]]]; [exists O; simpl; split; [lia|reflexivity] | exists (S i); simpl; split; [lia|exact E2]].
      + intros [[|i] [E1 E2]]; simpl in *.
        * left. inversion E2. destruct c; simpl in *. f_equal; lia.
        * right. exists i. split; [lia | exact E2].
    - rewrite IH. split.
      + intros [i [E1 E2]]. exists (S i); simpl; split; [lia|exact E2].
      + intros [[|i] [E1 E2]]; simpl in *; [discriminate|]. exists i. split; [lia | exact E2]. }
  rewrite G. split; intros [i [E1 E2]]; exists i; split; auto; lia.
Qed.
