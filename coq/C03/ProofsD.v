(* C03 — DOCX heading sections: positive cover theorem for clean documents (no non-empty paragraph before
   the first heading, every heading has text, no paragraph carries a page break). *)
From Coq Require Import ZArith List Bool Lia ZifyBool.
From S2T Require Import Lib.PyStr C03.Lib C03.Docx C03.Sect C03.ProofsS.
Import ListNotations.
Open Scope Z_scope.

Definition para_ok (p : dpara) : bool :=
  if is_heading p then nonempty (strip (dp_text p)) else negb (dp_break p).

Fixpoint preface_ok (ps : list dpara) : bool :=
  match ps with
  | [] => true
  | p :: r => if is_heading p then true else negb (nonempty (strip (dp_text p))) && preface_ok r
  end.

Definition docx_clean (d : docx) : bool := preface_ok (dx_paras d) && forallb para_ok (dx_paras d).

Definition ptexts (ps : list dpara) : list str := filter nonempty (map (fun p => strip (dp_text p)) ps).

Lemma good_strip_nonempty x : good x = true -> nonempty (strip x) = true.
Proof.
  destruct x as [|c r]; [discriminate|]. simpl. intro H. apply negb_true_iff in H.
  unfold strip, lstrip. rewrite dropWhile_id_head by exact H.
  destruct (rstrip_keeps_head c r H) as [r' E]. rewrite E. reflexivity.
Qed.

Lemma filter_good2 lines : forallb good lines = true -> filter (fun l => nonempty (strip l)) lines = lines.
Proof.
  induction lines as [|x l IH]; simpl; [reflexivity|]. intro H. apply andb_true_iff in H as [H1 H2].
  rewrite (good_strip_nonempty x H1), IH by exact H2. reflexivity.
Qed.

Lemma text_nonempty2 x rest :
  forallb good (x :: rest) = true ->
  nonempty (strip (joinNL (filter (fun l => nonempty (strip l)) (x :: rest)))) = true.
Proof.
  intro H. rewrite filter_good2 by exact H. rewrite <- (filter_good (x :: rest) H). apply text_nonempty. exact H.
Qed.

Lemma covered_app a b t : In t (covered_texts (a ++ b)) <-> In t (covered_texts a) \/ In t (covered_texts b).
Proof. unfold covered_texts. rewrite map_app, concat_app, in_app_iff. tauto. Qed.

Lemma covered_single u t : In t (du_path u) \/ In t (du_lines u) -> In t (covered_texts [u]).
Proof. intro H. unfold covered_texts. cbn [map List.concat]. rewrite app_nil_r. apply in_or_app. exact H. Qed.

Record inv (st : state) : Prop := mkInv {
  inv_path : st_path st <> [];
  inv_start : st_start st <> None;
  inv_pathof : st_path st = path_of (st_stack st);
  inv_top : exists c tt rest, st_level st = Some c /\ rev (st_stack st) = (c, tt) :: rest;
  inv_good : forallb good (st_lines st) = true
}.

(* the closing flush (next_heading_level=None) always emits the open section *)
Lemma final_flush_covers d st e t :
  inv st -> In t (st_path st) \/ In t (st_lines st) -> In t (covered_texts (fst (flush d st e None))).
Proof.
  intros I H. destruct I as [IP IS _ _ _]. unfold flush.
  destruct (st_path st) as [|p0 pr] eqn:EP; [contradiction|].
  destruct (st_start st) as [a|]; [|contradiction].
  rewrite andb_false_r. cbn [fst]. apply covered_single. cbn [du_path du_lines]. exact H.
Qed.

Lemma push_keeps_path stack c tt rest level t0 x :
  rev stack = (c, tt) :: rest -> c < level -> In x (path_of stack) -> In x (path_of (push_heading stack level t0)).
Proof.
  intros R L H. unfold push_heading. rewrite R. simpl.
  destruct (Z.leb level c) eqn:Q; [lia|].
  rewrite <- R, rev_involutive. unfold path_of in *. rewrite map_app, filter_app. apply in_or_app. left. exact H.
Qed.

Lemma push_inv st ui level t0 idx b :
  nonempty t0 = true ->
  inv (mkState ui (push_heading (st_stack st) level t0) (Some level)
               (path_of (push_heading (st_stack st) level t0)) [] (Some idx) b true).
Proof.
  intro N. constructor; cbn [st_path st_start st_stack st_level st_lines].
  - intro E. pose proof (push_heading_top (st_stack st) level t0 N) as H. rewrite E in H. contradiction.
  - discriminate.
  - reflexivity.
  - exists level, t0. unfold push_heading. rewrite rev_app_distr. simpl. eauto.
  - reflexivity.
Qed.

Lemma walk_cover d ps : forall st idx e,
  inv st -> forallb para_ok ps = true ->
  forall t, In t (st_path st) \/ In t (st_lines st) \/ In t (ptexts ps) ->
    In t (covered_texts (fst (walk d st idx ps) ++ fst (flush d (snd (walk d st idx ps)) e None))).
Proof.
  induction ps as [|p r IH]; intros st idx e I OK t H.
  - simpl. apply (final_flush_covers d st e t I). destruct H as [H|[H|[]]]; auto.
  - simpl in OK. apply andb_true_iff in OK as [OKp OKr]. unfold para_ok, is_heading in OKp.
    cbn [walk]. destruct (dp_level p) as [level|] eqn:LV.
    + (* heading *)
      set (t0 := strip (dp_text p)) in *.
      assert (PT : ptexts (p :: r) = t0 :: ptexts r).
      { unfold ptexts. simpl. fold t0. rewrite OKp. reflexivity. }
      destruct (flush d st (idx - 1) (Some level)) as [us1 ui] eqn:F.
      set (st2 := mkState ui (push_heading (st_stack st) level t0) (Some level)
                          (path_of (push_heading (st_stack st) level t0)) [] (Some idx) (attach d idx) true).
      assert (I2 : inv st2) by (apply push_inv; exact OKp).
      specialize (IH st2 (idx + 1) e I2 OKr t).
      destruct (walk d st2 (idx + 1) r) as [us2 stf] eqn:W. cbn [fst snd] in *.
      rewrite <- app_assoc. apply covered_app.
      (* what the flush did *)
      destruct I as [IP IS IPO [c [tt [rest [IL IR]]]] IG].
      unfold flush in F. destruct (st_path st) as [|p0 pr] eqn:EP; [contradiction|].
      destruct (st_start st) as [a|]; [|contradiction].
      rewrite PT in H.
      match type of F with (if ?b then _ else _) = _ => destruct b eqn:SK end; inversion F; subst us1 ui; clear F.
      * (* skipped: text empty, next heading deeper: the path survives in the new path *)
        right. apply IH.
        apply andb_true_iff in SK as [SK1 SK3]. apply andb_true_iff in SK1 as [SK1 _].
        apply negb_true_iff in SK1. rewrite IL in SK3. apply Z.ltb_lt in SK3.
        destruct H as [H|[H|[H|H]]].
        -- left. cbn [st_path st2]. apply (push_keeps_path _ c tt rest); [exact IR | exact SK3 |].
           rewrite <- IPO. exact H.
        -- exfalso. destruct (st_lines st) as [|x l0] eqn:EL; [contradiction|].
           rewrite (text_nonempty2 x l0 IG) in SK1. discriminate.
        -- left. cbn [st_path st2]. subst t. apply push_heading_top. exact OKp.
        -- right. right. exact H.
      * destruct H as [H|[H|[H|H]]].
        -- left. apply covered_single. cbn [du_path du_lines]. left. exact H.
        -- left. apply covered_single. cbn [du_path du_lines]. right. exact H.
        -- right. apply IH. left. cbn [st_path st2]. subst t. apply push_heading_top. exact OKp.
        -- right. apply IH. right. right. exact H.
    + (* body paragraph, no page break *)
      apply negb_true_iff in OKp. rewrite OKp. rewrite andb_false_r. cbn [andb].
      unfold ptexts in H. simpl in H. destruct (nonempty (strip (dp_text p))) eqn:N.
      * apply IH; [|exact OKr|].
        -- destruct I as [IP IS IPO IT IG]. constructor; cbn [st_path st_start st_stack st_level st_lines]; auto.
           rewrite forallb_app, IG. simpl. rewrite strip_good by exact N. reflexivity.
        -- cbn [st_path st_lines]. destruct H as [H|[H|[H|H]]]; auto.
           ++ right. left. apply in_or_app. left. exact H.
           ++ right. left. apply in_or_app. right. left. exact H.
      * apply IH; [|exact OKr|].
        -- destruct I as [IP IS IPO IT IG]. constructor; cbn [st_path st_start st_stack st_level st_lines]; auto.
        -- cbn [st_path st_lines]. exact H.
Qed.

(* before the first heading: only empty paragraphs, nothing open *)
Lemma walk_cover_preface d ps : forall st idx e,
  st_path st = [] -> preface_ok ps = true -> forallb para_ok ps = true ->
  forall t, In t (ptexts ps) ->
    In t (covered_texts (fst (walk d st idx ps) ++ fst (flush d (snd (walk d st idx ps)) e None))).
Proof.
  induction ps as [|p r IH]; intros st idx e EP PO OK t H; [contradiction|].
  simpl in OK. apply andb_true_iff in OK as [OKp OKr]. unfold para_ok, is_heading in OKp.
  simpl in PO. unfold is_heading in PO. cbn [walk]. destruct (dp_level p) as [level|] eqn:LV.
  - set (t0 := strip (dp_text p)) in *.
    assert (PT : ptexts (p :: r) = t0 :: ptexts r).
    { unfold ptexts. simpl. fold t0. rewrite OKp. reflexivity. }
    assert (F : flush d st (idx - 1) (Some level) = ([], st_index st)) by (unfold flush; rewrite EP; reflexivity).
    rewrite F.
    set (st2 := mkState (st_index st) (push_heading (st_stack st) level t0) (Some level)
                        (path_of (push_heading (st_stack st) level t0)) [] (Some idx) (attach d idx) true).
    assert (I2 : inv st2) by (apply push_inv; exact OKp).
    pose proof (walk_cover d r st2 (idx + 1) e I2 OKr t) as W.
    destruct (walk d st2 (idx + 1) r) as [us2 stf]. cbn [fst snd app] in *. apply W.
    rewrite PT in H. destruct H as [<-|H]; [left; cbn [st_path st2]; apply push_heading_top; exact OKp | right; right; exact H].
  - apply andb_true_iff in PO as [PE PO]. apply negb_true_iff in PE.
    rewrite EP. cbn [nil_b negb andb]. rewrite PE.
    unfold ptexts in H. simpl in H. rewrite PE in H.
    apply IH; auto.
Qed.

Lemma docx_cover_clean d :
  docx_clean d = true -> forall t, In t (body_texts d) -> In t (covered_texts (docx_units d)).
Proof.
  unfold docx_clean. intros C t H. apply andb_true_iff in C as [PO OK].
  unfold docx_units. unfold body_texts in H. fold (ptexts (dx_paras d)) in H.
  destruct (dx_paras d) as [|p r] eqn:E; [contradiction|]. rewrite <- E in *.
  pose proof (walk_cover_preface d (dx_paras d) init_state 0 (Z.of_nat (List.length (dx_paras d)) - 1)
                                 eq_refl PO OK t H) as W.
  destruct (walk d init_state 0 (dx_paras d)) as [us st]. cbn [fst snd] in W.
  assert (NB : nil_b (dx_paras d) = false) by (rewrite E; reflexivity). rewrite NB.
  destruct (st_any st); [exact W|].
  rewrite app_assoc. apply covered_app. left. exact W.
Qed.
