(* C03 — correspondence helpers: compare the model with answers recorded from the implementation. *)
From Coq Require Import ZArith List Bool.
From S2T Require Import Lib.PyStr C03.Lib C03.Model.
Import ListNotations.

Fixpoint units_eqb (us : list unit_) (exp : list (Z * str)) : bool :=
  match us, exp with
  | [], [] => true
  | u :: us', (n, t) :: exp' => Z.eqb (u_num u) n && str_eqb (u_text u) t && units_eqb us' exp'
  | _, _ => false
  end.

(* case = (content object as built in Python, [(unit_number, get_text())] from iterate_units(),
           get_full_text()) *)
Definition corr_case (c : content * list (Z * str) * str) : bool :=
  let '(c, us, ft) := c in units_eqb (units c) us && str_eqb (full_text c) ft.

(* str.strip / join against CPython: (x, x.strip(), parts, "\n".join(parts)) *)
Definition strip_case (c : str * str * list str * str) : bool :=
  let '(x, sx, parts, j) := c in str_eqb (strip x) sx && str_eqb (joinNL parts) j.
