(* C03 — correspondence helpers: compare the model with answers recorded from the implementation. *)
From Coq Require Import ZArith List Bool.
From S2T Require Import Lib.PyStr C03.Lib C03.Model.
Import ListNotations.

Fixpoint units_eqb (us : list unit_) (exp : list (Z * str)) : bool :=
  match us, exp with
  | [], [] => true
  | u :: us', (n, t) :: exp' => Z.eqb (u_num u) n && str_eqb (u_text u) t && units_eqb us' exp'
  | _, _ => false
  end.

(* case = (content object as built in Python, [(unit_number, get_text())] from iterate_units(),
           get_full_text()) *)
Definition corr_case (c : content * list (Z * str) * str) : bool :=
  let '(c, us, ft) := c in units_eqb (units c) us && str_eqb (full_text c) ft.

(* str.strip / join against CPython: (x, x.strip(), parts, "\n".join(parts)) *)
Definition strip_case (c : str * str * list str * str) : bool :=
  let '(x, sx, parts, j) := c in str_eqb (strip x) sx && str_eqb (joinNL parts) j.

From S2T Require Import C03.Extract C03.Docx.

Fixpoint strs_eqb (a b : list str) : bool :=
  match a, b with
  | [], [] => true
  | x :: a', y :: b' => str_eqb x y && strs_eqb a' b'
  | _, _ => false
  end.

Definition optz_eqb (a b : option Z) : bool :=
  match a, b with Some x, Some y => Z.eqb x y | None, None => true | _, _ => false end.

Fixpoint blocks_eqb (a : list block) (b : list (str * option Z)) : bool :=
  match a, b with
  | [], [] => true
  | x :: a', (t, ty) :: b' => str_eqb (b_text x) t && optz_eqb (b_type x) ty && blocks_eqb a' b'
  | _, _ => false
  end.

Fixpoint slides_eqb (a : list (list block)) (b : list (list (str * option Z))) : bool :=
  match a, b with
  | [], [] => true
  | x :: a', y :: b' => blocks_eqb x y && slides_eqb a' b'
  | _, _ => false
  end.

(* _parse_slide_list_container on a generated record stream *)
Definition ppt_slist_case (c : list ppt_event * list (list (str * option Z))) : bool :=
  slides_eqb (parse_slide_list_container (fst c)) (snd c).

Definition mk_blocks (l : list (list (str * option Z))) : list (list block) :=
  map (map (fun b => mkBlock (fst b) (snd b))) l.

(* _parse_ppt_document: (SlideListWithText containers, _parse_containers()["slides"], raw texts,
   units of the resulting PptContent) *)
Definition ppt_doc_case (T : ppt_tables)
    (c : list (list ppt_event) * list (list (str * option Z)) * list str * list (Z * str)) : bool :=
  let '(conts, cslides, raw, exp) := c in
  units_eqb (ppt_units (parse_ppt_document T (extract_slide_list_texts conts) (mk_blocks cslides) raw)) exp.

Definition norm_of (tbl : list (str * str)) (x : str) : str :=
  match assoc x tbl with Some y => y | None => x end.

(* rtf page splitting: (recorded regex normalisations, segments, parser.pages) *)
Definition rtf_pages_case (c : list (str * str) * list str * list str) : bool :=
  let '(tbl, segs, pages) := c in strs_eqb (rtf_split_pages (norm_of tbl) segs) pages.

Definition mbox_case (c : str * list str) : bool := strs_eqb (split_mbox_messages (fst c)) (snd c).

Fixpoint dunits_eqb (a : list dunit) (b : list (Z * str * list str * option Z)) : bool :=
  match a, b with
  | [], [] => true
  | u :: a', (n, t, p, l) :: b' =>
      Z.eqb (du_num u) n && str_eqb (du_text u) t && strs_eqb (du_path u) p && optz_eqb (du_level u) l
      && dunits_eqb a' b'
  | _, _ => false
  end.

Definition docx_case (c : docx * list (Z * str * list str * option Z)) : bool :=
  dunits_eqb (docx_units (fst c)) (snd c).

From S2T Require Import C03.Sect.

Fixpoint obss_eqb (a b : list obs) : bool :=
  match a, b with
  | [], [] => true
  | (n, t, p, l) :: a', (n', t', p', l') :: b' =>
      Z.eqb n n' && str_eqb t t' && strs_eqb p p' && optz_eqb l l' && obss_eqb a' b'
  | _, _ => false
  end.

(* DocContent / OdtContent instances: (record, [(unit_number, text, heading_path, heading_level)]) *)
Definition doc_case (c : doc * list obs) : bool := obss_eqb (doc_units (fst c)) (snd c).
Definition odt_case (c : odt * list obs) : bool := obss_eqb (odt_units (fst c)) (snd c).
(* str.split() against CPython *)
Definition split_case (c : str * list str) : bool := strs_eqb (split_ws (fst c)) (snd c).

From S2T Require Import C03.Odf.

Definition optstr_eqb (a : option str) (b : str) : bool :=
  match a with Some x => str_eqb x b | None => str_eqb [] b end.

Fixpoint odp_slides_eqb (a : list slide) (b : list (Z * str * list str * list str)) : bool :=
  match a, b with
  | [], [] => true
  | sl :: a', (n, t, bd, ot) :: b' =>
      Z.eqb (sl_number sl) n && optstr_eqb (sl_title sl) t && strs_eqb (sl_body sl) bd && strs_eqb (sl_other sl) ot
      && odp_slides_eqb a' b'
  | _, _ => false
  end.

(* read_odp on a parsed content.xml: (shape tree per draw:page, [(slide_number, title, body_text, other_text)],
   units of the OdpContent) *)
Definition odp_case (c : list (list shape) * list (Z * str * list str * list str) * list (Z * str)) : bool :=
  let '(pages, slides, us) := c in
  odp_slides_eqb (read_odp_slides pages) slides && units_eqb (odp_units (read_odp_slides pages)) us.

Fixpoint sheets_eqb (a : list sheet) (b : list (str * str)) : bool :=
  match a, b with
  | [], [] => true
  | sh :: a', (n, t) :: b' => str_eqb (sh_name sh) n && str_eqb (sh_text sh) t && sheets_eqb a' b'
  | _, _ => false
  end.

(* read_ods on a parsed content.xml: (row tree per table:table, [(sheet.name, sheet.text)], units) *)
Definition ods_case (c : list (str * list row_node) * list (str * str) * list (Z * str)) : bool :=
  let '(tables, sheets, us) := c in
  sheets_eqb (read_ods_sheets tables) sheets && units_eqb (ods_units (read_ods_sheets tables)) us.

From S2T Require Import C03.Order.

Definition slide_order_case (c : list relationship * list (option str) * list str) : bool :=
  let '(rels, ids, want) := c in strs_eqb (compute_slide_order rels ids) want.

Definition resolve_case (c : str * str * str) : bool :=
  let '(b, t, want) := c in str_eqb (resolve_part_name b t) want.

Fixpoint chapters_eqb (a : list chapter) (b : list (Z * str)) : bool :=
  match a, b with
  | [], [] => true
  | x :: a', (n, t) :: b' => Z.eqb (ch_number x) n && str_eqb (ch_text x) t && chapters_eqb a' b'
  | _, _ => false
  end.

(* read_epub on a generated package: (ZIP members, recorded chapter texts per member, opf dir, manifest items
   (namespaced / any), spine idrefs (namespaced / any), [(chapter_number, text)]) *)
Definition epub_case (c : list str * list (str * str) * str * list manifest_item * list manifest_item
                          * list str * list str * list (Z * str)) : bool :=
  let '(members, texts, opf_dir, ns_items, any_items, ns_refs, any_refs, want) := c in
  chapters_eqb (read_epub_chapters members (fun h => assoc h texts) opf_dir
                                   (parse_manifest ns_items any_items) (parse_spine ns_refs any_refs)) want.
