(* C03 — executable model of the heading-section walks of DocContent.iterate_units and
   OdtContent.iterate_units (heading stack, flush on heading, pending tables) and their format front-ends.
   Definitions only.  Oracles: str.splitlines and str.lower (DOC lines arrive split, each with its
   strip().lower() form). *)
From Coq Require Import ZArith List Bool.
From S2T Require Import Lib.PyStr C03.Lib C03.Docx.
Import ListNotations.
Open Scope Z_scope.

(* what one line (DOC) / paragraph (ODT) does to the walk *)
Inductive sitem :=
| SHead (level : Z) (text : str)      (* heading; text already stripped; empty text = ignored *)
| SLine (text : str)                  (* body text, already stripped; empty = ignored *)
| STable                              (* a table is appended to pending_tables *)
| SNone.

Record sunit := mkSUnit {
  su_num : Z;
  su_text : str;
  su_path : list str;                 (* current_heading_path at flush time (before base/title merging) *)
  su_level : option Z;
  su_tables : nat;                    (* len(current_tables) *)
  su_lines : list str                 (* ghost: current_lines at flush time *)
}.

Record sstate := mkSState {
  ss_index : Z;                       (* unit_index, starts at 1 *)
  ss_stack : list (Z * str);
  ss_level : option Z;
  ss_path : list str;
  ss_lines : list str;
  ss_tables : nat;                    (* len(current_tables) *)
  ss_pending : nat;                   (* len(pending_tables) *)
  ss_any : bool
}.

Definition sinit : sstate := mkSState 1 [] None [] [] 0 0 false.

(* flush_current(): (units appended, state with lines/tables cleared) *)
Definition sflush (st : sstate) : list sunit * sstate :=
  let text := strip (joinNL (filter nonempty (ss_lines st))) in
  if nonempty text || negb (Nat.eqb (ss_tables st) 0) then
    ([mkSUnit (ss_index st) text (ss_path st) (ss_level st) (ss_tables st) (ss_lines st)],
     mkSState (ss_index st + 1) (ss_stack st) (ss_level st) (ss_path st) [] 0 (ss_pending st) (ss_any st))
  else
    ([], mkSState (ss_index st) (ss_stack st) (ss_level st) (ss_path st) [] 0 (ss_pending st) (ss_any st)).

Fixpoint swalk (st : sstate) (items : list sitem) : list sunit * sstate :=
  match items with
  | [] =>
      (* after the loop: pending tables join the current unit, final flush *)
      sflush (mkSState (ss_index st) (ss_stack st) (ss_level st) (ss_path st) (ss_lines st)
                       (ss_tables st + ss_pending st) 0 (ss_any st))
  | SHead level t :: r =>
      if nonempty t then
        let '(us, st1) := sflush st in
        let stack := push_heading (ss_stack st1) level t in
        let st2 := mkSState (ss_index st1) stack (Some level) (path_of stack) [] (ss_tables st1 + ss_pending st1) 0 true in
        let '(us2, stf) := swalk st2 r in (us ++ us2, stf)
      else swalk st r
  | SLine t :: r =>
      if nonempty t
      then swalk (mkSState (ss_index st) (ss_stack st) (ss_level st) (ss_path st) (ss_lines st ++ [t])
                           (ss_tables st) (ss_pending st) (ss_any st)) r
      else swalk st r
  | STable :: r =>
      swalk (mkSState (ss_index st) (ss_stack st) (ss_level st) (ss_path st) (ss_lines st)
                      (ss_tables st) (S (ss_pending st)) (ss_any st)) r
  | SNone :: r => swalk st r
  end.

Definition has_heading (items : list sitem) : bool :=
  existsb (fun i => match i with SHead _ t => nonempty t | _ => false end) items.

(* units of the heading walk; when no heading was seen the caller yields one flowing unit instead *)
Definition section_units (items : list sitem) : list sunit := fst (swalk sinit items).

(* ------------------------------------------------------------------ str.split() (whitespace) *)
Fixpoint split_ws_acc (x : str) (cur : str) : list str :=
  match x with
  | [] => match cur with [] => [] | _ => [rev cur] end
  | c :: r => if is_space c then (match cur with [] => [] | _ => [rev cur] end) ++ split_ws_acc r []
              else split_ws_acc r (c :: cur)
  end.
Definition split_ws (x : str) : list str := split_ws_acc x [].

Fixpoint strs_eqb' (a b : list str) : bool :=
  match a, b with
  | [], [] => true
  | x :: a', y :: b' => str_eqb x y && strs_eqb' a' b'
  | _, _ => false
  end.

(* ------------------------------------------------------------------ DOC front-end *)
Record doc_line := mkDocLine { dl_text : str; dl_lower : str }.   (* line.rstrip(); line.strip().lower() *)

Record doc := mkDoc {
  dc_lines : list doc_line;           (* [l.rstrip() for l in main_text.splitlines()] *)
  dc_main_text : str;
  dc_tables : list (list str);        (* per table its cells flattened row by row (str cells) *)
  dc_images : nat;                    (* len(self.images) *)
  dc_title : str
}.

(* heading_level_for(line) *)
Definition doc_heading_level (l : doc_line) : option Z :=
  if nonempty (strip (dl_text l)) then
    if startswith (dl_lower l) (s "subsection") then Some 2
    else if startswith (dl_lower l) (s "chapter") || str_eqb (dl_lower l) (s "intro") then Some 1
    else None
  else None.

Definition doc_line_item (l : doc_line) : sitem :=
  match doc_heading_level l with
  | Some level => SHead level (strip (dl_text l))
  | None => SLine (strip (dl_text l))
  end.

(* the for-loop body: consume_table_if_present first, then heading, then body line.
   tables = the tables not consumed yet *)
Fixpoint doc_items (lines : list doc_line) (tables : list (list str)) : list sitem :=
  match lines with
  | [] => []
  | l :: r =>
      let tokens := split_ws (dl_text l) in
      match tables with
      | tb :: tr =>
          if negb (nil_b tokens) && strs_eqb' tokens tb then STable :: doc_items r tr
          else doc_line_item l :: doc_items r tables
      | [] => doc_line_item l :: doc_items r tables
      end
  end.

(* observed unit: (unit_number, text, heading_path, heading_level) *)
Definition obs := (Z * str * list str * option Z)%type.
Definition obs_of (u : sunit) : obs := (su_num u, su_text u, su_path u, su_level u).

(* DocContent.iterate_units (with fixes/C03-doc-units-empty.patch: no image attribution when the heading
   walk produced no unit) *)
Definition doc_units (d : doc) : list obs :=
  match dc_lines d with
  | [] => [(1, [], [], None)]
  | _ =>
    let items := doc_items (dc_lines d) (dc_tables d) in
    if has_heading items then map obs_of (section_units items)
    else [(1, strip (dc_main_text d), [], None)]
  end.

(* before the repair: `units[-1]` on an empty list *)
Definition doc_raised_index_error (d : doc) : bool :=
  negb (nil_b (dc_lines d)) &&
  let items := doc_items (dc_lines d) (dc_tables d) in
  has_heading items && nil_b (section_units items) && negb (Nat.eqb (dc_images d) 0).

(* ------------------------------------------------------------------ ODT front-end *)
Record odt_para := mkOdtPara { op_text : str; op_style : str; op_level : option Z }.  (* style_name or "" *)
Record odt := mkOdt { od_paras : list odt_para; od_ntables : nat; od_full_text : str; od_title : str }.

Fixpoint contains_sub (x sub : str) : bool :=
  startswith x sub || match x with [] => false | _ :: r => contains_sub r sub end.

Definition is_table_style (st : str) : bool := startswith st (s "Table") || contains_sub st (s "Table_").

Fixpoint odt_items (ps : list odt_para) (in_block : bool) (tables_left : nat) : list sitem :=
  match ps with
  | [] => []
  | p :: r =>
      match op_level p with
      | Some level => SHead level (strip (op_text p)) :: odt_items r in_block tables_left
      | None =>
          if is_table_style (op_style p) then
            if in_block then SNone :: odt_items r true tables_left
            else match tables_left with
                 | S n => STable :: odt_items r true n
                 | O => SNone :: odt_items r true O
                 end
          else SLine (strip (op_text p)) :: odt_items r false tables_left
      end
  end.

(* unit_heading_path: base path, then the tokens, dropping a token equal to its predecessor *)
Definition merge_path (base path : list str) : list str :=
  fold_left (fun acc tok => match rev acc with
                            | last :: _ => if str_eqb last tok then acc else acc ++ [tok]
                            | [] => acc ++ [tok]
                            end) path base.

Definition odt_units (d : odt) : list obs :=
  let base := if nonempty (od_title d) then [od_title d] else [] in
  let single := [(1, od_full_text d, base, if nil_b base then None else Some 1)] in
  match od_paras d with
  | [] => single
  | _ =>
    let items := odt_items (od_paras d) false (od_ntables d) in
    if has_heading items
    then map (fun u => (su_num u, su_text u, merge_path base (su_path u), su_level u)) (section_units items)
    else single
  end.

(* ------------------------------------------------------------------ coverage vocabulary *)
(* the non-empty body texts (headings and lines) in document order; table lines are table content *)
Definition item_texts (items : list sitem) : list str :=
  List.concat (map (fun i => match i with
                             | SHead _ t => if nonempty t then [t] else []
                             | SLine t => if nonempty t then [t] else []
                             | _ => [] end) items).
Definition line_texts (items : list sitem) : list str :=
  List.concat (map (fun i => match i with SLine t => if nonempty t then [t] else [] | _ => [] end) items).
Definition scovered (us : list sunit) : list str := List.concat (map (fun u => su_path u ++ su_lines u) us).
