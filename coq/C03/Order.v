(* C03 — executable model of the source-order logic of the PPTX and EPUB extractors:
   pptx_extractor._PptxContext._compute_slide_order (relationship map, p:sldIdLst walk),
   util/zip_utils.resolve_part_name, epub_extractor._EpubContext._parse_manifest / _parse_spine and the gate of
   _extract_chapter (manifest membership, media type / extension, member exists), composed with the spine loop of
   read_epub (Model.epub_spine_loop).  Definitions only.
   Oracles: XML parsing / findall, str.lower of the relationship type, ZIP member list, reading+parsing a chapter. *)
From Coq Require Import ZArith List Bool.
From S2T Require Import Lib.PyStr C03.Lib C03.Model C03.Docx C03.Sect.
Import ListNotations.
Open Scope N_scope.

(* ------------------------------------------------------------------ helpers *)
(* x.replace(pat, rep), pat non-empty: leftmost, non-overlapping *)
Fixpoint replace_fuel (fuel : nat) (x pat rep : str) : str :=
  match fuel with
  | O => x
  | S f =>
      match x with
      | [] => []
      | c :: r => if startswith x pat then rep ++ replace_fuel f (skipn (List.length pat) x) pat rep
                  else c :: replace_fuel f r pat rep
      end
  end.
Definition replace_all (x pat rep : str) : str := replace_fuel (S (List.length x)) x pat rep.

(* dict built by successive assignment: the LAST entry of a key wins *)
Definition dict_get {A} (k : str) (entries : list (str * A)) : option A := assoc k (rev entries).

(* ------------------------------------------------------------------ PPTX slide order *)
Record relationship := mkRel { rel_id : str; rel_type_lower : str; rel_target : str }.

Definition SLIDE : str := s "slide".

Definition slide_full_path (target : str) : str :=
  if startswith target (s "slides/") then s "ppt/" ++ target
  else if startswith target (s "../") then replace_all target (s "../") (s "ppt/")
  else s "ppt/" ++ target.

(* rels_map *)
Definition rels_entries (rels : list relationship) : list (str * str) :=
  List.concat (map (fun r => if nonempty (rel_id r) && nonempty (rel_target r) && contains_sub (rel_type_lower r) SLIDE
                             then [(rel_id r, slide_full_path (rel_target r))] else []) rels).

(* sld_ids: the r:id attribute of every p:sldId of the first p:sldIdLst, in document order (None = attribute missing) *)
Definition compute_slide_order (rels : list relationship) (sld_ids : list (option str)) : list str :=
  List.concat (map (fun o => match o with
                             | Some rid => if nonempty rid
                                           then match dict_get rid (rels_entries rels) with Some p => [p] | None => [] end
                                           else []
                             | None => [] end) sld_ids).

(* ------------------------------------------------------------------ resolve_part_name *)
Definition SLASH : N := 47.
Definition DOTC : N := 46.

(* x.split("/") *)
Fixpoint split_slash_acc (x cur : str) : list str :=
  match x with
  | [] => [rev cur]
  | c :: r => if N.eqb c SLASH then rev cur :: split_slash_acc r [] else split_slash_acc r (c :: cur)
  end.
Definition split_slash (x : str) : list str := split_slash_acc x [].

Definition resolve_step (segments : list str) (part : str) : list str :=
  if str_eqb part [DOTC; DOTC] then removelast segments
  else if nonempty part && negb (str_eqb part [DOTC]) then segments ++ [part]
  else segments.

Definition resolve_segments (base_dir target : str) : list str :=
  fold_left resolve_step (split_slash target)
            (if startswith target [SLASH] then [] else filter nonempty (split_slash base_dir)).

Definition resolve_part_name (base_dir target : str) : str := join [SLASH] (resolve_segments base_dir target).

Definition clean_segment (p : str) : bool :=
  nonempty p && negb (str_eqb p [DOTC]) && negb (str_eqb p [DOTC; DOTC]) && negb (existsb (N.eqb SLASH) p).

(* ------------------------------------------------------------------ EPUB manifest / spine / chapter gate *)
Record manifest_item := mkItem { it_id : str; it_href : str; it_media : str }.

Definition manifest_entries (items : list manifest_item) : list (str * (str * str)) :=
  List.concat (map (fun i => if nonempty (it_id i) && nonempty (it_href i) then [(it_id i, (it_href i, it_media i))] else []) items).

(* first the namespaced items, then — only if that gave nothing — every item element *)
Definition parse_manifest (ns_items any_items : list manifest_item) : list (str * (str * str)) :=
  match manifest_entries ns_items with [] => manifest_entries any_items | m => m end.

Definition parse_spine (ns_idrefs any_idrefs : list str) : list str :=
  match filter nonempty ns_idrefs with [] => filter nonempty any_idrefs | l => l end.

Definition is_content_document (media href : str) : bool :=
  startswith media (s "application/xhtml") || startswith media (s "text/html")
  || endswith href (s ".xhtml") || endswith href (s ".html") || endswith href (s ".htm").

Section Epub.
  Variable members : list str.                 (* ZIP member names *)
  Variable chapter_text : str -> option str.   (* read + parse of a member: None when that fails *)

  (* _extract_chapter up to the text: None = no chapter for this spine item *)
  Definition chapter_of (opf_dir : str) (manifest : list (str * (str * str))) (item_id : str) : option str :=
    match dict_get item_id manifest with
    | None => None
    | Some (href0, media) =>
        let href := resolve_part_name opf_dir href0 in
        if is_content_document media href then
          if mem_str href members then chapter_text href else None
        else None
    end.

  Definition read_epub_chapters (opf_dir : str) (manifest : list (str * (str * str))) (spine : list str) : list chapter :=
    epub_spine_loop 0 (map (chapter_of opf_dir manifest) spine).
End Epub.
