(* C03 — lemmas about the extractor-side numbering models (PPT, RTF pages) and the DOCX section
   walk: positive results, refutations with witnesses, partial results. *)
From Coq Require Import ZArith List Bool Lia ZifyBool Sorted.
From S2T Require Import Lib.PyStr C03.Lib C03.Model C03.Proofs C03.Extract C03.Docx.
Import ListNotations.
Open Scope Z_scope.

(* ================================================================== PPT *)
Lemma build_slide_number T n blocks : sl_number (build_slide T n blocks) = n.
Proof. unfold build_slide. destruct (fold_left (build_step T) blocks (None, [], [])) as [[t b] o]. reflexivity. Qed.

Lemma build_slides_numbers T l : map sl_number (build_slides T l) = zseq 1 (List.length l).
Proof.
  unfold build_slides. rewrite map_map. rewrite <- (enum_from_fst 1 l). apply map_ext.
  intros [k b]. apply build_slide_number.
Qed.

Lemma build_slides_length T l : List.length (build_slides T l) = List.length l.
Proof. unfold build_slides. rewrite map_length. apply enum_from_length. Qed.

Lemma build_slides_wf T l : wf_source (CPpt (build_slides T l)) = true.
Proof. cbn [wf_source]. apply zlist_eqb_eq. rewrite build_slides_numbers, build_slides_length. reflexivity. Qed.

(* the document's slides are numbered 1..n, raw fallback included (repaired code) *)
Lemma parse_ppt_document_wf T sl cs raw : wf_source (CPpt (parse_ppt_document T sl cs raw)) = true.
Proof.
  unfold parse_ppt_document. cbv zeta.
  set (src := if negb (is_nil sl) then sl else if negb (is_nil cs) then cs else []).
  destruct (is_nil (List.concat src)); [|apply build_slides_wf].
  destruct (is_nil raw); cbn [negb]; [apply build_slides_wf|].
  pose proof (build_slides_wf T src) as W. destruct (build_slides T src) as [|s0 r]; [reflexivity|].
  exact W.
Qed.

(* the unrepaired fallback repeated unit number 1: slide list with one empty slide + text found only by the
   raw scan (kept as a regression witness; the check replays it against the code) *)
Definition T0 : ppt_tables := mkPptTables [0; 6] [1; 5; 7; 8] 2.
Lemma ppt_unrepaired_fallback_duplicate :
  exists T sl cs raw, ~ NoDup (unit_numbers (ppt_units (parse_ppt_document_unrepaired T sl cs raw))).
Proof.
  exists T0, [[]], [], [s "Hello"]. vm_compute. intro H. inversion H as [|x l NI ND]; subst.
  apply NI. left. reflexivity.
Qed.

(* REFUTED: one slide per SlidePersistAtom.  Second slide empty: it is dropped and the third slide's
   text comes back as slide 2. *)
Definition ev_witness : list ppt_event := [EvPersist; EvText (s "one"); EvPersist; EvPersist; EvText (s "three")].
Lemma ppt_empty_slide_dropped :
  exists evs, List.length (parse_slide_list_container evs) <> count_persist evs
              /\ nth_error (slides_by_persist_atom evs) 2 = Some [mkBlock (s "three") None]
              /\ nth_error (parse_slide_list_container evs) 1 = Some [mkBlock (s "three") None].
Proof. exists ev_witness. vm_compute. repeat split; congruence. Qed.

Lemma psl_all_prefix evs : forall slides cur ty started,
  exists tl, psl_all evs slides cur ty started = slides ++ tl.
Proof.
  induction evs as [|e r IH]; intros slides cur ty started; simpl.
  - destruct started; [exists [cur] | exists []; rewrite app_nil_r]; reflexivity.
  - destruct e.
    + destruct started.
      * destruct (IH (slides ++ [cur]) [] ty true) as [tl E]. exists (cur :: tl). rewrite E, <- app_assoc. reflexivity.
      * apply IH.
    + apply IH.
    + destruct (nonempty cleaned); apply IH.
    + apply IH.
Qed.

Lemma psl_all_length evs : forall slides cur ty started,
  List.length (psl_all evs slides cur ty started)
  = (List.length slides + count_persist evs + (if started then 1 else 0))%nat.
Proof.
  unfold count_persist.
  induction evs as [|e r IH]; intros slides cur ty started; simpl.
  - destruct started; [rewrite app_length; simpl|]; lia.
  - destruct e; simpl.
    + rewrite IH. destruct started; [rewrite app_length; simpl|]; lia.
    + apply IH.
    + destruct (nonempty cleaned); apply IH.
    + apply IH.
Qed.

Lemma slides_by_persist_atom_length evs : List.length (slides_by_persist_atom evs) = count_persist evs.
Proof. unfold slides_by_persist_atom. rewrite psl_all_length. simpl. lia. Qed.

Definition has_text (b : list block) : bool := negb (is_nil b).

(* PARTIAL: when every slide of the container has text, the implementation returns exactly one entry
   per SlidePersistAtom with that slide's text *)
Lemma psl_eq_all evs : forall slides cur ty started any,
  (is_nil cur = false -> any = true) ->
  forallb has_text (psl_all evs slides cur ty started) = true ->
  (started = false -> forallb has_text slides = true) ->
  psl evs slides cur ty started any = psl_all evs slides cur ty started.
Proof.
  induction evs as [|e r IH]; intros slides cur ty started any HA HT HS; simpl in *.
  - unfold psl_save. destruct started; [|reflexivity].
    rewrite forallb_app in HT. apply andb_true_iff in HT as [_ HT]. simpl in HT. rewrite andb_true_r in HT.
    unfold has_text in HT. apply negb_true_iff in HT. rewrite (HA HT), HT. reflexivity.
  - destruct e.
    + assert (SV : psl_save slides cur started any = if started then slides ++ [cur] else slides).
      { unfold psl_save. destruct started; [|reflexivity].
        destruct (psl_all_prefix r (slides ++ [cur]) [] ty true) as [tl E]. rewrite E in HT.
        rewrite !forallb_app in HT. apply andb_true_iff in HT as [HT _]. apply andb_true_iff in HT as [_ HT].
        simpl in HT. rewrite andb_true_r in HT. unfold has_text in HT. apply negb_true_iff in HT.
        rewrite (HA HT), HT. reflexivity. }
      rewrite SV. apply IH; [intro; discriminate | exact HT | intro; discriminate].
    + apply IH; assumption.
    + destruct (nonempty cleaned).
      * apply IH; [reflexivity | exact HT | exact HS].
      * apply IH; assumption.
    + apply IH; assumption.
Qed.

Lemma parse_slide_list_all_text evs :
  forallb has_text (slides_by_persist_atom evs) = true ->
  parse_slide_list_container evs = slides_by_persist_atom evs.
Proof.
  intro H. unfold parse_slide_list_container, slides_by_persist_atom.
  apply psl_eq_all; [intro; discriminate | exact H | reflexivity].
Qed.

(* ================================================================== RTF *)
Lemma strip_nonempty x : nonempty (strip x) = true -> nonempty x = true.
Proof. destruct x; [discriminate | reflexivity]. Qed.

Lemma filter_all {A} (f : A -> bool) l : forallb f l = true -> filter f l = l.
Proof.
  induction l as [|x l IH]; simpl; [reflexivity|]. intro H. apply andb_true_iff in H as [H1 H2].
  rewrite H1, IH by exact H2. reflexivity.
Qed.

Lemma forallb_map' {A B} (f : B -> bool) (g : A -> B) l : forallb f (map g l) = forallb (fun x => f (g x)) l.
Proof. induction l as [|x l IH]; simpl; [reflexivity|]. rewrite IH. reflexivity. Qed.

Lemma forallb_enum {A} (f : A -> bool) k (l : list A) :
  forallb f l = true -> forallb (fun kp : Z * A => f (snd kp)) (enum_from k l) = true.
Proof.
  revert k; induction l as [|x l IH]; intro k; simpl; [reflexivity|]. intro H.
  apply andb_true_iff in H as [H1 H2]. rewrite H1. simpl. apply IH. exact H2.
Qed.

(* REFUTED: an RTF unit's number is the position of its explicit page.  Page 2 blank: page 3's text
   comes back as unit 2. *)
Lemma rtf_blank_page_renumbers :
  exists (segs : list str) (j : nat) (u : unit_),
    In u (rtf_units (rtf_of_segments (fun x => x) segs [] []))
    /\ nth_error segs j = Some (u_text u) /\ u_num u <> Z.of_nat j + 1.
Proof.
  exists [s "First"; []; s "Third"], 2%nat, (mkU 2 (s "Third")).
  split; [vm_compute; right; left; reflexivity|]. split; [reflexivity | vm_compute; congruence].
Qed.

(* PARTIAL: without blank pages, unit k is page k (normalised) under number k *)
Lemma rtf_positions_no_blank norm segs ft paras k sg :
  no_blank_page norm segs = true -> nth_error segs k = Some sg ->
  nth_error (rtf_units (rtf_of_segments norm segs ft paras)) k = Some (mkU (Z.of_nat k + 1) (rtf_page_text norm sg)).
Proof.
  intros NB H. unfold rtf_of_segments, rtf_units. cbn [rtf_pages].
  assert (P : rtf_split_pages norm segs = map (rtf_page_text norm) segs).
  { unfold rtf_split_pages. rewrite filter_all.
    - destruct segs as [|a r]; [destruct k; discriminate | reflexivity].
    - rewrite forallb_map'. unfold no_blank_page in NB. rewrite forallb_forall in *. intros x Hx.
      apply strip_nonempty. apply NB. exact Hx. }
  rewrite P. destruct segs as [|a r]; [destruct k; discriminate|].
  change (map (rtf_page_text norm) (a :: r)) with (rtf_page_text norm a :: map (rtf_page_text norm) r) at 1.
  cbv beta iota. change (rtf_page_text norm a :: map (rtf_page_text norm) r) with (map (rtf_page_text norm) (a :: r)).
  rewrite filter_all.
  - rewrite (map_enum_nth _ 1 _ k (rtf_page_text norm sg)); [cbn [fst snd]; f_equal; f_equal; lia|].
    rewrite nth_error_map, H. reflexivity.
  - apply (forallb_enum (fun p => nonempty (strip p))). rewrite forallb_map'. exact NB.
Qed.

(* ================================================================== DOCX *)
Definition P (t : string) (lvl : option Z) (brk : bool) : dpara := mkDPara (s t) lvl brk.
Definition mkd (ps : list dpara) : docx := mkDocx ps [] 0 [] [].

Definition uncovered (d : docx) (t : str) : bool :=
  mem_str t (body_texts d) && negb (mem_str t (covered_texts (docx_units d))).

Lemma uncovered_spec d t : uncovered d t = true -> In t (body_texts d) /\ ~ In t (covered_texts (docx_units d)).
Proof.
  unfold uncovered. intro H. apply andb_true_iff in H as [H1 H2]. apply mem_str_In in H1.
  split; [exact H1|]. intro I. apply mem_str_In in I. rewrite I in H2. discriminate.
Qed.

(* REFUTED: the units cover the body.  (1) paragraph before the first heading *)
Definition docx_preface : docx := mkd [P "Preface" None false; P "H1" (Some 1) false; P "body" None false].
Lemma docx_preface_uncovered : uncovered docx_preface (s "Preface") = true.
Proof. vm_compute. reflexivity. Qed.

(* (2) a paragraph that carries a page break and splits a heading section loses its own text *)
Definition docx_break : docx :=
  mkd [P "Title" (Some 1) false; P "Subtitle" None true; P "H2" (Some 1) false; P "body" None false].
Lemma docx_break_uncovered : uncovered docx_break (s "Subtitle") = true.
Proof. vm_compute. reflexivity. Qed.

(* (3) body text under a heading whose own text is empty: no unit at all *)
Definition docx_empty_heading : docx := mkd [P "" (Some 1) false; P "body" None false].
Lemma docx_empty_heading_uncovered :
  uncovered docx_empty_heading (s "body") = true /\ docx_units docx_empty_heading = [].
Proof. vm_compute. split; reflexivity. Qed.

Lemma docx_sections_cover_refuted :
  exists d t, In t (body_texts d) /\ ~ In t (covered_texts (docx_units d)).
Proof. exists docx_preface, (s "Preface"). apply uncovered_spec, docx_preface_uncovered. Qed.

(* ---- numbering: 1..n in emission order *)
Lemma flush_numbers d st e nl us ui :
  flush d st e nl = (us, ui) ->
  map du_num us = zseq (st_index st + 1) (List.length us) /\ ui = st_index st + Z.of_nat (List.length us).
Proof.
  unfold flush. destruct (st_path st); [intro H; inversion H; subst; simpl; split; [reflexivity | lia]|].
  destruct (st_start st); [|intro H; inversion H; subst; simpl; split; [reflexivity | lia]].
  match goal with |- context [if ?b then _ else _] => destruct b end;
    intro H; inversion H; subst; simpl; split; try reflexivity; lia.
Qed.

Lemma zseq_app k a b : zseq k (a + b) = zseq k a ++ zseq (k + Z.of_nat a) b.
Proof.
  revert k; induction a as [|a IH]; intro k; simpl; [f_equal; lia|].
  rewrite IH. f_equal. f_equal. f_equal. lia.
Qed.

Lemma walk_numbers d ps : forall st idx us st',
  walk d st idx ps = (us, st') ->
  map du_num us = zseq (st_index st + 1) (List.length us)
  /\ st_index st' = st_index st + Z.of_nat (List.length us).
Proof.
  induction ps as [|p r IH]; intros st idx us st' H; simpl in H.
  - inversion H; subst. simpl. split; [reflexivity | lia].
  - destruct (dp_level p) as [level|].
    + destruct (flush d st (idx - 1) (Some level)) as [us1 ui] eqn:F.
      match type of H with context [walk d ?s ?i r] => destruct (walk d s i r) as [us2 stf] eqn:W end.
      inversion H; subst. apply flush_numbers in F as [F1 F2]. apply IH in W as [W1 W2]. cbn [st_index] in *.
      rewrite map_app, app_length, zseq_app, F1, W1. split; [f_equal; f_equal; lia | lia].
    + match type of H with context [if ?b then _ else _] => destruct b end.
      * match type of H with context [flush d ?s ?i ?n] => destruct (flush d s i n) as [us1 ui] eqn:F end.
        match type of H with context [walk d ?s ?i r] => destruct (walk d s i r) as [us2 stf] eqn:W end.
        inversion H; subst. apply flush_numbers in F as [F1 F2]. apply IH in W as [W1 W2]. cbn [st_index] in *.
        rewrite map_app, app_length, zseq_app, F1, W1. split; [f_equal; f_equal; lia | lia].
      * apply IH in H. destruct (nonempty (strip (dp_text p))); cbn [st_index] in H; exact H.
Qed.

Lemma walk_any_mono d ps : forall st idx, st_any st = true -> st_any (snd (walk d st idx ps)) = true.
Proof.
  induction ps as [|p r IH]; intros st idx H; simpl; [exact H|].
  destruct (dp_level p) as [level|].
  - destruct (flush d st (idx - 1) (Some level)) as [us1 ui].
    match goal with |- context [walk d ?s ?i r] => specialize (IH s i); destruct (walk d s i r) as [us2 stf] end.
    simpl in *. apply IH. reflexivity.
  - match goal with |- context [if ?b then _ else _] => destruct b end.
    + match goal with |- context [flush d ?s ?i ?n] => destruct (flush d s i n) as [us1 ui] end.
      match goal with |- context [walk d ?s ?i r] => specialize (IH s i); destruct (walk d s i r) as [us2 stf] end.
      simpl in *. apply IH. exact H.
    + apply IH. destruct (nonempty (strip (dp_text p))); exact H.
Qed.

Lemma walk_no_heading d ps : forall st idx,
  st_any st = false -> st_path st = [] ->
  st_any (snd (walk d st idx ps)) = false ->
  fst (walk d st idx ps) = [] /\ st_path (snd (walk d st idx ps)) = [].
Proof.
  induction ps as [|p r IH]; intros st idx HA HP HF; simpl in *; [split; [reflexivity | exact HP]|].
  destruct (dp_level p) as [level|].
  - exfalso. destruct (flush d st (idx - 1) (Some level)) as [us1 ui].
    match type of HF with context [walk d ?s ?i r] =>
      pose proof (walk_any_mono d r s i eq_refl) as M; destruct (walk d s i r) as [us2 stf] end.
    simpl in *. congruence.
  - rewrite HP in *. cbn [nil_b negb andb] in *.
    apply IH; destruct (nonempty (strip (dp_text p))); auto.
Qed.

Lemma docx_numbers d : map du_num (docx_units d) = zseq 1 (List.length (docx_units d)).
Proof.
  unfold docx_units. destruct (walk d init_state 0 (dx_paras d)) as [us st] eqn:W.
  pose proof (walk_numbers d _ _ _ _ _ W) as [N1 N2]. cbn [st_index init_state] in N1, N2.
  destruct (st_any st) eqn:A.
  - destruct (nil_b (dx_paras d)); [rewrite app_nil_r; exact N1|].
    destruct (flush d st (Z.of_nat (List.length (dx_paras d)) - 1) None) as [us2 ui] eqn:F.
    apply flush_numbers in F as [F1 _]. cbn [fst].
    rewrite map_app, app_length, zseq_app, N1, F1. f_equal. f_equal. lia.
  - pose proof (walk_no_heading d (dx_paras d) init_state 0 eq_refl eq_refl) as NH.
    rewrite W in NH. cbn [fst snd] in NH. destruct (NH A) as [E1 E2]. subst us.
    assert (U2 : (if nil_b (dx_paras d) then []
                  else fst (flush d st (Z.of_nat (List.length (dx_paras d)) - 1) None)) = []).
    { destruct (nil_b (dx_paras d)); [reflexivity|]. unfold flush. rewrite E2. reflexivity. }
    rewrite U2. reflexivity.
Qed.

Lemma docx_numbers_strict d : StronglySorted Z.lt (map du_num (docx_units d)).
Proof. rewrite docx_numbers. apply zseq_sorted. Qed.
