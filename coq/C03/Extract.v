(* C03 — executable models of the extractor-side unit numbering that is repository logic:
   ppt_extractor (_parse_slide_list_container, _build_slides_from_text_blocks, _parse_ppt_document incl.
   the raw fallback), rtf_extractor page splitting (flush_page), mbox_email_extractor._split_mbox_messages.
   Definitions only. *)
From Coq Require Import ZArith List Bool.
From S2T Require Import Lib.PyStr C03.Lib C03.Model.
Import ListNotations.
Open Scope N_scope.

(* ================================================================== PPT *)
(* constants dumped from the live module (Gen/C03Tables.v) *)
Record ppt_tables := mkPptTables { title_types : list Z; body_types : list Z; notes_type : Z }.

Definition zmem (x : Z) (l : list Z) : bool := existsb (Z.eqb x) l.

(* the records _parse_slide_list_container looks at, in stream order.  EvText carries
   _clean_text(_decode_text(..)) of a TextCharsAtom/TextBytesAtom ("" when decoding fails or nothing
   is left) — decoding and cleaning are oracles recorded from the real functions. *)
Inductive ppt_event := EvPersist | EvHeader (t : Z) | EvText (cleaned : str) | EvOther.

Record block := mkBlock { b_text : str; b_type : option Z }.

Definition is_nil {A} (l : list A) : bool := match l with [] => true | _ => false end.

(* "save previous slide" step of _parse_slide_list_container *)
Definition psl_save (slides : list (list block)) (cur : list block) (started any : bool) : list (list block) :=
  if started then
    if any then (if is_nil cur then slides else slides ++ [cur]) else slides ++ [cur]
  else slides.

Fixpoint psl (evs : list ppt_event) (slides : list (list block)) (cur : list block) (ty : option Z)
             (started any : bool) : list (list block) :=
  match evs with
  | [] => psl_save slides cur started any
  | EvPersist :: r => psl r (psl_save slides cur started any) [] ty true any
  | EvHeader t :: r => psl r slides cur (Some t) started any
  | EvText x :: r =>
      if nonempty x then psl r slides (cur ++ [mkBlock x ty]) ty started true
      else psl r slides cur ty started any
  | EvOther :: r => psl r slides cur ty started any
  end.

Definition parse_slide_list_container (evs : list ppt_event) : list (list block) :=
  psl evs [] [] None false false.

(* the specification the property asks for: one entry per SlidePersistAtom, empty or not *)
Fixpoint psl_all (evs : list ppt_event) (slides : list (list block)) (cur : list block) (ty : option Z)
                 (started : bool) : list (list block) :=
  match evs with
  | [] => if started then slides ++ [cur] else slides
  | EvPersist :: r => psl_all r (if started then slides ++ [cur] else slides) [] ty true
  | EvHeader t :: r => psl_all r slides cur (Some t) started
  | EvText x :: r =>
      if nonempty x then psl_all r slides (cur ++ [mkBlock x ty]) ty started
      else psl_all r slides cur ty started
  | EvOther :: r => psl_all r slides cur ty started
  end.
Definition slides_by_persist_atom (evs : list ppt_event) : list (list block) := psl_all evs [] [] None false.

Definition count_persist (evs : list ppt_event) : nat :=
  List.length (filter (fun e => match e with EvPersist => true | _ => false end) evs).

(* _extract_slide_list_texts: every SlideListWithText container with instance 0, in stream order *)
Definition extract_slide_list_texts (containers : list (list ppt_event)) : list (list block) :=
  List.concat (map parse_slide_list_container containers).

Section PptBuild.
  Variable T : ppt_tables.

  Definition ty_in (ty : option Z) (l : list Z) : bool :=
    match ty with Some t => zmem t l | None => false end.

  (* one block of _build_slides_from_text_blocks; state = (title, body, other) — notes do not
     reach the unit text *)
  Definition build_step (st : option str * list str * list str) (b : block) : option str * list str * list str :=
    let '(title, body, other) := st in
    if ty_in (b_type b) (title_types T) then
      match title with
      | Some t => if nonempty t then (title, body, other ++ [b_text b]) else (Some (b_text b), body, other)
      | None => (Some (b_text b), body, other)
      end
    else if ty_in (b_type b) (body_types T) then (title, body ++ [b_text b], other)
    else if match b_type b with Some t => Z.eqb t (notes_type T) | None => false end then (title, body, other)
    else (title, body, other ++ [b_text b]).

  Definition build_slide (n : Z) (blocks : list block) : slide :=
    let '(title, body, other) := fold_left build_step blocks (None, [], []) in
    mkSlide n title body other.

  Definition build_slides (slides_texts : list (list block)) : list slide :=
    map (fun kb => build_slide (fst kb) (snd kb)) (enum_from 1 slides_texts).

  (* _parse_ppt_document, the part that decides content.slides:
       slide_list = _extract_slide_list_texts(data)        (modelled above)
       container_slides = _parse_containers(data)["slides"] (oracle, recorded)
       raw = _extract_all_text_raw(data)                    (oracle, recorded) *)
  (* raw-text fallback (as repaired by fixes/C03-ppt-raw-fallback-duplicate-slide.patch): text without slide
     attribution goes onto the first slide; slide 1 is created only when there is no slide yet *)
  Definition add_raw (raw : list str) (sl : slide) : slide :=
    mkSlide (sl_number sl) (sl_title sl) (sl_body sl) (sl_other sl ++ raw).

  Definition parse_ppt_document (slide_list container_slides : list (list block)) (raw : list str) : list slide :=
    let src := if negb (is_nil slide_list) then slide_list
               else if negb (is_nil container_slides) then container_slides else [] in
    let slides := build_slides src in
    let all_text := List.concat src in
    if is_nil all_text then
      (if negb (is_nil raw) then
         match slides with
         | [] => [mkSlide 1 None [] raw]
         | s0 :: r => add_raw raw s0 :: r
         end
       else slides)
    else slides.

  (* the code before the repair: the fallback appended ANOTHER slide numbered 1 *)
  Definition parse_ppt_document_unrepaired (slide_list container_slides : list (list block)) (raw : list str)
    : list slide :=
    let src := if negb (is_nil slide_list) then slide_list
               else if negb (is_nil container_slides) then container_slides else [] in
    let slides := build_slides src in
    if is_nil (List.concat src) then
      (if negb (is_nil raw) then slides ++ [mkSlide 1 None [] raw] else slides)
    else slides.
End PptBuild.

(* every slide of the container has at least one non-empty text, or none has any *)
Definition all_or_none_text (l : list (list block)) : bool :=
  forallb (fun b => negb (is_nil b)) l || forallb (fun b => is_nil b) l.

(* ================================================================== RTF page splitting *)
Section RtfPages.
  (* _RE_MULTI_SPACE / _RE_MULTI_NEWLINE substitutions: regex engine is an oracle *)
  Variable norm : str -> str.

  Definition rtf_page_text (seg : str) : str := norm (strip seg).

  (* segs = text accumulated between consecutive \page / \sbkpage control words (current_page at
     each flush_page(), the last one at end of input); result = everything (''.join(result)) *)
  Definition rtf_split_pages (segs : list str) : list str :=
    let pages := filter nonempty (map rtf_page_text segs) in
    if is_nil pages then
      (let ft := rtf_page_text (List.concat segs) in if nonempty ft then [ft] else [])
    else pages.

  Definition rtf_of_segments (segs : list str) (full_text : str) (paras : list str) : rtf :=
    mkRtf (rtf_split_pages segs) full_text paras.

  Definition no_blank_page (segs : list str) : bool :=
    forallb (fun sg => nonempty (strip (rtf_page_text sg))) segs.
End RtfPages.

(* ================================================================== mbox splitting *)
(* bytes are code points < 256 *)
Definition b_is_ws (c : N) : bool := existsb (N.eqb c) [9; 10; 11; 12; 13; 32].   (* bytes \S complement *)
Definition b_is_digit (c : N) : bool := (48 <=? c) && (c <=? 57).
Definition CR : N := 13.

(* split after every \n; every line but possibly the last ends with \n *)
Fixpoint split_lines_acc (d : str) (cur : str) : list str :=
  match d with
  | [] => match cur with [] => [] | _ => [rev cur] end
  | c :: r => if N.eqb c NL then rev (c :: cur) :: split_lines_acc r [] else split_lines_acc r (c :: cur)
  end.
Definition split_lines (d : str) : list str := split_lines_acc d [].

Definition ends_4_digits (x : str) : bool :=
  match rev x with
  | a :: b :: c :: d :: _ => b_is_digit a && b_is_digit b && b_is_digit c && b_is_digit d
  | _ => false
  end.

(* a whole line (with its \n) matches  ^From \S+.*\d{4}\r?\n  *)
Definition is_from_line (l : str) : bool :=
  startswith l (s "From ") &&
  match skipn 5 l with
  | c :: r =>
      negb (b_is_ws c) &&
      match rev r with
      | nl :: body_rev =>
          N.eqb nl NL &&
          (ends_4_digits (rev body_rev) ||
           match body_rev with cr :: b2 => N.eqb cr CR && ends_4_digits (rev b2) | [] => false end)
      | [] => false
      end
  | [] => false
  end.

Definition rstrip_crlf (x : str) : str :=
  rev (dropWhile (fun c => N.eqb c CR || N.eqb c NL) (rev x)).

(* lines after a separator up to the next separator *)
Fixpoint mbox_collect (lines : list str) (started : bool) (cur : str) : list str :=
  match lines with
  | [] => if started then [cur] else []
  | l :: r =>
      if is_from_line l then (if started then [cur] else []) ++ mbox_collect r true []
      else mbox_collect r started (if started then cur ++ l else cur)
  end.

Definition split_mbox_messages (data : str) : list str :=
  filter nonempty (map rstrip_crlf (mbox_collect (split_lines data) false [])).
