(* C03 — executable model of DocxContent.iterate_units (heading-section units: heading stack,
   page-break splitting, payload look-ahead, skipped empty parents).  Definitions only.
   Oracle: heading_level(style) (regex ^heading\s*(\d+)\b, IGNORECASE) is recorded per paragraph. *)
From Coq Require Import ZArith List Bool.
From S2T Require Import Lib.PyStr C03.Lib.
Import ListNotations.
Open Scope Z_scope.

Record dpara := mkDPara {
  dp_text : str;              (* paragraph.text *)
  dp_level : option Z;        (* heading_level(paragraph.style) *)
  dp_break : bool             (* paragraph.has_page_break *)
}.

Record docx := mkDocx {
  dx_paras : list dpara;
  dx_image_anchors : list (list Z);   (* img.anchor_paragraph_indices per image *)
  dx_ntables : nat;                   (* len(self.tables) *)
  dx_table_anchors : list Z;          (* self.table_anchor_paragraph_indices *)
  dx_full_text : str
}.

Record dunit := mkDUnit {
  du_num : Z;
  du_text : str;
  du_path : list str;          (* heading_path *)
  du_level : option Z;
  du_lines : list str          (* ghost: current_lines at flush time; du_text is computed from it *)
}.

Definition nil_b {A} (l : list A) : bool := match l with [] => true | _ => false end.

Definition is_heading (p : dpara) : bool := match dp_level p with Some _ => true | None => false end.

(* images_by_paragraph.get(i) or tables_by_paragraph.get(i) *)
Definition attach (d : docx) (i : Z) : bool :=
  existsb (fun anchors => existsb (Z.eqb i) anchors) (dx_image_anchors d)
  || (if Nat.eqb (List.length (dx_table_anchors d)) (dx_ntables d)
      then existsb (Z.eqb i) (dx_table_anchors d)
      else Z.eqb i 0 && negb (Nat.eqb (dx_ntables d) 0)).

Section Walk.
  Variable d : docx.

  (* heading_has_payload for the heading whose following paragraphs are [ps] (first index idx) *)
  Fixpoint section_has_payload (idx : Z) (ps : list dpara) : bool :=
    match ps with
    | [] => false
    | p :: r =>
        if is_heading p then false
        else nonempty (strip (dp_text p)) || attach d idx || section_has_payload (idx + 1) r
    end.

  (* heading_has_payload.get(next_heading_for_index[i], False); [ps] = paragraphs after i *)
  Fixpoint next_heading_payload (idx : Z) (ps : list dpara) : bool :=
    match ps with
    | [] => false
    | p :: r => if is_heading p then section_has_payload (idx + 1) r else next_heading_payload (idx + 1) r
    end.

  Record state := mkState {
    st_index : Z;                       (* unit_index *)
    st_stack : list (Z * str);          (* heading_stack, top = last *)
    st_level : option Z;                (* current_heading_level *)
    st_path : list str;                 (* current_heading_path *)
    st_lines : list str;                (* current_lines *)
    st_start : option Z;                (* current_heading_start_paragraph_index *)
    st_payload : bool;                  (* current_has_payload *)
    st_any : bool                       (* any_headings *)
  }.

  Definition any_attach (a b : Z) : bool := existsb (attach d) (zseq a (Z.to_nat (b - a + 1))).

  (* flush_current(end_paragraph_index=e, next_heading_level=nl): (units emitted, new unit_index) *)
  Definition flush (st : state) (e : Z) (nl : option Z) : list dunit * Z :=
    match st_path st with
    | [] => ([], st_index st)
    | _ =>
      let text := strip (joinNL (filter (fun l => nonempty (strip l)) (st_lines st))) in
      match st_start st with
      | None => ([], st_index st)
      | Some a =>
        let has_att := any_attach a e in
        let skip := negb (nonempty text) && negb has_att &&
                    match nl, st_level st with
                    | Some n, Some c => Z.ltb c n
                    | _, _ => false
                    end in
        if skip then ([], st_index st)
        else ([mkDUnit (st_index st + 1) text (st_path st) (st_level st) (st_lines st)], st_index st + 1)
      end
    end.

  (* while heading_stack and heading_stack[-1][0] >= level: pop  (stack kept reversed: head = top) *)
  Fixpoint pop_ge (stack_rev : list (Z * str)) (level : Z) : list (Z * str) :=
    match stack_rev with
    | [] => []
    | (l, t) :: r => if Z.leb level l then pop_ge r level else stack_rev
    end.

  Definition push_heading (stack : list (Z * str)) (level : Z) (t : str) : list (Z * str) :=
    rev (pop_ge (rev stack) level) ++ [(level, t)].

  Definition path_of (stack : list (Z * str)) : list str := filter nonempty (map snd stack).

  Fixpoint walk (st : state) (idx : Z) (ps : list dpara) : list dunit * state :=
    match ps with
    | [] => ([], st)
    | p :: r =>
      match dp_level p with
      | Some level =>
          let '(us, ui) := flush st (idx - 1) (Some level) in
          let stack := push_heading (st_stack st) level (strip (dp_text p)) in
          let st' := mkState ui stack (Some level) (path_of stack) [] (Some idx) (attach d idx) true in
          let '(us2, stf) := walk st' (idx + 1) r in (us ++ us2, stf)
      | None =>
          let payload := st_payload st || attach d idx in
          if negb (nil_b (st_path st)) && negb payload && dp_break p && next_heading_payload (idx + 1) r
          then
            let '(us, ui) := flush (mkState (st_index st) (st_stack st) (st_level st) (st_path st) (st_lines st)
                                            (st_start st) payload (st_any st)) idx None in
            let st' := mkState ui (st_stack st) (st_level st) (st_path st) [] (Some (idx + 1)) false (st_any st) in
            let '(us2, stf) := walk st' (idx + 1) r in (us ++ us2, stf)
          else
            let t := strip (dp_text p) in
            let st' := if nonempty t
                       then mkState (st_index st) (st_stack st) (st_level st) (st_path st) (st_lines st ++ [t])
                                    (st_start st) true (st_any st)
                       else mkState (st_index st) (st_stack st) (st_level st) (st_path st) (st_lines st)
                                    (st_start st) payload (st_any st) in
            walk st' (idx + 1) r
      end
    end.

  Definition init_state : state := mkState 0 [] None [] [] None false false.

  Definition docx_units : list dunit :=
    let '(us, st) := walk init_state 0 (dx_paras d) in
    let us2 := if nil_b (dx_paras d) then []
               else fst (flush st (Z.of_nat (List.length (dx_paras d)) - 1) None) in
    if st_any st then us ++ us2
    else us ++ us2 ++ [mkDUnit 1 (dx_full_text d) [] None []].
End Walk.

(* the non-empty body paragraphs (stripped), in document order *)
Definition body_texts (d : docx) : list str :=
  filter nonempty (map (fun p => strip (dp_text p)) (dx_paras d)).

(* what the units cover: heading path entries and unit lines *)
Definition covered_texts (us : list dunit) : list str :=
  List.concat (map (fun u => du_path u ++ du_lines u) us).
