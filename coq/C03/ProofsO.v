(* C03 — lemmas about the ODP / ODS unit assembly model (Odf.v). *)
From Coq Require Import ZArith List Bool Lia ZifyBool Permutation.
From S2T Require Import Lib.PyStr C03.Lib C03.Model C03.Proofs C03.Docx C03.Sect C03.Odf.
Import ListNotations.
Open Scope Z_scope.

(* ================================================================== ODP *)
Lemma insert_frame_perm f l : Permutation (insert_frame f l) (f :: l).
Proof.
  induction l as [|g r IH]; simpl; [apply Permutation_refl|].
  destruct (key_le f g); [apply Permutation_refl|].
  eapply Permutation_trans; [apply perm_skip; exact IH | apply perm_swap].
Qed.

Lemma sort_frames_perm l : Permutation (sort_frames l) l.
Proof.
  unfold sort_frames. induction l as [|f r IH]; simpl; [constructor|].
  eapply Permutation_trans; [apply insert_frame_perm | apply perm_skip; exact IH].
Qed.

Lemma perm_concat_map {A B} (f : A -> list B) l l' :
  Permutation l l' -> Permutation (List.concat (map f l)) (List.concat (map f l')).
Proof.
  induction 1; simpl.
  - constructor.
  - apply Permutation_app_head. assumption.
  - rewrite !app_assoc. apply Permutation_app_tail. apply Permutation_app_comm.
  - eapply Permutation_trans; eassumption.
Qed.

Lemma perm_filter {A} (p : A -> bool) l l' : Permutation l l' -> Permutation (filter p l) (filter p l').
Proof.
  induction 1; simpl.
  - constructor.
  - destruct (p x); [apply perm_skip|]; assumption.
  - destruct (p x), (p y); try apply Permutation_refl. apply perm_swap.
  - eapply Permutation_trans; eassumption.
Qed.

Definition acc_texts (a : slide_acc) : list str :=
  (match a_title a with Some t => [t] | None => [] end) ++ a_body a ++ a_other a.

Definition acc_ok (a : slide_acc) : Prop :=
  (a_found a = false -> a_title a = None) /\ (forall t, a_title a = Some t -> nonempty t = true).

Definition para_texts (ps : list (str * str)) : list str := filter nonempty (map (fun p => strip (fst p)) ps).

Lemma classify_perm ps : forall a, acc_ok a ->
  acc_ok (fold_left classify ps a) /\
  Permutation (acc_texts (fold_left classify ps a)) (acc_texts a ++ para_texts ps).
Proof.
  induction ps as [|p r IH]; intros a OK; simpl.
  - split; [exact OK | rewrite app_nil_r; apply Permutation_refl].
  - unfold para_texts. simpl. fold (para_texts r).
    assert (STEP : acc_ok (classify a p) /\
                   Permutation (acc_texts (classify a p))
                               (acc_texts a ++ (if nonempty (strip (fst p)) then [strip (fst p)] else []))).
    { unfold classify. destruct (nonempty (strip (fst p))) eqn:N; [|split; [exact OK | rewrite app_nil_r; apply Permutation_refl]].
      destruct OK as [O1 O2].
      destruct (negb (a_found a) && (contains_sub (snd p) TITLE || str_eqb (snd p) (s "TitleText"))) eqn:T.
      - apply andb_true_iff in T as [T _]. apply negb_true_iff in T. specialize (O1 T).
        split.
        + split; simpl; [discriminate | intros t E; inversion E; subst; exact N].
        + unfold acc_texts. simpl. rewrite O1. simpl.
          change (strip (fst p) :: a_body a ++ a_other a) with ([strip (fst p)] ++ (a_body a ++ a_other a)).
          apply Permutation_app_comm.
      - destruct (contains_sub (snd p) BODY || str_eqb (snd p) (s "BodyText")).
        + split; [split; simpl; assumption|]. unfold acc_texts. simpl.
          rewrite <- !app_assoc. apply Permutation_app_head. apply Permutation_app_head. apply Permutation_app_comm.
        + split; [split; simpl; assumption|]. unfold acc_texts. simpl. rewrite <- !app_assoc. apply Permutation_refl. }
    destruct STEP as [OK1 P1]. destruct (IH (classify a p) OK1) as [OK2 P2]. split; [exact OK2|].
    eapply Permutation_trans; [exact P2|].
    destruct (nonempty (strip (fst p))); simpl.
    + eapply Permutation_trans; [apply Permutation_app_tail; exact P1|]. rewrite <- app_assoc. apply Permutation_refl.
    + rewrite app_nil_r in P1. apply Permutation_app_tail. exact P1.
Qed.

(* every non-empty paragraph text of the page's frames — through nested groups, whatever their positions and
   styles — is in exactly one of title / body / other of that page's slide, and nothing else is *)
Lemma extract_slide_texts num children :
  Permutation (slide_texts (extract_slide num children)) (page_texts children).
Proof.
  unfold extract_slide, page_texts.
  set (ps := all_paras (sort_frames (page_frames children))).
  assert (OK0 : acc_ok (mkAcc None false [] [])) by (split; simpl; [reflexivity | discriminate]).
  destruct (classify_perm ps _ OK0) as [[O1 O2] P]. set (acc := fold_left classify ps (mkAcc None false [] [])) in *.
  assert (E : slide_texts (mkSlide num (Some match a_title acc with Some t => t | None => [] end) (a_body acc) (a_other acc))
              = acc_texts acc).
  { unfold slide_texts, acc_texts. simpl. destruct (a_title acc) as [t|] eqn:T; [rewrite (O2 t eq_refl)|]; reflexivity. }
  rewrite E. eapply Permutation_trans; [exact P|]. simpl. unfold para_texts, ps, all_paras.
  apply perm_filter. apply Permutation_map. apply perm_concat_map. apply sort_frames_perm.
Qed.

Lemma extract_slide_number num children : sl_number (extract_slide num children) = num.
Proof. reflexivity. Qed.

Lemma read_odp_wf pages : wf_source (COdp (read_odp_slides pages)) = true.
Proof.
  cbn [wf_source]. apply zlist_eqb_eq. unfold read_odp_slides. rewrite map_map, map_length, enum_from_length.
  rewrite <- (enum_from_fst 1 pages). apply map_ext. intros [k p]. reflexivity.
Qed.

Lemma read_odp_unit pages k page :
  nth_error pages k = Some page ->
  nth_error (odp_units (read_odp_slides pages)) k
  = Some (mkU (Z.of_nat k + 1) (text_combined (extract_slide (Z.of_nat k + 1) page))).
Proof.
  intro H. assert (S : nth_error (read_odp_slides pages) k = Some (extract_slide (Z.of_nat k + 1) page)).
  { unfold read_odp_slides. rewrite nth_error_map, (enum_from_nth 1 pages k page H). cbn [option_map fst snd].
    f_equal. f_equal. lia. }
  rewrite (odp_partition _ k _ S). reflexivity.
Qed.

(* ================================================================== ODS *)
Definition cms (r : list cell) : list str := List.concat (map shown r).

Lemma cms_app a b : cms (a ++ b) = cms a ++ cms b.
Proof. unfold cms. rewrite map_app, concat_app. reflexivity. Qed.

Lemma cms_none r : forallb is_none r = true -> cms r = [].
Proof.
  unfold cms. induction r as [|c r IH]; simpl; [reflexivity|]. intro H. apply andb_true_iff in H as [H1 H2].
  destruct c; [discriminate|]. simpl. apply IH. exact H2.
Qed.

Lemma forallb_firstn {A} (f : A -> bool) n l : forallb f l = true -> forallb f (firstn n l) = true.
Proof.
  revert l; induction n as [|n IH]; intros l H; [reflexivity|]. destruct l as [|x l]; [reflexivity|].
  simpl in *. apply andb_true_iff in H as [H1 H2]. rewrite H1. simpl. apply IH. exact H2.
Qed.

Lemma forallb_rev {A} (f : A -> bool) l : forallb f (rev l) = forallb f l.
Proof.
  induction l as [|x l IH]; simpl; [reflexivity|]. rewrite forallb_app, IH. simpl. rewrite andb_true_r. apply andb_comm.
Qed.

(* a row splits into its data part (up to the last non-None cell) and a tail of None cells *)
Lemma row_split r : exists a b, r = a ++ b /\ List.length a = last_data r /\ forallb is_none b = true.
Proof.
  unfold last_data. pose proof (takeWhile_dropWhile is_none (rev r)) as T.
  exists (rev (dropWhile is_none (rev r))), (rev (takeWhile is_none (rev r))). split; [|split].
  - rewrite <- rev_app_distr, T, rev_involutive. reflexivity.
  - reflexivity.
  - rewrite forallb_rev. apply takeWhile_all.
Qed.

Lemma row_texts_full n r : (last_data r <= n)%nat -> row_texts n r = cms r.
Proof.
  intro L. unfold row_texts. fold (cms (firstn n r)). destruct (row_split r) as [a [b [E [LA NB]]]].
  rewrite E at 1 2. rewrite firstn_app, cms_app, cms_app. rewrite firstn_all2 by lia.
  rewrite (cms_none b NB), (cms_none _ (forallb_firstn is_none (n - List.length a) b NB)). reflexivity.
Qed.

Lemma max_cols_ge rows r : In r rows -> (last_data r <= max_cols rows)%nat.
Proof.
  unfold max_cols. induction rows as [|x l IH]; simpl; [contradiction|]. intros [<-|H]; [lia|]. specialize (IH H). lia.
Qed.

Lemma concat_filter_nonnil {A} (L : list (list A)) : List.concat (filter (fun l => negb (nil_b l)) L) = List.concat L.
Proof. induction L as [|x L IH]; simpl; [reflexivity|]. destruct x; simpl; [exact IH | rewrite IH; reflexivity]. Qed.

Lemma map_ext_in' {A B} (f g : A -> B) l : (forall x, In x l -> f x = g x) -> map f l = map g l.
Proof.
  induction l as [|x l IH]; intro H; simpl; [reflexivity|]. rewrite (H x (or_introl eq_refl)), IH; [reflexivity|].
  intros y Hy. apply H. right. exact Hy.
Qed.

Lemma all_none_rows_cms L : forallb (forallb is_none) L = true -> List.concat (map cms L) = [].
Proof.
  induction L as [|x l IH]; simpl; [reflexivity|]. intro A. apply andb_true_iff in A as [A1 A2].
  rewrite (cms_none x A1), IH by exact A2. reflexivity.
Qed.

Lemma trim_rows_cms rows : List.concat (map cms (trim_rows rows)) = List.concat (map cms rows).
Proof.
  unfold trim_rows. pose proof (takeWhile_dropWhile (forallb is_none) (rev rows)) as T.
  assert (R : rows = rev (dropWhile (forallb is_none) (rev rows)) ++ rev (takeWhile (forallb is_none) (rev rows))).
  { rewrite <- rev_app_distr, T, rev_involutive. reflexivity. }
  rewrite R at 2. rewrite map_app, concat_app.
  assert (Z0 : List.concat (map cms (rev (takeWhile (forallb is_none) (rev rows)))) = []).
  { apply all_none_rows_cms. rewrite forallb_rev. apply takeWhile_all. }
  rewrite Z0, app_nil_r. reflexivity.
Qed.

(* the cell texts returned for a sheet are exactly (order and multiplicity) the display texts of the sheet's cells
   after wrapper flattening and repeat expansion: trimming never removes a cell that carries a value *)
Lemma sheet_lines_exact children : List.concat (sheet_lines children) = source_cell_texts children.
Proof.
  unfold sheet_lines, source_cell_texts. set (raw := raw_rows (sheet_rows children)).
  rewrite concat_filter_nonnil.
  rewrite (map_ext_in' (row_texts (max_cols (trim_rows raw))) cms).
  - apply trim_rows_cms.
  - intros r H. apply row_texts_full. apply max_cols_ge. exact H.
Qed.

Lemma read_ods_unit tables k name children :
  nth_error tables k = Some (name, children) ->
  nth_error (ods_units (read_ods_sheets tables)) k
  = Some (mkU (Z.of_nat k + 1) (strip (name ++ [NL] ++ strip (sheet_text children)))).
Proof.
  intro H. apply (ods_partition (read_ods_sheets tables) k (extract_sheet name children)).
  unfold read_ods_sheets. rewrite nth_error_map, H. reflexivity.
Qed.

(* groups are transparent for frame collection *)
Lemma page_frames_app a b : page_frames (a ++ b) = page_frames a ++ page_frames b.
Proof.
  unfold page_frames. simpl. induction a as [|x a IH]; simpl; [reflexivity|]. rewrite IH, app_assoc. reflexivity.
Qed.

Lemma page_frames_group cs rest : page_frames (ShGroup cs :: rest) = page_frames cs ++ page_frames rest.
Proof. reflexivity. Qed.

Lemma page_frames_frame f rest : page_frames (ShFrame f :: rest) = f :: page_frames rest.
Proof. reflexivity. Qed.

Lemma page_frames_other rest : page_frames (ShOther :: rest) = page_frames rest.
Proof. reflexivity. Qed.

(* the unit of page k: number k, text = newline-join of a rearrangement of exactly that page's paragraph texts *)
Lemma read_odp_unit_texts pages k page :
  nth_error pages k = Some page ->
  exists l, Permutation l (page_texts page)
            /\ nth_error (odp_units (read_odp_slides pages)) k = Some (mkU (Z.of_nat k + 1) (joinNL l)).
Proof.
  intro H. exists (slide_texts (extract_slide (Z.of_nat k + 1) page)). split; [apply extract_slide_texts|].
  rewrite (read_odp_unit pages k page H). reflexivity.
Qed.

Lemma read_ods_numbers tables :
  unit_numbers (ods_units (read_ods_sheets tables)) = zseq 1 (List.length tables).
Proof.
  pose proof (numbers_of_units (COds (read_ods_sheets tables)) eq_refl) as H. cbn [source_count units] in H.
  rewrite H. unfold read_ods_sheets. rewrite map_length. reflexivity.
Qed.
