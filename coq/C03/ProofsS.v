(* C03 — lemmas about the DOC / ODT heading-section walk (Sect.v): numbering, exact coverage of body
   lines, coverage of heading texts (refuted in general, proved when every section has body text). *)
From Coq Require Import ZArith List Bool Lia ZifyBool Sorted.
From S2T Require Import Lib.PyStr C03.Lib C03.Docx C03.Sect.
Import ListNotations.
Open Scope Z_scope.

(* ------------------------------------------------------------------ numbering *)
Lemma zseq_app' k a b : zseq k (a + b) = zseq k a ++ zseq (k + Z.of_nat a) b.
Proof.
  revert k; induction a as [|a IH]; intro k; simpl; [f_equal; lia|].
  rewrite IH. f_equal. f_equal. f_equal. lia.
Qed.

Lemma sflush_numbers st us st' :
  sflush st = (us, st') ->
  map su_num us = zseq (ss_index st) (List.length us) /\ ss_index st' = ss_index st + Z.of_nat (List.length us).
Proof.
  unfold sflush. match goal with |- context [if ?b then _ else _] => destruct b end;
    intro H; inversion H; subst; simpl; split; try reflexivity; lia.
Qed.

Lemma swalk_numbers items : forall st us st',
  swalk st items = (us, st') ->
  map su_num us = zseq (ss_index st) (List.length us) /\ ss_index st' = ss_index st + Z.of_nat (List.length us).
Proof.
  induction items as [|i r IH]; intros st us st' H; simpl in H.
  - apply sflush_numbers in H. exact H.
  - destruct i as [level t | t | |].
    + destruct (nonempty t); [|apply IH; exact H].
      destruct (sflush st) as [us1 st1] eqn:F.
      match type of H with context [swalk ?s r] => destruct (swalk s r) as [us2 stf] eqn:W end.
      inversion H; subst. apply sflush_numbers in F as [F1 F2]. apply IH in W as [W1 W2]. cbn [ss_index] in *.
      rewrite map_app, app_length, zseq_app', F1, W1. split; [f_equal; f_equal; lia | lia].
    + destruct (nonempty t); apply IH in H; exact H.
    + apply IH in H. exact H.
    + apply IH; exact H.
Qed.

Lemma section_units_numbers items :
  map su_num (section_units items) = zseq 1 (List.length (section_units items)).
Proof.
  unfold section_units. destruct (swalk sinit items) as [us st] eqn:W.
  apply swalk_numbers in W as [W1 _]. exact W1.
Qed.

(* ------------------------------------------------------------------ lines *)
Definition good (x : str) : bool := match x with c :: _ => negb (is_space c) | [] => false end.

Definition items_stripped (items : list sitem) : bool :=
  forallb (fun i => match i with SLine t => str_eqb (strip t) t | _ => true end) items.

Lemma strip_good t : nonempty (strip t) = true -> good (strip t) = true.
Proof.
  unfold strip. destruct (dropWhile_nil_or_head is_space t) as [E | [c [r [E Hc]]]]; unfold lstrip; rewrite E.
  - discriminate.
  - intros _. destruct (rstrip_keeps_head c r Hc) as [r' E']. rewrite E'. simpl. rewrite Hc. reflexivity.
Qed.

Lemma good_nonempty x : good x = true -> nonempty x = true.
Proof. destruct x; [discriminate | reflexivity]. Qed.

Lemma filter_good lines : forallb good lines = true -> filter nonempty lines = lines.
Proof.
  induction lines as [|x l IH]; simpl; [reflexivity|]. intro H. apply andb_true_iff in H as [H1 H2].
  rewrite (good_nonempty x H1), IH by exact H2. reflexivity.
Qed.

Lemma text_nonempty x rest :
  forallb good (x :: rest) = true -> nonempty (strip (joinNL (filter nonempty (x :: rest)))) = true.
Proof.
  intro H. rewrite filter_good by exact H. simpl in H. apply andb_true_iff in H as [H1 _].
  destruct x as [|c r0]; [discriminate|]. simpl in H1. apply negb_true_iff in H1.
  match goal with |- context [joinNL ?l] => assert (J : exists z, joinNL l = c :: z) end.
  { unfold joinNL. simpl. destruct rest; eexists; reflexivity. }
  destruct J as [z J]. rewrite J. unfold strip, lstrip. rewrite dropWhile_id_head by exact H1.
  destruct (rstrip_keeps_head c z H1) as [r' E]. rewrite E. reflexivity.
Qed.

Lemma sflush_lines st :
  forallb good (ss_lines st) = true -> List.concat (map su_lines (fst (sflush st))) = ss_lines st.
Proof.
  intro G. unfold sflush. destruct (ss_lines st) as [|x rest] eqn:E.
  - match goal with |- context [if ?b then _ else _] => destruct b end; reflexivity.
  - rewrite (text_nonempty x rest G). simpl. rewrite app_nil_r. reflexivity.
Qed.

Lemma sflush_state st :
  let st' := snd (sflush st) in
  ss_lines st' = [] /\ ss_path st' = ss_path st /\ ss_stack st' = ss_stack st /\ ss_level st' = ss_level st.
Proof. unfold sflush. match goal with |- context [if ?b then _ else _] => destruct b end; simpl; auto. Qed.

Lemma swalk_lines items : forall st,
  items_stripped items = true -> forallb good (ss_lines st) = true ->
  List.concat (map su_lines (fst (swalk st items))) = ss_lines st ++ line_texts items.
Proof.
  induction items as [|i r IH]; intros st S G; simpl.
  - unfold line_texts. simpl. rewrite app_nil_r.
    match goal with |- context [sflush ?s] => rewrite (sflush_lines s) by exact G end. reflexivity.
  - simpl in S. apply andb_true_iff in S as [S1 S2]. destruct i as [level t | t | |].
    + destruct (nonempty t) eqn:N; [|apply IH; assumption].
      pose proof (sflush_lines st G) as FL. pose proof (sflush_state st) as [L0 _].
      destruct (sflush st) as [us1 st1] eqn:F. cbn [fst snd] in *.
      match goal with |- context [swalk ?s r] => pose proof (IH s S2 eq_refl) as W; destruct (swalk s r) as [us2 stf] end.
      cbn [fst ss_lines] in *. rewrite map_app, concat_app, FL, W. reflexivity.
    + unfold line_texts in *. simpl. destruct (nonempty t) eqn:N.
      * rewrite IH; [cbn [ss_lines]; rewrite <- app_assoc; reflexivity | exact S2 |].
        cbn [ss_lines]. rewrite forallb_app, G. simpl. apply str_eqb_eq in S1. rewrite <- S1.
        rewrite strip_good; [reflexivity | rewrite S1; exact N].
      * apply IH; assumption.
    + match goal with |- context [swalk ?s0 r] => exact (IH s0 S2 G) end.
    + apply IH; assumption.
Qed.

Lemma section_lines_exact items :
  items_stripped items = true ->
  List.concat (map su_lines (section_units items)) = line_texts items.
Proof. intro S. unfold section_units. rewrite (swalk_lines items sinit S eq_refl). reflexivity. Qed.

(* ------------------------------------------------------------------ heading texts *)
Definition head_texts (items : list sitem) : list str :=
  List.concat (map (fun i => match i with SHead _ t => if nonempty t then [t] else [] | _ => [] end) items).
Definition all_paths (us : list sunit) : list str := List.concat (map su_path us).

(* every section (heading with non-empty text) has at least one non-empty body line before the next
   heading / the end.  need = a section is open and still without body text *)
Fixpoint sections_ok (items : list sitem) (need : bool) : bool :=
  match items with
  | [] => negb need
  | SHead _ t :: r => if nonempty t then negb need && sections_ok r true else sections_ok r need
  | SLine t :: r => if nonempty t then sections_ok r false else sections_ok r need
  | _ :: r => sections_ok r need
  end.

Lemma pop_ge_incl st level x : In x (pop_ge st level) -> In x st.
Proof.
  induction st as [|[l t] r IH]; simpl; [tauto|]. destruct (Z.leb level l); [intro H; right; auto | auto].
Qed.

Lemma push_heading_top stack level t : nonempty t = true -> In t (path_of (push_heading stack level t)).
Proof.
  intro N. unfold path_of, push_heading. rewrite map_app, filter_app. apply in_or_app. right. simpl. rewrite N.
  left. reflexivity.
Qed.

Lemma swalk_cover items : forall st need,
  items_stripped items = true -> forallb good (ss_lines st) = true -> sections_ok items need = true ->
  forall t, ((need || negb (nil_b (ss_lines st))) = true /\ In t (ss_path st)) \/ In t (head_texts items) ->
            In t (all_paths (fst (swalk st items))).
Proof.
  induction items as [|i r IH]; intros st need S G OK t H; simpl in *.
  - destruct H as [[L P]|[]]. apply negb_true_iff in OK. subst need. simpl in L.
    unfold sflush. cbn [ss_lines ss_tables ss_path]. destruct (ss_lines st) as [|x rest] eqn:E; [discriminate|].
    rewrite (text_nonempty x rest G). simpl. unfold all_paths. simpl. rewrite app_nil_r. exact P.
  - apply andb_true_iff in S as [S1 S2]. destruct i as [level tx | tx | |].
    + unfold head_texts in H. simpl in H. destruct (nonempty tx) eqn:N.
      * apply andb_true_iff in OK as [ON OK]. apply negb_true_iff in ON. subst need.
        pose proof (sflush_state st) as [L0 [P0 [K0 _]]].
        assert (FE : (negb (nil_b (ss_lines st)) = true -> In t (ss_path st) -> In t (all_paths (fst (sflush st))))).
        { intros L P. unfold sflush. destruct (ss_lines st) as [|x rest] eqn:E; [discriminate|].
          rewrite (text_nonempty x rest G). simpl. unfold all_paths. simpl. rewrite app_nil_r. exact P. }
        destruct (sflush st) as [us1 st1] eqn:F. cbn [fst snd] in *.
        match goal with |- context [swalk ?s r] =>
          pose proof (IH s true S2 eq_refl OK t) as W; destruct (swalk s r) as [us2 stf] end.
        cbn [fst ss_lines ss_path nil_b negb orb] in *. unfold all_paths in *. rewrite map_app, concat_app.
        apply in_or_app. destruct H as [[L P]|H].
        -- left. apply FE; assumption.
        -- right. apply W. simpl in H. destruct H as [<-|H].
           ++ left. split; [reflexivity|]. apply push_heading_top. exact N.
           ++ right. exact H.
      * apply (IH st need S2 G OK t). destruct H as [H|H]; [left; exact H | right; exact H].
    + unfold head_texts in *. simpl in H. destruct (nonempty tx) eqn:N.
      * apply (IH _ false S2); cbn [ss_lines ss_path].
        -- rewrite forallb_app, G. simpl. apply str_eqb_eq in S1. rewrite <- S1.
           rewrite strip_good; [reflexivity | rewrite S1; exact N].
        -- exact OK.
        -- destruct H as [[L P]|H]; [left | right; exact H]. split; [|exact P].
           destruct (ss_lines st); reflexivity.
      * apply (IH st need S2 G OK t). exact H.
    + apply (IH _ need S2); cbn [ss_lines ss_path]; auto.
    + apply (IH st need S2 G OK t). exact H.
Qed.

Lemma item_texts_split items t : In t (item_texts items) -> In t (head_texts items) \/ In t (line_texts items).
Proof.
  unfold item_texts, head_texts, line_texts. induction items as [|i r IH]; simpl; [tauto|].
  rewrite !in_app_iff. intros [H|H].
  - destruct i; simpl in *; try contradiction; [left; left; exact H | right; left; exact H].
  - destruct (IH H); [left; right; assumption | right; right; assumption].
Qed.

Lemma scovered_paths us t : In t (all_paths us) -> In t (scovered us).
Proof.
  unfold all_paths, scovered. induction us as [|u r IH]; simpl; [tauto|].
  rewrite !in_app_iff. intros [H|H]; [left; left; exact H | right; apply IH; exact H].
Qed.

Lemma scovered_lines us t : In t (List.concat (map su_lines us)) -> In t (scovered us).
Proof.
  unfold scovered. induction us as [|u r IH]; simpl; [tauto|].
  rewrite !in_app_iff. intros [H|H]; [left; right; exact H | right; apply IH; exact H].
Qed.

(* PARTIAL cover: every section has body text  ->  every non-empty heading and body text is covered *)
Lemma sections_cover_partial items :
  items_stripped items = true -> sections_ok items false = true ->
  forall t, In t (item_texts items) -> In t (scovered (section_units items)).
Proof.
  intros S OK t H. apply item_texts_split in H as [H|H].
  - apply scovered_paths. unfold section_units. apply (swalk_cover items sinit false S eq_refl OK). right. exact H.
  - apply scovered_lines. rewrite section_lines_exact by exact S. exact H.
Qed.

(* body lines are covered exactly (order and multiplicity), whatever the headings *)
Lemma sections_lines_cover items t :
  items_stripped items = true -> In t (line_texts items) -> In t (scovered (section_units items)).
Proof. intros S H. apply scovered_lines. rewrite section_lines_exact by exact S. exact H. Qed.

(* ------------------------------------------------------------------ front-ends produce stripped lines *)
Lemma doc_items_stripped lines : forall tables, items_stripped (doc_items lines tables) = true.
Proof.
  induction lines as [|l r IH]; intro tables; simpl; [reflexivity|].
  assert (A : forall tb, items_stripped (doc_line_item l :: doc_items r tb) = true).
  { intro tb. unfold items_stripped. simpl. fold (items_stripped (doc_items r tb)). rewrite IH.
    unfold doc_line_item. destruct (doc_heading_level l); simpl; [reflexivity|].
    rewrite strip_idem, str_eqb_refl. reflexivity. }
  destruct tables as [|tb tr]; [apply A|].
  match goal with |- context [if ?b then _ else _] => destruct b end; [|apply A].
  unfold items_stripped. simpl. apply IH.
Qed.

Lemma odt_items_stripped ps : forall b n, items_stripped (odt_items ps b n) = true.
Proof.
  induction ps as [|p r IH]; intros b n; simpl; [reflexivity|].
  destruct (op_level p); [unfold items_stripped; simpl; apply IH|].
  destruct (is_table_style (op_style p)).
  - destruct b; [unfold items_stripped; simpl; apply IH|]. destruct n; unfold items_stripped; simpl; apply IH.
  - unfold items_stripped. simpl. rewrite strip_idem, str_eqb_refl. apply IH.
Qed.

(* ------------------------------------------------------------------ refutations *)
Definition suncovered (items : list sitem) (t : str) : bool :=
  mem_str t (item_texts items) && negb (mem_str t (scovered (section_units items))).

Lemma suncovered_spec items t :
  suncovered items t = true -> In t (item_texts items) /\ ~ In t (scovered (section_units items)).
Proof.
  unfold suncovered. intro H. apply andb_true_iff in H as [H1 H2]. apply mem_str_In in H1.
  split; [exact H1|]. intro I. apply mem_str_In in I. rewrite I in H2. discriminate.
Qed.

(* DOC: "Chapter 1" has no body text; "Chapter 2" replaces it on the stack: it is in no unit *)
Definition L (t : string) (low : string) : doc_line := mkDocLine (s t) (s low).
Definition doc_witness : doc :=
  mkDoc [L "Chapter 1" "chapter 1"; L "Chapter 2" "chapter 2"; L "text" "text"] (s "Chapter 1") [] 0 [].
Lemma doc_heading_uncovered :
  suncovered (doc_items (dc_lines doc_witness) (dc_tables doc_witness)) (s "Chapter 1") = true
  /\ doc_units doc_witness = [(1, s "text", [s "Chapter 2"], Some 1)].
Proof. vm_compute. split; reflexivity. Qed.

(* DOC: headings only -> no unit at all (and, before the repair, IndexError when an image is present) *)
Definition doc_witness2 : doc := mkDoc [L "Chapter 1" "chapter 1"] (s "Chapter 1") [] 1 [].
Lemma doc_headings_only : doc_units doc_witness2 = [] /\ doc_raised_index_error doc_witness2 = true.
Proof. vm_compute. split; reflexivity. Qed.

Definition OP (t : string) (lvl : option Z) : odt_para := mkOdtPara (s t) (s "Standard") lvl.
Definition odt_witness : odt := mkOdt [OP "A" (Some 1); OP "B" (Some 1); OP "text" None] 0 (s "A B text") [].
Lemma odt_heading_uncovered :
  suncovered (odt_items (od_paras odt_witness) false 0) (s "A") = true
  /\ odt_units odt_witness = [(1, s "text", [s "B"], Some 1)].
Proof. vm_compute. split; reflexivity. Qed.

Definition odt_witness2 : odt := mkOdt [OP "A" (Some 1)] 0 (s "A") [].
Lemma odt_headings_only : odt_units odt_witness2 = [].
Proof. vm_compute. reflexivity. Qed.

(* ------------------------------------------------------------------ front-end numbering *)
Definition obs_num (o : obs) : Z := fst (fst (fst o)).

Lemma doc_units_numbers d : map obs_num (doc_units d) = zseq 1 (List.length (doc_units d)).
Proof.
  unfold doc_units. destruct (dc_lines d); [reflexivity|].
  match goal with |- context [if ?b then _ else _] => destruct b end; [|reflexivity].
  rewrite map_map, map_length. simpl. apply section_units_numbers.
Qed.

Lemma odt_units_numbers d : map obs_num (odt_units d) = zseq 1 (List.length (odt_units d)).
Proof.
  unfold odt_units. destruct (od_paras d); [reflexivity|].
  match goal with |- context [if ?b then _ else _] => destruct b end; [|reflexivity].
  rewrite map_map, map_length. simpl. apply section_units_numbers.
Qed.

(* the merged ODT heading path keeps every token of the walk's path *)
Lemma merge_path_incl base path t : In t path -> In t (merge_path base path).
Proof.
  unfold merge_path. revert base. induction path as [|x r IH]; intros base H; [contradiction|].
  simpl. assert (K : forall acc l, In t acc -> In t (fold_left (fun acc tok => match rev acc with
                            | last :: _ => if str_eqb last tok then acc else acc ++ [tok]
                            | [] => acc ++ [tok] end) l acc)).
  { intros acc l; revert acc; induction l as [|y l IHl]; intros acc HA; simpl; [exact HA|].
    apply IHl. destruct (rev acc) as [|last q]; [apply in_or_app; left; exact HA|].
    destruct (str_eqb last y); [exact HA | apply in_or_app; left; exact HA]. }
  destruct H as [<-|H].
  - apply K. destruct (rev base) as [|last q] eqn:E; [apply in_or_app; right; left; reflexivity|].
    destruct (str_eqb last x) eqn:Q; [|apply in_or_app; right; left; reflexivity].
    apply str_eqb_eq in Q. subst. apply in_rev. rewrite E. left. reflexivity.
  - apply IH. exact H.
Qed.
