(* C03 — mbox: one message per "From " separator line when no body line matches the separator pattern
   (escaped bodies).  Line level; the byte->line split and the pattern are tied by the correspondence. *)
From Coq Require Import ZArith List Bool Lia.
From S2T Require Import Lib.PyStr C03.Lib C03.Extract.
Import ListNotations.

Definition mbox_msg := (str * list str)%type.       (* (separator line, body lines) *)

Definition msg_ok (m : mbox_msg) : bool :=
  is_from_line (fst m) && forallb (fun l => negb (is_from_line l)) (snd m).

Definition flat (msgs : list mbox_msg) : list str := List.concat (map (fun m => fst m :: snd m) msgs).
Definition bodies (msgs : list mbox_msg) : list str := map (fun m => List.concat (snd m)) msgs.

Lemma collect_body body : forall rest cur,
  forallb (fun l => negb (is_from_line l)) body = true ->
  mbox_collect (body ++ rest) true cur = mbox_collect rest true (cur ++ List.concat body).
Proof.
  induction body as [|l r IH]; intros rest cur H; simpl in *.
  - rewrite app_nil_r. reflexivity.
  - apply andb_true_iff in H as [H1 H2]. apply negb_true_iff in H1. rewrite H1.
    rewrite IH by exact H2. rewrite app_assoc. reflexivity.
Qed.

Lemma collect_started msgs : forall cur,
  forallb msg_ok msgs = true -> mbox_collect (flat msgs) true cur = cur :: bodies msgs.
Proof.
  induction msgs as [|[sep body] r IH]; intros cur H; simpl in *; [reflexivity|].
  apply andb_true_iff in H as [H1 H2]. unfold msg_ok in H1. simpl in H1. apply andb_true_iff in H1 as [S B].
  unfold flat in *. simpl. rewrite S. simpl. f_equal.
  rewrite collect_body by exact B. simpl. apply IH. exact H2.
Qed.

Lemma collect_all msgs :
  forallb msg_ok msgs = true -> mbox_collect (flat msgs) false [] = bodies msgs.
Proof.
  destruct msgs as [|[sep body] r]; intro H; simpl in *; [reflexivity|].
  apply andb_true_iff in H as [H1 H2]. unfold msg_ok in H1. simpl in H1. apply andb_true_iff in H1 as [S B].
  unfold flat. simpl. rewrite S. simpl.
  rewrite collect_body by exact B. simpl. apply (collect_started r (List.concat body)). exact H2.
Qed.
