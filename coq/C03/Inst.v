(* C03 — obligations re-decided by the kernel for the tables generated from the live interpreter/modules. *)
From Coq Require Import ZArith List Bool.
From S2T Require Import Lib.PyStr C03.Lib C03.Model C03.Extract Gen.C03Tables.
Import ListNotations.

Fixpoint nlist_eqb (a b : list N) : bool :=
  match a, b with
  | [], [] => true
  | x :: a', y :: b' => N.eqb x y && nlist_eqb a' b'
  | _, _ => false
  end.

(* the whitespace set of the model's strip() is the running interpreter's *)
Theorem C03_py_spaces : nlist_eqb py_spaces PY_SPACES = true.
Proof. vm_compute. reflexivity. Qed.
Print Assumptions C03_py_spaces.

(* title / body / notes text types are pairwise disjoint, so build_step's if-chain order is immaterial *)
Theorem C03_ppt_tables_wf :
  forallb (fun t => negb (zmem t (body_types PPT)) && negb (Z.eqb t (notes_type PPT))) (title_types PPT)
  && negb (zmem (notes_type PPT) (body_types PPT)) = true.
Proof. vm_compute. reflexivity. Qed.
Print Assumptions C03_ppt_tables_wf.
