(* C03 — executable model of the ODP / ODS unit assembly that is repository logic:
   odp_extractor._iter_slide_frames (frames through nested draw:g groups), the position sort and the
   title/body/other classification of _extract_slide, read_odp's page loop;
   ods_extractor._iter_sheet_rows (rows through header-rows / table-rows / row-group wrappers), the repeat
   expansion, trailing row/column trimming and text assembly of _extract_sheet, read_ods' sheet loop.
   Definitions only.  Oracles (recorded from the real code): XML parsing, _parse_odf_length_to_px (positions enter
   as order-isomorphic integers), _iter_paragraphs/_get_text_recursive (paragraph texts), _extract_cell_value. *)
From Coq Require Import ZArith List Bool.
From S2T Require Import Lib.PyStr C03.Lib C03.Model C03.Docx C03.Sect.
Import ListNotations.
Open Scope Z_scope.

(* ================================================================== ODP *)
Record frame := mkFrame {
  fr_y : Z; fr_x : Z;                       (* sort key (y, x) *)
  fr_paras : list (str * str)               (* text box paragraphs: (_get_text_recursive(p), text:style-name) *)
}.

(* children of a draw:page / draw:g *)
Inductive shape :=
| ShFrame (f : frame)
| ShGroup (children : list shape)
| ShOther.                                  (* anything else, e.g. presentation:notes, custom shapes *)

(* _iter_slide_frames *)
Fixpoint iter_frames (sh : shape) : list frame :=
  match sh with
  | ShFrame f => [f]
  | ShGroup cs => (fix go (l : list shape) : list frame :=
                     match l with [] => [] | c :: r => iter_frames c ++ go r end) cs
  | ShOther => []
  end.
Definition page_frames (children : list shape) : list frame := iter_frames (ShGroup children).

(* list.sort(key=(y, x)): stable *)
Definition key_le (a b : frame) : bool :=
  Z.ltb (fr_y a) (fr_y b) || (Z.eqb (fr_y a) (fr_y b) && Z.leb (fr_x a) (fr_x b)).

Fixpoint insert_frame (f : frame) (l : list frame) : list frame :=
  match l with
  | [] => [f]
  | g :: r => if key_le f g then f :: l else g :: insert_frame f r
  end.
(* stable insertion sort: elements are inserted from the right, each before the first element that is not smaller,
   so equal keys keep their document order *)
Definition sort_frames (l : list frame) : list frame := fold_right insert_frame [] l.

Record slide_acc := mkAcc { a_title : option str; a_found : bool; a_body : list str; a_other : list str }.

Definition TITLE : str := s "Title".
Definition BODY : str := s "Body".

Definition classify (acc : slide_acc) (p : str * str) : slide_acc :=
  let text := strip (fst p) in
  let style := snd p in
  if nonempty text then
    if negb (a_found acc) && (contains_sub style TITLE || str_eqb style (s "TitleText"))
    then mkAcc (Some text) true (a_body acc) (a_other acc)
    else if contains_sub style BODY || str_eqb style (s "BodyText")
    then mkAcc (a_title acc) (a_found acc) (a_body acc ++ [text]) (a_other acc)
    else mkAcc (a_title acc) (a_found acc) (a_body acc) (a_other acc ++ [text])
  else acc.

Definition all_paras (frames : list frame) : list (str * str) := List.concat (map fr_paras frames).

(* _extract_slide, the text part *)
Definition extract_slide (num : Z) (children : list shape) : slide :=
  let acc := fold_left classify (all_paras (sort_frames (page_frames children))) (mkAcc None false [] []) in
  mkSlide num (Some (match a_title acc with Some t => t | None => [] end)) (a_body acc) (a_other acc).

(* read_odp: enumerate(body.findall("draw:page"), start=1) *)
Definition read_odp_slides (pages : list (list shape)) : list slide :=
  map (fun kp => extract_slide (fst kp) (snd kp)) (enum_from 1 pages).

(* the non-empty paragraph texts of a page, in any order *)
Definition page_texts (children : list shape) : list str :=
  filter nonempty (map (fun p => strip (fst p)) (all_paras (page_frames children))).
Definition slide_texts (sl : slide) : list str :=
  (match sl_title sl with Some t => if nonempty t then [t] else [] | None => [] end) ++ sl_body sl ++ sl_other sl.

(* ================================================================== ODS *)
Definition cell := option str.              (* None = (None, ""); Some d = typed value present, display text d *)

Inductive row_node :=
| RRow (repeat : Z) (cells : list (Z * cell))       (* number-rows-repeated, [(number-columns-repeated, value)] *)
| RWrap (children : list row_node)                  (* table-header-rows / table-rows / table-row-group *)
| ROther.

Fixpoint iter_rows (n : row_node) : list (Z * list (Z * cell)) :=
  match n with
  | RRow rep cs => [(rep, cs)]
  | RWrap ch => (fix go (l : list row_node) := match l with [] => [] | c :: r => iter_rows c ++ go r end) ch
  | ROther => []
  end.
Definition sheet_rows (children : list row_node) : list (Z * list (Z * cell)) := iter_rows (RWrap children).

Definition is_none (c : cell) : bool := match c with None => true | Some _ => false end.

(* one cell with its column repeat *)
Definition expand_cell (rc : Z * cell) : list cell :=
  if is_none (snd rc) && Z.ltb 100 (fst rc) then [None] else repeat (snd rc) (Z.to_nat (fst rc)).
Definition row_values (cs : list (Z * cell)) : list cell := List.concat (map expand_cell cs).

Definition expand_row (r : Z * list (Z * cell)) : list (list cell) :=
  let vs := row_values (snd r) in
  if Z.ltb 100 (fst r) && forallb is_none vs then [vs] else repeat vs (Z.to_nat (fst r)).
Definition raw_rows (rows : list (Z * list (Z * cell))) : list (list cell) := List.concat (map expand_row rows).

(* while raw_rows and all(v is None for v in raw_rows[-1]): pop *)
Definition trim_rows (rows : list (list cell)) : list (list cell) :=
  rev (dropWhile (forallb is_none) (rev rows)).

(* index of the last non-None cell + 1 (0 when there is none) *)
Definition last_data (r : list cell) : nat := List.length (rev (dropWhile is_none (rev r))).
Definition max_cols (rows : list (list cell)) : nat := fold_right Nat.max O (map last_data rows).

Definition shown (c : cell) : list str := match c with Some d => if nonempty d then [d] else [] | None => [] end.
Definition row_texts (n : nat) (r : list cell) : list str := List.concat (map shown (firstn n r)).

Definition TAB : str := [9%N].

(* _extract_sheet: sheet.text *)
Definition sheet_lines (children : list row_node) : list (list str) :=
  let rows := trim_rows (raw_rows (sheet_rows children)) in
  let n := max_cols rows in
  filter (fun l => negb (nil_b l)) (map (row_texts n) rows).
Definition sheet_text (children : list row_node) : str := joinNL (map (join TAB) (sheet_lines children)).

Definition extract_sheet (name : str) (children : list row_node) : sheet := mkSheet name (sheet_text children).
Definition read_ods_sheets (tables : list (str * list row_node)) : list sheet :=
  map (fun t => extract_sheet (fst t) (snd t)) tables.

(* every display text of the sheet's cells after repeat expansion, row by row *)
Definition source_cell_texts (children : list row_node) : list str :=
  List.concat (map (fun r => List.concat (map shown r)) (raw_rows (sheet_rows children))).
