(* C17 — lemmas about the skip machine and its two instances. *)
From Coq Require Import List Bool Arith Lia.
From S2T Require Import Lib.PyStr C17.Model.
Import ListNotations.
Local Open Scope nat_scope.

(* ------------------------------------------------------------------ generic machine *)
Section SkipProofs.
  Variable V : Type.
  Variable remove void : list str.
  Variable vstart : V -> str -> attrs_raw -> V.
  Variable vend : V -> str -> V.
  Variable vdata : V -> str -> V.

  Notation step := (step remove void vstart vend vdata).
  Notation run := (run remove void vstart vend vdata).

  Lemma run_app st a b : run st (a ++ b) = run (run st a) b.
  Proof. unfold Model.run. apply fold_left_app. Qed.

  Lemma run_cons st e l : run st (e :: l) = run (step st e) l.
  Proof. reflexivity. Qed.

  (* while skipping <t>, a segment in which every </t> is matched changes nothing but the counter,
     and the counter returns to where it was *)
  Lemma skip_segment (t : str) (v : V) (d : nat) :
    forall (inner : list event) (k : nat),
      closes t k inner = true ->
      run (mkSk v (S (k + d)) (Some t)) inner = mkSk v (S d) (Some t).
  Proof.
    induction inner as [|e inner IH]; intros k H.
    - simpl in H. apply Nat.eqb_eq in H. subst k. reflexivity.
    - rewrite run_cons. destruct e as [g a|g|x|c]; simpl in H.
      + cbn [Model.step depth stag opt_str_eqb vis]. destruct (str_eqb g t) eqn:E.
        * change (S (S (k + d))) with (S (S k + d)). apply IH. exact H.
        * apply IH. exact H.
      + cbn [Model.step depth stag opt_str_eqb vis]. destruct (str_eqb g t) eqn:E.
        * destruct k as [|k']; [discriminate|]. change (S k' + d) with (S (k' + d)). apply IH. exact H.
        * apply IH. exact H.
      + cbn [Model.step depth]. apply IH. exact H.
      + cbn [Model.step]. apply IH. exact H.
  Qed.

  Lemma vis_canon (st : sk V) : vis (canon st) = vis st.
  Proof. unfold canon. destruct (depth st); reflexivity. Qed.

  Lemma depth_canon (st : sk V) : depth (canon st) = depth st.
  Proof. unfold canon. destruct (depth st) eqn:E; [reflexivity | exact E]. Qed.

  Lemma canon_idem (st : sk V) : canon (canon st) = canon st.
  Proof. unfold canon. destruct (depth st) eqn:E; cbn [depth]; [reflexivity | rewrite E; reflexivity]. Qed.

  Lemma step_canon s1 s2 e : canon s1 = canon s2 -> canon (step s1 e) = canon (step s2 e).
  Proof.
    destruct s1 as [v1 d1 t1], s2 as [v2 d2 t2]. unfold canon at 1 2. cbn [depth vis stag].
    destruct d1 as [|d1], d2 as [|d2]; intro H; try discriminate H.
    - injection H as Hv. subst v2.
      destruct e as [g a|g|x|c]; cbn [Model.step depth vis stag].
      + destruct (mem_str g remove); [destruct (mem_str g void)|]; reflexivity.
      + reflexivity.
      + reflexivity.
      + reflexivity.
    - injection H as Hv Hd Ht. subst. reflexivity.
  Qed.

  Lemma run_canon l : forall s1 s2, canon s1 = canon s2 -> canon (run s1 l) = canon (run s2 l).
  Proof.
    induction l as [|e l IH]; intros s1 s2 H; [exact H|].
    rewrite !run_cons. apply IH. apply step_canon. exact H.
  Qed.

  (* the central fact: from a visible position, <r> inner </r> is as if it were not there *)
  Lemma removed_element_gone (st : sk V) (r : str) (a : attrs_raw) (inner post : list event) :
    mem_str r remove = true -> mem_str r void = false -> closes r 0 inner = true ->
    depth st = 0 ->
    canon (run st (Start r a :: inner ++ End r :: post)) = canon (run st post).
  Proof.
    intros Hr Hv Hc Hd. destruct st as [v d t]. cbn [depth] in Hd. subst d.
    rewrite run_cons. cbn [Model.step depth vis stag]. rewrite Hr, Hv.
    rewrite run_app.
    pose proof (skip_segment r v 0 inner 0 Hc) as Hs. cbn [Nat.add] in Hs. rewrite Hs.
    rewrite run_cons. cbn [Model.step depth vis stag opt_str_eqb]. rewrite str_eqb_refl.
    apply run_canon. reflexivity.
  Qed.

  (* inside an already removed <t> element any t-balanced segment is inert (exact equality) *)
  Lemma skipped_segment_inert (st : sk V) (t : str) (d : nat) (seg post : list event) :
    depth st = S d -> stag st = Some t -> closes t 0 seg = true ->
    run st (seg ++ post) = run st post.
  Proof.
    intros Hd Ht Hc. destruct st as [v d' t']. cbn [depth stag] in Hd, Ht. subst.
    rewrite run_app. pose proof (skip_segment t v d seg 0 Hc) as Hs. cbn [Nat.add] in Hs. rewrite Hs. reflexivity.
  Qed.

  (* reachable states: while skipping, _skip_tag is a removable non-void tag *)
  Definition good (st : sk V) : bool :=
    match depth st with
    | O => true
    | S _ => match stag st with
             | Some t => negb (mem_str t void) && mem_str t remove
             | None => false
             end
    end.

  Lemma good_step st e : good st = true -> good (step st e) = true.
  Proof.
    destruct st as [v d t]. unfold good. cbn [depth stag].
    destruct e as [g a|g|x|c]; cbn [Model.step depth stag vis].
    - destruct d as [|d].
      + intros _. destruct (mem_str g remove) eqn:E1; [destruct (mem_str g void) eqn:E2|]; cbn [depth stag]; try reflexivity.
        rewrite E1, E2. reflexivity.
      + destruct (opt_str_eqb t g); cbn [depth stag]; auto.
    - destruct d as [|d]; [reflexivity|].
      destruct (opt_str_eqb t g); cbn [depth stag]; auto.
      destruct d; auto.
    - destruct d; auto.
    - auto.
  Qed.

  Lemma good_run l : forall st, good st = true -> good (run st l) = true.
  Proof. induction l as [|e l IH]; intros st H; [exact H|]. rewrite run_cons. apply IH, good_step, H. Qed.

  Lemma void_start_inert st r a :
    good st = true -> mem_str r remove = true -> mem_str r void = true -> step st (Start r a) = st.
  Proof.
    destruct st as [v d t]. unfold good. cbn [depth stag Model.step vis]. intros G Hr Hv.
    destruct d as [|d].
    - rewrite Hr, Hv. reflexivity.
    - destruct t as [t|]; [|discriminate]. cbn [opt_str_eqb].
      destruct (str_eqb r t) eqn:E; [|reflexivity].
      apply str_eqb_eq in E. subst t. rewrite Hv in G. discriminate.
  Qed.

  (* end tag of a void removable element: ignored while skipping (it cannot be _skip_tag) *)
  Lemma void_end_skipping st r d :
    good st = true -> mem_str r void = true -> depth st = S d -> step st (End r) = st.
  Proof.
    destruct st as [v d' t]. unfold good. cbn [depth stag Model.step vis]. intros G Hv Hd. subst d'.
    destruct t as [t|]; [|discriminate]. cbn [opt_str_eqb].
    destruct (str_eqb r t) eqn:E; [|reflexivity].
    apply str_eqb_eq in E. subst t. rewrite Hv in G. discriminate.
  Qed.

  (* invariants of the visible state carried through a run *)
  Section Inv.
    Variable P : V -> Prop.
    Hypothesis Hs : forall v g a, mem_str g remove = false -> P v -> P (vstart v g a).
    Hypothesis He : forall v g, P v -> P (vend v g).
    Hypothesis Hd : forall v x, P v -> P (vdata v x).

    Lemma inv_step st e : P (vis st) -> P (vis (step st e)).
    Proof.
      destruct st as [v d t]. cbn [vis]. intro H.
      destruct e as [g a|g|x|c]; cbn [Model.step depth vis stag].
      - destruct d as [|d].
        + destruct (mem_str g remove) eqn:E; [destruct (mem_str g void)|]; cbn [vis]; auto.
        + destruct (opt_str_eqb t g); cbn [vis]; auto.
      - destruct d as [|d]; [cbn [vis]; auto|]. destruct (opt_str_eqb t g); cbn [vis]; auto.
      - destruct d; cbn [vis]; auto.
      - auto.
    Qed.

    Lemma inv_run l : forall st, P (vis st) -> P (vis (run st l)).
    Proof. induction l as [|e l IH]; intros st H; [exact H|]. rewrite run_cons. apply IH, inv_step, H. Qed.
  End Inv.

  (* <r/> (Start r; End r) for a void removable r, given that the visible end handler ignores </r> *)
  Lemma void_selfclosed_inert st r a :
    good st = true -> mem_str r remove = true -> mem_str r void = true ->
    vend (vis st) r = vis st ->
    run st [Start r a; End r] = st.
  Proof.
    intros G Hr Hv Hend. rewrite run_cons. rewrite (void_start_inert st r a G Hr Hv).
    rewrite run_cons. cbn [Model.run fold_left].
    destruct (depth st) eqn:Ed.
    - destruct st as [v d t]. cbn [depth] in Ed. subst d. cbn [Model.step depth vis stag] in *.
      rewrite Hend. reflexivity.
    - apply (void_end_skipping st r n G Hv Ed).
  Qed.
End SkipProofs.

(* ------------------------------------------------------------------ HTML instance *)
Section HtmlProofs.
  Variable remove void : list str.

  Definition nostk (v : hvis) : Prop :=
    forallb (fun f => negb (mem_str (f_tag f) remove)) (top v :: below v) = true.

  Lemma nostk_start v g a : mem_str g remove = false -> nostk v -> nostk (h_start void v g a).
  Proof.
    unfold nostk, h_start. intros Hg H. cbn [forallb] in H. apply andb_true_iff in H as [H1 H2].
    destruct (mem_str g void); cbn [top below forallb f_tag].
    - rewrite H2. destruct (lc v); cbn [flush f_tag]; rewrite H1; reflexivity.
    - rewrite Hg, H2. destruct (lc v); cbn [flush f_tag negb andb]; rewrite H1; reflexivity.
  Qed.

  Lemma nostk_end v g : nostk v -> nostk (h_end v g).
  Proof.
    unfold nostk, h_end. intro H. destruct (below v) as [|p rest] eqn:E; [rewrite E; exact H|].
    destruct (str_eqb (f_tag (top v)) g); [|rewrite E; exact H].
    cbn [top below]. cbn [forallb] in H. apply andb_true_iff in H as [_ H]. exact H.
  Qed.

  Lemma nostk_data v x : nostk v -> nostk (h_data v x).
  Proof.
    unfold nostk, h_data. intro H. destruct (lc v) as [[t a tx k tl]|]; cbn [top below]; [exact H|].
    cbn [forallb f_tag] in *. exact H.
  Qed.

  Lemma nostk_build l : html_wf remove = true -> nostk (vis (html_build remove void l)).
  Proof.
    intro W. unfold html_build.
    apply (inv_run hvis remove void (h_start void) h_end h_data nostk nostk_start nostk_end nostk_data).
    unfold nostk, h_init, root_frame. cbn [vis top below forallb f_tag]. unfold html_wf in W. rewrite W. reflexivity.
  Qed.

  Lemma h_end_removable v r : nostk v -> mem_str r remove = true -> h_end v r = v.
  Proof.
    unfold nostk, h_end. intros H Hr. destruct (below v) as [|p rest]; [reflexivity|].
    destruct (str_eqb (f_tag (top v)) r) eqn:E; [|reflexivity].
    apply str_eqb_eq in E. cbn [forallb] in H. apply andb_true_iff in H as [H _].
    rewrite E, Hr in H. discriminate.
  Qed.
End HtmlProofs.

(* ------------------------------------------------------------------ EPUB instance *)
Lemma disjoint_not_mem a b x : disjoint_str a b = true -> mem_str x a = true -> mem_str x b = false.
Proof.
  unfold disjoint_str. intros H Hx. apply mem_str_In in Hx.
  rewrite forallb_forall in H. apply H in Hx. apply negb_true_iff in Hx. exact Hx.
Qed.

Lemma e_end_removable remove block normcell v r :
  epub_wf remove block = true -> mem_str r remove = true -> e_end block normcell v r = v.
Proof.
  unfold epub_wf. intros W Hr. apply andb_true_iff in W as [W1 W2].
  pose proof (disjoint_not_mem _ _ r W1 Hr) as Hb.
  pose proof (disjoint_not_mem _ _ r W2 Hr) as Hs. cbn [mem_str] in Hs.
  repeat (apply orb_false_iff in Hs; destruct Hs as [? Hs]).
  unfold e_end. rewrite H, H0, H1, H2, H3, Hb. cbn [orb].
  destruct (in_table v); reflexivity.
Qed.

(* ------------------------------------------------------------------ the unrepaired counter *)
Definition ev_p_open := Start (s "p") [].
Definition old_pre := [Start (s "p") []; Data (s "before"); End (s "p")].
Definition old_post := [Start (s "p") []; Data (s "after"); End (s "p")].
Definition old_remove := [s "noscript"; s "embed"].
Definition old_void := [s "img"; s "embed"].
Definition old_build l := tree_of (vis (run_old old_remove (h_start old_void) h_end h_data h_init l)).

(* <p>before</p><noscript><img></noscript><p>after</p> : the old counter loses "after" *)
Lemma old_counter_loses_text :
  old_build (old_pre ++ Start (s "noscript") [] :: [Start (s "img") []] ++ End (s "noscript") :: old_post)
  <> old_build (old_pre ++ old_post).
Proof. intro H. vm_compute in H. discriminate H. Qed.

(* <noscript></b>LEAK</noscript> : the old counter leaks removed text *)
Lemma old_counter_leaks_text :
  old_build (old_pre ++ Start (s "noscript") [] :: [End (s "b"); Data (s "LEAK")] ++ End (s "noscript") :: old_post)
  <> old_build (old_pre ++ old_post).
Proof. intro H. vm_compute in H. discriminate H. Qed.

(* ------------------------------------------------------------------ statements over whole event lists *)
Section Whole.
  Variable V : Type.
  Variable remove void : list str.
  Variable vstart : V -> str -> attrs_raw -> V.
  Variable vend : V -> str -> V.
  Variable vdata : V -> str -> V.
  Variable st0 : sk V.
  Hypothesis good0 : good V remove void st0 = true.

  Notation build := (run remove void vstart vend vdata st0).

  Lemma build_noninterference pre r a inner post :
    mem_str r remove = true -> mem_str r void = false -> closes r 0 inner = true ->
    skipping (build pre) = false ->
    canon (build (pre ++ Start r a :: inner ++ End r :: post)) = canon (build (pre ++ post)).
  Proof.
    intros Hr Hv Hc Hs. rewrite !run_app. apply removed_element_gone; auto.
    unfold skipping in Hs. destruct (depth (build pre)); [reflexivity | discriminate].
  Qed.

  Lemma build_vis_noninterference pre r a inner post :
    mem_str r remove = true -> mem_str r void = false -> closes r 0 inner = true ->
    skipping (build pre) = false ->
    vis (build (pre ++ Start r a :: inner ++ End r :: post)) = vis (build (pre ++ post)).
  Proof.
    intros Hr Hv Hc Hs.
    rewrite <- (vis_canon V (build (pre ++ Start r a :: inner ++ End r :: post))).
    rewrite <- (vis_canon V (build (pre ++ post))).
    f_equal. apply build_noninterference; assumption.
  Qed.

  Lemma build_content_irrelevant pre r a a' inner inner' post :
    mem_str r remove = true -> mem_str r void = false ->
    closes r 0 inner = true -> closes r 0 inner' = true ->
    skipping (build pre) = false ->
    canon (build (pre ++ Start r a :: inner ++ End r :: post))
    = canon (build (pre ++ Start r a' :: inner' ++ End r :: post)).
  Proof.
    intros Hr Hv Hc Hc' Hs.
    rewrite (build_noninterference pre r a inner post Hr Hv Hc Hs).
    rewrite (build_noninterference pre r a' inner' post Hr Hv Hc' Hs). reflexivity.
  Qed.

  Lemma build_nested_inert pre t d seg post :
    depth (build pre) = S d -> stag (build pre) = Some t -> closes t 0 seg = true ->
    build (pre ++ seg ++ post) = build (pre ++ post).
  Proof.
    intros Hd Ht Hc. rewrite !run_app. rewrite <- run_app.
    apply (skipped_segment_inert V remove void vstart vend vdata (build pre) t d seg post Hd Ht Hc).
  Qed.

  Lemma build_void_inert pre r a post :
    mem_str r remove = true -> mem_str r void = true ->
    build (pre ++ Start r a :: post) = build (pre ++ post).
  Proof.
    intros Hr Hv. rewrite !run_app, run_cons.
    rewrite (void_start_inert V remove void vstart vend vdata (build pre) r a); auto.
    apply good_run. exact good0.
  Qed.

  Lemma build_comment_inert pre c post : build (pre ++ Comment c :: post) = build (pre ++ post).
  Proof. rewrite !run_app. reflexivity. Qed.

  Lemma build_void_selfclosed pre r a post :
    mem_str r remove = true -> mem_str r void = true ->
    vend (vis (build pre)) r = vis (build pre) ->
    build (pre ++ Start r a :: End r :: post) = build (pre ++ post).
  Proof.
    intros Hr Hv He. rewrite !run_app.
    change (Start r a :: End r :: post) with ([Start r a; End r] ++ post). rewrite run_app.
    rewrite (void_selfclosed_inert V remove void vstart vend vdata (build pre) r a); auto.
    apply good_run. exact good0.
  Qed.
End Whole.

Lemma html_void_selfclosed remove void pre r a post :
  html_wf remove = true -> mem_str r remove = true -> mem_str r void = true ->
  html_build remove void (pre ++ Start r a :: End r :: post) = html_build remove void (pre ++ post).
Proof.
  intros W Hr Hv. unfold html_build. apply build_void_selfclosed; auto.
  apply h_end_removable with (remove := remove); [|exact Hr].
  apply (nostk_build remove void pre W).
Qed.

Lemma epub_void_selfclosed remove void block normcell pre r a post :
  epub_wf remove block = true -> mem_str r remove = true -> mem_str r void = true ->
  epub_build remove void block normcell (pre ++ Start r a :: End r :: post)
  = epub_build remove void block normcell (pre ++ post).
Proof.
  intros W Hr Hv. unfold epub_build. apply build_void_selfclosed; auto.
  apply e_end_removable with (remove := remove); assumption.
Qed.

(* ------------------------------------------------------------------ simulation between two instances *)
Section Sim.
  Variable V1 V2 : Type.
  Variable remove void : list str.
  Variable s1 : V1 -> str -> attrs_raw -> V1.
  Variable e1 : V1 -> str -> V1.
  Variable d1 : V1 -> str -> V1.
  Variable s2 : V2 -> str -> attrs_raw -> V2.
  Variable e2 : V2 -> str -> V2.
  Variable d2 : V2 -> str -> V2.
  Variable f : V1 -> V2.
  Variable P : V1 -> Prop.
  Hypothesis Ps : forall v g a, P v -> P (s1 v g a).
  Hypothesis Pe : forall v g, P v -> P (e1 v g).
  Hypothesis Pd : forall v x, P v -> P (d1 v x).
  Hypothesis Fs : forall v g a, P v -> f (s1 v g a) = s2 (f v) g a.
  Hypothesis Fe : forall v g, P v -> f (e1 v g) = e2 (f v) g.
  Hypothesis Fd : forall v x, P v -> f (d1 v x) = d2 (f v) x.

  Definition mapst (st : sk V1) : sk V2 := mkSk (f (vis st)) (depth st) (stag st).

  Lemma sim_step st e : P (vis st) ->
    step remove void s2 e2 d2 (mapst st) e = mapst (step remove void s1 e1 d1 st e).
  Proof.
    destruct st as [v d t]. unfold mapst. cbn [vis depth stag]. intro H.
    destruct e as [g a|g|x|c]; cbn [step depth vis stag].
    - destruct d as [|d].
      + destruct (mem_str g remove); [destruct (mem_str g void)|]; cbn [vis depth stag]; try reflexivity.
        rewrite Fs; auto.
      + destruct (opt_str_eqb t g); reflexivity.
    - destruct d as [|d]; [cbn [vis depth stag]; rewrite Fe; auto|].
      destruct (opt_str_eqb t g); reflexivity.
    - destruct d as [|d]; [cbn [vis depth stag]; rewrite Fd; auto | reflexivity].
    - reflexivity.
  Qed.

  Lemma sim_run l : forall st, P (vis st) ->
    run remove void s2 e2 d2 (mapst st) l = mapst (run remove void s1 e1 d1 st l).
  Proof.
    induction l as [|e l IH]; intros st H; [reflexivity|].
    rewrite !run_cons. rewrite sim_step by exact H. apply IH.
    apply (inv_step V1 remove void s1 e1 d1 P); auto.
  Qed.
End Sim.

(* ------------------------------------------------------------------ the tree keeps all visible text, in order *)
Fixpoint flat_kids (l : list node) : str :=
  match l with [] => [] | c :: r => flat_node c ++ flat_kids r end.

Lemma flat_node_eq t a x k tl : flat_node (Node t a x k tl) = x ++ flat_kids k ++ tl.
Proof.
  reflexivity.
Qed.

Lemma flat_kids_app a b : flat_kids (a ++ b) = flat_kids a ++ flat_kids b.
Proof. induction a as [|c r IH]; [reflexivity|]. cbn [flat_kids app]. rewrite IH, app_assoc. reflexivity. Qed.

Definition flat_frame (f : frame) : str := f_text f ++ flat_kids (f_kids f).

Fixpoint flat_below (l : list frame) : str :=
  match l with [] => [] | p :: rest => flat_below rest ++ flat_frame p end.

Lemma flat_nof f : flat_node (node_of_frame f) = flat_frame f.
Proof. unfold node_of_frame. rewrite flat_node_eq, app_nil_r. reflexivity. Qed.

Lemma flat_flush n f : flat_frame (flush (Some n) f) = flat_frame f ++ flat_node n.
Proof.
  unfold flat_frame, flush. cbn [f_text f_kids]. rewrite flat_kids_app. cbn [flat_kids].
  rewrite app_nil_r, app_assoc. reflexivity.
Qed.

Lemma flat_close_all below : forall cur, flat_node (close_all cur below) = flat_below below ++ flat_frame cur.
Proof.
  induction below as [|p rest IH]; intro cur; cbn [close_all flat_below].
  - apply flat_nof.
  - rewrite IH, flat_flush, flat_nof, app_assoc. reflexivity.
Qed.

Definition flat_vis (v : hvis) : str := flat_node (tree_of v).

Lemma flat_vis_eq v : flat_vis v = flat_below (below v) ++ flat_frame (flush (lc v) (top v)).
Proof. unfold flat_vis, tree_of. apply flat_close_all. Qed.

(* last_closed is None only while the current element has no children yet *)
Definition lc_inv (v : hvis) : Prop := lc v = None -> f_kids (top v) = [].

Lemma lc_inv_start void v g a : lc_inv v -> lc_inv (h_start void v g a).
Proof. unfold lc_inv, h_start. intros _. destruct (mem_str g void); cbn [lc top f_kids]; [discriminate | reflexivity]. Qed.

Lemma lc_inv_end v g : lc_inv v -> lc_inv (h_end v g).
Proof.
  unfold lc_inv, h_end. intro H. destruct (below v); [exact H|].
  destruct (str_eqb (f_tag (top v)) g); [cbn [lc]; discriminate | exact H].
Qed.

Lemma lc_inv_data v x : lc_inv v -> lc_inv (h_data v x).
Proof.
  unfold lc_inv, h_data. intro H. destruct (lc v) as [[t a tx k tl]|] eqn:E; cbn [lc top f_kids]; [discriminate|].
  intros _. apply H. reflexivity.
Qed.

Lemma flat_start void v g a : flat_vis (h_start void v g a) = flat_vis v.
Proof.
  rewrite !flat_vis_eq. unfold h_start. destruct (mem_str g void); cbn [top below lc flat_below].
  - rewrite flat_flush, flat_node_eq. cbn [flat_kids]. rewrite !app_nil_r. reflexivity.
  - cbn [flush]. unfold flat_frame at 2. cbn [f_text f_kids flat_kids]. rewrite app_nil_r. reflexivity.
Qed.

Lemma flat_end v g : flat_vis (h_end v g) = flat_vis v.
Proof.
  unfold h_end. destruct (below v) as [|p rest] eqn:E; [reflexivity|].
  destruct (str_eqb (f_tag (top v)) g); [|reflexivity].
  rewrite !flat_vis_eq, E. cbn [top below lc flat_below]. rewrite flat_flush, flat_nof, app_assoc. reflexivity.
Qed.

Lemma flat_data v x : lc_inv v -> flat_vis (h_data v x) = flat_vis v ++ x.
Proof.
  intro I. rewrite !flat_vis_eq. unfold h_data.
  destruct (lc v) as [[t a tx k tl]|] eqn:E; cbn [top below lc].
  - rewrite !flat_flush, !flat_node_eq, !app_assoc. reflexivity.
  - cbn [flush]. unfold flat_frame. cbn [f_text f_kids]. rewrite (I E). cbn [flat_kids].
    rewrite !app_nil_r, app_assoc. reflexivity.
Qed.

Lemma html_text_preserved remove void l :
  flat_node (tree_of (vis (html_build remove void l))) = visible_text remove void l.
Proof.
  unfold visible_text, html_build.
  pose proof (sim_run hvis str remove void (h_start void) h_end h_data t_start t_end t_data flat_vis lc_inv
                (fun v g a => lc_inv_start void v g a) lc_inv_end lc_inv_data
                (fun v g a _ => flat_start void v g a) (fun v g _ => flat_end v g) flat_data l h_init) as H.
  assert (I0 : lc_inv (vis h_init)) by (intro; reflexivity).
  specialize (H I0).
  assert (E0 : mapst hvis str flat_vis h_init = t_init) by reflexivity.
  rewrite E0 in H. rewrite H. reflexivity.
Qed.

Lemma text_no_removable remove void l : no_removable remove l = true ->
  forall (v : str) (t : option str),
    run remove void t_start t_end t_data (mkSk v 0 t) l = mkSk (v ++ all_data l) 0 t.
Proof.
  induction l as [|e l IH]; intros H v t.
  - cbn [all_data]. rewrite app_nil_r. reflexivity.
  - cbn [no_removable forallb] in H. apply andb_true_iff in H as [H1 H2]. fold (no_removable remove l) in H2.
    rewrite run_cons. destruct e as [g a|g|x|c]; cbn [step depth vis stag all_data].
    + apply negb_true_iff in H1. rewrite H1. unfold t_start. apply IH. exact H2.
    + unfold t_end. apply IH. exact H2.
    + unfold t_data. rewrite IH by exact H2. rewrite app_assoc. reflexivity.
    + apply IH. exact H2.
Qed.

Lemma html_all_text remove void l : no_removable remove l = true ->
  flat_node (tree_of (vis (html_build remove void l))) = all_data l.
Proof.
  intro H. rewrite html_text_preserved.
  exact (f_equal vis (text_no_removable remove void l H [] None)).
Qed.

(* ------------------------------------------------------------------ visible text only grows *)
Lemma text_run_extends remove void l : forall st : sk str,
  exists s', vis (run remove void t_start t_end t_data st l) = vis st ++ s'.
Proof.
  induction l as [|e l IH]; intro st.
  - exists []. cbn. rewrite app_nil_r. reflexivity.
  - rewrite run_cons. destruct (IH (step remove void t_start t_end t_data st e)) as [s1 H1].
    assert (H0 : exists s0, vis (step remove void t_start t_end t_data st e) = vis st ++ s0).
    { destruct st as [v d t]. destruct e as [g a|g|x|c]; cbn [step depth vis stag].
      - destruct d as [|d].
        + destruct (mem_str g remove); [destruct (mem_str g void)|]; cbn [vis]; exists []; unfold t_start; rewrite app_nil_r; reflexivity.
        + destruct (opt_str_eqb t g); cbn [vis]; exists []; rewrite app_nil_r; reflexivity.
      - destruct d as [|d]; [|destruct (opt_str_eqb t g)]; cbn [vis]; exists []; unfold t_end; rewrite app_nil_r; reflexivity.
      - destruct d as [|d]; cbn [vis]; [exists x; reflexivity | exists []; rewrite app_nil_r; reflexivity].
      - exists []. cbn [vis]. rewrite app_nil_r. reflexivity. }
    destruct H0 as [s0 H0]. exists (s0 ++ s1). rewrite H1, H0, app_assoc. reflexivity.
Qed.

Lemma html_text_monotone remove void l l' :
  exists s', flat_node (tree_of (vis (html_build remove void (l ++ l'))))
             = flat_node (tree_of (vis (html_build remove void l))) ++ s'.
Proof.
  rewrite !html_text_preserved. unfold visible_text. rewrite run_app. apply text_run_extends.
Qed.

(* ------------------------------------------------------------------ the tree never contains a removable element *)
Section NoRemovableNode.
  Variable remove void : list str.

  Definition kids_ok (l : list node) : bool := forallb (node_ok remove) l.

  Lemma node_ok_eq t a x k tl : node_ok remove (Node t a x k tl) = negb (mem_str t remove) && kids_ok k.
  Proof. reflexivity. Qed.

  Lemma kids_ok_app a b : kids_ok (a ++ b) = kids_ok a && kids_ok b.
  Proof. unfold kids_ok. apply forallb_app. Qed.

  Definition frame_ok (f : frame) : bool := negb (mem_str (f_tag f) remove) && kids_ok (f_kids f).
  Definition opt_ok (o : option node) : bool := match o with Some n => node_ok remove n | None => true end.

  Definition vis_ok (v : hvis) : Prop :=
    frame_ok (top v) = true /\ forallb frame_ok (below v) = true /\ opt_ok (lc v) = true.

  Lemma flush_ok o f : frame_ok f = true -> opt_ok o = true -> frame_ok (flush o f) = true.
  Proof.
    intros Hf Ho. destruct o as [n|]; [|exact Hf]. unfold frame_ok, flush in *. cbn [f_tag f_kids opt_ok] in *.
    apply andb_true_iff in Hf as [H1 H2]. rewrite H1, kids_ok_app, H2. cbn [kids_ok forallb]. rewrite Ho. reflexivity.
  Qed.

  Lemma nof_ok f : frame_ok f = true -> node_ok remove (node_of_frame f) = true.
  Proof. intro H. unfold node_of_frame. rewrite node_ok_eq. exact H. Qed.

  Lemma vis_ok_start v g a : mem_str g remove = false -> vis_ok v -> vis_ok (h_start void v g a).
  Proof.
    intros Hg [H1 [H2 H3]]. unfold vis_ok, h_start.
    pose proof (flush_ok (lc v) (top v) H1 H3) as Hf.
    destruct (mem_str g void); cbn [top below lc forallb opt_ok].
    - repeat split; auto. rewrite node_ok_eq, Hg. reflexivity.
    - repeat split.
      + unfold frame_ok. cbn [f_tag f_kids]. rewrite Hg. reflexivity.
      + rewrite Hf, H2. reflexivity.
  Qed.

  Lemma vis_ok_end v g : vis_ok v -> vis_ok (h_end v g).
  Proof.
    intros [H1 [H2 H3]]. unfold vis_ok, h_end. destruct (below v) as [|p rest] eqn:E; [rewrite E; auto|].
    destruct (str_eqb (f_tag (top v)) g); [|rewrite E; auto].
    cbn [top below lc opt_ok]. cbn [forallb] in H2. apply andb_true_iff in H2 as [Hp Hr].
    repeat split; auto. apply nof_ok, flush_ok; auto.
  Qed.

  Lemma vis_ok_data v x : vis_ok v -> vis_ok (h_data v x).
  Proof.
    intros [H1 [H2 H3]]. unfold vis_ok, h_data. destruct (lc v) as [[t a tx k tl]|]; cbn [top below lc opt_ok].
    - repeat split; auto.
    - repeat split; auto.
  Qed.

  Lemma close_all_ok below : forall cur, frame_ok cur = true -> forallb frame_ok below = true ->
    node_ok remove (close_all cur below) = true.
  Proof.
    induction below as [|p rest IH]; intros cur Hc Hb; cbn [close_all].
    - apply nof_ok, Hc.
    - cbn [forallb] in Hb. apply andb_true_iff in Hb as [Hp Hr]. apply IH; [|exact Hr].
      apply flush_ok; [exact Hp|]. cbn [opt_ok]. apply nof_ok, Hc.
  Qed.

  Lemma html_tree_no_removable l : html_wf remove = true ->
    node_ok remove (tree_of (vis (html_build remove void l))) = true.
  Proof.
    intro W. unfold html_build.
    assert (I : vis_ok (vis (run remove void (h_start void) h_end h_data h_init l))).
    { apply (inv_run hvis remove void (h_start void) h_end h_data vis_ok vis_ok_start vis_ok_end vis_ok_data).
      unfold vis_ok, h_init, root_frame, frame_ok. cbn [vis top below lc f_tag f_kids forallb opt_ok kids_ok].
      unfold html_wf in W. rewrite W. auto. }
    destruct I as [H1 [H2 H3]]. unfold tree_of. apply close_all_ok; [|exact H2]. apply flush_ok; assumption.
  Qed.
End NoRemovableNode.

(* ------------------------------------------------------------------ no depth cap *)
Lemma html_open_all remove void (tags : list str) : forall st : sk hvis,
  depth st = 0 -> forallb (fun t => negb (mem_str t remove) && negb (mem_str t void)) tags = true ->
  let st' := run remove void (h_start void) h_end h_data st (map (fun t => Start t []) tags) in
  depth st' = 0 /\ List.length (below (vis st')) = List.length (below (vis st)) + List.length tags.
Proof.
  induction tags as [|t tags IH]; intros st Hd H.
  - cbn. split; [exact Hd | lia].
  - cbn [forallb] in H. apply andb_true_iff in H as [Ht H]. apply andb_true_iff in Ht as [Hr Hv].
    apply negb_true_iff in Hr, Hv.
    cbn [map]. rewrite run_cons.
    destruct st as [v d tg]. cbn [depth] in Hd. subst d. cbn [step depth vis stag]. rewrite Hr.
    specialize (IH (mkSk (h_start void v t []) 0 tg) eq_refl H). cbn zeta in IH |- *.
    destruct IH as [I1 I2]. split; [exact I1|]. rewrite I2. unfold h_start. rewrite Hv. cbn [vis below List.length]. lia.
Qed.

Lemma html_no_depth_cap remove void (tags : list str) :
  forallb (fun t => negb (mem_str t remove) && negb (mem_str t void)) tags = true ->
  List.length (below (vis (html_build remove void (map (fun t => Start t []) tags)))) = List.length tags
  /\ skipping (html_build remove void (map (fun t => Start t []) tags)) = false.
Proof.
  intro H. unfold html_build.
  destruct (html_open_all remove void tags h_init eq_refl H) as [H1 H2]. cbn zeta in H1, H2.
  split; [rewrite H2; reflexivity | unfold skipping; rewrite H1; reflexivity].
Qed.
