(* C17 — obligations re-decided by the kernel for the tables generated from the repo on this run. *)
From Coq Require Import List Bool.
From S2T Require Import Lib.PyStr C17.Model C17.Corr Gen.C17Tables.
Import ListNotations.

(* premise of C17_html_void_selfclosed *)
Theorem C17_html_tables_wf : html_wf html_remove = true.
Proof. vm_compute. reflexivity. Qed.
Print Assumptions C17_html_tables_wf.

(* premise of C17_epub_void_selfclosed *)
Theorem C17_epub_tables_wf : epub_wf epub_remove epub_block = true.
Proof. vm_compute. reflexivity. Qed.
Print Assumptions C17_epub_tables_wf.

(* the elements the property names are removable in both extractors *)
Theorem C17_statement_tags_removed :
  forallb (fun t => mem_str t html_remove && mem_str t epub_remove) statement_removed = true.
Proof. vm_compute. reflexivity. Qed.
Print Assumptions C17_statement_tags_removed.

(* which theorem applies to which removable tag: a removable tag is treated as void exactly when it
   is a void element of the HTML standard (so <embed> falls under C17_*_void_removable and every
   other removable tag under C17_*_noninterference) *)
Theorem C17_html_void_matches_standard :
  forallb (fun r => Bool.eqb (mem_str r html_void) (mem_str r std_void)) html_remove = true.
Proof. vm_compute. reflexivity. Qed.
Print Assumptions C17_html_void_matches_standard.

Theorem C17_epub_void_matches_standard :
  forallb (fun r => Bool.eqb (mem_str r epub_void) (mem_str r std_void)) epub_remove = true.
Proof. vm_compute. reflexivity. Qed.
Print Assumptions C17_epub_void_matches_standard.

(* the hypotheses of the non-interference theorems are satisfiable with today's tables:
   <p>x</p> <noscript> <img> </b> y <noscript></noscript> <!--c--> <script> <p> </noscript> *)
Theorem C17_hypotheses_satisfiable :
  let r := s "noscript" in
  let pre := [Start (s "p") []; Data (s "x"); End (s "p")] in
  let inner := [Start (s "img") []; End (s "b"); Data (s "y"); Start r []; End r; Comment (s "c");
                Start (s "script") []; Start (s "p") []] in
  mem_str r html_remove = true /\ mem_str r html_void = false /\
  mem_str r epub_remove = true /\ mem_str r epub_void = false /\
  closes r 0 inner = true /\
  skipping (html_build html_remove html_void pre) = false /\
  skipping (epub_build epub_remove epub_void epub_block (py_normcell ws_table) pre) = false /\
  existsb (fun x => mem_str x html_void) html_remove = true /\
  existsb (fun x => mem_str x epub_void) epub_remove = true.
Proof. vm_compute. repeat split; reflexivity. Qed.
Print Assumptions C17_hypotheses_satisfiable.

(* the three removable-element sets coincide: html_extractor.REMOVE_TAGS (HTML, MHTML, MSG body),
   epub_extractor.REMOVE_TAGS, and the elements the property statement names - no more, no less *)
Definition subset_str (a b : list str) : bool := forallb (fun x => mem_str x b) a.
Theorem C17_remove_sets_agree :
  subset_str html_remove epub_remove && subset_str epub_remove html_remove &&
  subset_str html_remove statement_removed && subset_str statement_removed html_remove = true.
Proof. vm_compute. reflexivity. Qed.
Print Assumptions C17_remove_sets_agree.
