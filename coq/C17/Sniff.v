(* C17 — the encoding decision in front of the HTML parser: read_html's BOM test and its byte regexes.
   Second half of the file: the code as repaired by fix commit c5a78d4 (skip regex over the window, ASCII-compatibility
   probe, UTF-7 never honoured).  [search] / [choose_prefix] are the decision BEFORE that fix, kept for the refutation.
   First regex:
     _RE_CHARSET_ATTR_BYTES = <meta[^>]+charset=[QUOTES]?([^QUOTES\s>]+)   (bytes, re.IGNORECASE; QUOTES = both quote characters)
   applied to content[:8192].  The regex is modelled by hand (leftmost match, greedy [^>]+ with
   backtracking) and tied to `re` by a differential run; codecs (bytes.decode) stay an oracle. *)
From Coq Require Import List Bool NArith Lia.
From S2T Require Import Lib.PyStr.
Import ListNotations.
Open Scope N_scope.

Definition lc_byte (c : N) : N := if (65 <=? c) && (c <=? 90) then c + 32 else c.

(* x starts with the (lower-case) pattern p, ASCII case-insensitively *)
Fixpoint starts_ci (p x : list N) : bool :=
  match p, x with
  | [], _ => true
  | a :: p', b :: x' => (a =? lc_byte b) && starts_ci p' x'
  | _ :: _, [] => false
  end.

(* exact prefix test (bytes.startswith) *)
Fixpoint starts (p x : list N) : bool :=
  match p, x with
  | [], _ => true
  | a :: p', b :: x' => (a =? b) && starts p' x'
  | _ :: _, [] => false
  end.

Definition META : list N := s "<meta".
Definition CHARSET : list N := s "charset=".

Definition is_sp (c : N) : bool := (c =? 32) || ((9 <=? c) && (c <=? 13)).          (* bytes \s *)
Definition vstop (c : N) : bool := is_sp c || (c =? 34) || (c =? 39) || (c =? 62). (* complement of the value class *)

(* optional quote, then the value group, at x *)
Definition value_at (x : list N) : option (list N) :=
  let y := match x with q :: r => if (q =? 34) || (q =? 39) then r else x | [] => x end in
  match takeWhile (fun c => negb (vstop c)) y with
  | [] => None
  | v => Some v
  end.

(* [^>]+charset=...  at the text after the meta prefix: the LAST position k >= 1 (greedy, backtracking) with no
   closing angle bracket before it at which charset= and a non-empty value follow *)
Fixpoint scan (first : bool) (x : list N) (best : option (list N)) : option (list N) :=
  let here := if first then None else if starts_ci CHARSET x then value_at (skipn 8 x) else None in
  let best' := match here with Some v => Some v | None => best end in
  match x with
  | [] => best'
  | c :: r => if c =? 62 then best' else scan false r best'
  end.

(* regex.search: leftmost meta prefix at which the rest matches *)
Fixpoint search (x : list N) : option (list N) :=
  match x with
  | [] => None
  | _ :: r =>
      match (if starts_ci META x then scan true (skipn 5 x) None else None) with
      | Some v => Some v
      | None => search r
      end
  end.

Definition WINDOW : nat := N.to_nat 8192.

(* (encoding name handed to bytes.decode, bytes handed to it) *)
Definition choose_prefix (content : list N) : list N * list N :=
  if starts [239; 187; 191] content then (s "utf-8", skipn 3 content)
  else if starts [255; 254] content then (s "utf-16-le", content)
  else if starts [254; 255] content then (s "utf-16-be", content)
  else match search (firstn WINDOW content) with
       | Some v => (filter (fun c => c <? 128) v, content)       (* .decode(ascii, errors=ignore) *)
       | None => (s "utf-8", content)
       end.

Fixpoint has_meta (x : list N) : bool :=
  match x with
  | [] => false
  | _ :: r => starts_ci META x || has_meta r
  end.


(* ------------------------------------------------------------------ repaired code (c5a78d4) *)
(* _RE_SNIFF_SKIP_BYTES.sub(empty, window):
     <!--.*?(?:-->|\Z)  |  <(script|style|noscript|iframe|object|applet)\b.*?(?:</\1\s*>|\Z)     IGNORECASE | DOTALL
   as a one-pass scanner: [skip] bytes of an already matched delimiter are still to be dropped, then [smode] applies. *)
Inductive smode := Keep | InComment | InElem (n : list N).

Definition CMT : list N := s "<!--".
Definition CLOSE : list N := s "-->".
Definition NAMES : list (list N) := [s "script"; s "style"; s "noscript"; s "iframe"; s "object"; s "applet"].

Definition is_word (c : N) : bool :=
  ((48 <=? c) && (c <=? 57)) || ((65 <=? c) && (c <=? 90)) || ((97 <=? c) && (c <=? 122)) || (c =? 95).

(* \b after k bytes of x (the k-th byte is a word character): end of input or a non-word byte *)
Definition boundary_after (k : nat) (x : list N) : bool :=
  match skipn k x with [] => true | c :: _ => negb (is_word c) end.

Definition opens (n x : list N) : bool := starts_ci (60 :: n) x && boundary_after (S (List.length n)) x.
Definition open_name (x : list N) : option (list N) := find (fun n => opens n x) NAMES.

(* \s*> : total length of the end tag when it matches *)
Fixpoint after_ws (x : list N) (k : nat) : option nat :=
  match x with
  | [] => None
  | c :: r => if is_sp c then after_ws r (S k) else if c =? 62 then Some (S k) else None
  end.

Definition end_tag (n x : list N) : option nat :=
  if starts_ci (60 :: 47 :: n) x then after_ws (skipn (2 + List.length n) x) (2 + List.length n) else None.

Fixpoint strip_st (skip : nat) (m : smode) (x : list N) : list N :=
  match x with
  | [] => []
  | c :: r =>
      match skip with
      | S k => strip_st k m r
      | O =>
          match m with
          | Keep =>
              if starts CMT x then strip_st 3 InComment r
              else match open_name x with
                   | Some n => strip_st (List.length n) (InElem n) r
                   | None => c :: strip_st 0 Keep r
                   end
          | InComment => if starts CLOSE x then strip_st 2 Keep r else strip_st 0 InComment r
          | InElem n =>
              match end_tag n x with
              | Some L => strip_st (pred L) Keep r
              | None => strip_st 0 (InElem n) r
              end
          end
      end
  end.

Definition strip (x : list N) : list N := strip_st 0 Keep x.

(* the first regex again, now also returning group(0) (the matched text) *)
Definition value_at2 (x : list N) : option (list N * list N) :=      (* (optional quote, value) *)
  let '(q, y) := match x with c :: r => if (c =? 34) || (c =? 39) then ([c], r) else ([], x) | [] => ([], x) end in
  match takeWhile (fun c => negb (vstop c)) y with
  | [] => None
  | v => Some (q, v)
  end.

Fixpoint scan2 (first : bool) (pre_rev x : list N) (best : option (list N * list N)) : option (list N * list N) :=
  let here :=
    if first then None
    else if starts_ci CHARSET x then
      match value_at2 (skipn 8 x) with
      | Some (q, v) => Some (rev pre_rev ++ firstn 8 x ++ q ++ v, v)
      | None => None
      end
    else None in
  let best' := match here with Some r => Some r | None => best end in
  match x with
  | [] => best'
  | c :: r => if c =? 62 then best' else scan2 false (c :: pre_rev) r best'
  end.

Fixpoint search2 (x : list N) : option (list N * list N) :=           (* (group 0, group 1) *)
  match x with
  | [] => None
  | _ :: r =>
      match (if starts_ci META x then scan2 true (rev (firstn 5 x)) (skipn 5 x) None else None) with
      | Some g => Some g
      | None => search2 r
      end
  end.

(* declared.lower().replace(underscore, hyphen) in (utf-7, utf7) *)
Definition is_utf7 (d : list N) : bool :=
  let d' := map (fun c => if c =? 95 then 45 else lc_byte c) d in
  str_eqb d' (s "utf-7") || str_eqb d' (s "utf7").

Section Choose.
  (* codec oracle: group(0).decode(declared) succeeds and equals group(0).decode(ascii) (both without raising
     UnicodeDecodeError / LookupError) *)
  Variable compat : list N -> list N -> bool.

  Definition choose (content : list N) : list N * list N :=
    if starts [239; 187; 191] content then (s "utf-8", skipn 3 content)
    else if starts [255; 254] content then (s "utf-16-le", content)
    else if starts [254; 255] content then (s "utf-16-be", content)
    else match search2 (strip (firstn WINDOW content)) with
         | Some (g0, g1) =>
             let declared := filter (fun c => c <? 128) g1 in
             if compat declared g0 && negb (is_utf7 declared) then (declared, content) else (s "utf-8", content)
         | None => (s "utf-8", content)
         end.
End Choose.

(* hypotheses of the inertness theorems *)
Fixpoint ends62 (a : list N) : bool :=                                (* non-empty, last byte is the closing angle bracket *)
  match a with [] => false | [c] => c =? 62 | _ :: r => ends62 r end.

Definition is_none {A} (o : option A) : bool := match o with None => true | Some _ => false end.

(* no comment opener and no opener of a removed element anywhere in a *)
Fixpoint plain (a : list N) : bool :=
  match a with
  | [] => true
  | _ :: r => negb (starts CMT a) && is_none (open_name a) && plain r
  end.

(* the first terminator in c ++ CLOSE is the final one *)
Fixpoint no_close (c : list N) : bool :=
  match c with
  | [] => true
  | _ :: r => negb (starts CLOSE (c ++ CLOSE)) && no_close r
  end.

(* no terminator at all (the comment runs to the end of the window) *)
Fixpoint never_closed (c : list N) : bool :=
  match c with
  | [] => true
  | _ :: r => negb (starts CLOSE c) && never_closed r
  end.

(* no end-tag opener inside the body of a removed element *)
Fixpoint no_lt_slash (b : list N) : bool :=
  match b with
  | [] => true
  | _ :: r => negb (starts [60; 47] b) && no_lt_slash r
  end.

Definition body_start_ok (b : list N) : bool := match b with [] => true | c :: _ => negb (is_word c) end.

(* correspondence: (content, skip-regex output on the window, regex groups on it, recorded codec oracle, decode encoding) *)
Definition opt_pair_eqb (a b : option (list N * list N)) : bool :=
  match a, b with
  | Some (x, y), Some (u, v) => str_eqb x u && str_eqb y v
  | None, None => true
  | _, _ => false
  end.

Definition sniff_case (c : list N * list N * option (list N * list N) * bool * list N) : bool :=
  let '(content, head, groups, compat_v, enc) := c in
  str_eqb (strip (firstn WINDOW content)) head &&
  opt_pair_eqb (search2 head) groups &&
  str_eqb (fst (choose (fun _ _ => compat_v) content)) enc.

(* no end tag of n begins inside the body (the byte after the body is the opening angle bracket of the real end tag) *)
Fixpoint no_end (n b : list N) : bool :=
  match b with
  | [] => true
  | _ :: r => is_none (end_tag n (b ++ [60])) && no_end n r
  end.

(* no end tag of n at all (the element runs to the end of the window) *)
Fixpoint never_ended (n b : list N) : bool :=
  match b with
  | [] => true
  | _ :: r => is_none (end_tag n b) && never_ended n r
  end.
