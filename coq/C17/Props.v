(* C17 — property theorems.  Event level: the html.parser tokenizer is an oracle that produced the
   event list.  All theorems hold for EVERY tag table (remove = REMOVE_TAGS, void = _VOID_TAGS /
   _VOID_REMOVE_TAGS, block = BLOCK_TAGS), every attribute list and every string; where a table
   condition is needed it is a decidable premise re-decided for today's tables in C17/Inst.v.
   "canon" forgets _skip_tag while skip_depth = 0, where the code never reads it. *)
From Coq Require Import List Bool.
From S2T Require Import Lib.PyStr C17.Model C17.Proofs.
Import ListNotations.

(* ---- HTML tree builder (_HtmlTreeBuilder; also behind read_mhtml and the MSG HTML body) ---- *)

(* A removable non-void element <r ...> inner </r> at a visible position, whatever inner contains
   (void tags, unclosed tags, stray end tags, other removable elements, comments) as long as the
   first unmatched </r> is the closing one, leaves the builder in the state it would have without
   the element: same stack, same tree, same last_closed, not skipping. *)
Theorem C17_html_noninterference :
  forall (remove void : list str) (pre : list event) (r : str) (a : attrs_raw) (inner post : list event),
    mem_str r remove = true -> mem_str r void = false -> closes r 0 inner = true ->
    skipping (html_build remove void pre) = false ->
    canon (html_build remove void (pre ++ Start r a :: inner ++ End r :: post))
    = canon (html_build remove void (pre ++ post)).
Proof. intros remove void. exact (build_noninterference hvis remove void (h_start void) h_end h_data h_init). Qed.
Print Assumptions C17_html_noninterference.

(* hence every output computed from the tree (text, tables, headings, links, metadata) is identical:
   nothing of inner appears and nothing else is lost *)
Theorem C17_html_outputs_equal :
  forall (remove void : list str) (pre : list event) (r : str) (a : attrs_raw) (inner post : list event)
         (X : Type) (extract : node -> X),
    mem_str r remove = true -> mem_str r void = false -> closes r 0 inner = true ->
    skipping (html_build remove void pre) = false ->
    extract (tree_of (vis (html_build remove void (pre ++ Start r a :: inner ++ End r :: post))))
    = extract (tree_of (vis (html_build remove void (pre ++ post)))).
Proof.
  intros remove void pre r a inner post X extract Hr Hv Hc Hs. unfold html_build in *.
  rewrite (build_vis_noninterference hvis remove void (h_start void) h_end h_data h_init pre r a inner post Hr Hv Hc Hs).
  reflexivity.
Qed.
Print Assumptions C17_html_outputs_equal.

(* the removed content is irrelevant: two documents that differ only inside a removed element *)
Theorem C17_html_content_irrelevant :
  forall (remove void : list str) (pre : list event) (r : str) (a a' : attrs_raw) (inner inner' post : list event),
    mem_str r remove = true -> mem_str r void = false ->
    closes r 0 inner = true -> closes r 0 inner' = true ->
    skipping (html_build remove void pre) = false ->
    canon (html_build remove void (pre ++ Start r a :: inner ++ End r :: post))
    = canon (html_build remove void (pre ++ Start r a' :: inner' ++ End r :: post)).
Proof. intros remove void. exact (build_content_irrelevant hvis remove void (h_start void) h_end h_data h_init). Qed.
Print Assumptions C17_html_content_irrelevant.

(* inside an element that is already being removed (<t>), any segment whose </t> are all matched
   - in particular a whole nested removable element of another name - changes nothing at all *)
Theorem C17_html_nested_inert :
  forall (remove void : list str) (pre : list event) (t : str) (d : nat) (seg post : list event),
    depth (html_build remove void pre) = S d -> stag (html_build remove void pre) = Some t ->
    closes t 0 seg = true ->
    html_build remove void (pre ++ seg ++ post) = html_build remove void (pre ++ post).
Proof. intros remove void. exact (build_nested_inert hvis remove void (h_start void) h_end h_data h_init). Qed.
Print Assumptions C17_html_nested_inert.

(* a void removable element (<embed src=x>) is dropped and nothing else changes, at any position *)
Theorem C17_html_void_removable :
  forall (remove void : list str) (pre : list event) (r : str) (a : attrs_raw) (post : list event),
    mem_str r remove = true -> mem_str r void = true ->
    html_build remove void (pre ++ Start r a :: post) = html_build remove void (pre ++ post).
Proof. intros remove void. exact (build_void_inert hvis remove void (h_start void) h_end h_data h_init eq_refl). Qed.
Print Assumptions C17_html_void_removable.

(* ... also in its self-closed form <embed/> (Start;End) *)
Theorem C17_html_void_selfclosed :
  forall (remove void : list str) (pre : list event) (r : str) (a : attrs_raw) (post : list event),
    html_wf remove = true -> mem_str r remove = true -> mem_str r void = true ->
    html_build remove void (pre ++ Start r a :: End r :: post) = html_build remove void (pre ++ post).
Proof. exact html_void_selfclosed. Qed.
Print Assumptions C17_html_void_selfclosed.

(* comments are inert at any position *)
Theorem C17_html_comment_inert :
  forall (remove void : list str) (pre : list event) (c : str) (post : list event),
    html_build remove void (pre ++ Comment c :: post) = html_build remove void (pre ++ post).
Proof. intros remove void. exact (build_comment_inert hvis remove void (h_start void) h_end h_data h_init). Qed.
Print Assumptions C17_html_comment_inert.

(* the tree keeps every visible character, in document order, and nothing else: the text of the
   built tree (_get_node_text(root): text, children, tails) is exactly the concatenation of the Data
   events that lie outside removed elements ... *)
Theorem C17_html_text_preserved :
  forall (remove void : list str) (l : list event),
    flat_node (tree_of (vis (html_build remove void l))) = visible_text remove void l.
Proof. exact html_text_preserved. Qed.
Print Assumptions C17_html_text_preserved.

(* ... and all Data of the document when it contains no removable start tag at all (so, together with
   non-interference: a document of visible markup interleaved with closed removable elements yields
   exactly the Data outside those elements) *)
Theorem C17_html_all_text_without_removable :
  forall (remove void : list str) (l : list event),
    no_removable remove l = true ->
    flat_node (tree_of (vis (html_build remove void l))) = all_data l.
Proof. exact html_all_text. Qed.
Print Assumptions C17_html_all_text_without_removable.

(* text that has been extracted is never retracted by what follows (more markup, a removed element
   left open, a truncated document): the tree text after l ++ l' extends the tree text after l *)
Theorem C17_html_text_monotone :
  forall (remove void : list str) (l l' : list event),
    exists rest, flat_node (tree_of (vis (html_build remove void (l ++ l'))))
                 = flat_node (tree_of (vis (html_build remove void l))) ++ rest.
Proof. exact html_text_monotone. Qed.
Print Assumptions C17_html_text_monotone.

(* the tree the builder hands to the renderer never contains a removable element, so the renderer's own
   `if tag in REMOVE_TAGS: return ""` branch (_process_node) is dead: removal happens in the builder only *)
Theorem C17_html_tree_has_no_removable_node :
  forall (remove void : list str) (l : list event),
    html_wf remove = true -> node_ok remove (tree_of (vis (html_build remove void l))) = true.
Proof. exact html_tree_no_removable. Qed.
Print Assumptions C17_html_tree_has_no_removable_node.

(* no cap on nesting: after any number of start tags of ordinary (non-void, non-removable) elements every one of them
   is open on the stack and the builder is at a visible position - so C17_html_noninterference applies to a removable
   element at ANY depth (a depth threshold in the code breaks the event-level correspondence at that depth) *)
Theorem C17_html_no_depth_cap :
  forall (remove void : list str) (tags : list str),
    forallb (fun t => negb (mem_str t remove) && negb (mem_str t void)) tags = true ->
    List.length (below (vis (html_build remove void (map (fun t => Start t []) tags)))) = List.length tags
    /\ skipping (html_build remove void (map (fun t => Start t []) tags)) = false.
Proof. exact html_no_depth_cap. Qed.
Print Assumptions C17_html_no_depth_cap.

(* ---- EPUB chapter machine (_XhtmlTextExtractor); normcell = whitespace normalisation oracle ---- *)

Theorem C17_epub_noninterference :
  forall (remove void block : list str) (normcell : list str -> str)
         (pre : list event) (r : str) (a : attrs_raw) (inner post : list event),
    mem_str r remove = true -> mem_str r void = false -> closes r 0 inner = true ->
    skipping (epub_build remove void block normcell pre) = false ->
    canon (epub_build remove void block normcell (pre ++ Start r a :: inner ++ End r :: post))
    = canon (epub_build remove void block normcell (pre ++ post)).
Proof.
  intros remove void block normcell.
  exact (build_noninterference evis remove void (e_start block) (e_end block normcell) e_data e_init).
Qed.
Print Assumptions C17_epub_noninterference.

(* text_parts, tables, title, ... : every output of the chapter is identical *)
Theorem C17_epub_outputs_equal :
  forall (remove void block : list str) (normcell : list str -> str)
         (pre : list event) (r : str) (a : attrs_raw) (inner post : list event)
         (X : Type) (extract : evis -> X),
    mem_str r remove = true -> mem_str r void = false -> closes r 0 inner = true ->
    skipping (epub_build remove void block normcell pre) = false ->
    extract (vis (epub_build remove void block normcell (pre ++ Start r a :: inner ++ End r :: post)))
    = extract (vis (epub_build remove void block normcell (pre ++ post))).
Proof.
  intros remove void block normcell pre r a inner post X extract Hr Hv Hc Hs. unfold epub_build in *.
  rewrite (build_vis_noninterference evis remove void (e_start block) (e_end block normcell) e_data e_init
             pre r a inner post Hr Hv Hc Hs).
  reflexivity.
Qed.
Print Assumptions C17_epub_outputs_equal.

Theorem C17_epub_nested_inert :
  forall (remove void block : list str) (normcell : list str -> str)
         (pre : list event) (t : str) (d : nat) (seg post : list event),
    depth (epub_build remove void block normcell pre) = S d ->
    stag (epub_build remove void block normcell pre) = Some t ->
    closes t 0 seg = true ->
    epub_build remove void block normcell (pre ++ seg ++ post) = epub_build remove void block normcell (pre ++ post).
Proof.
  intros remove void block normcell.
  exact (build_nested_inert evis remove void (e_start block) (e_end block normcell) e_data e_init).
Qed.
Print Assumptions C17_epub_nested_inert.

Theorem C17_epub_void_removable :
  forall (remove void block : list str) (normcell : list str -> str)
         (pre : list event) (r : str) (a : attrs_raw) (post : list event),
    mem_str r remove = true -> mem_str r void = true ->
    epub_build remove void block normcell (pre ++ Start r a :: post) = epub_build remove void block normcell (pre ++ post).
Proof.
  intros remove void block normcell.
  exact (build_void_inert evis remove void (e_start block) (e_end block normcell) e_data e_init eq_refl).
Qed.
Print Assumptions C17_epub_void_removable.

Theorem C17_epub_void_selfclosed :
  forall (remove void block : list str) (normcell : list str -> str)
         (pre : list event) (r : str) (a : attrs_raw) (post : list event),
    epub_wf remove block = true -> mem_str r remove = true -> mem_str r void = true ->
    epub_build remove void block normcell (pre ++ Start r a :: End r :: post)
    = epub_build remove void block normcell (pre ++ post).
Proof. exact epub_void_selfclosed. Qed.
Print Assumptions C17_epub_void_selfclosed.

Theorem C17_epub_comment_inert :
  forall (remove void block : list str) (normcell : list str -> str) (pre : list event) (c : str) (post : list event),
    epub_build remove void block normcell (pre ++ Comment c :: post) = epub_build remove void block normcell (pre ++ post).
Proof.
  intros remove void block normcell.
  exact (build_comment_inert evis remove void (e_start block) (e_end block normcell) e_data e_init).
Qed.
Print Assumptions C17_epub_comment_inert.

(* ---- why the code had to be repaired: the counter as it was (every start +1, every end -1) ---- *)
Theorem C17_unrepaired_counter_refuted :
  (* <p>before</p><noscript><img></noscript><p>after</p> loses "after" *)
  old_build (old_pre ++ Start (s "noscript") [] :: [Start (s "img") []] ++ End (s "noscript") :: old_post)
    <> old_build (old_pre ++ old_post)
  (* <p>before</p><noscript></b>LEAK</noscript><p>after</p> leaks "LEAK" *)
  /\ old_build (old_pre ++ Start (s "noscript") [] :: [End (s "b"); Data (s "LEAK")] ++ End (s "noscript") :: old_post)
    <> old_build (old_pre ++ old_post).
Proof. exact (conj old_counter_loses_text old_counter_leaks_text). Qed.
Print Assumptions C17_unrepaired_counter_refuted.
