(* C17 — property theorems about the encoding decision in front of the HTML parser (read_html, hence read_mhtml),
   for the code as repaired by fix commit c5a78d4.  [compat] is the codec oracle (universally quantified). *)
From Coq Require Import List Bool NArith.
From S2T Require Import Lib.PyStr C17.Sniff C17.SniffProofs.
Import ListNotations.
Open Scope N_scope.

(* A comment <!-- c --> (first terminator of c-then-terminator is the final one) that follows text without comment or
   removed-element openers and ending in a closing angle bracket, everything inside the 8192-byte window:
   the decision is the one for the document without the comment - whatever the comment contains. *)
Theorem C17_sniff_comment_inert :
  forall (compat : list N -> list N -> bool) (pre c post : list N),
    plain pre = true -> ends62 pre = true -> no_close c = true ->
    Nat.le (List.length (pre ++ CMT ++ c ++ CLOSE ++ post)) WINDOW -> Nat.le (List.length (pre ++ post)) WINDOW ->
    fst (choose compat (pre ++ CMT ++ c ++ CLOSE ++ post)) = fst (choose compat (pre ++ post)).
Proof.
  intros compat pre c post Hp He Hc L1 L2.
  exact (segment_inert compat pre _ _ He (strip_comment_inert pre c post Hp He Hc) L1 L2).
Qed.
Print Assumptions C17_sniff_comment_inert.

(* a comment that is still open at the end of the window decides nothing either *)
Theorem C17_sniff_unterminated_comment_inert :
  forall (compat : list N -> list N -> bool) (pre c : list N),
    plain pre = true -> ends62 pre = true -> never_closed c = true ->
    Nat.le (List.length (pre ++ CMT ++ c)) WINDOW -> Nat.le (List.length (pre ++ [])) WINDOW ->
    fst (choose compat (pre ++ CMT ++ c)) = fst (choose compat (pre ++ [])).
Proof.
  intros compat pre c Hp He Hc L1 L2.
  apply (segment_inert compat pre _ _ He); [|exact L1|exact L2].
  rewrite app_nil_r. exact (strip_open_comment_inert pre c Hp He Hc).
Qed.
Print Assumptions C17_sniff_unterminated_comment_inert.

(* The six removed elements, full strength:  <NAME ...> body </NAME ws>  with the element name in ANY letter case at
   both ends (nm, nm2 lower-case to one of the six names), body beginning with a non-word byte or empty, ws white space,
   and no end tag of that element beginning inside body (no_end: the first same-name end tag is the closing one; other
   end tags, angle brackets, comment openers, meta declarations ... are all allowed in body). *)
Theorem C17_sniff_removed_element_inert :
  forall (compat : list N -> list N -> bool) (pre n nm nm2 body ws post : list N),
    plain pre = true -> ends62 pre = true ->
    In n NAMES -> map lc_byte nm = n -> map lc_byte nm2 = n ->
    body_start_ok body = true -> no_end n body = true -> forallb is_sp ws = true ->
    Nat.le (List.length (pre ++ (60 :: nm) ++ body ++ (60 :: 47 :: nm2) ++ ws ++ 62 :: post)) WINDOW ->
    Nat.le (List.length (pre ++ post)) WINDOW ->
    fst (choose compat (pre ++ (60 :: nm) ++ body ++ (60 :: 47 :: nm2) ++ ws ++ 62 :: post)) = fst (choose compat (pre ++ post)).
Proof.
  intros compat pre n nm nm2 body ws post Hp He Hn Hm Hm2 Hb Hs Hw L1 L2.
  exact (segment_inert compat pre _ _ He (strip_element_inert_full pre n nm nm2 body ws post Hp He Hn Hm Hm2 Hb Hs Hw) L1 L2).
Qed.
Print Assumptions C17_sniff_removed_element_inert.

(* a removed element that is still open at the end of the window (no end tag of it anywhere in body) decides nothing *)
Theorem C17_sniff_unterminated_element_inert :
  forall (compat : list N -> list N -> bool) (pre n nm body : list N),
    plain pre = true -> ends62 pre = true ->
    In n NAMES -> map lc_byte nm = n -> body_start_ok body = true -> never_ended n body = true ->
    Nat.le (List.length (pre ++ (60 :: nm) ++ body)) WINDOW -> Nat.le (List.length (pre ++ [])) WINDOW ->
    fst (choose compat (pre ++ (60 :: nm) ++ body)) = fst (choose compat (pre ++ [])).
Proof.
  intros compat pre n nm body Hp He Hn Hm Hb Hs L1 L2.
  apply (segment_inert compat pre _ _ He); [|exact L1|exact L2].
  rewrite app_nil_r. exact (strip_open_element_inert pre n nm body Hp He Hn Hm Hb Hs).
Qed.
Print Assumptions C17_sniff_unterminated_element_inert.

(* the hypotheses are satisfiable, and the theorems apply to the inputs that refuted the pre-fix code *)
Example C17_sniff_hypotheses_nonvacuous :
  let pre := s "<html><head><title>t</title>" in
  let c := s " <meta charset=""utf-16""> -- > - " in
  let body := s ">var h='<meta charset=cp037>'; if (a<b) {} document.write('</b></scr'+'ipt x></p>'); <!-- </ script" in
  plain pre = true /\ ends62 pre = true /\ no_close c = true /\ never_closed c = true /\
  In (s "script") NAMES /\ map lc_byte (s "ScRiPt") = s "script" /\ map lc_byte (s "SCRIPT") = s "script" /\
  body_start_ok body = true /\ no_end (s "script") body = true /\ never_ended (s "script") body = true /\
  forallb is_sp [32; 10] = true.
Proof. vm_compute. repeat split; try reflexivity. left. reflexivity. Qed.
Print Assumptions C17_sniff_hypotheses_nonvacuous.

(* UTF-7 is never chosen, whatever the document declares and whatever the codecs say *)
Theorem C17_sniff_utf7_never :
  forall (compat : list N -> list N -> bool) (content : list N), is_utf7 (fst (choose compat content)) = false.
Proof. exact utf7_never. Qed.
Print Assumptions C17_sniff_utf7_never.

(* a UTF-8 byte order mark decides, whatever is declared anywhere in the document *)
Theorem C17_sniff_bom_decides :
  forall (compat : list N -> list N -> bool) (rest : list N), choose compat (239 :: 187 :: 191 :: rest) = (s "utf-8", rest).
Proof. exact bom_decides. Qed.
Print Assumptions C17_sniff_bom_decides.

(* nothing beyond the 8192-byte window takes part in the decision *)
Theorem C17_sniff_beyond_window_inert :
  forall (compat : list N -> list N -> bool) (a b b' : list N),
    (WINDOW <= List.length a)%nat -> fst (choose compat (a ++ b)) = fst (choose compat (a ++ b')).
Proof. exact beyond_window_inert. Qed.
Print Assumptions C17_sniff_beyond_window_inert.

(* the decision BEFORE fix commit c5a78d4 ([choose_prefix]): removed markup did decide the encoding *)
Theorem C17_sniff_prefix_removed_markup_inert_refuted :
  (exists (c post : list N),
      fst (choose_prefix (s "<!--" ++ c ++ s "-->" ++ post)) <> fst (choose_prefix post))
  /\ (exists (script post : list N),
      fst (choose_prefix (s "<script>" ++ script ++ s "</script>" ++ post)) <> fst (choose_prefix post)).
Proof.
  split.
  - exists wit_comment, wit_post. exact prefix_comment_decides.
  - exists (s "var h='<meta charset=cp037>';"), wit_post. exact prefix_script_text_decides.
Qed.
Print Assumptions C17_sniff_prefix_removed_markup_inert_refuted.
