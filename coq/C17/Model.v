(* C17 — executable model (definitions only) of the removed-markup logic of
     sharepoint2text/parsing/extractors/html_extractor.py  (_HtmlTreeBuilder)
     sharepoint2text/parsing/extractors/epub_extractor.py  (_XhtmlTextExtractor)
   at html.parser *event* level.  The stdlib tokenizer is an oracle: it turns the document into
   the event list (handle_startendtag = Start;End, tags already lower-cased).

   Both classes contain the same skip logic (skip_depth / _skip_tag) in front of their own
   "visible" handlers.  The model has that shape: a generic skip machine over a visible state V
   with visible handlers vstart/vend/vdata, instantiated twice (HTML tree builder, EPUB text
   machine).  Modelled is the code after fixes/C17-skip-by-name.patch; the logic before the patch
   is kept as [step_old] for the refutation that documents the defect. *)
From Coq Require Import List Bool Arith Lia.
From S2T Require Import Lib.PyStr.
Import ListNotations.

Definition attrs_raw := list (str * option str).   (* as delivered by HTMLParser *)

Inductive event :=
| Start (tag : str) (attrs : attrs_raw)
| End (tag : str)
| Data (d : str)
| Comment (c : str).

Definition opt_str_eqb (o : option str) (t : str) : bool :=
  match o with Some x => str_eqb t x | None => false end.

(* ------------------------------------------------------------------ generic skip machine *)
Section Skip.
  Variable V : Type.
  Variable remove void : list str.            (* REMOVE_TAGS, void tags (G: dumped from the modules) *)
  Variable vstart : V -> str -> attrs_raw -> V.
  Variable vend : V -> str -> V.
  Variable vdata : V -> str -> V.

  Record sk := mkSk { vis : V; depth : nat; stag : option str }.   (* skip_depth, _skip_tag *)

  Definition step (st : sk) (e : event) : sk :=
    match e with
    | Start tag attrs =>
        match depth st with
        | S d =>                                          (* if self.skip_depth > 0: *)
            if opt_str_eqb (stag st) tag                  (*   if tag == self._skip_tag: *)
            then mkSk (vis st) (S (S d)) (stag st)        (*     self.skip_depth += 1 *)
            else st                                       (*   return *)
        | O =>
            if mem_str tag remove then                    (* if tag in REMOVE_TAGS: *)
              if mem_str tag void then st                 (*   if tag not in _VOID_TAGS: *)
              else mkSk (vis st) 1 (Some tag)             (*     _skip_tag = tag; skip_depth = 1 *)
            else mkSk (vstart (vis st) tag attrs) O (stag st)
        end
    | End tag =>
        match depth st with
        | S d =>
            if opt_str_eqb (stag st) tag
            then mkSk (vis st) d (stag st)                (* self.skip_depth -= 1 *)
            else st
        | O => mkSk (vend (vis st) tag) O (stag st)
        end
    | Data d =>
        match depth st with
        | S _ => st
        | O => mkSk (vdata (vis st) d) O (stag st)
        end
    | Comment _ => st                                     (* handle_comment: pass / not overridden *)
    end.

  Definition run (st : sk) (l : list event) : sk := fold_left step l st.

  (* the skip logic BEFORE the patch: every start tag increments, every end tag decrements *)
  Definition step_old (st : sk) (e : event) : sk :=
    match e with
    | Start tag attrs =>
        match depth st with
        | S d => mkSk (vis st) (S (S d)) (stag st)
        | O => if mem_str tag remove then mkSk (vis st) 1 (stag st)
               else mkSk (vstart (vis st) tag attrs) O (stag st)
        end
    | End tag =>
        match depth st with
        | S d => mkSk (vis st) d (stag st)
        | O => mkSk (vend (vis st) tag) O (stag st)
        end
    | Data d =>
        match depth st with
        | S _ => st
        | O => mkSk (vdata (vis st) d) O (stag st)
        end
    | Comment _ => st
    end.
  Definition run_old (st : sk) (l : list event) : sk := fold_left step_old l st.

  (* _skip_tag is dead data while skip_depth = 0 (it is overwritten before it is read again);
     [canon] forgets it there.  Equality of canonical states is what "the same state" means. *)
  Definition canon (st : sk) : sk :=
    match depth st with O => mkSk (vis st) O None | S _ => st end.

  Definition skipping (st : sk) : bool := match depth st with O => false | S _ => true end.
End Skip.

Arguments mkSk {V}. Arguments vis {V}. Arguments depth {V}. Arguments stag {V}.
Arguments step {V}. Arguments run {V}. Arguments canon {V}. Arguments skipping {V}.
Arguments step_old {V}. Arguments run_old {V}.

(* "the first unmatched </t> after <t> ... is the closing one":  inside [inner] every </t> is
   matched by an earlier <t> of inner (k = number of <t> of inner still open) and none stays open *)
Fixpoint closes (t : str) (k : nat) (inner : list event) : bool :=
  match inner with
  | [] => Nat.eqb k 0
  | Start g _ :: l => closes t (if str_eqb g t then S k else k) l
  | End g :: l =>
      if str_eqb g t then match k with O => false | S k' => closes t k' l end
      else closes t k l
  | _ :: l => closes t k l
  end.

(* ------------------------------------------------------------------ HTML tree builder *)
Inductive node := Node (tag : str) (attrs : list (str * str)) (text : str) (children : list node) (tail : str).

(* an element still on self.stack: its children list is still growing *)
Record frame := mkFrame { f_tag : str; f_attrs : list (str * str); f_text : str; f_kids : list node }.

(* {k: v for k, v in attrs if v is not None}: first position of a key, last value *)
Fixpoint dict_set (k v : str) (d : list (str * str)) : list (str * str) :=
  match d with
  | [] => [(k, v)]
  | (k', v') :: d' => if str_eqb k k' then (k', v) :: d' else (k', v') :: dict_set k v d'
  end.

Definition attrs_dict (a : attrs_raw) : list (str * str) :=
  fold_left (fun d kv => match snd kv with Some v => dict_set (fst kv) v d | None => d end) a [].

(* visible state: self.stack (top first; the root frame is the last one and never popped) and
   self.last_closed.  last_closed is always None or the last child of stack[-1] (checked on the
   implementation by the correspondence); the model keeps that child apart in [lc] until the next
   child arrives, so that "append to last_closed's tail" needs no partial look-up. *)
Record hvis := mkH { top : frame; below : list frame; lc : option node }.

Definition flush (o : option node) (f : frame) : frame :=
  match o with
  | Some n => mkFrame (f_tag f) (f_attrs f) (f_text f) (f_kids f ++ [n])
  | None => f
  end.

Definition node_of_frame (f : frame) : node := Node (f_tag f) (f_attrs f) (f_text f) (f_kids f) [].

Section Html.
  Variable void : list str.                       (* _VOID_TAGS *)

  Definition h_start (v : hvis) (tag : str) (a : attrs_raw) : hvis :=
    let top' := flush (lc v) (top v) in           (* self.last_closed = None; children.append(node) *)
    if mem_str tag void
    then mkH top' (below v) (Some (Node tag (attrs_dict a) [] [] []))
    else mkH (mkFrame tag (attrs_dict a) [] []) (top' :: below v) None.

  Definition h_end (v : hvis) (tag : str) : hvis :=
    match below v with
    | [] => v                                     (* len(self.stack) > 1 *)
    | p :: rest =>
        if str_eqb (f_tag (top v)) tag
        then mkH p rest (Some (node_of_frame (flush (lc v) (top v))))
        else v
    end.

  Definition h_data (v : hvis) (d : str) : hvis :=
    match lc v with
    | Some (Node t a x k tl) => mkH (top v) (below v) (Some (Node t a x k (tl ++ d)))
    | None => mkH (mkFrame (f_tag (top v)) (f_attrs (top v)) (f_text (top v) ++ d) (f_kids (top v))) (below v) None
    end.
End Html.

Definition root_frame : frame := mkFrame (s "root") [] [] [].
Definition h_init : sk hvis := mkSk (mkH root_frame [] None) O None.

(* parser.get_tree(): the root dict with every still-open element where it was appended *)
Fixpoint close_all (cur : frame) (below : list frame) : node :=
  match below with
  | [] => node_of_frame cur
  | p :: rest => close_all (flush (Some (node_of_frame cur)) p) rest
  end.

Definition tree_of (v : hvis) : node := close_all (flush (lc v) (top v)) (below v).

Definition html_build (remove void : list str) (l : list event) : sk hvis :=
  run remove void (h_start void) h_end h_data h_init l.

(* ------------------------------------------------------------------ EPUB text machine *)
Record evis := mkE {
  parts : list str;                 (* text_parts *)
  in_block : bool;
  tables : list (list (list str));
  cur_table : list (list str);
  cur_row : list str;
  cur_cell : list str;
  in_table : bool;
  in_cell : bool;
  title : str;
  in_title : bool }.

Definition NL : str := [10%N].
Definition nonempty {A} (l : list A) : bool := match l with [] => false | _ => true end.

Section Epub.
  Variable block : list str.                      (* BLOCK_TAGS of epub_extractor *)
  Variable normcell : list str -> str.            (* oracle: _normalize_ws(" ".join(cell).strip()) *)

  Definition e_start (v : evis) (tag : str) (_ : attrs_raw) : evis :=
    if str_eqb tag (s "title") then
      mkE (parts v) (in_block v) (tables v) (cur_table v) (cur_row v) (cur_cell v) (in_table v) (in_cell v) (title v) true
    else if str_eqb tag (s "table") then
      mkE (parts v) (in_block v) (tables v) [] (cur_row v) (cur_cell v) true (in_cell v) (title v) (in_title v)
    else
      let v1 :=
        if in_table v then
          if str_eqb tag (s "tr") then
            mkE (parts v) (in_block v) (tables v) (cur_table v) [] (cur_cell v) (in_table v) (in_cell v) (title v) (in_title v)
          else if str_eqb tag (s "td") || str_eqb tag (s "th") then
            mkE (parts v) (in_block v) (tables v) (cur_table v) (cur_row v) [] (in_table v) true (title v) (in_title v)
          else v
        else v in
      let v2 :=
        if mem_str tag block then
          mkE (parts v1 ++ [NL]) true (tables v1) (cur_table v1) (cur_row v1) (cur_cell v1) (in_table v1) (in_cell v1) (title v1) (in_title v1)
        else v1 in
      if str_eqb tag (s "br") then
        mkE (parts v2 ++ [NL]) (in_block v2) (tables v2) (cur_table v2) (cur_row v2) (cur_cell v2) (in_table v2) (in_cell v2) (title v2) (in_title v2)
      else v2.

  Definition e_end (v : evis) (tag : str) : evis :=
    if str_eqb tag (s "title") then
      mkE (parts v) (in_block v) (tables v) (cur_table v) (cur_row v) (cur_cell v) (in_table v) (in_cell v) (title v) false
    else if str_eqb tag (s "table") then
      mkE (parts v) (in_block v)
          (if nonempty (cur_table v) then tables v ++ [cur_table v] else tables v)
          [] (cur_row v) (cur_cell v) false (in_cell v) (title v) (in_title v)
    else
      let v1 :=
        if in_table v then
          if str_eqb tag (s "tr") then
            mkE (parts v) (in_block v) (tables v)
                (if nonempty (cur_row v) then cur_table v ++ [cur_row v] else cur_table v)
                [] (cur_cell v) (in_table v) (in_cell v) (title v) (in_title v)
          else if str_eqb tag (s "td") || str_eqb tag (s "th") then
            mkE (parts v) (in_block v) (tables v) (cur_table v) (cur_row v ++ [normcell (cur_cell v)]) []
                (in_table v) false (title v) (in_title v)
          else v
        else v in
      if mem_str tag block then
        mkE (parts v1 ++ [NL]) false (tables v1) (cur_table v1) (cur_row v1) (cur_cell v1) (in_table v1) (in_cell v1) (title v1) (in_title v1)
      else v1.

  Definition e_data (v : evis) (d : str) : evis :=
    if in_title v then
      mkE (parts v) (in_block v) (tables v) (cur_table v) (cur_row v) (cur_cell v) (in_table v) (in_cell v) (title v ++ d) (in_title v)
    else if in_cell v then
      mkE (parts v) (in_block v) (tables v) (cur_table v) (cur_row v) (cur_cell v ++ [d]) (in_table v) (in_cell v) (title v) (in_title v)
    else
      mkE (parts v ++ [d]) (in_block v) (tables v) (cur_table v) (cur_row v) (cur_cell v) (in_table v) (in_cell v) (title v) (in_title v).
End Epub.

Definition e_init : sk evis := mkSk (mkE [] false [] [] [] [] false false [] false) O None.

Definition epub_build (remove void block : list str) (normcell : list str -> str) (l : list event) : sk evis :=
  run remove void (e_start block) (e_end block normcell) e_data e_init l.

(* ------------------------------------------------------------------ table conditions (decidable) *)
Definition disjoint_str (a b : list str) : bool := forallb (fun x => negb (mem_str x b)) a.

(* HTML: the root element can never be taken for a removable element *)
Definition html_wf (remove : list str) : bool := negb (mem_str (s "root") remove).

(* EPUB: the end tag of a removable element is invisible to the visible handlers, and every void
   removable tag is removable at all *)
Definition epub_wf (remove block : list str) : bool :=
  disjoint_str remove block &&
  disjoint_str remove [s "title"; s "table"; s "tr"; s "td"; s "th"].

(* ------------------------------------------------------------------ text of a tree, visible text of an event list *)
(* _HtmlTextExtractor._get_node_text(node): text, then every child (with its tail), in document order *)
Fixpoint flat_node (n : node) : str :=
  match n with
  | Node _ _ x k tl =>
      x ++ (fix go (l : list node) : str := match l with [] => [] | c :: r => flat_node c ++ go r end) k ++ tl
  end.

(* the Data of an event list that lies outside removed elements, concatenated: the same skip machine
   with a visible state that only accumulates the Data it is shown *)
Definition t_start (v : str) (_ : str) (_ : attrs_raw) : str := v.
Definition t_end (v : str) (_ : str) : str := v.
Definition t_data (v d : str) : str := v ++ d.
Definition t_init : sk str := mkSk [] O None.
Definition visible_text (remove void : list str) (l : list event) : str :=
  vis (run remove void t_start t_end t_data t_init l).

Fixpoint all_data (l : list event) : str :=
  match l with
  | [] => []
  | Data d :: r => d ++ all_data r
  | _ :: r => all_data r
  end.

Definition no_removable (remove : list str) (l : list event) : bool :=
  forallb (fun e => match e with Start g _ => negb (mem_str g remove) | _ => true end) l.

(* ------------------------------------------------------------------ no removable element in the tree *)
Section NodeOk.
  Variable remove : list str.
  Fixpoint node_ok (n : node) : bool :=
    match n with
    | Node t _ _ k _ =>
        negb (mem_str t remove) &&
        (fix all (l : list node) : bool := match l with [] => true | c :: r => node_ok c && all r end) k
    end.
End NodeOk.
