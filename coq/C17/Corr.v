(* C17 — correspondence helpers: observation of a model state in the form the harness records
   from the real handler objects, and boolean comparison. *)
From Coq Require Import List Bool Arith.
From S2T Require Import Lib.PyStr C17.Model.
Import ListNotations.

Fixpoint list_eqb {A} (f : A -> A -> bool) (a b : list A) : bool :=
  match a, b with
  | [], [] => true
  | x :: a', y :: b' => f x y && list_eqb f a' b'
  | _, _ => false
  end.

Definition pair_eqb (x y : str * str) : bool := str_eqb (fst x) (fst y) && str_eqb (snd x) (snd y).

Fixpoint node_eqb (a b : node) : bool :=
  match a, b with
  | Node t1 a1 x1 k1 l1, Node t2 a2 x2 k2 l2 =>
      str_eqb t1 t2 && list_eqb pair_eqb a1 a2 && str_eqb x1 x2 &&
      (fix kids (u v : list node) : bool :=
         match u, v with
         | [], [] => true
         | n1 :: r1, n2 :: r2 => node_eqb n1 n2 && kids r1 r2
         | _, _ => false
         end) k1 k2 &&
      str_eqb l1 l2
  end.

Definition opt_str_eqb2 (a b : option str) : bool :=
  match a, b with Some x, Some y => str_eqb x y | None, None => true | _, _ => false end.

Definition is_some {A} (o : option A) : bool := match o with Some _ => true | None => false end.

(* ---- HTML: (root tree, tags of self.stack top first, last_closed is not None, skip_depth,
        _skip_tag if skip_depth > 0 else None, _HtmlTextExtractor(root)._get_node_text(root)) *)
Definition html_obs := (node * list str * bool * nat * option str * str)%type.

Definition html_case (remove void : list str) (c : list event * html_obs) : bool :=
  let '(evs, (tree, stk, haslc, d, t, flat)) := c in
  let st := canon (html_build remove void evs) in
  node_eqb (tree_of (vis st)) tree &&
  list_eqb str_eqb (map f_tag (top (vis st) :: below (vis st))) stk &&
  Bool.eqb (is_some (lc (vis st))) haslc &&
  Nat.eqb (depth st) d &&
  opt_str_eqb2 (stag st) t &&
  str_eqb (flat_node (tree_of (vis st))) flat.

(* ---- whitespace normalisation of a table cell:
        _normalize_ws(" ".join(cell).strip()) = " ".join(value.split()).strip() *)
Section Ws.
  Variable ws : list N.                      (* code points with str.isspace() (G) *)
  Definition is_ws (c : N) : bool := existsb (N.eqb c) ws.

  Fixpoint join (sep : str) (l : list str) : str :=
    match l with
    | [] => []
    | [x] => x
    | x :: r => x ++ sep ++ join sep r
    end.

  Fixpoint split_ws (cur : str) (l : str) : list str :=
    match l with
    | [] => if nonempty cur then [rev cur] else []
    | c :: r =>
        if is_ws c
        then (if nonempty cur then rev cur :: split_ws [] r else split_ws [] r)
        else split_ws (c :: cur) r
    end.

  Definition strip (x : str) : str := rev (dropWhile is_ws (rev (dropWhile is_ws x))).

  Definition py_normcell (cell : list str) : str :=
    strip (join [32%N] (split_ws [] (strip (join [32%N] cell)))).

  Definition normcell_case (c : list str * str) : bool := str_eqb (py_normcell (fst c)) (snd c).
End Ws.

(* ---- EPUB: every attribute of the handler object *)
Definition epub_obs :=
  (list str * bool * list (list (list str)) * list (list str) * list str * list str * bool * bool * str * bool
   * nat * option str)%type.

Definition epub_case (remove void block : list str) (ws : list N) (c : list event * epub_obs) : bool :=
  let '(evs, (p, ib, tb, ct, cr, cc, it, ic, ti, itl, d, t)) := c in
  let st := canon (epub_build remove void block (py_normcell ws) evs) in
  let v := vis st in
  list_eqb str_eqb (parts v) p && Bool.eqb (in_block v) ib &&
  list_eqb (list_eqb (list_eqb str_eqb)) (tables v) tb &&
  list_eqb (list_eqb str_eqb) (cur_table v) ct &&
  list_eqb str_eqb (cur_row v) cr && list_eqb str_eqb (cur_cell v) cc &&
  Bool.eqb (in_table v) it && Bool.eqb (in_cell v) ic &&
  str_eqb (title v) ti && Bool.eqb (in_title v) itl &&
  Nat.eqb (depth st) d && opt_str_eqb2 (stag st) t.
