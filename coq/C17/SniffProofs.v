(* C17 — lemmas about the encoding decision (C17/Sniff.v). *)
From Coq Require Import List Bool NArith Arith Lia.
From S2T Require Import Lib.PyStr C17.Sniff.
Import ListNotations.
Open Scope N_scope.

(* ------------------------------------------------------------------ before the fix *)
Definition wit_comment : list N := s " <meta charset=""utf-16""> ".
Definition wit_post : list N := s "<p>visible</p>".

Lemma prefix_comment_decides :
  fst (choose_prefix (s "<!--" ++ wit_comment ++ s "-->" ++ wit_post)) <> fst (choose_prefix wit_post).
Proof. intro H. vm_compute in H. discriminate H. Qed.

Lemma prefix_script_text_decides :
  fst (choose_prefix (s "<script>var h='<meta charset=cp037>';</script>" ++ wit_post)) <> fst (choose_prefix wit_post).
Proof. intro H. vm_compute in H. discriminate H. Qed.

(* ------------------------------------------------------------------ generic facts *)
Lemma starts_app (p : list N) : forall (a b : list N), (List.length p <= List.length a)%nat -> starts p (a ++ b) = starts p a.
Proof.
  induction p as [|x p IH]; intros a b H; [reflexivity|].
  destruct a as [|y a]; [cbn in H; lia|].
  cbn [starts app]. rewrite IH; [reflexivity | cbn in H; lia].
Qed.

Definition no62 (p : list N) : bool := forallb (fun c => negb (c =? 62)) p.

Lemma ends62_cons c a : a <> [] -> ends62 (c :: a) = ends62 a.
Proof. destruct a; [congruence | reflexivity]. Qed.

(* a pattern without the closing angle bracket cannot straddle the end of a text that ends with one *)
Lemma starts_ends62 (p : list N) : forall (a y : list N), no62 p = true -> ends62 a = true -> starts p (a ++ y) = starts p a.
Proof.
  induction p as [|x p IH]; intros a y Hp Ha; [reflexivity|].
  cbn [no62 forallb] in Hp. apply andb_true_iff in Hp as [Hx Hp]. apply negb_true_iff in Hx.
  destruct a as [|c a]; [discriminate|]. destruct a as [|c2 a].
  - cbn [ends62] in Ha. apply N.eqb_eq in Ha. subst c. cbn [starts app]. rewrite Hx. reflexivity.
  - cbn [starts app]. f_equal. apply (IH (c2 :: a) y Hp). exact Ha.
Qed.

Lemma starts_ci_ends62 (p : list N) : forall (a y : list N), no62 p = true -> ends62 a = true -> starts_ci p (a ++ y) = starts_ci p a.
Proof.
  induction p as [|x p IH]; intros a y Hp Ha; [reflexivity|].
  cbn [no62 forallb] in Hp. apply andb_true_iff in Hp as [Hx Hp]. apply negb_true_iff in Hx.
  destruct a as [|c a]; [discriminate|]. destruct a as [|c2 a].
  - cbn [ends62] in Ha. apply N.eqb_eq in Ha. subst c. cbn [starts_ci app]. change (lc_byte 62) with 62. rewrite Hx. reflexivity.
  - cbn [starts_ci app]. f_equal. apply (IH (c2 :: a) y Hp). exact Ha.
Qed.

Lemma boundary_ends62 (p : list N) : forall (a y : list N),
  no62 p = true -> ends62 a = true -> starts_ci p a = true ->
  boundary_after (List.length p) (a ++ y) = boundary_after (List.length p) a.
Proof.
  induction p as [|x p IH]; intros a y Hp Ha Hs.
  - destruct a; [discriminate | reflexivity].
  - cbn [no62 forallb] in Hp. apply andb_true_iff in Hp as [Hx Hp]. apply negb_true_iff in Hx.
    destruct a as [|c a]; [discriminate|]. cbn [starts_ci] in Hs. apply andb_true_iff in Hs as [Hc Hs].
    destruct a as [|c2 a].
    + cbn [ends62] in Ha. apply N.eqb_eq in Ha. subst c. change (lc_byte 62) with 62 in Hc. congruence.
    + unfold boundary_after in *. cbn [List.length skipn app]. apply (IH (c2 :: a) y Hp Ha Hs).
Qed.

Lemma names_no62 : forallb (fun n => no62 (60 :: n)) NAMES = true.
Proof. vm_compute. reflexivity. Qed.

Lemma opens_ends62 n a y : no62 (60 :: n) = true -> ends62 a = true -> opens n (a ++ y) = opens n a.
Proof.
  intros Hn Ha. unfold opens. rewrite (starts_ci_ends62 (60 :: n) a y Hn Ha).
  destruct (starts_ci (60 :: n) a) eqn:E; [|reflexivity]. cbn [andb].
  apply (boundary_ends62 (60 :: n) a y Hn Ha E).
Qed.

Lemma find_opens_ends62 (names : list (list N)) a y :
  forallb (fun n => no62 (60 :: n)) names = true -> ends62 a = true ->
  find (fun n => opens n (a ++ y)) names = find (fun n => opens n a) names.
Proof.
  induction names as [|n names IH]; intros Hn Ha; [reflexivity|].
  cbn [forallb] in Hn. apply andb_true_iff in Hn as [H1 H2].
  cbn [find]. rewrite (opens_ends62 n a y H1 Ha). destruct (opens n a); [reflexivity|]. apply IH; assumption.
Qed.

Lemma open_name_ends62 a y : ends62 a = true -> open_name (a ++ y) = open_name a.
Proof. intro Ha. unfold open_name. apply find_opens_ends62; [exact names_no62 | exact Ha]. Qed.

(* ------------------------------------------------------------------ the scanner *)
(* plain text that ends with a closing angle bracket is kept as it is, whatever follows *)
Lemma keep_plain (pre : list N) : forall y, plain pre = true -> ends62 pre = true ->
  strip_st 0 Keep (pre ++ y) = pre ++ strip_st 0 Keep y.
Proof.
  induction pre as [|c r IH]; intros y Hp He; [discriminate|].
  cbn [plain] in Hp. apply andb_true_iff in Hp as [Hp Hr]. apply andb_true_iff in Hp as [H1 H2].
  apply negb_true_iff in H1.
  change ((c :: r) ++ y) with (c :: (r ++ y)). cbn [strip_st].
  change (c :: r ++ y) with ((c :: r) ++ y).
  rewrite (starts_ends62 CMT (c :: r) y eq_refl He), H1.
  rewrite (open_name_ends62 (c :: r) y He). destruct (open_name (c :: r)); [discriminate|].
  cbn [app]. f_equal. destruct r as [|c2 r'].
  - reflexivity.
  - apply IH; [exact Hr | exact He].
Qed.

Lemma in_comment_closed (c : list N) : forall post, no_close c = true ->
  strip_st 0 InComment (c ++ CLOSE ++ post) = strip_st 0 Keep post.
Proof.
  induction c as [|a c IH]; intros post H.
  - reflexivity.
  - cbn [no_close] in H. apply andb_true_iff in H as [H1 H2]. apply negb_true_iff in H1.
    change ((a :: c) ++ CLOSE ++ post) with (a :: (c ++ CLOSE ++ post)). cbn [strip_st].
    change (a :: c ++ CLOSE ++ post) with ((a :: c) ++ CLOSE ++ post).
    rewrite app_assoc. rewrite (starts_app CLOSE ((a :: c) ++ CLOSE) post).
    + rewrite H1. apply IH, H2.
    + rewrite app_length. cbn. lia.
Qed.

Lemma comment_segment c post : no_close c = true ->
  strip_st 0 Keep (CMT ++ c ++ CLOSE ++ post) = strip_st 0 Keep post.
Proof. intro H. change (CMT ++ c ++ CLOSE ++ post) with (60 :: 33 :: 45 :: 45 :: (c ++ CLOSE ++ post)). cbn [strip_st starts CMT s].
  change (starts (s "<!--") (60 :: 33 :: 45 :: 45 :: c ++ CLOSE ++ post)) with true. cbn iota. apply in_comment_closed, H. Qed.

Lemma in_comment_open (c : list N) : never_closed c = true -> strip_st 0 InComment c = [].
Proof.
  induction c as [|a c IH]; intro H; [reflexivity|].
  cbn [never_closed] in H. apply andb_true_iff in H as [H1 H2]. apply negb_true_iff in H1.
  cbn [strip_st]. rewrite H1. apply IH, H2.
Qed.

Lemma comment_unterminated c : never_closed c = true -> strip_st 0 Keep (CMT ++ c) = [].
Proof. intro H. change (CMT ++ c) with (60 :: 33 :: 45 :: 45 :: c). cbn [strip_st].
  change (starts CMT (60 :: 33 :: 45 :: 45 :: c)) with true. cbn iota. apply in_comment_open, H. Qed.

Lemma strip_comment_inert pre c post :
  plain pre = true -> ends62 pre = true -> no_close c = true ->
  strip (pre ++ CMT ++ c ++ CLOSE ++ post) = strip (pre ++ post).
Proof.
  intros Hp He Hc. unfold strip. rewrite !(keep_plain pre _ Hp He). rewrite (comment_segment c post Hc). reflexivity.
Qed.

Lemma strip_open_comment_inert pre c :
  plain pre = true -> ends62 pre = true -> never_closed c = true -> strip (pre ++ CMT ++ c) = strip pre.
Proof.
  intros Hp He Hc. unfold strip. rewrite (keep_plain pre _ Hp He), (comment_unterminated c Hc).
  rewrite <- (app_nil_r pre) at 2. rewrite (keep_plain pre [] Hp He). reflexivity.
Qed.

(* ------------------------------------------------------------------ removed elements *)
Lemma skip_exact (u : list N) : forall v m, strip_st (List.length u) m (u ++ v) = strip_st 0 m v.
Proof. induction u as [|a u IH]; intros v m; [reflexivity|]. cbn [List.length app strip_st]. apply IH. Qed.

Lemma skipn_len_app (u : list N) : forall v, skipn (List.length u) (u ++ v) = v.
Proof. induction u as [|a u IH]; intro v; [reflexivity|]. cbn [List.length app skipn]. apply IH. Qed.

Lemma after_ws_ws (ws : list N) : forall k rest, forallb is_sp ws = true ->
  after_ws (ws ++ 62 :: rest) k = Some (S (k + List.length ws)).
Proof.
  induction ws as [|c ws IH]; intros k rest H.
  - cbn [app after_ws List.length]. change (is_sp 62) with false. change (62 =? 62) with true. cbn iota. f_equal. lia.
  - cbn [forallb] in H. apply andb_true_iff in H as [H1 H2]. cbn [app after_ws]. rewrite H1.
    rewrite (IH (S k) rest H2). cbn [List.length]. f_equal. lia.
Qed.

Definition lower_bytes (p : list N) : bool := forallb (fun c => c =? lc_byte c) p.

Lemma starts_ci_self (p : list N) : forall z, lower_bytes p = true -> starts_ci p (p ++ z) = true.
Proof.
  induction p as [|a p IH]; intros z H; [reflexivity|].
  cbn [lower_bytes forallb] in H. apply andb_true_iff in H as [H1 H2].
  cbn [app starts_ci]. rewrite H1. apply IH, H2.
Qed.

Lemma end_tag_self n ws post : lower_bytes (60 :: 47 :: n) = true -> forallb is_sp ws = true ->
  end_tag n ((60 :: 47 :: n) ++ ws ++ 62 :: post) = Some (S (2 + List.length n + List.length ws)).
Proof.
  intros Hl Hw. unfold end_tag. rewrite (starts_ci_self (60 :: 47 :: n) _ Hl).
  change (2 + List.length n)%nat with (List.length (60 :: 47 :: n)). rewrite skipn_len_app.
  apply after_ws_ws, Hw.
Qed.

Lemma lc_byte_eq_small b c : c < 65 -> c = lc_byte b -> b = c.
Proof.
  unfold lc_byte. intros Hc H. destruct ((65 <=? b) && (b <=? 90)) eqn:E; [|congruence].
  apply andb_true_iff in E as [E1 E2]. apply N.leb_le in E1. lia.
Qed.

Lemma starts_ci_lt_slash n x : starts_ci (60 :: 47 :: n) x = true -> starts [60; 47] x = true.
Proof.
  destruct x as [|a x]; [discriminate|]. destruct x as [|b x]; cbn [starts_ci starts]; intro H.
  - apply andb_true_iff in H as [_ H]. discriminate.
  - apply andb_true_iff in H as [H1 H]. apply andb_true_iff in H as [H2 _].
    apply N.eqb_eq in H1, H2. apply (lc_byte_eq_small a 60) in H1; [|lia]. apply (lc_byte_eq_small b 47) in H2; [|lia].
    subst. reflexivity.
Qed.

Lemma in_elem_body n (body : list N) : forall z, no_lt_slash body = true ->
  strip_st 0 (InElem n) (body ++ 60 :: z) = strip_st 0 (InElem n) (60 :: z).
Proof.
  induction body as [|a b IH]; intros z H; [reflexivity|].
  cbn [no_lt_slash] in H. apply andb_true_iff in H as [H1 H2]. apply negb_true_iff in H1.
  change ((a :: b) ++ 60 :: z) with (a :: (b ++ 60 :: z)). cbn [strip_st].
  assert (E : end_tag n (a :: b ++ 60 :: z) = None).
  { unfold end_tag. destruct (starts_ci (60 :: 47 :: n) (a :: b ++ 60 :: z)) eqn:S; [|reflexivity].
    apply starts_ci_lt_slash in S. exfalso. destruct b as [|b1 b].
    - cbn [app starts] in S. change (47 =? 60) with false in S. rewrite andb_false_r in S. discriminate.
    - cbn [app starts] in S. cbn [starts] in H1. congruence. }
  rewrite E. apply IH, H2.
Qed.

Lemma in_elem_close n c r L : end_tag n (c :: r) = Some L -> strip_st 0 (InElem n) (c :: r) = strip_st (pred L) Keep r.
Proof. intro H. cbn [strip_st]. rewrite H. reflexivity. Qed.

Definition head_ok (x : list N) : bool := match x with [] => true | c :: _ => negb (is_word c) end.

Lemma opener n x : In n NAMES -> head_ok x = true ->
  starts CMT (60 :: n ++ x) = false /\ open_name (60 :: n ++ x) = Some n.
Proof.
  intros Hn Hx. unfold NAMES in Hn. cbn [In] in Hn.
  repeat (destruct Hn as [Hn|Hn]; [subst n; split; [reflexivity|]; unfold open_name, NAMES, opens, boundary_after; cbn; destruct x as [|c x]; [reflexivity|]; cbn in Hx |- *; rewrite Hx; reflexivity|]).
  contradiction.
Qed.

Lemma names_lower n : In n NAMES -> lower_bytes (60 :: 47 :: n) = true.
Proof.
  intro Hn. unfold NAMES in Hn. cbn [In] in Hn.
  repeat (destruct Hn as [Hn|Hn]; [subst n; vm_compute; reflexivity|]). contradiction.
Qed.

Lemma element_segment n body ws post :
  In n NAMES -> body_start_ok body = true -> no_lt_slash body = true -> forallb is_sp ws = true ->
  strip_st 0 Keep ((60 :: n) ++ body ++ (60 :: 47 :: n) ++ ws ++ 62 :: post) = strip_st 0 Keep post.
Proof.
  intros Hn Hb Hs Hw.
  set (tail := (60 :: 47 :: n) ++ ws ++ 62 :: post).
  assert (Hx : head_ok (body ++ tail) = true).
  { destruct body as [|c b]; [reflexivity | exact Hb]. }
  destruct (opener n (body ++ tail) Hn Hx) as [O1 O2].
  change ((60 :: n) ++ body ++ tail) with (60 :: n ++ body ++ tail).
  cbn [strip_st]. rewrite O1, O2.
  rewrite skip_exact. unfold tail at 1. change ((60 :: 47 :: n) ++ ws ++ 62 :: post) with (60 :: (47 :: n) ++ ws ++ 62 :: post).
  rewrite (in_elem_body n body _ Hs).
  change (60 :: (47 :: n) ++ ws ++ 62 :: post) with ((60 :: 47 :: n) ++ ws ++ 62 :: post).
  pose proof (end_tag_self n ws post (names_lower n Hn) Hw) as E.
  change ((60 :: 47 :: n) ++ ws ++ 62 :: post) with (60 :: (47 :: n ++ ws ++ 62 :: post)) in *.
  rewrite (in_elem_close n _ _ _ E). cbn [pred].
  replace (47 :: n ++ ws ++ 62 :: post) with ((47 :: n ++ ws ++ [62]) ++ post)
    by (cbn [app]; f_equal; rewrite <- app_assoc; f_equal; rewrite <- app_assoc; reflexivity).
  replace (2 + List.length n + List.length ws)%nat with (List.length (47 :: n ++ ws ++ [62]))
    by (cbn [List.length]; rewrite !app_length; cbn [List.length]; lia).
  exact (skip_exact (47 :: n ++ ws ++ [62]) post Keep).
Qed.

Lemma strip_element_inert pre n body ws post :
  plain pre = true -> ends62 pre = true ->
  In n NAMES -> body_start_ok body = true -> no_lt_slash body = true -> forallb is_sp ws = true ->
  strip (pre ++ (60 :: n) ++ body ++ (60 :: 47 :: n) ++ ws ++ 62 :: post) = strip (pre ++ post).
Proof.
  intros Hp He Hn Hb Hs Hw. unfold strip. rewrite !(keep_plain pre _ Hp He).
  rewrite (element_segment n body ws post Hn Hb Hs Hw). reflexivity.
Qed.

(* ------------------------------------------------------------------ the decision *)
Section Decision.
  Variable compat : list N -> list N -> bool.

  Lemma bom_decides (rest : list N) : choose compat (239 :: 187 :: 191 :: rest) = (s "utf-8", rest).
  Proof. reflexivity. Qed.

  Lemma window_ge_3 : (3 <= WINDOW)%nat.
  Proof. apply Nat.leb_le. vm_compute. reflexivity. Qed.

  Lemma beyond_window_inert (a b b' : list N) : (WINDOW <= List.length a)%nat ->
    fst (choose compat (a ++ b)) = fst (choose compat (a ++ b')).
  Proof.
    intro H. pose proof window_ge_3 as W. unfold choose.
    rewrite !(starts_app [239; 187; 191] a) by (cbn [List.length]; lia).
    rewrite !(starts_app [255; 254] a) by (cbn [List.length]; lia).
    rewrite !(starts_app [254; 255] a) by (cbn [List.length]; lia).
    rewrite !firstn_app. replace (WINDOW - List.length a)%nat with 0%nat by lia. cbn [firstn]. rewrite !app_nil_r.
    destruct (starts [239; 187; 191] a); [reflexivity|].
    destruct (starts [255; 254] a); [reflexivity|].
    destruct (starts [254; 255] a); [reflexivity|].
    destruct (search2 (strip (firstn WINDOW a))) as [[g0 g1]|]; [|reflexivity].
    destruct (compat _ g0 && _); reflexivity.
  Qed.

  (* a segment that the skip scanner deletes, after a text that ends with a closing angle bracket, inside the window *)
  Lemma segment_inert (pre x y : list N) :
    ends62 pre = true -> strip (pre ++ x) = strip (pre ++ y) ->
    (List.length (pre ++ x) <= WINDOW)%nat -> (List.length (pre ++ y) <= WINDOW)%nat ->
    fst (choose compat (pre ++ x)) = fst (choose compat (pre ++ y)).
  Proof.
    intros He Hs Lx Ly. unfold choose.
    rewrite !(starts_ends62 [239; 187; 191] pre _ eq_refl He).
    rewrite !(starts_ends62 [255; 254] pre _ eq_refl He).
    rewrite !(starts_ends62 [254; 255] pre _ eq_refl He).
    rewrite !firstn_all2 by assumption. rewrite Hs.
    destruct (starts [239; 187; 191] pre); [reflexivity|].
    destruct (starts [255; 254] pre); [reflexivity|].
    destruct (starts [254; 255] pre); [reflexivity|].
    destruct (search2 (strip (pre ++ y))) as [[g0 g1]|]; [|reflexivity].
    destruct (compat _ g0 && _); reflexivity.
  Qed.

  Lemma utf7_never content : is_utf7 (fst (choose compat content)) = false.
  Proof.
    unfold choose.
    destruct (starts [239; 187; 191] content); [reflexivity|].
    destruct (starts [255; 254] content); [reflexivity|].
    destruct (starts [254; 255] content); [reflexivity|].
    destruct (search2 _) as [[g0 g1]|]; [|reflexivity].
    destruct (compat _ g0) ; cbn [andb]; [|reflexivity].
    destruct (is_utf7 (filter (fun c => c <? 128) g1)) eqn:E; cbn [negb fst]; [reflexivity | exact E].
  Qed.
End Decision.

(* ------------------------------------------------------------------ removed elements, full strength *)
Lemma lc_idem c : lc_byte (lc_byte c) = lc_byte c.
Proof.
  unfold lc_byte. destruct ((65 <=? c) && (c <=? 90)) eqn:E; [|rewrite E; reflexivity].
  apply andb_true_iff in E as [E1 E2]. apply N.leb_le in E1, E2.
  destruct ((65 <=? c + 32) && (c + 32 <=? 90)) eqn:F; [|reflexivity].
  apply andb_true_iff in F as [_ F2]. apply N.leb_le in F2. lia.
Qed.

Lemma starts_ci_map (p : list N) : forall y, starts_ci p y = starts p (map lc_byte y).
Proof. induction p as [|a p IH]; intro y; [reflexivity|]. destruct y as [|b y]; [reflexivity|]. cbn [starts_ci starts map]. rewrite IH. reflexivity. Qed.

Lemma is_word_lc c : is_word (lc_byte c) = is_word c.
Proof.
  unfold lc_byte. destruct ((65 <=? c) && (c <=? 90)) eqn:E; [|reflexivity].
  apply andb_true_iff in E as [E1 E2]. apply N.leb_le in E1, E2. unfold is_word.
  repeat match goal with |- context [?a <=? ?b] => let H := fresh in destruct (N.leb_spec a b) as [H|H] end;
  repeat match goal with |- context [?a =? ?b] => let H := fresh in destruct (N.eqb_spec a b) as [H|H] end; try reflexivity; lia.
Qed.

Lemma boundary_map k : forall y, boundary_after k (map lc_byte y) = boundary_after k y.
Proof.
  induction k as [|k IH]; intro y; unfold boundary_after in *.
  - destruct y as [|c y]; [reflexivity|]. cbn [skipn map]. rewrite is_word_lc. reflexivity.
  - destruct y as [|c y]; [reflexivity|]. cbn [skipn map]. apply IH.
Qed.

Lemma map_lc_idem (y : list N) : map lc_byte (map lc_byte y) = map lc_byte y.
Proof. induction y as [|c y IH]; [reflexivity|]. cbn [map]. rewrite lc_idem, IH. reflexivity. Qed.

Lemma opens_map n y : opens n (map lc_byte y) = opens n y.
Proof. unfold opens. rewrite !starts_ci_map, map_lc_idem, boundary_map. reflexivity. Qed.

Lemma open_name_map y : open_name (map lc_byte y) = open_name y.
Proof.
  unfold open_name. induction NAMES as [|n names IH]; [reflexivity|].
  cbn [find]. rewrite opens_map. destruct (opens n y); [reflexivity | exact IH].
Qed.

Lemma starts_map (p : list N) : forall y, starts p y = true -> starts (map lc_byte p) (map lc_byte y) = true.
Proof.
  induction p as [|a p IH]; intros y H; [reflexivity|]. destruct y as [|b y]; [discriminate|].
  cbn [starts] in H. apply andb_true_iff in H as [H1 H2]. apply N.eqb_eq in H1. subst b.
  cbn [map starts]. rewrite N.eqb_refl. apply IH, H2.
Qed.

Lemma head_ok_map x : head_ok (map lc_byte x) = head_ok x.
Proof. destruct x as [|c x]; [reflexivity|]. cbn [map head_ok]. rewrite is_word_lc. reflexivity. Qed.

(* the opener in any spelling of the name *)
Lemma opener_ci n nm x : In n NAMES -> map lc_byte nm = n -> head_ok x = true ->
  starts CMT (60 :: nm ++ x) = false /\ open_name (60 :: nm ++ x) = Some n.
Proof.
  intros Hn Hm Hx.
  assert (E : map lc_byte (60 :: nm ++ x) = 60 :: n ++ map lc_byte x).
  { cbn [map]. rewrite map_app, Hm. reflexivity. }
  destruct (opener n (map lc_byte x) Hn) as [O1 O2]; [rewrite head_ok_map; exact Hx|].
  split.
  - destruct (starts CMT (60 :: nm ++ x)) eqn:S; [|reflexivity].
    apply starts_map in S. rewrite E in S. change (map lc_byte CMT) with CMT in S. congruence.
  - rewrite <- open_name_map, E. exact O2.
Qed.

Lemma starts_ci_lc (p : list N) : forall p' z, map lc_byte p' = p -> starts_ci p (p' ++ z) = true.
Proof.
  induction p as [|a p IH]; intros p' z H; [reflexivity|].
  destruct p' as [|b p']; [discriminate|]. cbn [map] in H. injection H as H1 H2.
  cbn [app starts_ci]. rewrite H1, N.eqb_refl. apply IH, H2.
Qed.

Lemma end_tag_ci n nm ws post : map lc_byte nm = n -> forallb is_sp ws = true ->
  end_tag n ((60 :: 47 :: nm) ++ ws ++ 62 :: post) = Some (S (2 + List.length n + List.length ws)).
Proof.
  intros Hm Hw. unfold end_tag.
  rewrite (starts_ci_lc (60 :: 47 :: n) (60 :: 47 :: nm)) by (cbn [map]; rewrite Hm; reflexivity).
  replace (2 + List.length n)%nat with (List.length (60 :: 47 :: nm)) by (cbn [List.length]; rewrite <- Hm, map_length; reflexivity).
  rewrite skipn_len_app. rewrite (after_ws_ws ws _ _ Hw). reflexivity.
Qed.

(* locality of the end-tag test: once at least one byte lies before it, an opening angle bracket ends the examination *)
Definition no60 (p : list N) : bool := forallb (fun c => negb (c =? 60)) p.

Lemma after_ws_local (u : list N) : forall z k, after_ws (u ++ 60 :: z) k = after_ws (u ++ [60]) k.
Proof.
  induction u as [|c u IH]; intros z k; [reflexivity|].
  cbn [app after_ws]. destruct (is_sp c); [apply IH|]. destruct (c =? 62); reflexivity.
Qed.

Definition et (p : list N) (k : nat) (x : list N) : option nat :=
  if starts_ci p x then after_ws (skipn (List.length p) x) k else None.

Lemma et_local (p : list N) : forall u z k, no60 p = true -> et p k (u ++ 60 :: z) = et p k (u ++ [60]).
Proof.
  induction p as [|a p IH]; intros u z k Hp.
  - unfold et. cbn [starts_ci List.length skipn]. apply after_ws_local.
  - cbn [no60 forallb] in Hp. apply andb_true_iff in Hp as [Ha Hp]. apply negb_true_iff in Ha.
    destruct u as [|b u].
    + unfold et. cbn [app starts_ci]. change (lc_byte 60) with 60. rewrite Ha. reflexivity.
    + unfold et in *. cbn [app starts_ci List.length skipn].
      destruct (a =? lc_byte b); [|reflexivity]. cbn [andb]. apply (IH u z k Hp).
Qed.

Lemma end_tag_local n b u z : no60 (47 :: n) = true ->
  end_tag n ((b :: u) ++ 60 :: z) = end_tag n ((b :: u) ++ [60]).
Proof.
  intro Hn. unfold end_tag. cbn [app starts_ci]. change (2 + List.length n)%nat with (S (List.length (47 :: n))).
  cbn [skipn]. destruct (60 =? lc_byte b); [|reflexivity]. cbn [andb].
  exact (et_local (47 :: n) u z _ Hn).
Qed.

Lemma names_no60 n : In n NAMES -> no60 (47 :: n) = true.
Proof.
  intro Hn. unfold NAMES in Hn. cbn [In] in Hn.
  repeat (destruct Hn as [Hn|Hn]; [subst n; vm_compute; reflexivity|]). contradiction.
Qed.

Lemma in_elem_body_full n (body : list N) : forall z, no60 (47 :: n) = true -> no_end n body = true ->
  strip_st 0 (InElem n) (body ++ 60 :: z) = strip_st 0 (InElem n) (60 :: z).
Proof.
  induction body as [|a b IH]; intros z Hn H; [reflexivity|].
  cbn [no_end] in H. apply andb_true_iff in H as [H1 H2].
  change ((a :: b) ++ 60 :: z) with (a :: (b ++ 60 :: z)). cbn [strip_st].
  change (a :: b ++ 60 :: z) with ((a :: b) ++ 60 :: z). rewrite (end_tag_local n a b z Hn).
  destruct (end_tag n ((a :: b) ++ [60])); [discriminate|]. apply IH; assumption.
Qed.

Lemma in_elem_open n (body : list N) : never_ended n body = true -> strip_st 0 (InElem n) body = [].
Proof.
  induction body as [|a b IH]; intro H; [reflexivity|].
  cbn [never_ended] in H. apply andb_true_iff in H as [H1 H2].
  cbn [strip_st]. destruct (end_tag n (a :: b)); [discriminate|]. apply IH, H2.
Qed.

Lemma element_segment_full n nm nm2 body ws post :
  In n NAMES -> map lc_byte nm = n -> map lc_byte nm2 = n ->
  body_start_ok body = true -> no_end n body = true -> forallb is_sp ws = true ->
  strip_st 0 Keep ((60 :: nm) ++ body ++ (60 :: 47 :: nm2) ++ ws ++ 62 :: post) = strip_st 0 Keep post.
Proof.
  intros Hn Hm Hm2 Hb Hs Hw.
  set (tail := (60 :: 47 :: nm2) ++ ws ++ 62 :: post).
  assert (Hx : head_ok (body ++ tail) = true) by (destruct body as [|c b]; [reflexivity | exact Hb]).
  destruct (opener_ci n nm (body ++ tail) Hn Hm Hx) as [O1 O2].
  change ((60 :: nm) ++ body ++ tail) with (60 :: nm ++ body ++ tail).
  cbn [strip_st]. rewrite O1, O2.
  replace (List.length n) with (List.length nm) by (rewrite <- Hm, map_length; reflexivity).
  rewrite skip_exact. unfold tail at 1. change ((60 :: 47 :: nm2) ++ ws ++ 62 :: post) with (60 :: (47 :: nm2) ++ ws ++ 62 :: post).
  rewrite (in_elem_body_full n body _ (names_no60 n Hn) Hs).
  change (60 :: (47 :: nm2) ++ ws ++ 62 :: post) with ((60 :: 47 :: nm2) ++ ws ++ 62 :: post).
  pose proof (end_tag_ci n nm2 ws post Hm2 Hw) as E.
  change ((60 :: 47 :: nm2) ++ ws ++ 62 :: post) with (60 :: (47 :: nm2 ++ ws ++ 62 :: post)) in *.
  rewrite (in_elem_close n _ _ _ E). cbn [pred].
  replace (47 :: nm2 ++ ws ++ 62 :: post) with ((47 :: nm2 ++ ws ++ [62]) ++ post)
    by (cbn [app]; f_equal; rewrite <- app_assoc; f_equal; rewrite <- app_assoc; reflexivity).
  replace (2 + List.length n + List.length ws)%nat with (List.length (47 :: nm2 ++ ws ++ [62]))
    by (cbn [List.length]; rewrite !app_length; cbn [List.length]; rewrite <- Hm2, map_length; lia).
  exact (skip_exact (47 :: nm2 ++ ws ++ [62]) post Keep).
Qed.

Lemma element_unterminated n nm body :
  In n NAMES -> map lc_byte nm = n -> body_start_ok body = true -> never_ended n body = true ->
  strip_st 0 Keep ((60 :: nm) ++ body) = [].
Proof.
  intros Hn Hm Hb Hs.
  assert (Hx : head_ok body = true) by (destruct body; [reflexivity | exact Hb]).
  destruct (opener_ci n nm body Hn Hm Hx) as [O1 O2].
  change ((60 :: nm) ++ body) with (60 :: nm ++ body). cbn [strip_st]. rewrite O1, O2.
  replace (List.length n) with (List.length nm) by (rewrite <- Hm, map_length; reflexivity).
  rewrite skip_exact. apply in_elem_open, Hs.
Qed.

Lemma strip_element_inert_full pre n nm nm2 body ws post :
  plain pre = true -> ends62 pre = true ->
  In n NAMES -> map lc_byte nm = n -> map lc_byte nm2 = n ->
  body_start_ok body = true -> no_end n body = true -> forallb is_sp ws = true ->
  strip (pre ++ (60 :: nm) ++ body ++ (60 :: 47 :: nm2) ++ ws ++ 62 :: post) = strip (pre ++ post).
Proof.
  intros Hp He Hn Hm Hm2 Hb Hs Hw. unfold strip. rewrite !(keep_plain pre _ Hp He).
  rewrite (element_segment_full n nm nm2 body ws post Hn Hm Hm2 Hb Hs Hw). reflexivity.
Qed.

Lemma strip_open_element_inert pre n nm body :
  plain pre = true -> ends62 pre = true ->
  In n NAMES -> map lc_byte nm = n -> body_start_ok body = true -> never_ended n body = true ->
  strip (pre ++ (60 :: nm) ++ body) = strip pre.
Proof.
  intros Hp He Hn Hm Hb Hs. unfold strip. rewrite (keep_plain pre _ Hp He), (element_unterminated n nm body Hn Hm Hb Hs).
  rewrite <- (app_nil_r pre) at 2. rewrite (keep_plain pre [] Hp He). reflexivity.
Qed.
