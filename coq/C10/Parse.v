(* C10 — executable model of the byte-level 7z header parser of util/sevenzip.py
   (SevenZipReader._parse_header ... _parse_files_info), with explicit fuel.  Definitions only.

   The stream is the list of bytes still to be read (BytesIO position = what has been dropped);
   _seek_back_one() is a peek; `self._stream.seek(end_pos)` of _parse_files_info is "continue
   `size` bytes after the property's size field", whatever the property handler consumed.
   Loops driven by a count or by `while True` take fuel and return PFuel when it runs out; the
   theorems state that fuel = length + 1 is never exhausted.
   struct.unpack("<B/<H/<I/<Q") and zlib.crc32 are stdlib: little-endian arithmetic / a Section variable. *)
From Coq Require Import ZArith List Bool Lia ZifyBool.
From S2T Require Import Lib.PyStr C10.Model.
Import ListNotations.
Open Scope N_scope.

Inductive pres (A : Type) :=
| POk (a : A) (rest : bytes)
| PBad          (* Bad7zFile (or another exception: all become ExtractionFailedError) *)
| PEnc          (* Encrypted7zError *)
| PFuel.
Arguments POk {A}. Arguments PBad {A}. Arguments PEnc {A}. Arguments PFuel {A}.

Definition bind {A B} (p : pres A) (f : A -> bytes -> pres B) : pres B :=
  match p with POk a r => f a r | PBad => PBad | PEnc => PEnc | PFuel => PFuel end.
Notation "'let*' ( x , r ) := p 'in' q" := (bind p (fun x r => q)) (at level 200, x name, r name, p at level 100, q at level 200).

(* property ids (checked against the live module by C10/Inst.v) *)
Definition P_END := 0. Definition P_HEADER := 1. Definition P_ARCHIVE_PROPERTIES := 2.
Definition P_ADDITIONAL_STREAMS := 3. Definition P_MAIN_STREAMS := 4. Definition P_FILES_INFO := 5.
Definition P_PACK_INFO := 6. Definition P_UNPACK_INFO := 7. Definition P_SUBSTREAMS := 8.
Definition P_SIZE := 9. Definition P_CRC := 10. Definition P_FOLDER := 11. Definition P_CODERS_UNPACK_SIZE := 12.
Definition P_NUM_UNPACK_STREAM := 13. Definition P_EMPTY_STREAM := 14. Definition P_EMPTY_FILE := 15.
Definition P_NAME := 17. Definition P_WIN_ATTRIBUTES := 21. Definition P_ENCODED_HEADER := 23.

(* ------------------------------------------------------------------ binary reading helpers *)
Definition r_u8 (b : bytes) : pres N := match b with [] => PBad | x :: r => POk x r end.

Definition r_bytes (n : N) (b : bytes) : pres bytes :=
  if lenN b <? n then PBad else POk (takeN n b) (dropN n b).

Fixpoint le_val (l : bytes) : N := match l with [] => 0 | x :: r => x + 256 * le_val r end.

Definition r_u16 (b : bytes) : pres N := let* (x, r) := r_bytes 2 b in POk (le_val x) r.
Definition r_u32 (b : bytes) : pres N := let* (x, r) := r_bytes 4 b in POk (le_val x) r.

(* _read_number: 7z variable-length integers, with Python's & | << >> *)
Fixpoint rn_loop (k : nat) (i mask first value : N) (b : bytes) : pres N :=
  match k with
  | O => POk value b
  | S k' =>
      if N.land first mask =? 0
      then POk (N.lor value (N.shiftl (N.land first (mask - 1)) (i * 8))) b
      else let* (x, r) := r_u8 b in rn_loop k' (i + 1) (N.shiftr mask 1) first (N.lor value (N.shiftl x (i * 8))) r
  end.
Definition r_number (b : bytes) : pres N := let* (first, r) := r_u8 b in rn_loop 8 0 128 first 0 r.

(* `count` repetitions of a reader (list comprehension / for loop over range(count)) *)
Fixpoint rep {A} (fuel : nat) (n : N) (p : bytes -> pres A) (b : bytes) : pres (list A) :=
  if n =? 0 then POk [] b
  else match fuel with
       | O => PFuel
       | S f => let* (x, r) := p b in let* (l, r') := rep f (N.pred n) p r in POk (x :: l) r'
       end.

(* _read_boolean_vector: bits MSB first, ceil(count/8) bytes *)
Definition bits_of_byte (x : N) : list bool :=
  [N.testbit x 7; N.testbit x 6; N.testbit x 5; N.testbit x 4; N.testbit x 3; N.testbit x 2; N.testbit x 1; N.testbit x 0].
Definition r_boolvec (count : N) (b : bytes) : pres (list bool) :=
  let* (x, r) := r_bytes ((count + 7) / 8) b in POk (firstn (N.to_nat count) (flat_map bits_of_byte x)) r.
Definition r_boolvec_def (count : N) (b : bytes) : pres (list bool) :=
  let* (alld, r) := r_u8 b in
  if negb (alld =? 0) then POk (repeat true (N.to_nat count)) r else r_boolvec count r.

(* the digests that are read and dropped: `defined` vector, then one uint32 per defined entry *)
Fixpoint count_true (l : list bool) : N := match l with [] => 0 | x :: r => (if x then 1 else 0) + count_true r end.
Definition skip_crcs (count : N) (b : bytes) : pres unit :=
  let* (alld, r) := r_u8 b in
  if negb (alld =? 0) then let* (x, r') := r_bytes (4 * count) r in POk tt r'
  else let* (v, r') := r_boolvec count r in let* (x, r'') := r_bytes (4 * count_true v) r' in POk tt r''.

(* ------------------------------------------------------------------ parser state = the reader's fields *)
Record pstate := {
  p_pack : option (N * list N);   (* _pack_positions[0] - 32, _pack_sizes *)
  p_folders : list folder;        (* _folders: coders, unpack_sizes *)
  p_nstreams : list N;            (* folder.num_streams, parallel to p_folders *)
  p_sizes : list N;               (* _file_sizes *)
  p_files : list fentry           (* names / empty-stream flags / attributes handed to _build_file_list *)
}.
Definition st0 : pstate := {| p_pack := None; p_folders := []; p_nstreams := []; p_sizes := []; p_files := [] |}.

Definition expect_end (p : N) {A} (a : A) (r : bytes) : pres A := if p =? P_END then POk a r else PBad.

(* _parse_pack_info after its property id: (pack_pos, sizes) *)
Definition parse_pack_body (fuel : nat) (b : bytes) : pres (N * list N) :=
  let* (pos, r) := r_number b in
  let* (n, r) := r_number r in
  let* (p, r) := r_u8 r in
  let* (szp, r) := (if p =? P_SIZE
                    then let* (l, r') := rep fuel n r_number r in let* (p', r'') := r_u8 r' in POk (l, p') r''
                    else POk ([], p) r) in
  let* (p, r) := (if snd szp =? P_CRC
                  then let* (u, r') := skip_crcs n r in r_u8 r'
                  else POk (snd szp) r) in
  expect_end p (pos, fst szp) r.

(* _parse_folder *)
Definition parse_coder (b : bytes) : pres coder :=
  let* (flags, r) := r_u8 b in
  let* (cid, r) := r_bytes (N.land flags 15) r in
  let* (u, r) := (if N.testbit flags 4
                  then let* (x, r') := r_number r in let* (y, r'') := r_number r' in POk tt r''
                  else POk tt r) in
  if N.testbit flags 5
  then let* (z, r') := r_number r in let* (pr, r'') := r_bytes z r' in POk {| c_id := cid; c_props := Some pr |} r''
  else POk {| c_id := cid; c_props := None |} r.

Definition parse_folder (fuel : nat) (b : bytes) : pres (list coder) :=
  let* (nc, r) := r_number b in
  let* (cs, r) := rep fuel nc parse_coder r in
  let* (bp, r) := rep fuel (2 * (lenN cs - 1)) r_number r in    (* bind pairs: len(coders)-1 times two numbers *)
  POk cs r.

(* unpack sizes: for each folder len(coders) numbers *)
Fixpoint parse_unpack_sizes (fuel : nat) (fl : list (list coder)) (b : bytes) : pres (list folder) :=
  match fl with
  | [] => POk [] b
  | cs :: fr =>
      let* (us, r) := rep fuel (lenN cs) r_number b in
      let* (more, r') := parse_unpack_sizes fuel fr r in
      POk ({| f_coders := cs; f_unpack := us |} :: more) r'
  end.

(* _parse_unpack_info after its property id *)
Definition parse_unpack_body (fuel : nat) (b : bytes) : pres (list folder) :=
  let* (p, r) := r_u8 b in
  if negb (p =? P_FOLDER) then PBad else
  let* (nf, r) := r_number r in
  let* (ext, r) := r_u8 r in
  if negb (ext =? 0) then PBad else
  let* (fcs, r) := rep fuel nf (parse_folder fuel) r in
  let* (p, r) := r_u8 r in
  if negb (p =? P_CODERS_UNPACK_SIZE) then PBad else
  let* (fl, r) := parse_unpack_sizes fuel fcs r in
  let* (p, r) := r_u8 r in
  let* (p, r) := (if p =? P_CRC then let* (u, r') := skip_crcs nf r in r_u8 r' else POk p r) in
  expect_end p fl r.

(* _parse_substreams_info after its property id: (num_streams per folder, _file_sizes) *)
Fixpoint ss_sizes_loop (fuel : nat) (fl : list folder) (nus : list N) (b : bytes) : pres (list N) :=
  match fl, nus with
  | f :: fr, n :: nr =>
      let total := match lastN (f_unpack f) with Some t => t | None => 0 end in
      let* (zs, r) := rep fuel (N.pred n) r_number b in
      let t := total - sumN zs in
      let* (more, r') := ss_sizes_loop fuel fr nr r in
      POk (zs ++ (if 0 <? t then [t] else []) ++ more) r'
  | _, _ => POk [] b
  end.

Definition parse_substreams_body (fuel : nat) (fl : list folder) (b : bytes) : pres (list N * list N) :=
  let* (p, r) := r_u8 b in
  let* (np, r) := (if p =? P_NUM_UNPACK_STREAM
                   then let* (l, r') := rep fuel (lenN fl) r_number r in let* (p', r'') := r_u8 r' in POk (l, p') r''
                   else POk (map (fun _ => 1) fl, p) r) in
  let nus := fst np in
  let* (sp, r) := (if snd np =? P_SIZE
                   then let* (l, r') := ss_sizes_loop fuel fl nus r in let* (p', r'') := r_u8 r' in POk (l, p') r''
                   else POk (unpack_lasts fl, snd np) r) in
  let* (p, r) := (if snd sp =? P_CRC
                  then let* (u, r') := skip_crcs (sumN nus) r in r_u8 r'
                  else POk (snd sp) r) in
  expect_end p (nus, fst sp) r.

(* _parse_streams_info (repaired: without SubStreamsInfo the sizes default to the unpack sizes) *)
Definition parse_streams_info (fuel : nat) (st : pstate) (b : bytes) : pres pstate :=
  let* (p, r) := r_u8 b in
  let* (sp, r) := (if p =? P_PACK_INFO
                   then let* (pk, r') := parse_pack_body fuel r in let* (p', r'') := r_u8 r' in
                        POk ({| p_pack := Some pk; p_folders := p_folders st; p_nstreams := p_nstreams st;
                                p_sizes := p_sizes st; p_files := p_files st |}, p') r''
                   else POk (st, p) r) in
  let st := fst sp in
  let* (sp, r) := (if snd sp =? P_UNPACK_INFO
                   then let* (fl, r') := parse_unpack_body fuel r in let* (p', r'') := r_u8 r' in
                        POk ({| p_pack := p_pack st; p_folders := fl; p_nstreams := map (fun _ => 1) fl;
                                p_sizes := p_sizes st; p_files := p_files st |}, p') r''
                   else POk (st, snd sp) r) in
  let st := fst sp in
  let* (sp, r) := (if snd sp =? P_SUBSTREAMS
                   then let* (ns, r') := parse_substreams_body fuel (p_folders st) r in let* (p', r'') := r_u8 r' in
                        POk ({| p_pack := p_pack st; p_folders := p_folders st; p_nstreams := fst ns;
                                p_sizes := snd ns; p_files := p_files st |}, p') r''
                   else POk ({| p_pack := p_pack st; p_folders := p_folders st; p_nstreams := p_nstreams st;
                                p_sizes := unpack_lasts (p_folders st); p_files := p_files st |}, snd sp) r) in
  expect_end (snd sp) (fst sp) r.

(* ------------------------------------------------------------------ _parse_files_info *)
(* one UTF-16LE name: code units until 0 *)
Fixpoint r_name (fuel : nat) (b : bytes) : pres str :=
  match fuel with
  | O => PFuel
  | S f => let* (c, r) := r_u16 b in
           if c =? 0 then POk [] r else let* (t, r') := r_name f r in POk (c :: t) r'
  end.

(* "".join(chr(u) for u in units).encode("utf-16-le", "surrogatepass").decode("utf-16-le", "surrogatepass"):
   a high surrogate followed by a low surrogate becomes one code point, a lone surrogate stays as it is *)
Definition is_high (u : N) : bool := (55296 <=? u) && (u <=? 56319).     (* D800..DBFF *)
Definition is_low (u : N) : bool := (56320 <=? u) && (u <=? 57343).      (* DC00..DFFF *)
Fixpoint join_pairs (l : list N) : str :=
  match l with
  | [] => []
  | h :: r =>
      match r with
      | lo :: r' => if is_high h && is_low lo
                    then (65536 + (h - 55296) * 1024 + (lo - 56320)) :: join_pairs r'
                    else h :: join_pairs r
      | [] => [h]
      end
  end.

Record facc := { a_empty : list bool; a_names : list str; a_attrs : list N }.

Fixpoint set_attrs (defined : list bool) (old : list N) (vals : bytes) : pres (list N) :=
  match defined, old with
  | d :: dr, o :: orest =>
      if d then let* (v, r) := r_u32 vals in let* (more, r') := set_attrs dr orest r in POk (v :: more) r'
      else let* (more, r') := set_attrs dr orest vals in POk (o :: more) r'
  | _, _ => POk old vals
  end.

Definition files_prop (fuel : nat) (nf : N) (p : N) (acc : facc) (b : bytes) : pres facc :=
  if p =? P_EMPTY_STREAM then
    let* (v, r) := r_boolvec nf b in POk {| a_empty := v; a_names := a_names acc; a_attrs := a_attrs acc |} r
  else if p =? P_NAME then
    let* (ext, r) := r_u8 b in
    if negb (ext =? 0) then PBad else
    let* (ns, r') := rep fuel nf (r_name fuel) r in POk {| a_empty := a_empty acc; a_names := map join_pairs ns; a_attrs := a_attrs acc |} r'
  else if p =? P_WIN_ATTRIBUTES then
    let* (dv, r) := r_boolvec_def nf b in
    let* (at', r') := set_attrs dv (a_attrs acc) r in POk {| a_empty := a_empty acc; a_names := a_names acc; a_attrs := at' |} r'
  else POk acc b.

Fixpoint files_loop (fuel : nat) (fuel0 : nat) (nf : N) (acc : facc) (b : bytes) : pres facc :=
  match fuel with
  | O => PFuel
  | S f =>
      let* (p, r) := r_u8 b in
      if p =? P_END then POk acc r else
      let* (size, r) := r_number r in
      let* (acc', unused) := files_prop fuel0 nf p acc r in
      files_loop f fuel0 nf acc' (dropN size r)
  end.

Fixpoint zip3 (e : list bool) (n : list str) (a : list N) : list fentry :=
  match e, n, a with
  | x :: e', y :: n', z :: a' => {| e_name := y; e_empty := x; e_attr := z |} :: zip3 e' n' a'
  | _, _, _ => []
  end.

Definition parse_files_info (fuel : nat) (b : bytes) : pres (list fentry) :=
  let* (nf, r) := r_number b in
  let k := N.to_nat nf in
  let* (acc, r) := files_loop fuel fuel nf {| a_empty := repeat false k; a_names := repeat [] k; a_attrs := repeat 0 k |} r in
  POk (zip3 (a_empty acc) (a_names acc) (a_attrs acc)) r.

(* ------------------------------------------------------------------ _parse_main_header *)
Fixpoint skip_archive_props (fuel : nat) (b : bytes) : pres unit :=
  match fuel with
  | O => PFuel
  | S f => let* (p, r) := r_u8 b in
           if p =? P_END then POk tt r else
           let* (size, r) := r_number r in let* (x, r) := r_bytes size r in skip_archive_props f r
  end.

Definition parse_main_header (fuel : nat) (st : pstate) (b : bytes) : pres pstate :=
  let* (p, r) := r_u8 b in
  let* (p, r) := (if p =? P_ARCHIVE_PROPERTIES then let* (u, r') := skip_archive_props fuel r in r_u8 r' else POk p r) in
  let* (sp, r) := (if p =? P_ADDITIONAL_STREAMS
                   then let* (s', r') := parse_streams_info fuel st r in let* (p', r'') := r_u8 r' in POk (s', p') r''
                   else POk (st, p) r) in
  let* (sp, r) := (if snd sp =? P_MAIN_STREAMS
                   then let* (s', r') := parse_streams_info fuel (fst sp) r in let* (p', r'') := r_u8 r' in POk (s', p') r''
                   else POk sp r) in
  let st := fst sp in
  let* (sp, r) := (if snd sp =? P_FILES_INFO
                   then let* (fs, r') := parse_files_info fuel r in let* (p', r'') := r_u8 r' in
                        POk ({| p_pack := p_pack st; p_folders := p_folders st; p_nstreams := p_nstreams st;
                                p_sizes := p_sizes st; p_files := fs |}, p') r''
                   else POk (st, snd sp) r) in
  expect_end (snd sp) (fst sp) r.

Section Open.
  Variable T : tables.
  Variable lzma_alone : bytes -> option N -> bytes -> dres.
  Variable lzma2_raw : N -> bytes -> dres.
  Variable crc32 : bytes -> N.

  (* coders in reverse order; an AES coder raises Encrypted7zError when it is reached *)
  Fixpoint apply_chain_e (cs : list coder) (unpack : list N) (data : bytes) : pres bytes :=
    match cs with
    | [] => POk data []
    | c :: r =>
        if startswith (c_id c) (aes_prefix T) then PEnc
        else match apply_decoder T lzma_alone lzma2_raw c unpack data with
             | DErr => PBad
             | DOk d => apply_chain_e r unpack d
             end
    end.

  (* skip_substreams_info of the encoded header *)
  Fixpoint skip_ss_sizes (fuel : nat) (nus : list N) (b : bytes) : pres unit :=
    match nus with
    | [] => POk tt b
    | n :: nr => let* (zs, r) := rep fuel (N.pred n) r_number b in skip_ss_sizes fuel nr r
    end.
  Definition skip_substreams (fuel : nat) (nfolders : N) (b : bytes) : pres (list N) :=
    let* (p, r) := r_u8 b in
    let* (np, r) := (if p =? P_NUM_UNPACK_STREAM
                     then let* (l, r') := rep fuel nfolders r_number r in let* (p', r'') := r_u8 r' in POk (l, p') r''
                     else POk (repeat 1 (N.to_nat nfolders), p) r) in
    let* (p, r) := (if snd np =? P_SIZE
                    then let* (u, r') := skip_ss_sizes fuel (fst np) r in r_u8 r'
                    else POk (snd np) r) in
    let* (p, r) := (if p =? P_CRC then let* (u, r') := skip_crcs (sumN (fst np)) r in r_u8 r' else POk p r) in
    expect_end p (fst np) r.

  (* _parse_encoded_header: `body` = the archive after its 32-byte start header.
     Returns the decompressed header (the new stream) and the state the two sub-parsers left behind. *)
  Definition parse_encoded_header (fuel : nat) (body : bytes) (b : bytes) : pres (pstate * bytes) :=
    let* (p, r) := r_u8 b in
    let* (pk, r) := (if p =? P_PACK_INFO then let* (x, r') := parse_pack_body fuel r in POk (Some x) r' else POk None b) in
    let* (p, r) := r_u8 r in
    if negb (p =? P_UNPACK_INFO) then PBad else      (* no unpack info -> "No unpack info in encoded header" *)
    let* (fl, r) := parse_unpack_body fuel r in
    match fl with
    | [] => PBad
    | f0 :: _ =>
        let* (p, r) := r_u8 r in
        let* (np, r) := (if p =? P_SUBSTREAMS
                         then let* (nus, r') := skip_substreams fuel (lenN fl) r in let* (p', r'') := r_u8 r' in POk (nus, p') r''
                         else POk (map (fun _ => 1) fl, p) r) in
        if negb (snd np =? P_END) then PBad else
        let pos := match pk with Some (q, _) => q | None => 0 end in
        let sizes := match pk with Some (_, z) => z | None => [] end in
        match f_coders f0 with
        | [] => PBad
        | cs => let* (d, u) := apply_chain_e (rev cs) (f_unpack f0) (read_at body pos (sumN sizes)) in
                POk ({| p_pack := pk; p_folders := fl; p_nstreams := fst np; p_sizes := []; p_files := [] |}, d) r
        end
    end.

  (* _parse_end_header on the end-header bytes *)
  Definition parse_end_header (fuel : nat) (body : bytes) (hdr : bytes) : pres pstate :=
    let* (p, r) := r_u8 hdr in
    let* (sp, r) := (if p =? P_ENCODED_HEADER
                     then let* (sd, r') := parse_encoded_header fuel body r in
                          let* (p', r'') := r_u8 (snd sd) in POk (fst sd, p', S (List.length (snd sd))) r''
                     else POk (st0, p, fuel) r) in
    let '(st, p, fuel2) := sp in
    if p =? P_HEADER then parse_main_header fuel2 st r
    else if p =? P_END then POk st r
    else PBad.

  (* _parse_header: signature, version, start-header CRC, end-header location and CRC.
     Returns (end-header bytes, body = file after the 32-byte start header). *)
  Definition MAGIC7 : bytes := [55; 122; 188; 175; 39; 28].
  Definition open_7z (file : bytes) : pres (bytes * bytes) :=
    let* (mg, r) := r_bytes 6 file in
    if negb (str_eqb mg MAGIC7) then PBad else
    let* (major, r) := r_u8 r in
    let* (minor, r) := r_u8 r in
    if negb (major =? 0) || (4 <? minor) then PBad else
    let* (scrc, r) := r_u32 r in
    let* (off8, r) := r_bytes 8 r in
    let* (size8, r) := r_bytes 8 r in
    let* (ncrc, r) := r_u32 r in
    if negb (crc32 (takeN 20 (dropN 12 file)) =? scrc) then PBad else
    let hd := takeN (le_val size8) (dropN (le_val off8) r) in
    if negb (lenN hd =? le_val size8) then PBad else
    if negb (crc32 hd =? ncrc) then PBad else POk (hd, r) [].

  (* SevenZipReader(file): fuel for every loop = length of the stream being parsed + 1 *)
  Definition parse_7z (file : bytes) : pres pstate :=
    let* (hb, u) := open_7z file in
    parse_end_header (S (List.length file)) (snd hb) (fst hb).
End Open.

(* the reader state a header description stands for *)
Definition state_of (h : header) : option pstate :=
  match file_sizes rev_new (h_folders h) (h_ss h) with
  | None => None
  | Some sz => Some {| p_pack := h_pack h; p_folders := h_folders h; p_nstreams := num_streams (h_folders h) (h_ss h);
                       p_sizes := sz; p_files := h_files h |}
  end.
