(* C10 — executable model of archive member extraction
   (sharepoint2text/parsing/extractors/archive_extractor.py and util/sevenzip.py).

   Definitions only.  Third-party behaviour is an oracle (Section variable):
     lzma_alone / lzma2_raw   the lzma module (FORMAT_ALONE / FORMAT_RAW decompressors)
     supported                router.is_supported_file(basename)
     lower                    str.lower
     extract                  get_extractor(basename)(BytesIO(data), path=full_path): the results it yields
                              (an exception after k results is swallowed by _process_archive_entry)
   zipfile / tarfile listings and per-member reads are inputs (zinfo / tinfo records).
   The 7z header enters as the structure the header parser produces (pack sizes, folders with
   coders and unpack sizes, raw SubStreamsInfo numbers, file entries with empty-stream flag and
   attributes); everything from _parse_substreams_info on is modelled.

   `rev` selects the revision of sevenzip.py / archive_extractor.py:
     per_folder    = extractall gives every folder its own pack stream (fixes/C10-7z-per-folder-pack-stream.patch)
                     false: the original code (always the first pack position with all pack sizes)
     default_sizes = without SubStreamsInfo the file sizes default to the folders' unpack sizes (same patch)
     zip_local     = a member whose zf.read fails (other than RuntimeError) is skipped
                     (fixes/C10-zip-corrupt-member-local.patch); false: the error aborts the archive *)
From Coq Require Import ZArith List Bool Lia ZifyBool.
From S2T Require Import Lib.PyStr.
Import ListNotations.
Open Scope N_scope.

Definition bytes := list N.

(* ---------------------------------------------------------------- N-indexed list slicing *)
Fixpoint takeN {A} (n : N) (l : list A) : list A :=
  match l with
  | [] => []
  | x :: r => if n =? 0 then [] else x :: takeN (N.pred n) r
  end.

Fixpoint dropN {A} (n : N) (l : list A) : list A :=
  match l with
  | [] => []
  | x :: r => if n =? 0 then l else dropN (N.pred n) r
  end.

Fixpoint lenN {A} (l : list A) : N :=
  match l with [] => 0 | _ :: r => N.succ (lenN r) end.

Fixpoint sumN (l : list N) : N := match l with [] => 0 | x :: r => x + sumN r end.

Definition lastN (l : list N) : option N := match rev l with [] => None | x :: _ => Some x end.

(* os.path.basename (POSIX): everything after the last '/' *)
Definition SLASH : N := 47.
Definition basename (p : str) : str := rev (takeWhile (fun c => negb (c =? SLASH)) (rev p)).

(* ---------------------------------------------------------------- tables (regenerated: Gen/C10Tables.v) *)
Record tables := {
  magic : list (bytes * str * N);   (* MAGIC_SIGNATURES: (magic, archive type, compared length) *)
  tar_magic_offset : N;
  tar_magic : bytes;
  nested : list str;                (* NESTED_ARCHIVE_EXTENSIONS *)
  max_archive_file : N;             (* MAX_ARCHIVE_FILE_SIZE *)
  max_memory : N;                   (* _config.max_memory_size *)
  max_7z : N;                       (* MAX_7Z_FILE_SIZE *)
  aes_prefix : bytes;               (* CODER_AES_PREFIX *)
  id_copy : bytes; id_lzma : bytes; id_lzma2 : bytes; id_bcj : bytes
}.

Record revision := { per_folder : bool; default_sizes : bool; zip_local : bool }.
Definition rev_old := {| per_folder := false; default_sizes := false; zip_local := false |}.
Definition rev_new := {| per_folder := true; default_sizes := true; zip_local := true |}.

Inductive exn := Failed | Encrypted | TooLarge.   (* ExtractionFailedError / ...FileEncryptedError / ...FileTooLargeError *)
Inductive term := Done | Raise (e : exn).

(* ---------------------------------------------------------------- 7z header as parsed *)
Inductive dres := DOk (b : bytes) | DErr.

Record coder := { c_id : bytes; c_props : option bytes }.
Record folder := { f_coders : list coder; f_unpack : list N }.
Record substreams := { ss_nus : option (list N); ss_sizes : option (list N) }.
Record fentry := { e_name : str; e_empty : bool; e_attr : N }.
Record header := {
  h_pack : option (N * list N);      (* PackInfo: pack_pos (relative to the end of the 32-byte start header), pack sizes *)
  h_folders : list folder;
  h_ss : option substreams;
  h_files : list fentry
}.

Record finfo := { fi_name : str; fi_size : N; fi_dir : bool }.

(* ---------------------------------------------------------------- zipfile / tarfile views *)
Inductive zread := ZOk (b : bytes) | ZRuntime | ZBadZip | ZOther.
Record zinfo := { z_name : str; z_isdir : bool; z_flags : N; z_size : N; z_read : zread }.
Inductive tread := TOk (b : bytes) | TNone | TExc.
Record tinfo := { t_name : str; t_isreg : bool; t_size : N; t_read : tread }.

Section Model.
  Variable R : Type.                                         (* an extraction result *)
  Variable T : tables.
  Variable lzma_alone : bytes -> option N -> bytes -> dres.  (* props[:5], known unpack size, data *)
  Variable lzma2_raw : N -> bytes -> dres.                   (* property byte, data *)
  Variable supported : str -> bool.
  Variable lower : str -> str.
  Variable extract : str -> bytes -> str -> list R.

  Record outcome := { yields : list R; fin : term }.

  (* -------------------------------------------------------------- _should_skip_file / _process_archive_entry *)
  Definition should_skip (filename bn : str) : bool :=
    startswith bn (s ".") || startswith filename (s "__MACOSX/")
    || negb (supported bn)
    || existsb (fun e => endswith (lower bn) e) (nested T).

  Definition full_path (apath : option str) (filename : str) : str :=
    match apath with
    | Some (c :: a) => (c :: a) ++ s "!/" ++ filename
    | _ => filename
    end.

  Definition process_entry (filename : str) (data : bytes) (apath : option str) (bn : str) : list R :=
    if max_archive_file T <? lenN data then [] else extract bn data (full_path apath filename).

  (* -------------------------------------------------------------- ZIP *)
  (* first pass: None = an encrypted entry was met (raise before anything is yielded) *)
  Fixpoint zip_select (l : list zinfo) : option (list zinfo) :=
    match l with
    | [] => Some []
    | i :: r =>
        if z_isdir i then zip_select r
        else if N.testbit (z_flags i) 0 then None
        else if should_skip (z_name i) (basename (z_name i)) then zip_select r
        else match zip_select r with None => None | Some k => Some (i :: k) end
    end.

  Fixpoint zip_process (rv : revision) (l : list zinfo) (apath : option str) : outcome :=
    match l with
    | [] => {| yields := []; fin := Done |}
    | i :: r =>
        if max_memory T <? z_size i then zip_process rv r apath
        else match z_read i with
             | ZOk d => let o := zip_process rv r apath in
                        {| yields := process_entry (z_name i) d apath (basename (z_name i)) ++ yields o; fin := fin o |}
             | ZRuntime => {| yields := []; fin := Raise Encrypted |}
             | _ => if zip_local rv then zip_process rv r apath else {| yields := []; fin := Raise Failed |}
             end
    end.

  (* zopen = None: zipfile.ZipFile(...) raised *)
  Definition read_zip (rv : revision) (zopen : option (list zinfo)) (apath : option str) : outcome :=
    match zopen with
    | None => {| yields := []; fin := Raise Failed |}
    | Some l => match zip_select l with
                | None => {| yields := []; fin := Raise Encrypted |}
                | Some k => zip_process rv k apath
                end
    end.

  (* -------------------------------------------------------------- TAR *)
  Fixpoint tar_process (l : list tinfo) (apath : option str) : list R :=
    match l with
    | [] => []
    | m :: r =>
        if negb (t_isreg m) then tar_process r apath
        else if should_skip (t_name m) (basename (t_name m)) then tar_process r apath
        else if max_memory T <? t_size m then tar_process r apath
        else match t_read m with
             | TOk d => process_entry (t_name m) d apath (basename (t_name m)) ++ tar_process r apath
             | _ => tar_process r apath
             end
    end.

  Definition read_tar (topen : option (list tinfo)) (apath : option str) : outcome :=
    match topen with
    | None => {| yields := []; fin := Raise Failed |}
    | Some l => {| yields := tar_process l apath; fin := Done |}
    end.

  (* -------------------------------------------------------------- 7z: _parse_substreams_info *)
  (* one folder of the PROP_SIZE loop: reads num_streams-1 numbers, the rest of the folder's unpack
     size is the last file (appended only when > 0).  None = ran out of numbers. *)
  Fixpoint read_sizes (k : nat) (raw : list N) (total : N) : option (list N * list N * N) :=
    match k with
    | O => Some ([], raw, total)
    | S k' => match raw with
              | [] => None
              | z :: raw' => match read_sizes k' raw' (total - z) with
                             | None => None
                             | Some (l, rest, t) => Some (z :: l, rest, t)
                             end
              end
    end.

  Fixpoint sizes_prop (fl : list folder) (nus : list N) (raw : list N) : option (list N) :=
    match fl, nus with
    | [], _ => Some []
    | f :: fr, n :: nr =>
        let total := match lastN (f_unpack f) with Some t => t | None => 0 end in
        match read_sizes (N.to_nat (N.pred n)) raw total with
        | None => None
        | Some (l, rest, t) =>
            match sizes_prop fr nr rest with
            | None => None
            | Some more => Some (l ++ (if 0 <? t then [t] else []) ++ more)
            end
        end
    | _ :: _, [] => None
    end.

  Fixpoint unpack_lasts (fl : list folder) : list N :=
    match fl with
    | [] => []
    | f :: r => match lastN (f_unpack f) with Some t => t :: unpack_lasts r | None => unpack_lasts r end
    end.

  (* num_streams per folder and _file_sizes.  None = header inconsistent (parser would run off). *)
  Definition num_streams (fl : list folder) (ss : option substreams) : list N :=
    match ss with
    | Some {| ss_nus := Some l |} => l
    | _ => map (fun _ => 1) fl
    end.

  Definition file_sizes (rv : revision) (fl : list folder) (ss : option substreams) : option (list N) :=
    match ss with
    | None => Some (if default_sizes rv then unpack_lasts fl else [])
    | Some x => match ss_sizes x with
                | Some raw => sizes_prop fl (num_streams fl ss) raw
                | None => Some (unpack_lasts fl)
                end
    end.

  (* -------------------------------------------------------------- 7z: _build_file_list *)
  Definition is_dir (e : fentry) : bool := e_empty e || N.testbit (e_attr e) 4.

  Fixpoint file_infos (es : list fentry) (sizes : list N) : list finfo :=
    match es with
    | [] => []
    | e :: r =>
        if is_dir e then {| fi_name := e_name e; fi_size := 0; fi_dir := true |} :: file_infos r sizes
        else match sizes with
             | z :: zs => {| fi_name := e_name e; fi_size := z; fi_dir := false |} :: file_infos r zs
             | [] => {| fi_name := e_name e; fi_size := 0; fi_dir := false |} :: file_infos r []
             end
    end.

  (* the files of one folder: directories are passed over, non-directories are taken until
     file_in_folder >= num_streams (so at least one).  Returns (taken, remaining list). *)
  Fixpoint take_folder (n c : N) (fs : list finfo) : list finfo * list finfo :=
    match fs with
    | [] => ([], [])
    | f :: r =>
        if fi_dir f then take_folder n c r
        else if n <=? c + 1 then ([f], r)
        else let tr := take_folder n (c + 1) r in (f :: fst tr, snd tr)
    end.

  (* _folder_to_files as a list indexed by folder *)
  Fixpoint folder_files (nss : list N) (fs : list finfo) : list (list finfo) :=
    match nss with
    | [] => []
    | n :: r => let tr := take_folder n 0 fs in fst tr :: folder_files r (snd tr)
    end.

  (* -------------------------------------------------------------- 7z: decoding *)
  Definition apply_decoder (c : coder) (unpack : list N) (data : bytes) : dres :=
    if str_eqb (c_id c) (id_copy T) then DOk data
    else if str_eqb (c_id c) (id_lzma T) then
      match c_props c with
      | Some p => if lenN p <? 5 then DErr else lzma_alone (takeN 5 p) (lastN unpack) data
      | None => DErr
      end
    else if str_eqb (c_id c) (id_lzma2 T) then
      match c_props c with
      | Some (b :: _) => lzma2_raw b data
      | _ => DErr
      end
    else if str_eqb (c_id c) (id_bcj T) then DOk data
    else DErr.

  (* coders applied in reverse order *)
  Fixpoint apply_chain (cs : list coder) (unpack : list N) (data : bytes) : dres :=
    match cs with
    | [] => DOk data
    | c :: r => match apply_decoder c unpack data with
                | DErr => DErr
                | DOk d => apply_chain r unpack d
                end
    end.

  (* file.seek(pos); file.read(total)   with total == 0 meaning "to the end of the file".
     `body` = the archive after its 32-byte start header; pos is relative to it. *)
  Definition read_at (body : bytes) (pos total : N) : bytes :=
    if total =? 0 then dropN pos body else takeN total (dropN pos body).

  Definition decompress_folder (f : folder) (body : bytes) (pos : N) (sizes : list N) : dres :=
    match f_coders f with
    | [] => DErr
    | cs => apply_chain (rev cs) (f_unpack f) (read_at body pos (sumN sizes))
    end.

  (* _extract_files_from_folder: None = "exceeds decompressed data bounds" *)
  Fixpoint slice_files (fs : list finfo) (data : bytes) (off : N) : option (list (str * bytes)) :=
    match fs with
    | [] => Some []
    | f :: r =>
        if lenN data <? off + fi_size f then None
        else match slice_files r data (off + fi_size f) with
             | None => None
             | Some l => Some ((fi_name f, takeN (fi_size f) (dropN off data)) :: l)
             end
    end.

  (* extractall: the list of (name, bytes) written, in order; None = it raised *)
  Fixpoint extractall (rv : revision) (body : bytes) (all_sizes : list N) (pos0 : N)
           (fl : list folder) (chunks : list (list finfo)) (ps : list N) (pos : N)
    : option (list (str * bytes)) :=
    match fl, chunks with
    | f :: fr, ch :: cr =>
        let mine := match ps with [] => [] | z :: _ => [z] end in
        let next := pos + sumN mine in
        match ch with
        | [] => extractall rv body all_sizes pos0 fr cr (tl ps) next
        | _ =>
            let d := if per_folder rv then decompress_folder f body pos mine
                     else decompress_folder f body pos0 all_sizes in
            match d with
            | DErr => None
            | DOk data =>
                match slice_files ch data 0 with
                | None => None
                | Some w => match extractall rv body all_sizes pos0 fr cr (tl ps) next with
                            | None => None
                            | Some w' => Some (w ++ w')
                            end
                end
            end
        end
    | _, _ => Some []
    end.

  (* the temporary directory: last write to a name wins *)
  Definition fs_read (w : list (str * bytes)) (name : str) : option bytes := assoc name (rev w).

  Definition needs_password (fl : list folder) : bool :=
    existsb (fun f => existsb (fun c => startswith (c_id c) (aes_prefix T)) (f_coders f)) fl.

  Definition wanted7 (f : finfo) : bool :=
    negb (fi_dir f) && negb (should_skip (fi_name f) (basename (fi_name f))) && negb (max_memory T <? fi_size f).

  Fixpoint process7 (fs : list finfo) (w : list (str * bytes)) (apath : option str) : list R :=
    match fs with
    | [] => []
    | f :: r => match fs_read w (fi_name f) with
                | None => process7 r w apath
                | Some d => process_entry (fi_name f) d apath (basename (fi_name f)) ++ process7 r w apath
                end
    end.

  Definition list7 (rv : revision) (h : header) : option (list finfo) :=
    match file_sizes rv (h_folders h) (h_ss h) with
    | None => None
    | Some sz => Some (file_infos (h_files h) sz)
    end.

  (* _extract_from_7z_optimized.  asize = size of the archive in bytes; parsed = None when
     SevenZipFile(...) raised; body = archive bytes after the 32-byte start header. *)
  Definition read_7z (rv : revision) (asize : N) (parsed : option header) (body : bytes) (apath : option str) : outcome :=
    if max_7z T <? asize then {| yields := []; fin := Raise TooLarge |}
    else match parsed with
    | None => {| yields := []; fin := Raise Failed |}
    | Some h =>
        match list7 rv h with
        | None => {| yields := []; fin := Raise Failed |}
        | Some infos =>
            if needs_password (h_folders h) then {| yields := []; fin := Raise Encrypted |}
            else
              let pos0 := match h_pack h with Some (p, _) => p | None => 0 end in
              let sizes := match h_pack h with Some (_, z) => z | None => [] end in
              let chunks := folder_files (num_streams (h_folders h) (h_ss h)) infos in
              match extractall rv body sizes pos0 (h_folders h) chunks sizes pos0 with
              | None => {| yields := []; fin := Raise Failed |}
              | Some w => {| yields := process7 (filter wanted7 infos) w apath; fin := Done |}
              end
        end
    end.

  (* -------------------------------------------------------------- detection and routing *)
  Fixpoint detect_magic (m : list (bytes * str * N)) (head : bytes) : option str :=
    match m with
    | [] => None
    | (mg, ty, len) :: r => if str_eqb (takeN len head) mg then Some ty else detect_magic r head
    end.

  (* header = first 512 bytes of the file.  Repaired (fixes/C10-tar-magic-order.patch): a block that tarfile
     accepts as a member header (valid checksum; oracle tar_block_ok) wins over the leading-bytes signatures;
     the bare ustar magic at offset 257 remains the last resort. *)
  Definition ustar_in (head : bytes) : bool :=
    (tar_magic_offset T + 5 <=? lenN head)
    && str_eqb (takeN 5 (dropN (tar_magic_offset T) head)) (tar_magic T).

  Variable tar_block_ok : bytes -> bool.      (* tarfile.TarInfo.frombuf(head) does not raise HeaderError *)

  Definition detect (file : bytes) : option str :=
    let head := takeN 512 file in
    match head with
    | [] => None
    | _ => if ustar_in head && tar_block_ok head then Some (s "tar")
           else match detect_magic (magic T) head with
                | Some ty => Some ty
                | None => if ustar_in head then Some (s "tar") else None
                end
    end.

  (* the original order: signatures first, ustar last *)
  Definition detect_old (file : bytes) : option str :=
    let head := takeN 512 file in
    match head with
    | [] => None
    | _ => match detect_magic (magic T) head with
           | Some ty => Some ty
           | None => if ustar_in head then Some (s "tar") else None
           end
    end.

  Inductive handler := HZip | H7z | HTar (mode : str) | HNone.

  (* archive_type.split('.')[-1] *)
  Definition DOT : N := 46.
  Definition last_dot_part (t : str) : str := rev (takeWhile (fun c => negb (c =? DOT)) (rev t)).

  Definition route (ty : str) : handler :=
    if str_eqb ty (s "zip") then HZip
    else if str_eqb ty (s "7z") then H7z
    else if mem_str ty [s "tar"; s "tar.gz"; s "tar.bz2"; s "tar.xz"] then HTar (s "r:" ++ last_dot_part ty)
    else HNone.

End Model.

Arguments yields {R}.
Arguments fin {R}.
Arguments Build_outcome {R}.
