(* C10 — property theorems.  Oracles (lzma decoders, router, str.lower, member extractors, the result type)
   are universally quantified; `rev_new` is the reader after fixes/C10-*.patch, `rev_old` before. *)
From Coq Require Import ZArith List Bool.
From S2T Require Import Lib.PyStr C10.Model C10.Spec C10.Proofs.
Import ListNotations.
Open Scope N_scope.

(* 7z, every standard layout: any cut of the file list into folders (solid, one folder per file, anything between),
   any coder whose pack stream decodes to the folder's data (copy, LZMA, LZMA2, ...), 7-Zip-style or full
   SubStreamsInfo, directories and empty files interleaved, any bytes before / after the pack area:
   the results are exactly the entries of the supported visible data members, in archive order, each made from the
   member's own bytes under its basename and the label archive!/member, and nothing is raised. *)
Theorem C10_7z_members_exact :
  forall (R : Type) (T : tables) lzma_alone lzma2_raw supported lower (extract : str -> bytes -> str -> list R)
         (L : layout) (full : bool) (junk trailer : bytes) (attr_dir attr_file asize : N) (apath : option str),
    std7z_ok T lzma_alone lzma2_raw L attr_file asize = true ->
    read_7z R T lzma_alone lzma2_raw supported lower extract rev_new asize
            (Some (pack7z full attr_dir attr_file (lenN junk) L)) (body7z junk L trailer) apath
    = {| yields := expected7 R T supported lower extract apath (all_members L); fin := Done |}.
Proof. intros. apply members_exact_7z. assumption. Qed.
Print Assumptions C10_7z_members_exact.

(* the hypothesis is satisfiable: two folders with one file each (copy coder) *)
Example C10_7z_hypothesis_satisfiable : std7z_ok T0 la0 l20 L2 32 200 = true.
Proof. exact L2_ok. Qed.
Print Assumptions C10_7z_hypothesis_satisfiable.

(* the same without SubStreamsInfo (one file per folder) *)
Theorem C10_7z_members_exact_no_substreams :
  forall (R : Type) (T : tables) lzma_alone lzma2_raw supported lower (extract : str -> bytes -> str -> list R)
         (L : layout) (junk trailer : bytes) (attr_dir attr_file asize : N) (apath : option str),
    std7z_ok T lzma_alone lzma2_raw L attr_file asize = true -> one_file_per_folder L = true ->
    read_7z R T lzma_alone lzma2_raw supported lower extract rev_new asize
            (Some (pack7z_with None attr_dir attr_file (lenN junk) L)) (body7z junk L trailer) apath
    = {| yields := expected7 R T supported lower extract apath (all_members L); fin := Done |}.
Proof. intros. apply members_exact_7z_no_substreams; assumption. Qed.
Print Assumptions C10_7z_members_exact_no_substreams.

(* REFUTED for the original reader: with two folders the second member receives the first folder's bytes *)
Theorem C10_7z_multi_folder_refuted :
  exists (L : layout),
    std7z_ok T0 la0 l20 L 32 200 = true /\
    read_7z call T0 la0 l20 yes idl ext0 rev_old 200 (Some (pack7z false 16 32 0 L)) (body7z [] L []) (Some (s "x.7z"))
    <> {| yields := expected7 call T0 yes idl ext0 (Some (s "x.7z")) (all_members L); fin := Done |}.
Proof.
  exists L2. split; [exact L2_ok|]. rewrite multi_folder_old_wrong, multi_folder_expected. intro H. discriminate H.
Qed.
Print Assumptions C10_7z_multi_folder_refuted.

(* REFUTED for the original reader: without SubStreamsInfo every member comes back empty *)
Theorem C10_7z_no_substreams_refuted :
  exists (L : layout),
    std7z_ok T0 la0 l20 L 32 200 = true /\ one_file_per_folder L = true /\
    read_7z call T0 la0 l20 yes idl ext0 rev_old 200 (Some (pack7z_with None 16 32 0 L)) (body7z [] L []) (Some (s "x.7z"))
    <> {| yields := expected7 call T0 yes idl ext0 (Some (s "x.7z")) (all_members L); fin := Done |}.
Proof.
  exists L2. split; [exact L2_ok|]. split; [reflexivity|].
  rewrite no_substreams_old_wrong, multi_folder_expected. intro H. discriminate H.
Qed.
Print Assumptions C10_7z_no_substreams_refuted.

(* REFUTED (open finding 7z-empty-file-dropped): a 7z empty file yields nothing although the same member of a
   ZIP/TAR yields its entry — the full statement "all supported visible members" fails for 7z *)
Theorem C10_7z_empty_file_refuted :
  exists (L : layout),
    std7z_ok T0 la0 l20 L 32 200 = true /\
    yields (read_7z call T0 la0 l20 yes idl ext0 rev_new 200 (Some (pack7z false 16 32 0 L)) (body7z [] L []) None)
    <> expected call T0 yes idl ext0 None (all_members L).
Proof. exists L3. split; [exact L3_ok|]. vm_compute. intro H. discriminate H. Qed.
Print Assumptions C10_7z_empty_file_refuted.

(* REFUTED (open finding 7z-corrupt-folder-aborts-archive): one undecodable folder loses the intact members too *)
Theorem C10_7z_corrupt_member_local_refuted :
  exists (L : layout) (bad : bytes),
    std7z_ok T0 la0 l20 L 32 200 = true /\
    read_7z call T0 la0 l20 yes idl ext0 rev_new 200 (Some (pack7z false 16 32 0 L)) bad None
    = {| yields := []; fin := Raise Failed |}.
Proof. exists L4, L4_corrupt_body. split; [exact L4_ok|]. vm_compute. reflexivity. Qed.
Print Assumptions C10_7z_corrupt_member_local_refuted.

(* ZIP (stored or deflated: zipfile reports names, sizes and bytes of the members; flags without the encryption bit) *)
Theorem C10_zip_members_exact :
  forall (R : Type) (T : tables) supported lower (extract : str -> bytes -> str -> list R)
         (rv : revision) (flags : N) (apath : option str) (ms : list member),
    N.testbit flags 0 = false ->
    read_zip R T supported lower extract rv (Some (map (zinfo_of flags) ms)) apath
    = {| yields := expected R T supported lower extract apath ms; fin := Done |}.
Proof. intros. apply members_exact_zip. assumption. Qed.
Print Assumptions C10_zip_members_exact.

(* TAR (plain/gz/bz2/xz: tarfile reports the members) *)
Theorem C10_tar_members_exact :
  forall (R : Type) (T : tables) supported lower (extract : str -> bytes -> str -> list R)
         (apath : option str) (ms : list member),
    read_tar R T supported lower extract (Some (map tinfo_of ms)) apath
    = {| yields := expected R T supported lower extract apath ms; fin := Done |}.
Proof. intros. apply members_exact_tar. Qed.
Print Assumptions C10_tar_members_exact.

(* a corrupt ZIP member (zf.read fails with anything but RuntimeError) affects only itself — repaired loop,
   arbitrary listings *)
Theorem C10_zip_corrupt_member_local :
  forall (R : Type) (T : tables) supported lower (extract : str -> bytes -> str -> list R)
         (l1 l2 : list zinfo) (i : zinfo) (apath : option str),
    N.testbit (z_flags i) 0 = false -> zread_failed (z_read i) = true ->
    read_zip R T supported lower extract rev_new (Some (l1 ++ i :: l2)) apath
    = read_zip R T supported lower extract rev_new (Some (l1 ++ l2)) apath.
Proof. intros. apply zip_member_local; assumption. Qed.
Print Assumptions C10_zip_corrupt_member_local.

Example C10_zip_corrupt_hypothesis_satisfiable : zread_failed ZBadZip = true.
Proof. reflexivity. Qed.
Print Assumptions C10_zip_corrupt_hypothesis_satisfiable.

(* REFUTED for the original loop: a bad CRC in the first member loses the second *)
Theorem C10_zip_corrupt_member_local_refuted :
  exists (l2 : list zinfo) (i : zinfo),
    N.testbit (z_flags i) 0 = false /\ zread_failed (z_read i) = true /\
    read_zip call T0 yes idl ext0 rev_old (Some (i :: l2)) None <> read_zip call T0 yes idl ext0 rev_old (Some l2) None.
Proof.
  exists [zi (s "b.txt") (s "B") (ZOk (s "B"))], (zi (s "a.txt") (s "A") ZBadZip).
  split; [reflexivity|]. split; [reflexivity|]. vm_compute. intro H. discriminate H.
Qed.
Print Assumptions C10_zip_corrupt_member_local_refuted.

(* TAR: an unreadable, non-regular, oversize or skipped (hidden / unsupported / nested archive) member
   affects only itself *)
Theorem C10_tar_member_local :
  forall (R : Type) (T : tables) supported lower (extract : str -> bytes -> str -> list R)
         (l1 l2 : list tinfo) (i : tinfo) (apath : option str),
    tar_dead T supported lower i = true ->
    read_tar R T supported lower extract (Some (l1 ++ i :: l2)) apath
    = read_tar R T supported lower extract (Some (l1 ++ l2)) apath.
Proof. intros. apply tar_member_local; assumption. Qed.
Print Assumptions C10_tar_member_local.

Example C10_tar_dead_satisfiable :
  tar_dead T0 yes idl {| t_name := s "a.txt"; t_isreg := true; t_size := 1; t_read := TExc |} = true.
Proof. reflexivity. Qed.
Print Assumptions C10_tar_dead_satisfiable.

(* detection (repaired): a plain TAR — ustar at offset 257 and a first header block tarfile accepts — is recognised
   whatever its first member is called; tar_block_ok is the tarfile oracle *)
Theorem C10_detect_tar :
  forall (T : tables) (tar_block_ok : bytes -> bool) (file : bytes),
    ustar_at T file = true -> tar_block_ok (takeN 512 file) = true -> detect T tar_block_ok file = Some (s "tar").
Proof. intros. apply detect_tar; assumption. Qed.
Print Assumptions C10_detect_tar.

(* every file that starts with an entry's magic and is not such a TAR gets that entry's type, whatever follows and
   wherever the entry stands in a well-formed table *)
Theorem C10_detect_magic :
  forall (T : tables) (tar_block_ok : bytes -> bool) (m : bytes) (ty : str) (len : N) (rest : bytes),
    wf_magic (magic T) = true -> In (m, ty, len) (magic T) ->
    ustar_at T (m ++ rest) && tar_block_ok (takeN 512 (m ++ rest)) = false ->
    detect T tar_block_ok (m ++ rest) = Some ty.
Proof. intros. eapply detect_hit; eassumption. Qed.
Print Assumptions C10_detect_magic.

(* last resort kept from the original code: bare ustar magic when no signature matches *)
Theorem C10_detect_tar_fallback :
  forall (T : tables) (tar_block_ok : bytes -> bool) (file : bytes),
    detect_magic (magic T) (takeN 512 file) = None -> ustar_at T file = true ->
    detect T tar_block_ok file = Some (s "tar").
Proof. intros. apply detect_tar_fallback; assumption. Qed.
Print Assumptions C10_detect_tar_fallback.

(* the handlers and tar modes *)
Theorem C10_routes :
  route (s "zip") = HZip /\ route (s "7z") = H7z /\ route (s "tar") = HTar (s "r:tar")
  /\ route (s "tar.gz") = HTar (s "r:gz") /\ route (s "tar.bz2") = HTar (s "r:bz2") /\ route (s "tar.xz") = HTar (s "r:xz").
Proof. repeat split; vm_compute; reflexivity. Qed.
Print Assumptions C10_routes.

(* ---------------------------------------------------------------- byte-level 7z header parser (C10/Parse.v) *)
From S2T Require Import C10.Parse C10.Term.

(* SevenZipReader(file) — signature and CRC checks, end-header location, encoded-header decompression, and every
   loop of _parse_main_header / _parse_pack_info / _parse_unpack_info / _parse_folder / _parse_substreams_info /
   _parse_files_info (both `while True` loops included) — terminates on EVERY byte string, for every lzma and crc32
   oracle: with fuel = length + 1 the model never answers OutOfFuel. *)
Theorem C10_7z_parse_terminates :
  forall (T : tables) lzma_alone lzma2_raw (crc32 : bytes -> N) (file : bytes),
    parse_7z T lzma_alone lzma2_raw crc32 file <> PFuel.
Proof. intros. apply parse_7z_terminates. Qed.
Print Assumptions C10_7z_parse_terminates.

(* the same for the end-header parser alone, for any fuel above the header length *)
Theorem C10_7z_end_header_terminates :
  forall (T : tables) lzma_alone lzma2_raw (fuel : nat) (body hdr : bytes),
    (List.length hdr < fuel)%nat -> parse_end_header T lzma_alone lzma2_raw fuel body hdr <> PFuel.
Proof. intros. apply parse_end_header_terminates. assumption. Qed.
Print Assumptions C10_7z_end_header_terminates.

(* ---------------------------------------------------------------- parse-after-serialise round trips (C10/Ser.v = the
   harness's 7z writer as Coq functions, tied to the Python writer by a differential run; C10/RoundTrip.v).
   The number codec, every header section, the whole plain header and the 32-byte start header round-trip, so the member
   theorem composes end to end FROM THE ARCHIVE BYTES (C10_7z_members_exact_from_bytes).  Restrictions, all boolean
   hypotheses: single-coder folders (no bind pairs), attributes in the implementation's dialect (no External byte) or
   absent, plain (not encoded) header. *)
From S2T Require Import C10.Ser C10.RoundTrip.

(* _read_number inverts the writer's num() for every 7z number (n < 2^64, all nine byte-length classes) *)
Theorem C10_7z_number_roundtrip :
  forall (n : N) (rest : bytes), num_ok n = true -> r_number (enc_num n ++ rest) = POk n rest.
Proof. exact r_number_enc. Qed.
Print Assumptions C10_7z_number_roundtrip.

Example C10_7z_number_ok_satisfiable : num_ok 18446744073709551615 = true /\ num_ok 0 = true.
Proof. split; reflexivity. Qed.
Print Assumptions C10_7z_number_ok_satisfiable.

(* UTF-16LE names (surrogate pairs for code points above the BMP, joined again by the reader) and packed bit vectors *)
Theorem C10_7z_name_roundtrip :
  forall (name : str) (rest : bytes) (fuel : nat),
    wf_name name = true -> (List.length (utf16 name ++ rest) < fuel)%nat ->
    exists units, r_name fuel (utf16 name ++ rest) = POk units rest /\ join_pairs units = name.
Proof. intros. eexists. split; [apply r_name_utf16; assumption | apply join_pairs_units; assumption]. Qed.
Print Assumptions C10_7z_name_roundtrip.

Theorem C10_7z_bitvector_roundtrip :
  forall (bits : list bool) (rest : bytes), r_boolvec (lenN bits) (pack_bits bits ++ rest) = POk bits rest.
Proof. exact r_boolvec_pack. Qed.
Print Assumptions C10_7z_bitvector_roundtrip.

(* MainStreamsInfo: parsing what the writer serialised for (pack info, folders, SubStreamsInfo, digests) yields exactly
   the reader state the header description stands for — _pack_sizes, _folders, num_streams and _file_sizes as computed
   by the model of _parse_substreams_info (file_sizes / num_streams of C10/Model.v) *)
Theorem C10_7z_streams_info_roundtrip :
  forall pk fl ss crcs rest fuel,
    match pk with Some p => wf_pack p | None => true end = true ->
    num_ok (lenN fl) = true -> forallb wf_folder fl = true ->
    match ss with Some x => wf_ss fl x crcs | None => true end = true ->
    (List.length (streams_body_bytes pk fl ss crcs ++ rest) < fuel)%nat ->
    exists sz, file_sizes rev_new fl ss = Some sz /\
      parse_streams_info fuel st0 (streams_body_bytes pk fl ss crcs ++ rest)
      = POk {| p_pack := pk; p_folders := fl; p_nstreams := num_streams fl ss; p_sizes := sz; p_files := [] |} rest.
Proof. exact streams_info_rt. Qed.
Print Assumptions C10_7z_streams_info_roundtrip.

(* the bytes of that theorem are the writer's: ser_streams = 0x04 ++ streams_body_bytes *)
Theorem C10_7z_ser_streams_shape :
  forall h crcs, negb (match h_pack h, h_folders h with None, [] => true | _, _ => false end) = true ->
    ser_streams h crcs = 4 :: streams_body_bytes (h_pack h) (h_folders h) (h_ss h) crcs.
Proof.
  intros h crcs H. unfold ser_streams, streams_body_bytes, ser_pack, ser_unpack, ser_ss, unpack_body_bytes, ss_body_bytes,
    crc_bytes, pack_body_bytes.
  destruct (h_pack h) as [pk|]; destruct (h_folders h) as [|f fl]; try discriminate H;
    destruct (h_ss h); repeat (rewrite <- app_assoc || cbn [app]); reflexivity.
Qed.
Print Assumptions C10_7z_ser_streams_shape.

(* the well-formedness hypotheses hold for the header of a standard two-folder archive *)
Example C10_7z_wf_header_satisfiable :
  wf_header (pack7z true 16 32 0 L2) (Some (repeat 0 8)) None true = true.
Proof. vm_compute. reflexivity. Qed.
Print Assumptions C10_7z_wf_header_satisfiable.

(* FilesInfo: EmptyStream vector, skipped EmptyFile property, UTF-16LE names (pairs joined), attributes, END *)
Theorem C10_7z_files_info_roundtrip :
  forall fs emptyfile with_attrs rest fuel,
    wf_files fs emptyfile with_attrs = true ->
    (List.length (files_body_bytes fs emptyfile with_attrs ++ rest) < fuel)%nat ->
    parse_files_info fuel (files_body_bytes fs emptyfile with_attrs ++ rest) = POk fs rest.
Proof. exact files_info_rt. Qed.
Print Assumptions C10_7z_files_info_roundtrip.

(* SevenZipReader(archive bytes) = the reader state the header description stands for: signature, version, both CRCs
   (crc32 oracle), end-header location, and the whole plain header *)
Theorem C10_7z_archive_roundtrip :
  forall (T : tables) lzma_alone lzma2_raw (crc32 : bytes -> N) h crcs emptyfile with_attrs area,
    wf_header h crcs emptyfile with_attrs = true ->
    wf_archive crc32 area (ser_header h crcs emptyfile with_attrs) = true ->
    exists st, state_of h = Some st /\
      parse_7z T lzma_alone lzma2_raw crc32 (archive_bytes crc32 area (ser_header h crcs emptyfile with_attrs)) = POk st [].
Proof. intros. apply parse_7z_rt; assumption. Qed.
Print Assumptions C10_7z_archive_roundtrip.

(* END TO END: for the BYTES of a standard-layout 7z archive (start header ++ junk ++ folder streams ++ serialised header)
   the 7z path of read_archive - size check, SevenZipReader parsing those bytes, folder decoding, slicing, member loop -
   yields exactly the entries of the supported visible data members, each from its own bytes, in archive order *)
Theorem C10_7z_members_exact_from_bytes :
  forall (R : Type) (T : tables) lzma_alone lzma2_raw (crc32 : bytes -> N) supported lower
         (extract : str -> bytes -> str -> list R)
         (L : layout) (full : bool) (junk : bytes) (attr_dir attr_file : N) (crcs emptyfile : option bytes)
         (with_attrs : bool) (apath : option str),
    let H := pack7z full attr_dir attr_file (lenN junk) L in
    let hb := ser_header H crcs emptyfile with_attrs in
    let file := archive_bytes crc32 (area7z junk L) hb in
    std7z_ok T lzma_alone lzma2_raw L attr_file (lenN file) = true ->
    wf_header H crcs emptyfile with_attrs = true ->
    wf_archive crc32 (area7z junk L) hb = true ->
    read_7z_bytes R T lzma_alone lzma2_raw crc32 supported lower extract file apath
    = {| yields := expected7 R T supported lower extract apath (all_members L); fin := Done |}.
Proof. intros. apply members_exact_from_bytes; assumption. Qed.
Print Assumptions C10_7z_members_exact_from_bytes.

(* all three hypotheses hold together for a two-folder archive with digests and attributes *)
Example C10_7z_from_bytes_satisfiable :
  let H := pack7z true 16 32 0 L2 in
  let hb := ser_header H (Some (repeat 0 8)) None true in
  let file := archive_bytes (fun _ => 7) (area7z [] L2) hb in
  std7z_ok T0 la0 l20 L2 32 (lenN file) && wf_header H (Some (repeat 0 8)) None true
  && wf_archive (fun _ => 7) (area7z [] L2) hb = true.
Proof. vm_compute. reflexivity. Qed.
Print Assumptions C10_7z_from_bytes_satisfiable.

(* ---------------------------------------------------------------- path labels, for EVERY stored member name (relative or
   not: '/abs/x', './x', 'a//x', '../x', 'C:\x' ...): the label is the archive path, "!/", and the stored name *)
Theorem C10_path_label :
  forall (c : N) (a filename : str), full_path (Some (c :: a)) filename = (c :: a) ++ s "!/" ++ filename.
Proof. reflexivity. Qed.
Print Assumptions C10_path_label.

(* ZIP and TAR member loops: the labels of the yielded results are exactly archive!/name of the supported visible members,
   in archive order (results observed through their path: extract := fun _ _ p => [p]) *)
Theorem C10_zip_labels :
  forall (T : tables) supported lower (rv : revision) (flags : N) (apath : option str) (ms : list member),
    N.testbit flags 0 = false -> (max_memory T <=? max_archive_file T) = true ->
    yields (read_zip (list N) T supported lower label_of rv (Some (map (zinfo_of flags) ms)) apath)
    = map (fun m => full_path apath (m_name m)) (filter (want T supported lower) ms).
Proof. intros. rewrite members_exact_zip by assumption. cbn [yields]. apply labels_expected. assumption. Qed.
Print Assumptions C10_zip_labels.

Theorem C10_tar_labels :
  forall (T : tables) supported lower (apath : option str) (ms : list member),
    (max_memory T <=? max_archive_file T) = true ->
    yields (read_tar (list N) T supported lower label_of (Some (map tinfo_of ms)) apath)
    = map (fun m => full_path apath (m_name m)) (filter (want T supported lower) ms).
Proof. intros. rewrite members_exact_tar. cbn [yields]. apply labels_expected. assumption. Qed.
Print Assumptions C10_tar_labels.
