(* C10 — what "an archive built by a standard packer from a set of files" means, and the expected
   results.  Definitions only (used by the theorem statements). *)
From Coq Require Import ZArith List Bool Lia ZifyBool.
From S2T Require Import Lib.PyStr C10.Model.
Import ListNotations.
Open Scope N_scope.

Inductive mkind := KDir | KEmpty | KData (d : bytes).
Record member := { m_name : str; m_kind : mkind }.

(* the members that own a data stream, in order: (name, bytes) *)
Fixpoint datas (ms : list member) : list (str * bytes) :=
  match ms with
  | [] => []
  | m :: r => match m_kind m with KData d => (m_name m, d) :: datas r | _ => datas r end
  end.

Definition is_nil {A} (l : list A) : bool := match l with [] => true | _ => false end.
Definition nondata (m : member) : bool := match m_kind m with KData _ => false | _ => true end.

Fixpoint nodup_str (l : list str) : bool :=
  match l with [] => true | x :: r => negb (mem_str x r) && nodup_str r end.

Definition dres_eqb (a b : dres) : bool :=
  match a, b with DOk x, DOk y => str_eqb x y | DErr, DErr => true | _, _ => false end.

(* ------------------------------------------------------------------ 7z standard layout
   The archive's file list is cut into segments; the data members of segment k form folder k
   (compressed together into one pack stream by one coder).  A segment is any run of members
   followed by a final data member (so every folder holds >= 1 file: solid = one segment,
   one-folder-per-file = no data member in any sg_init); members after the last folder's last
   file (`trailing`) own no data. *)
Record segment := { sg_init : list member; sg_name : str; sg_data : bytes; sg_coder : coder; sg_stream : bytes }.
Record layout := { segs : list segment; trailing : list member }.

Definition sg_last (g : segment) : member := {| m_name := sg_name g; m_kind := KData (sg_data g) |}.
Definition seg_members (g : segment) : list member := sg_init g ++ [sg_last g].
Definition seg_datas (g : segment) : list (str * bytes) := datas (sg_init g) ++ [(sg_name g, sg_data g)].
Definition seg_blob (g : segment) : bytes := List.concat (map snd (seg_datas g)).
Definition seg_folder (g : segment) : folder := {| f_coders := [sg_coder g]; f_unpack := [lenN (seg_blob g)] |}.
Definition cut (g : segment) : N := lenN (seg_datas g).
Definition all_members (L : layout) : list member := flat_map seg_members (segs L) ++ trailing L.

Definition entry_of (attr_dir attr_file : N) (m : member) : fentry :=
  match m_kind m with
  | KDir => {| e_name := m_name m; e_empty := true; e_attr := attr_dir |}
  | KEmpty => {| e_name := m_name m; e_empty := true; e_attr := attr_file |}
  | KData _ => {| e_name := m_name m; e_empty := false; e_attr := attr_file |}
  end.

(* SubStreamsInfo the way 7-Zip writes it: NumUnpackStream and Size only when some folder holds
   more than one file (`full` = always, as other writers do) *)
Definition multi (full : bool) (L : layout) : bool := full || existsb (fun g => negb (cut g =? 1)) (segs L).

Definition std_ss (full : bool) (L : layout) : option substreams :=
  match segs L with
  | [] => None
  | _ => if multi full L
         then Some {| ss_nus := Some (map cut (segs L));
                      ss_sizes := Some (flat_map (fun g => map (fun nd => lenN (snd nd)) (datas (sg_init g))) (segs L)) |}
         else Some {| ss_nus := None; ss_sizes := None |}
  end.

Definition pack7z_with (ss : option substreams) (attr_dir attr_file pos : N) (L : layout) : header :=
  {| h_pack := match segs L with [] => None | _ => Some (pos, map (fun g => lenN (sg_stream g)) (segs L)) end;
     h_folders := map seg_folder (segs L);
     h_ss := ss;
     h_files := map (entry_of attr_dir attr_file) (all_members L) |}.

Definition pack7z (full : bool) (attr_dir attr_file pos : N) (L : layout) : header :=
  pack7z_with (std_ss full L) attr_dir attr_file pos L.

(* the same archive without SubStreamsInfo (allowed by the format when every folder holds one file) *)
Definition one_file_per_folder (L : layout) : bool := forallb (fun g => cut g =? 1) (segs L).

Definition body7z (junk : bytes) (L : layout) (trailer : bytes) : bytes :=
  junk ++ List.concat (map sg_stream (segs L)) ++ trailer.

Section Spec.
  Variable R : Type.
  Variable T : tables.
  Variable lzma_alone : bytes -> option N -> bytes -> dres.
  Variable lzma2_raw : N -> bytes -> dres.
  Variable supported : str -> bool.
  Variable lower : str -> str.
  Variable extract : str -> bytes -> str -> list R.

  (* hypotheses of the 7z theorem, as one boolean *)
  Definition std7z_ok (L : layout) (attr_file asize : N) : bool :=
    forallb nondata (trailing L)
    && forallb (fun nd => negb (is_nil (snd nd))) (datas (all_members L))         (* data members have >= 1 byte *)
    && forallb (fun g => negb (is_nil (sg_stream g))) (segs L)                      (* pack streams are not empty *)
    && forallb (fun g => dres_eqb (apply_chain T lzma_alone lzma2_raw [sg_coder g] [lenN (seg_blob g)] (sg_stream g))
                                  (DOk (seg_blob g))) (segs L)                      (* folder k's stream decodes to its files *)
    && negb (needs_password T (map seg_folder (segs L)))
    && nodup_str (map fst (datas (all_members L)))                                  (* distinct names *)
    && negb (N.testbit attr_file 4)                                                 (* files do not carry FILE_ATTRIBUTE_DIRECTORY *)
    && negb (max_7z T <? asize).

  (* a supported, visible member small enough to be processed *)
  Definition visible (name : str) : bool := negb (should_skip T supported lower name (basename name)).

  Definition entry (apath : option str) (name : str) (d : bytes) : list R :=
    process_entry R T extract name d apath (basename name).

  (* expected results for 7z: data members only (empty files are dropped: finding 7z-empty-file-dropped) *)
  Definition want7 (m : member) : bool :=
    match m_kind m with KData d => visible (m_name m) && negb (max_memory T <? lenN d) | _ => false end.
  Definition expected7 (apath : option str) (ms : list member) : list R :=
    flat_map (fun m => match m_kind m with KData d => entry apath (m_name m) d | _ => [] end) (filter want7 ms).

  (* ------------------------------------------------------------------ ZIP / TAR: what the reference
     libraries report for an archive written from `ms` (names, kinds, sizes, bytes) *)
  Definition bytes_of (m : member) : bytes := match m_kind m with KData d => d | _ => [] end.
  Definition is_dirm (m : member) : bool := match m_kind m with KDir => true | _ => false end.

  Definition zinfo_of (flags : N) (m : member) : zinfo :=
    {| z_name := m_name m; z_isdir := is_dirm m; z_flags := flags; z_size := lenN (bytes_of m); z_read := ZOk (bytes_of m) |}.
  Definition tinfo_of (m : member) : tinfo :=
    {| t_name := m_name m; t_isreg := negb (is_dirm m); t_size := lenN (bytes_of m);
       t_read := if is_dirm m then TNone else TOk (bytes_of m) |}.

  Definition want (m : member) : bool :=
    negb (is_dirm m) && visible (m_name m) && negb (max_memory T <? lenN (bytes_of m)).
  Definition expected (apath : option str) (ms : list member) : list R :=
    flat_map (fun m => entry apath (m_name m) (bytes_of m)) (filter want ms).
End Spec.

(* ------------------------------------------------------------------ magic table well-formedness:
   every entry compares exactly its own non-empty magic (length <= 512) and no magic is a prefix of
   another one (so the order of the table cannot shadow an entry) *)
Definition indep (a b : bytes) : bool := negb (startswith a b || startswith b a).
Fixpoint wf_magic (l : list (bytes * str * N)) : bool :=
  match l with
  | [] => true
  | (m, _, len) :: r =>
      (lenN m =? len) && negb (is_nil m) && (len <=? 512)
      && forallb (fun e => indep m (fst (fst e))) r && wf_magic r
  end.

Definition ustar_at (T : tables) (file : bytes) : bool := ustar_in T (takeN 512 file).
