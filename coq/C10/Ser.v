(* C10 — the 7z WRITER as Coq functions (mirror of tools/props/c10_sevenz.py: num, bitvec, header_bytes,
   _sig/write_archive), used to state the parse-after-serialise round trip.  Definitions only. *)
From Coq Require Import ZArith List Bool Lia.
From S2T Require Import Lib.PyStr C10.Model C10.Parse.
Import ListNotations.
Open Scope N_scope.

(* k little-endian bytes of x *)
Fixpoint le_bytes (k : nat) (x : N) : bytes :=
  match k with O => [] | S k' => x mod 256 :: le_bytes k' (x / 256) end.

(* number of extra bytes of the 7z number n (n < 2^64) *)
Definition extra_of (n : N) : nat :=
  if n <? 2^7 then 0 else if n <? 2^14 then 1 else if n <? 2^21 then 2 else if n <? 2^28 then 3
  else if n <? 2^35 then 4 else if n <? 2^42 then 5 else if n <? 2^49 then 6 else if n <? 2^56 then 7 else 8.

(* num(n): first byte = e leading ones, then the high bits; then e little-endian bytes of the low part *)
Definition enc_num (n : N) : bytes :=
  let e := extra_of n in
  let k := 8 * N.of_nat e in
  (256 - 2 ^ (8 - N.of_nat e) + n / 2 ^ k) mod 256 :: le_bytes e (n mod 2 ^ k).
Definition num_ok (n : N) : bool := n <? 2 ^ 64.

Definition enc_nums (l : list N) : bytes := flat_map enc_num l.

(* bitvec: MSB first, zero padded *)
Definition b2n (b : bool) : N := if b then 1 else 0.
Fixpoint pack_bits (l : list bool) : bytes :=
  match l with
  | [] => []
  | b7 :: b6 :: b5 :: b4 :: b3 :: b2 :: b1 :: b0 :: r =>
      (128 * b2n b7 + 64 * b2n b6 + 32 * b2n b5 + 16 * b2n b4 + 8 * b2n b3 + 4 * b2n b2 + 2 * b2n b1 + b2n b0) :: pack_bits r
  | b7 :: r7 =>
      let g l := match l with [] => (false, []) | x :: t => (x, t) end in
      let '(b6, r6) := g r7 in let '(b5, r5) := g r6 in let '(b4, r4) := g r5 in let '(b3, r3) := g r4 in
      let '(b2, r2) := g r3 in let '(b1, r1) := g r2 in
      [128 * b2n b7 + 64 * b2n b6 + 32 * b2n b5 + 16 * b2n b4 + 8 * b2n b3 + 4 * b2n b2 + 2 * b2n b1]
  end.

(* UTF-16 code units of a code point; name.encode("utf-16-le") + terminator *)
Definition units_of (c : N) : list N :=
  if c <? 65536 then [c] else [55296 + (c - 65536) / 1024; 56320 + (c - 65536) mod 1024].
Definition utf16u (units : list N) : bytes := flat_map (fun u => [u mod 256; u / 256]) units ++ [0; 0].
Definition utf16 (name : str) : bytes := utf16u (flat_map units_of name).

(* one coder: flags = len(id) | 0x20 when it has properties *)
Definition ser_coder (c : coder) : bytes :=
  match c_props c with
  | Some p => (lenN (c_id c) + 32) :: c_id c ++ enc_num (lenN p) ++ p
  | None => lenN (c_id c) :: c_id c
  end.
(* bind pairs of a coder chain, as the writer emits them: for i in 0..n-2 the numbers i+1, i *)
Fixpoint bp_upto (k : nat) : list N :=
  match k with O => [] | S k' => bp_upto k' ++ [N.of_nat (S k'); N.of_nat k'] end.
Definition bind_pairs (cs : list coder) : list N := bp_upto (List.length cs - 1).
Definition ser_folder (f : folder) : bytes :=
  enc_num (lenN (f_coders f)) ++ flat_map ser_coder (f_coders f) ++ enc_nums (bind_pairs (f_coders f)).

Definition ser_pack (pk : N * list N) : bytes :=
  [6] ++ enc_num (fst pk) ++ enc_num (lenN (snd pk))
  ++ (match snd pk with [] => [] | _ => [9] ++ enc_nums (snd pk) end) ++ [0].

Definition ser_unpack (fl : list folder) : bytes :=
  [7; 11] ++ enc_num (lenN fl) ++ [0] ++ flat_map ser_folder fl ++ [12] ++ flat_map (fun f => enc_nums (f_unpack f)) fl ++ [0].

(* crcs: the raw digest bytes written after  0x0A 0x01  (all defined) *)
Definition ser_ss (ss : substreams) (crcs : option bytes) : bytes :=
  [8] ++ (match ss_nus ss with Some l => [13] ++ enc_nums l | None => [] end)
  ++ (match ss_sizes ss with Some l => [9] ++ enc_nums l | None => [] end)
  ++ (match crcs with Some c => [10; 1] ++ c | None => [] end) ++ [0].

Definition ser_streams (h : header) (crcs : option bytes) : bytes :=
  match h_pack h, h_folders h with
  | None, [] => []
  | _, _ => [4] ++ (match h_pack h with Some pk => ser_pack pk | None => [] end)
            ++ (match h_folders h with [] => [] | fl => ser_unpack fl end)
            ++ (match h_ss h with Some ss => ser_ss ss crcs | None => [] end) ++ [0]
  end.

(* attributes: the implementation's dialect (AllDefined = 1, no External byte, one uint32 per file) *)
Definition ser_files (fs : list fentry) (emptyfile : option bytes) (with_attrs : bool) : bytes :=
  match fs with
  | [] => []
  | _ =>
      let ev := pack_bits (map e_empty fs) in
      let nm := 0 :: flat_map (fun f => utf16 (e_name f)) fs in
      let at' := 1 :: flat_map (fun f => le_bytes 4 (e_attr f)) fs in
      [5] ++ enc_num (lenN fs)
      ++ (if existsb e_empty fs
          then [14] ++ enc_num (lenN ev) ++ ev
               ++ (match emptyfile with Some v => [15] ++ enc_num (lenN v) ++ v | None => [] end)
          else [])
      ++ [17] ++ enc_num (lenN nm) ++ nm
      ++ (if with_attrs then [21] ++ enc_num (lenN at') ++ at' else [])
      ++ [0]
  end.

Definition ser_header (h : header) (crcs emptyfile : option bytes) (with_attrs : bool) : bytes :=
  [1] ++ ser_streams h crcs ++ ser_files (h_files h) emptyfile with_attrs ++ [0].

(* write_archive (plain header): 32-byte start header, pack area, end header *)
Definition sig_tail (crc32 : bytes -> N) (area hb : bytes) : bytes :=
  le_bytes 8 (lenN area) ++ le_bytes 8 (lenN hb) ++ le_bytes 4 (crc32 hb).
Definition archive_bytes (crc32 : bytes -> N) (area hb : bytes) : bytes :=
  MAGIC7 ++ [0; 4] ++ le_bytes 4 (crc32 (sig_tail crc32 area hb)) ++ sig_tail crc32 area hb ++ area ++ hb.

(* sizes fit their 64-bit fields and the crc32 oracle returns 32-bit values on the two strings it is asked about *)
Definition wf_archive (crc32 : bytes -> N) (area hb : bytes) : bool :=
  (lenN area <? 2 ^ 64) && (lenN hb <? 2 ^ 64) && (crc32 hb <? 2 ^ 32) && (crc32 (sig_tail crc32 area hb) <? 2 ^ 32).

(* ------------------------------------------------------------------ well-formedness of a header description
   (what the writer can serialise and the reader reads back) *)
Definition wf_coder (c : coder) : bool :=
  (lenN (c_id c) <=? 15) && match c_props c with Some p => num_ok (lenN p) | None => true end.
Definition wf_folder (f : folder) : bool :=
  num_ok (lenN (f_coders f)) && forallb wf_coder (f_coders f)
  && (lenN (f_unpack f) =? lenN (f_coders f)) && forallb num_ok (f_unpack f).
Definition wf_pack (pk : N * list N) : bool :=
  num_ok (fst pk) && num_ok (lenN (snd pk)) && forallb num_ok (snd pk).

(* SubStreamsInfo: the raw sizes are exactly the num_streams-1 sizes of every folder, in order *)
Fixpoint sizes_exact (fl : list folder) (nus raw : list N) : bool :=
  match fl, nus with
  | _ :: fr, n :: nr => (N.pred n <=? lenN raw) && sizes_exact fr nr (dropN (N.pred n) raw)
  | _, _ => match raw with [] => true | _ => false end
  end.
Definition wf_ss (fl : list folder) (ss : substreams) (crcs : option bytes) : bool :=
  let nus := match ss_nus ss with Some l => l | None => map (fun _ => 1) fl end in
  (lenN nus =? lenN fl) && forallb num_ok nus
  && match ss_sizes ss with Some raw => forallb num_ok raw && sizes_exact fl nus raw | None => true end
  && match crcs with Some c => lenN c =? 4 * sumN nus | None => true end.

(* a name the writer can encode: code points 1..10FFFF, no surrogate code points *)
Definition wf_name (n : str) : bool :=
  forallb (fun c => (0 <? c) && (c <? 1114112) && negb ((55296 <=? c) && (c <=? 57343))) n.
Definition wf_units (us : list N) : bool := forallb (fun u => (0 <? u) && (u <? 65536)) us.
Definition wf_files (fs : list fentry) (emptyfile : option bytes) (with_attrs : bool) : bool :=
  num_ok (lenN fs) && forallb (fun f => wf_name (e_name f)) fs
  && num_ok (lenN (pack_bits (map e_empty fs)))
  && num_ok (lenN (0 :: flat_map (fun f => utf16 (e_name f)) fs))
  && match emptyfile with Some v => num_ok (lenN v) | None => true end
  && (if with_attrs then forallb (fun f => e_attr f <? 2 ^ 32) fs && num_ok (lenN (1 :: flat_map (fun f => le_bytes 4 (e_attr f)) fs))
      else forallb (fun f => e_attr f =? 0) fs).

Definition wf_header (h : header) (crcs emptyfile : option bytes) (with_attrs : bool) : bool :=
  match h_pack h with Some pk => wf_pack pk | None => true end
  && num_ok (lenN (h_folders h)) && forallb wf_folder (h_folders h)
  && match h_ss h with
     | Some ss => wf_ss (h_folders h) ss crcs && negb (match h_pack h, h_folders h with None, [] => true | _, _ => false end)
     | None => true
     end
  && wf_files (h_files h) emptyfile with_attrs.

(* ------------------------------------------------------------------ the reader from archive BYTES *)
Section FromBytes.
  Variable R : Type.
  Variable T : tables.
  Variable lzma_alone : bytes -> option N -> bytes -> dres.
  Variable lzma2_raw : N -> bytes -> dres.
  Variable crc32 : bytes -> N.
  Variable supported : str -> bool.
  Variable lower : str -> str.
  Variable extract : str -> bytes -> str -> list R.

  (* _extract_from_7z_optimized after SevenZipFile(...) succeeded, from the reader's state *)
  Definition read_7z_state (st : pstate) (body : bytes) (apath : option str) : outcome R :=
    let infos := file_infos (p_files st) (p_sizes st) in
    if needs_password T (p_folders st) then {| yields := []; fin := Raise Encrypted |}
    else
      let pos0 := match p_pack st with Some (p, _) => p | None => 0 end in
      let sizes := match p_pack st with Some (_, z) => z | None => [] end in
      let chunks := folder_files (p_nstreams st) infos in
      match extractall T lzma_alone lzma2_raw rev_new body sizes pos0 (p_folders st) chunks sizes pos0 with
      | None => {| yields := []; fin := Raise Failed |}
      | Some w => {| yields := process7 R T extract (filter (wanted7 T supported lower) infos) w apath; fin := Done |}
      end.

  (* read_archive's 7z path on the archive bytes *)
  Definition read_7z_bytes (file : bytes) (apath : option str) : outcome R :=
    if max_7z T <? lenN file then {| yields := []; fin := Raise TooLarge |}
    else match parse_7z T lzma_alone lzma2_raw crc32 file with
         | POk st _ => read_7z_state st (dropN 32 file) apath
         | PEnc => {| yields := []; fin := Raise Encrypted |}
         | _ => {| yields := []; fin := Raise Failed |}
         end.
End FromBytes.
