(* C10 — lemmas. *)
From Coq Require Import ZArith List Bool Lia ZifyBool.
From S2T Require Import Lib.PyStr C10.Model C10.Spec.
Import ListNotations.
Open Scope N_scope.

(* ------------------------------------------------------------------ slicing *)
Lemma lenN_app {A} (a b : list A) : lenN (a ++ b) = lenN a + lenN b.
Proof. induction a as [|x a IH]; cbn [lenN app]; [reflexivity | rewrite IH; lia]. Qed.

Lemma lenN_zero {A} (a : list A) : lenN a = 0 -> a = [].
Proof. destruct a; cbn [lenN]; [reflexivity | lia]. Qed.

Lemma dropN_0 {A} (l : list A) : dropN 0 l = l.
Proof. destruct l; reflexivity. Qed.

Lemma takeN_app_len {A} (a b : list A) : takeN (lenN a) (a ++ b) = a.
Proof.
  induction a as [|x a IH]; cbn [lenN app takeN].
  - destruct b; reflexivity.
  - destruct (N.succ (lenN a) =? 0) eqn:E; [lia|]. rewrite N.pred_succ, IH. reflexivity.
Qed.

Lemma dropN_app_len {A} (a b : list A) : dropN (lenN a) (a ++ b) = b.
Proof.
  induction a as [|x a IH]; cbn [lenN app dropN].
  - apply dropN_0.
  - destruct (N.succ (lenN a) =? 0) eqn:E; [lia|]. rewrite N.pred_succ, IH. reflexivity.
Qed.

Lemma lenN_map {A B} (f : A -> B) (l : list A) : lenN (map f l) = lenN l.
Proof. induction l as [|x l IH]; cbn [lenN map]; [reflexivity | rewrite IH; reflexivity]. Qed.

(* ------------------------------------------------------------------ association lists *)
Lemma nodup_str_NoDup l : nodup_str l = true -> NoDup l.
Proof.
  induction l as [|x l IH]; cbn [nodup_str]; intro H; [constructor|].
  apply andb_true_iff in H as [H1 H2]. constructor; [|auto].
  intro HI. apply mem_str_In in HI. rewrite HI in H1. discriminate.
Qed.

Lemma assoc_NoDup {A} k (v : A) (l : list (str * A)) : NoDup (map fst l) -> In (k, v) l -> assoc k l = Some v.
Proof.
  induction l as [|[k' v'] l IH]; cbn [map fst assoc]; intros ND HI; [destruct HI|].
  inversion ND as [|? ? Hn ND']; subst.
  destruct HI as [HI|HI].
  - inversion HI; subst. rewrite str_eqb_refl. reflexivity.
  - destruct (str_eqb k k') eqn:E.
    + apply str_eqb_eq in E; subst. exfalso. apply Hn. apply in_map_iff. exists (k', v). auto.
    + auto.
Qed.

Lemma fs_read_NoDup w n d : NoDup (map fst w) -> In (n, d) w -> fs_read w n = Some d.
Proof.
  intros ND HI. unfold fs_read. apply assoc_NoDup.
  - rewrite map_rev. apply NoDup_rev. exact ND.
  - apply in_rev in HI. exact HI.
Qed.

(* ------------------------------------------------------------------ data members *)
Lemma datas_app a b : datas (a ++ b) = datas a ++ datas b.
Proof.
  induction a as [|m a IH]; cbn [datas app]; [reflexivity|].
  destruct (m_kind m); rewrite IH; reflexivity.
Qed.

Lemma datas_nondata l : forallb nondata l = true -> datas l = [].
Proof.
  induction l as [|m l IH]; cbn [forallb datas]; [reflexivity|]. intro H.
  apply andb_true_iff in H as [H1 H2]. unfold nondata in H1. destruct (m_kind m); [auto | auto | discriminate].
Qed.

Lemma seg_members_datas g : datas (seg_members g) = seg_datas g.
Proof. unfold seg_members, seg_datas. rewrite datas_app. reflexivity. Qed.

Lemma datas_segs l : datas (flat_map seg_members l) = flat_map seg_datas l.
Proof.
  induction l as [|g l IH]; cbn [flat_map]; [reflexivity|].
  rewrite datas_app, seg_members_datas, IH. reflexivity.
Qed.

Definition dinfo (nd : str * bytes) : finfo := {| fi_name := fst nd; fi_size := lenN (snd nd); fi_dir := false |}.
Definition info_of (m : member) : finfo :=
  match m_kind m with
  | KData d => {| fi_name := m_name m; fi_size := lenN d; fi_dir := false |}
  | _ => {| fi_name := m_name m; fi_size := 0; fi_dir := true |}
  end.

(* ------------------------------------------------------------------ _build_file_list, sizes *)
Lemma file_infos_members ad af ms rest :
  N.testbit af 4 = false ->
  file_infos (map (entry_of ad af) ms) (map (fun nd => lenN (snd nd)) (datas ms) ++ rest)
  = map info_of ms ++ file_infos [] rest.
Proof.
  intro Haf. induction ms as [|m ms IH]; [reflexivity|].
  cbn [map datas]. unfold entry_of at 1, info_of at 1.
  destruct (m_kind m) eqn:K; cbn [file_infos is_dir e_empty e_attr e_name orb].
  - rewrite IH. reflexivity.
  - rewrite IH. reflexivity.
  - rewrite Haf. cbn [map app snd]. rewrite IH. reflexivity.
Qed.

(* ------------------------------------------------------------------ _folder_to_files *)
Lemma take_folder_segment n c init lastn lastd rest :
  n = c + lenN (datas init) + 1 ->
  take_folder n c (map info_of (init ++ {| m_name := lastn; m_kind := KData lastd |} :: rest))
  = (map dinfo (datas init ++ [(lastn, lastd)]), map info_of rest).
Proof.
  revert c. induction init as [|m init IH]; intros c Hn.
  - cbn [app map datas lenN take_folder info_of m_kind m_name fi_dir] in *.
    destruct (n <=? c + 1) eqn:E; [reflexivity | lia].
  - cbn [app map datas]. cbn [datas] in Hn. unfold info_of at 1. destruct (m_kind m) eqn:K; cbn [take_folder fi_dir].
    + apply IH. exact Hn.
    + apply IH. exact Hn.
    + cbn [lenN] in Hn.
      destruct (n <=? c + 1) eqn:E; [lia|].
      rewrite (IH (c + 1)) by lia. cbn [fst snd app map]. reflexivity.
Qed.

Lemma folder_files_segs l tail :
  forallb nondata tail = true ->
  folder_files (map cut l) (map info_of (flat_map seg_members l ++ tail))
  = map (fun g => map dinfo (seg_datas g)) l.
Proof.
  intro Ht. induction l as [|g l IH]; [reflexivity|].
  assert (Htf : take_folder (cut g) 0 (map info_of (seg_members g ++ flat_map seg_members l ++ tail))
                = (map dinfo (seg_datas g), map info_of (flat_map seg_members l ++ tail))).
  { unfold seg_members at 1, sg_last. rewrite <- app_assoc. cbn [app]. apply take_folder_segment.
    unfold cut, seg_datas. rewrite lenN_app. cbn [lenN]. lia. }
  cbn [map flat_map folder_files]. rewrite <- app_assoc. rewrite Htf. cbn [fst snd]. rewrite IH. reflexivity.
Qed.

(* ------------------------------------------------------------------ _parse_substreams_info *)
Lemma lastN_single x : lastN [x] = Some x.
Proof. reflexivity. Qed.

Lemma sumN_lens_concat (l : list (str * bytes)) :
  lenN (List.concat (map snd l)) = sumN (map (fun nd => lenN (snd nd)) l).
Proof.
  induction l as [|x l IH]; cbn [map List.concat lenN sumN]; [reflexivity|].
  rewrite lenN_app, IH. reflexivity.
Qed.

Lemma sumN_app_last zs x : sumN (zs ++ [x]) - sumN zs = x.
Proof. induction zs as [|a q IH]; cbn [app sumN]; lia. Qed.

Lemma read_sizes_all (zs rest : list N) total :
  read_sizes (N.to_nat (lenN zs)) (zs ++ rest) total = Some (zs, rest, total - sumN zs).
Proof.
  revert total. induction zs as [|z zs IH]; intro total; cbn [lenN app sumN].
  - cbn. rewrite N.sub_0_r. reflexivity.
  - rewrite N2Nat.inj_succ. cbn [read_sizes]. rewrite IH. f_equal. f_equal. lia.
Qed.

Lemma sizes_prop_segs l :
  forallb (fun nd => negb (is_nil (snd nd))) (flat_map seg_datas l) = true ->
  sizes_prop (map seg_folder l) (map cut l)
             (flat_map (fun g => map (fun nd => lenN (snd nd)) (datas (sg_init g))) l)
  = Some (map (fun nd => lenN (snd nd)) (flat_map seg_datas l)).
Proof.
  induction l as [|g l IH]; cbn [map flat_map sizes_prop]; [reflexivity|]. intro H.
  rewrite forallb_app in H. apply andb_true_iff in H as [Hg Hl].
  cbn [seg_folder f_unpack]. rewrite lastN_single.
  set (zs := map (fun nd => lenN (snd nd)) (datas (sg_init g))).
  assert (Hc : N.pred (cut g) = lenN zs).
  { unfold cut, seg_datas, zs. rewrite lenN_app, lenN_map. cbn [lenN]. rewrite N.add_succ_r, N.add_0_r, N.pred_succ. reflexivity. }
  rewrite Hc, read_sizes_all, (IH Hl).
  assert (Hb : lenN (seg_blob g) - sumN zs = lenN (sg_data g)).
  { unfold seg_blob, seg_datas, zs. rewrite sumN_lens_concat, map_app. cbn [map snd]. apply sumN_app_last. }
  rewrite Hb.
  assert (Hpos : (0 <? lenN (sg_data g)) = true).
  { unfold seg_datas in Hg. rewrite forallb_app in Hg. apply andb_true_iff in Hg as [_ Hg].
    cbn [forallb snd] in Hg. destruct (sg_data g); [discriminate | cbn [lenN]; lia]. }
  rewrite Hpos. unfold seg_datas at 2. rewrite !map_app. cbn [map snd app]. rewrite <- app_assoc. reflexivity.
Qed.

Lemma cut_one_datas g : cut g = 1 -> datas (sg_init g) = [].
Proof.
  unfold cut, seg_datas. rewrite lenN_app. cbn [lenN]. intro H. apply lenN_zero. lia.
Qed.

Lemma unpack_lasts_segs l :
  forallb (fun g => cut g =? 1) l = true ->
  unpack_lasts (map seg_folder l) = map (fun nd => lenN (snd nd)) (flat_map seg_datas l)
  /\ map cut l = map (fun _ => 1) (map seg_folder l).
Proof.
  induction l as [|g l IH]; cbn [map flat_map unpack_lasts forallb]; [split; reflexivity|]. intro H.
  apply andb_true_iff in H as [Hg Hl]. apply N.eqb_eq in Hg.
  destruct (IH Hl) as [I1 I2]. cbn [seg_folder f_unpack]. rewrite lastN_single, I1, I2, Hg.
  split; [|reflexivity].
  unfold seg_blob, seg_datas. rewrite (cut_one_datas g Hg). cbn [app map snd List.concat]. rewrite app_nil_r. reflexivity.
Qed.

(* ------------------------------------------------------------------ slicing a folder into its files *)
Lemma slice_files_exact (ds : list (str * bytes)) (pre post : bytes) :
  slice_files (map dinfo ds) (pre ++ List.concat (map snd ds) ++ post) (lenN pre) = Some ds.
Proof.
  revert pre. induction ds as [|[n d] ds IH]; intro pre; cbn [map slice_files dinfo fi_size fi_name fst snd List.concat]; [reflexivity|].
  destruct (lenN (pre ++ (d ++ List.concat (map snd ds)) ++ post) <? lenN pre + lenN d) eqn:E.
  { rewrite !lenN_app in E. lia. }
  rewrite dropN_app_len. rewrite <- app_assoc. rewrite takeN_app_len.
  replace (lenN pre + lenN d) with (lenN (pre ++ d)) by apply lenN_app.
  replace (pre ++ d ++ List.concat (map snd ds) ++ post) with ((pre ++ d) ++ List.concat (map snd ds) ++ post)
    by (rewrite <- app_assoc; reflexivity).
  rewrite IH. reflexivity.
Qed.

Section WithOracles.
  Variable R : Type.
  Variable T : tables.
  Variable lzma_alone : bytes -> option N -> bytes -> dres.
  Variable lzma2_raw : N -> bytes -> dres.
  Variable supported : str -> bool.
  Variable lower : str -> str.
  Variable extract : str -> bytes -> str -> list R.

  Notation apply_chain' := (apply_chain T lzma_alone lzma2_raw).
  Notation extractall' := (extractall T lzma_alone lzma2_raw).

  Lemma dres_eqb_ok a b : dres_eqb a (DOk b) = true -> a = DOk b.
  Proof. destruct a; cbn; [intro H; apply str_eqb_eq in H; congruence | discriminate]. Qed.

  (* extractall of the repaired reader writes every data member's own bytes *)
  Lemma extractall_segs l pre trailer all_sizes pos0 :
    forallb (fun g => negb (is_nil (sg_stream g))) l = true ->
    forallb (fun g => dres_eqb (apply_chain' [sg_coder g] [lenN (seg_blob g)] (sg_stream g)) (DOk (seg_blob g))) l = true ->
    extractall' rev_new (pre ++ List.concat (map sg_stream l) ++ trailer) all_sizes pos0
                (map seg_folder l) (map (fun g => map dinfo (seg_datas g)) l)
                (map (fun g => lenN (sg_stream g)) l) (lenN pre)
    = Some (flat_map seg_datas l).
  Proof.
    revert pre. induction l as [|g l IH]; intros pre Hne Hdec; cbn [map flat_map extractall]; [reflexivity|].
    cbn [forallb] in Hne, Hdec. apply andb_true_iff in Hne as [Hne1 Hne2]. apply andb_true_iff in Hdec as [Hd1 Hd2].
    apply dres_eqb_ok in Hd1.
    assert (Hch : exists x q, map dinfo (seg_datas g) = x :: q).
    { unfold seg_datas. destruct (datas (sg_init g)); cbn [app map]; eauto. }
    destruct Hch as [x [q Hch]]. rewrite Hch. rewrite <- Hch.
    cbn [per_folder rev_new tl].
    unfold decompress_folder. cbn [seg_folder f_coders f_unpack rev app].
    assert (Hread : read_at (pre ++ List.concat (sg_stream g :: map sg_stream l) ++ trailer) (lenN pre) (sumN [lenN (sg_stream g)]) = sg_stream g).
    { cbn [sumN]. rewrite N.add_0_r. unfold read_at. destruct (lenN (sg_stream g) =? 0) eqn:E.
      - apply N.eqb_eq in E. apply lenN_zero in E. rewrite E in Hne1. discriminate.
      - rewrite dropN_app_len. cbn [List.concat]. rewrite <- app_assoc. apply takeN_app_len. }
    rewrite Hread, Hd1.
    pose proof (slice_files_exact (seg_datas g) [] []) as Hs. cbn [app lenN] in Hs. rewrite app_nil_r in Hs.
    fold (seg_blob g) in Hs. rewrite Hs.
    cbn [sumN]. rewrite N.add_0_r.
    replace (lenN pre + lenN (sg_stream g)) with (lenN (pre ++ sg_stream g)) by apply lenN_app.
    replace (pre ++ List.concat (sg_stream g :: map sg_stream l) ++ trailer)
      with ((pre ++ sg_stream g) ++ List.concat (map sg_stream l) ++ trailer)
      by (cbn [List.concat]; rewrite <- !app_assoc; reflexivity).
    rewrite (IH _ Hne2 Hd2). reflexivity.
  Qed.

  Notation should_skip' := (should_skip T supported lower).
  Notation process7' := (process7 R T extract).
  Notation wanted7' := (wanted7 T supported lower).
  Notation want7' := (want7 T supported lower).

  Lemma process7_members (w : list (str * bytes)) apath ms :
    (forall n d, In (n, d) (datas ms) -> fs_read w n = Some d) ->
    process7' (filter wanted7' (map info_of ms)) w apath = expected7 R T supported lower extract apath ms.
  Proof.
    unfold expected7. induction ms as [|m ms IH]; intro Hw; cbn [map filter flat_map process7]; [reflexivity|].
    unfold info_of at 1, wanted7 at 1, want7 at 1, visible. destruct (m_kind m) eqn:K; cbn [fi_dir fi_name fi_size negb andb].
    - apply IH. intros n d HI. apply Hw. cbn [datas]. rewrite K. exact HI.
    - apply IH. intros n d HI. apply Hw. cbn [datas]. rewrite K. exact HI.
    - assert (Hrest : forall n d0, In (n, d0) (datas ms) -> fs_read w n = Some d0).
      { intros n d0 HI. apply Hw. cbn [datas]. rewrite K. right. exact HI. }
      destruct (negb (should_skip' (m_name m) (basename (m_name m))) && negb (max_memory T <? lenN d)) eqn:E.
      + cbn [process7 flat_map fi_name]. assert (Hnm : fi_name (info_of m) = m_name m) by (unfold info_of; rewrite K; reflexivity). rewrite !Hnm. rewrite (Hw (m_name m) d) by (cbn [datas]; rewrite K; left; reflexivity).
        rewrite K. rewrite (IH Hrest). reflexivity.
      + apply IH. exact Hrest.
  Qed.

  (* ---------------------------------------------------------------- the 7z theorem *)
  Lemma members_exact_7z_with ss (L : layout) junk trailer ad af asize apath :
    std7z_ok T lzma_alone lzma2_raw L af asize = true ->
    file_sizes rev_new (map seg_folder (segs L)) ss = Some (map (fun nd => lenN (snd nd)) (flat_map seg_datas (segs L))) ->
    num_streams (map seg_folder (segs L)) ss = map cut (segs L) ->
    read_7z R T lzma_alone lzma2_raw supported lower extract rev_new asize
            (Some (pack7z_with ss ad af (lenN junk) L)) (body7z junk L trailer) apath
    = {| yields := expected7 R T supported lower extract apath (all_members L); fin := Done |}.
  Proof.
    unfold std7z_ok. intros H Hfs Hns.
    repeat (apply andb_true_iff in H; destruct H as [H ?Hx]).
    rename H into Htr, Hx5 into Hne, Hx4 into Hst, Hx3 into Hdec, Hx2 into Hpw, Hx1 into Hnd, Hx0 into Haf, Hx into Hsz.
    apply negb_true_iff in Haf, Hsz, Hpw.
    assert (Hall : datas (all_members L) = flat_map seg_datas (segs L)).
    { unfold all_members. rewrite datas_app, datas_segs, (datas_nondata _ Htr), app_nil_r. reflexivity. }
    unfold read_7z. rewrite Hsz.
    unfold list7. cbn [pack7z_with h_folders h_ss h_files h_pack]. rewrite Hfs, Hns, <- Hall.
    pose proof (file_infos_members ad af (all_members L) [] Haf) as Hf. rewrite !app_nil_r in Hf. rewrite Hf.
    rewrite Hpw.
    unfold all_members at 1. rewrite (folder_files_segs _ _ Htr).
    assert (Hx : extractall' rev_new (body7z junk L trailer)
                   (match (match segs L with [] => None | _ => Some (lenN junk, map (fun g => lenN (sg_stream g)) (segs L)) end)
                    with Some (_, z) => z | None => [] end)
                   (match (match segs L with [] => None | _ => Some (lenN junk, map (fun g => lenN (sg_stream g)) (segs L)) end)
                    with Some (p, _) => p | None => 0 end)
                   (map seg_folder (segs L))
                   (map (fun g => map dinfo (seg_datas g)) (segs L))
                   (match (match segs L with [] => None | _ => Some (lenN junk, map (fun g => lenN (sg_stream g)) (segs L)) end)
                    with Some (_, z) => z | None => [] end)
                   (match (match segs L with [] => None | _ => Some (lenN junk, map (fun g => lenN (sg_stream g)) (segs L)) end)
                    with Some (p, _) => p | None => 0 end)
                 = Some (flat_map seg_datas (segs L))).
    { destruct (segs L) as [|g0 l0] eqn:Es.
      - reflexivity.
      - rewrite <- Es in *. unfold body7z. apply extractall_segs; assumption. }
    rewrite Hx. f_equal.
    apply process7_members. intros n d HI. apply fs_read_NoDup.
    - rewrite <- Hall. apply nodup_str_NoDup. exact Hnd.
    - rewrite <- Hall. exact HI.
  Qed.

  Lemma std7z_ok_nonempty L af asize :
    std7z_ok T lzma_alone lzma2_raw L af asize = true ->
    forallb (fun nd => negb (is_nil (snd nd))) (flat_map seg_datas (segs L)) = true.
  Proof.
    unfold std7z_ok. intro H. repeat (apply andb_true_iff in H; destruct H as [H ?Hx]).
    unfold all_members in Hx5. rewrite datas_app, datas_segs, (datas_nondata _ H), app_nil_r in Hx5. exact Hx5.
  Qed.

  Lemma members_exact_7z (L : layout) full junk trailer ad af asize apath :
    std7z_ok T lzma_alone lzma2_raw L af asize = true ->
    read_7z R T lzma_alone lzma2_raw supported lower extract rev_new asize
            (Some (pack7z full ad af (lenN junk) L)) (body7z junk L trailer) apath
    = {| yields := expected7 R T supported lower extract apath (all_members L); fin := Done |}.
  Proof.
    intro H. pose proof (std7z_ok_nonempty _ _ _ H) as Hne. unfold pack7z.
    assert (file_sizes rev_new (map seg_folder (segs L)) (std_ss full L)
            = Some (map (fun nd => lenN (snd nd)) (flat_map seg_datas (segs L)))
            /\ num_streams (map seg_folder (segs L)) (std_ss full L) = map cut (segs L)) as [Hfs Hns].
    { unfold std_ss. destruct (segs L) as [|g0 l0] eqn:Es.
      - split; reflexivity.
      - rewrite <- Es in *. destruct (multi full L) eqn:Em.
        + unfold file_sizes, num_streams. cbn [ss_sizes ss_nus]. split; [|reflexivity].
          apply sizes_prop_segs. exact Hne.
        + unfold multi in Em. apply orb_false_iff in Em as [_ Em].
          assert (Hones : forallb (fun g => cut g =? 1) (segs L) = true).
          { apply forallb_forall. intros g Hg. destruct (cut g =? 1) eqn:E; [reflexivity|].
            exfalso. assert (existsb (fun g => negb (cut g =? 1)) (segs L) = true).
            { apply existsb_exists. exists g. rewrite E. auto. } congruence. }
          destruct (unpack_lasts_segs _ Hones) as [U1 U2].
          unfold file_sizes, num_streams. cbn [ss_sizes ss_nus]. rewrite U1, U2. split; reflexivity. }
    apply members_exact_7z_with; assumption.
  Qed.

  (* no SubStreamsInfo at all, one file per folder (second hunk of the repair) *)
  Lemma members_exact_7z_no_substreams (L : layout) junk trailer ad af asize apath :
    std7z_ok T lzma_alone lzma2_raw L af asize = true ->
    one_file_per_folder L = true ->
    read_7z R T lzma_alone lzma2_raw supported lower extract rev_new asize
            (Some (pack7z_with None ad af (lenN junk) L)) (body7z junk L trailer) apath
    = {| yields := expected7 R T supported lower extract apath (all_members L); fin := Done |}.
  Proof.
    intros H H1. destruct (unpack_lasts_segs _ H1) as [U1 U2].
    apply members_exact_7z_with; [exact H | |].
    - unfold file_sizes. cbn [default_sizes rev_new]. rewrite U1. reflexivity.
    - unfold num_streams. rewrite U2. reflexivity.
  Qed.

End WithOracles.

(* ====================================================================== ZIP / TAR member loops *)
Lemma filter_filter' {A} (f g : A -> bool) l : filter g (filter f l) = filter (fun x => f x && g x) l.
Proof.
  induction l as [|x l IH]; cbn [filter]; [reflexivity|].
  destruct (f x); cbn [filter andb]; [destruct (g x); rewrite IH; reflexivity | exact IH].
Qed.

Section Loops.
  Variable R : Type.
  Variable T : tables.
  Variable supported : str -> bool.
  Variable lower : str -> str.
  Variable extract : str -> bytes -> str -> list R.

  Notation zip_select' := (zip_select T supported lower).
  Notation zip_process' := (zip_process R T extract).
  Notation read_zip' := (read_zip R T supported lower extract).
  Notation tar_process' := (tar_process R T supported lower extract).
  Notation visible' := (visible T supported lower).
  Notation entry' := (entry R T extract).
  Notation want' := (want T supported lower).
  Notation expected' := (expected R T supported lower extract).

  Lemma zip_select_std flags ms :
    N.testbit flags 0 = false ->
    zip_select' (map (zinfo_of flags) ms)
    = Some (map (zinfo_of flags) (filter (fun m => negb (is_dirm m) && visible' (m_name m)) ms)).
  Proof.
    intro Hf. induction ms as [|m ms IH]; cbn [map filter zip_select]; [reflexivity|].
    cbn [zinfo_of z_isdir z_flags z_name]. destruct (is_dirm m); cbn [negb andb]; [exact IH|].
    rewrite Hf. unfold visible. destruct (should_skip T supported lower (m_name m) (basename (m_name m))); cbn [negb].
    - exact IH.
    - rewrite IH. reflexivity.
  Qed.

  Lemma zip_process_std rv flags apath ms :
    zip_process' rv (map (zinfo_of flags) ms) apath
    = {| yields := flat_map (fun m => entry' apath (m_name m) (bytes_of m))
                            (filter (fun m => negb (max_memory T <? lenN (bytes_of m))) ms);
         fin := Done |}.
  Proof.
    induction ms as [|m ms IH]; cbn [map filter zip_process flat_map]; [reflexivity|].
    cbn [zinfo_of z_size z_read z_name]. destruct (max_memory T <? lenN (bytes_of m)); cbn [negb].
    - exact IH.
    - rewrite IH. cbn [yields fin flat_map]. reflexivity.
  Qed.

  Lemma members_exact_zip rv flags apath ms :
    N.testbit flags 0 = false ->
    read_zip' rv (Some (map (zinfo_of flags) ms)) apath = {| yields := expected' apath ms; fin := Done |}.
  Proof.
    intro Hf. unfold read_zip. rewrite (zip_select_std flags ms Hf), zip_process_std.
    unfold expected. rewrite filter_filter'. unfold want. reflexivity.
  Qed.

  Lemma members_exact_tar apath ms :
    read_tar R T supported lower extract (Some (map tinfo_of ms)) apath = {| yields := expected' apath ms; fin := Done |}.
  Proof.
    unfold read_tar. f_equal. unfold expected.
    induction ms as [|m ms IH]; cbn [map filter tar_process flat_map]; [reflexivity|].
    unfold want at 1, visible. cbn [tinfo_of t_isreg t_name t_size t_read].
    destruct (is_dirm m); cbn [negb andb]; [exact IH|].
    destruct (should_skip T supported lower (m_name m) (basename (m_name m))); cbn [negb andb]; [exact IH|].
    destruct (max_memory T <? lenN (bytes_of m)); cbn [negb]; [exact IH|].
    cbn [flat_map]. rewrite IH. reflexivity.
  Qed.

  (* a member that cannot be read, is not a regular file, or is skipped changes nothing else *)
  Definition tar_dead (i : tinfo) : bool :=
    negb (t_isreg i) || should_skip T supported lower (t_name i) (basename (t_name i))
    || (max_memory T <? t_size i) || match t_read i with TOk _ => false | _ => true end.

  Lemma tar_process_app l1 l2 apath : tar_process' (l1 ++ l2) apath = tar_process' l1 apath ++ tar_process' l2 apath.
  Proof.
    induction l1 as [|i l1 IH]; cbn [app tar_process]; [reflexivity|].
    destruct (negb (t_isreg i)); [exact IH|].
    destruct (should_skip T supported lower (t_name i) (basename (t_name i))); [exact IH|].
    destruct (max_memory T <? t_size i); [exact IH|].
    destruct (t_read i); [rewrite IH, app_assoc; reflexivity | exact IH | exact IH].
  Qed.

  Lemma tar_member_local l1 i l2 apath :
    tar_dead i = true ->
    read_tar R T supported lower extract (Some (l1 ++ i :: l2)) apath
    = read_tar R T supported lower extract (Some (l1 ++ l2)) apath.
  Proof.
    intro H. unfold read_tar. f_equal. rewrite !tar_process_app. f_equal.
    cbn [tar_process]. unfold tar_dead in H.
    destruct (negb (t_isreg i)); [reflexivity|].
    destruct (should_skip T supported lower (t_name i) (basename (t_name i))); [reflexivity|].
    destruct (max_memory T <? t_size i); [reflexivity|].
    destruct (t_read i); [discriminate | reflexivity | reflexivity].
  Qed.

  Definition zread_failed (r : zread) : bool := match r with ZBadZip | ZOther => true | _ => false end.

  Lemma zip_select_app l1 l2 :
    zip_select' (l1 ++ l2) = match zip_select' l1, zip_select' l2 with
                             | Some a, Some b => Some (a ++ b)
                             | _, _ => None
                             end.
  Proof.
    induction l1 as [|i l1 IH]; cbn [app zip_select].
    - destruct (zip_select' l2); reflexivity.
    - destruct (z_isdir i); [exact IH|].
      destruct (N.testbit (z_flags i) 0); [reflexivity|].
      destruct (should_skip T supported lower (z_name i) (basename (z_name i))); [exact IH|].
      rewrite IH. destruct (zip_select' l1); [|reflexivity]. destruct (zip_select' l2); reflexivity.
  Qed.

  Lemma zip_process_drop a i b apath :
    zread_failed (z_read i) = true ->
    zip_process' rev_new (a ++ i :: b) apath = zip_process' rev_new (a ++ b) apath.
  Proof.
    intro H. induction a as [|j a IH]; cbn [app zip_process].
    - destruct (max_memory T <? z_size i); [reflexivity|].
      destruct (z_read i); cbn in H; try discriminate; reflexivity.
    - destruct (max_memory T <? z_size j); [exact IH|].
      destruct (z_read j); try rewrite IH; reflexivity.
  Qed.

  (* repaired ZIP loop: a member whose read fails (bad CRC, broken stream) affects only itself *)
  Lemma zip_member_local l1 i l2 apath :
    N.testbit (z_flags i) 0 = false -> zread_failed (z_read i) = true ->
    read_zip' rev_new (Some (l1 ++ i :: l2)) apath = read_zip' rev_new (Some (l1 ++ l2)) apath.
  Proof.
    intros Hf Hr. unfold read_zip. rewrite !zip_select_app.
    destruct (zip_select' l1) as [a|]; [|reflexivity].
    cbn [zip_select]. destruct (z_isdir i); [reflexivity|]. rewrite Hf.
    destruct (should_skip T supported lower (z_name i) (basename (z_name i))); [reflexivity|].
    destruct (zip_select' l2) as [b|]; [|reflexivity].
    apply zip_process_drop. exact Hr.
  Qed.
End Loops.

(* ====================================================================== detection *)
Lemma takeN_dropN {A} n (l : list A) : takeN n l ++ dropN n l = l.
Proof.
  revert n. induction l as [|x l IH]; intro n; cbn [takeN dropN]; [reflexivity|].
  destruct (n =? 0); cbn [app]; [reflexivity | rewrite IH; reflexivity].
Qed.

Lemma takeN_app_le {A} n (a b : list A) : lenN a <= n -> takeN n (a ++ b) = a ++ takeN (n - lenN a) b.
Proof.
  revert n. induction a as [|x a IH]; intros n H; cbn [app lenN takeN] in *.
  - rewrite N.sub_0_r. reflexivity.
  - destruct (n =? 0) eqn:E; [lia|]. rewrite IH by lia. f_equal. f_equal. f_equal. lia.
Qed.

Lemma prefix_of_common (m m0 rest rest0 : bytes) :
  m ++ rest = m0 ++ rest0 -> startswith m m0 = true \/ startswith m0 m = true.
Proof.
  intro H. apply app_eq_app in H as [l [[H1 _]|[H1 _]]].
  - left. apply startswith_app. exists l. exact H1.
  - right. apply startswith_app. exists l. exact H1.
Qed.

Lemma detect_magic_hit l m ty len rest :
  wf_magic l = true -> In (m, ty, len) l -> detect_magic l (m ++ rest) = Some ty.
Proof.
  induction l as [|[[m0 ty0] len0] l IH]; intros Hwf HI; [destruct HI|].
  cbn [wf_magic] in Hwf. repeat (apply andb_true_iff in Hwf; destruct Hwf as [Hwf ?Hx]).
  cbn [detect_magic]. destruct HI as [HI|HI].
  - inversion HI; subst. apply N.eqb_eq in Hwf. rewrite <- Hwf, takeN_app_len, str_eqb_refl. reflexivity.
  - destruct (str_eqb (takeN len0 (m ++ rest)) m0) eqn:E.
    + exfalso. apply str_eqb_eq in E.
      pose proof (takeN_dropN len0 (m ++ rest)) as Hs. rewrite E in Hs. symmetry in Hs.
      apply prefix_of_common in Hs.
      rewrite forallb_forall in Hx0. specialize (Hx0 _ HI). cbn [fst] in Hx0. unfold indep in Hx0.
      apply negb_true_iff, orb_false_iff in Hx0 as [A B]. destruct Hs; congruence.
    + apply IH; assumption.
Qed.

Lemma wf_magic_entry l m ty len : wf_magic l = true -> In (m, ty, len) l -> lenN m <= 512 /\ m <> [].
Proof.
  induction l as [|[[m0 ty0] len0] l IH]; intros Hwf HI; [destruct HI|].
  cbn [wf_magic] in Hwf. repeat (apply andb_true_iff in Hwf; destruct Hwf as [Hwf ?Hx]).
  destruct HI as [HI|HI]; [|auto].
  inversion HI; subst. apply N.eqb_eq in Hwf. apply N.leb_le in Hx1. split; [lia|].
  intro; subst. discriminate.
Qed.

Lemma detect_hit T ok m ty len rest :
  wf_magic (magic T) = true -> In (m, ty, len) (magic T) ->
  ustar_at T (m ++ rest) && ok (takeN 512 (m ++ rest)) = false ->
  detect T ok (m ++ rest) = Some ty.
Proof.
  intros Hwf HI Hu. destruct (wf_magic_entry _ _ _ _ Hwf HI) as [Hl Hn].
  unfold detect. unfold ustar_at in Hu. rewrite Hu. rewrite (takeN_app_le 512 m rest Hl).
  rewrite (detect_magic_hit _ _ _ _ _ Hwf HI).
  destruct m; [congruence | reflexivity].
Qed.

Lemma ustar_nonempty T file : ustar_at T file = true -> takeN 512 file <> [].
Proof.
  unfold ustar_at, ustar_in. intros H E. rewrite E in H. cbn [lenN] in H.
  apply andb_true_iff in H as [H _]. apply N.leb_le in H. lia.
Qed.

Lemma detect_tar T ok file :
  ustar_at T file = true -> ok (takeN 512 file) = true -> detect T ok file = Some (s "tar").
Proof.
  intros H Hok. pose proof (ustar_nonempty _ _ H) as Hne. unfold detect. unfold ustar_at in H. rewrite H, Hok.
  destruct (takeN 512 file); [congruence | reflexivity].
Qed.

Lemma detect_tar_fallback T ok file :
  detect_magic (magic T) (takeN 512 file) = None -> ustar_at T file = true -> detect T ok file = Some (s "tar").
Proof.
  intros H1 H. pose proof (ustar_nonempty _ _ H) as Hne. unfold detect. unfold ustar_at in H. rewrite H, H1.
  destruct (takeN 512 file); [congruence|]. destruct (ok (n :: l)); reflexivity.
Qed.

(* ====================================================================== refutation witnesses *)
Definition T0 : tables := {|
  magic := []; tar_magic_offset := 257; tar_magic := s "ustar"; nested := [s ".zip"];
  max_archive_file := 52428800; max_memory := 10485760; max_7z := 104857600;
  aes_prefix := [6; 241; 7]; id_copy := [0]; id_lzma := [3; 1; 1]; id_lzma2 := [33]; id_bcj := [3; 3; 1; 3] |}.

Definition call := (str * bytes * str)%type.
Definition ext0 (bn : str) (d : bytes) (p : str) : list call := [(bn, d, p)].
Definition la0 (p : bytes) (z : option N) (d : bytes) : dres := DErr.
Definition l20 (b : N) (d : bytes) : dres := match d with 1 :: r => DOk r | _ => DErr end.  (* toy codec: 1 ++ data *)
Definition yes (_ : str) := true.
Definition idl (x : str) := x.
Definition copyc : coder := {| c_id := [0]; c_props := None |}.
Definition toyc : coder := {| c_id := [33]; c_props := Some [8] |}.

(* two files, one folder each, copy coder *)
Definition L2 : layout := {|
  segs := [ {| sg_init := []; sg_name := s "a.txt"; sg_data := s "AAAA first"; sg_coder := copyc; sg_stream := s "AAAA first" |};
            {| sg_init := []; sg_name := s "b.txt"; sg_data := s "BB"; sg_coder := copyc; sg_stream := s "BB" |} ];
  trailing := [] |}.

Lemma L2_ok : std7z_ok T0 la0 l20 L2 32 200 = true.
Proof. vm_compute. reflexivity. Qed.

Lemma multi_folder_old_wrong :
  read_7z call T0 la0 l20 yes idl ext0 rev_old 200 (Some (pack7z false 16 32 0 L2)) (body7z [] L2 []) (Some (s "x.7z"))
  = {| yields := [(s "a.txt", s "AAAA first", s "x.7z!/a.txt"); (s "b.txt", s "AA", s "x.7z!/b.txt")]; fin := Done |}.
Proof. vm_compute. reflexivity. Qed.

Lemma multi_folder_expected :
  expected7 call T0 yes idl ext0 (Some (s "x.7z")) (all_members L2)
  = [(s "a.txt", s "AAAA first", s "x.7z!/a.txt"); (s "b.txt", s "BB", s "x.7z!/b.txt")].
Proof. vm_compute. reflexivity. Qed.

Lemma no_substreams_old_wrong :
  read_7z call T0 la0 l20 yes idl ext0 rev_old 200 (Some (pack7z_with None 16 32 0 L2)) (body7z [] L2 []) (Some (s "x.7z"))
  = {| yields := [(s "a.txt", [], s "x.7z!/a.txt"); (s "b.txt", [], s "x.7z!/b.txt")]; fin := Done |}.
Proof. vm_compute. reflexivity. Qed.

(* an empty file between two data files *)
Definition L3 : layout := {|
  segs := [ {| sg_init := [{| m_name := s "e.txt"; m_kind := KEmpty |}]; sg_name := s "a.txt"; sg_data := s "A";
               sg_coder := copyc; sg_stream := s "A" |} ];
  trailing := [] |}.
Lemma L3_ok : std7z_ok T0 la0 l20 L3 32 200 = true.
Proof. vm_compute. reflexivity. Qed.

(* one file per folder, toy codec; the second folder's stream is corrupt (does not decode) *)
Definition L4 : layout := {|
  segs := [ {| sg_init := []; sg_name := s "a.txt"; sg_data := s "A"; sg_coder := toyc; sg_stream := 1 :: s "A" |};
            {| sg_init := []; sg_name := s "b.txt"; sg_data := s "B"; sg_coder := toyc; sg_stream := 1 :: s "B" |} ];
  trailing := [] |}.
Lemma L4_ok : std7z_ok T0 la0 l20 L4 32 200 = true.
Proof. vm_compute. reflexivity. Qed.
Definition L4_corrupt_body : bytes := (1 :: s "A") ++ (9 :: s "B").

Definition zi (n : str) (d : bytes) (r : zread) : zinfo :=
  {| z_name := n; z_isdir := false; z_flags := 0; z_size := lenN d; z_read := r |}.

(* ====================================================================== path labels *)
Section Labels.
  Variable T : tables.
  Variable supported : str -> bool.
  Variable lower : str -> str.

  Definition label_of (bn : str) (d : bytes) (p : str) : list str := [p].

  Lemma labels_expected apath ms :
    (max_memory T <=? max_archive_file T) = true ->
    expected (list N) T supported lower label_of apath ms
    = map (fun m => full_path apath (m_name m)) (filter (want T supported lower) ms).
  Proof.
    intro Hlim. apply N.leb_le in Hlim. unfold expected, entry, process_entry, label_of.
    induction ms as [|m ms IH]; cbn [filter flat_map map]; [reflexivity|].
    destruct (want T supported lower m) eqn:W; [|exact IH].
    cbn [flat_map map]. rewrite IH.
    unfold want in W. apply andb_true_iff in W as [_ W]. apply negb_true_iff in W. apply N.ltb_ge in W.
    destruct (N.ltb_spec (max_archive_file T) (lenN (bytes_of m))); [lia|]. reflexivity.
  Qed.
End Labels.
