(* C10 — obligations re-decided by the kernel for the tables generated from the repository on this run. *)
From Coq Require Import ZArith List Bool.
From S2T Require Import Lib.PyStr C10.Model C10.Spec C10.Proofs C10.Corr Gen.C10Tables.
Import ListNotations.
Open Scope N_scope.

(* premise of C10_detect_magic: every entry compares its whole non-empty magic, no magic shadows another *)
Theorem C10_tables_wf : wf_magic (magic T) = true.
Proof. vm_compute. reflexivity. Qed.
Print Assumptions C10_tables_wf.

(* the live table maps the published signatures of the formats to the right handler / tar mode *)
Definition published : list (bytes * handler) :=
  [ ([80; 75; 3; 4], HZip); ([80; 75; 5; 6], HZip); ([55; 122; 188; 175; 39; 28], H7z);
    ([31; 139], HTar (s "r:gz")); ([66; 90], HTar (s "r:bz2")); ([253; 55; 122; 88; 90; 0], HTar (s "r:xz")) ].
Theorem C10_magic_routes :
  forallb (fun ph => existsb (fun e => str_eqb (fst (fst e)) (fst ph) && handler_eqb (route (snd (fst e))) (snd ph)) (magic T))
          published = true
  /\ forallb (fun e => negb (handler_eqb (route (snd (fst e))) HNone)) (magic T) = true.
Proof. split; vm_compute; reflexivity. Qed.
Print Assumptions C10_magic_routes.

(* coder ids and limits the model dispatches on *)
Theorem C10_coder_ids :
  id_copy T = [0] /\ id_lzma T = [3; 1; 1] /\ id_lzma2 T = [33] /\ aes_prefix T = [6; 241; 7]
  /\ (max_memory T <=? max_archive_file T) = true.
Proof. repeat split; vm_compute; reflexivity. Qed.
Print Assumptions C10_coder_ids.

(* REFUTED for the original detection order (signatures first): a plain TAR whose first member is called "BZ..."
   has ustar at 257 but was typed tar.bz2; the repaired code types it tar as soon as tarfile accepts its header *)
Definition tar_named (name : bytes) : bytes := name ++ repeat 0 (257 - List.length name)%nat ++ s "ustar" ++ repeat 0 250.
Theorem C10_detect_tar_shadowed_refuted :
  exists file, ustar_at T file = true /\ detect_old T file <> Some (s "tar")
               /\ forall ok, ok (takeN 512 file) = true -> detect T ok file = Some (s "tar").
Proof.
  exists (tar_named (s "BZ_report.txt")). split; [vm_compute; reflexivity|]. split.
  - vm_compute. intro H. discriminate H.
  - intros ok H. apply C10.Proofs.detect_tar; [vm_compute; reflexivity | exact H].
Qed.
Print Assumptions C10_detect_tar_shadowed_refuted.

(* the last hypothesis of C10_detect_magic is satisfiable for every entry of today's table *)
Example C10_detect_magic_satisfiable :
  forallb (fun e => negb (ustar_at T (fst (fst e) ++ repeat 7 300))) (magic T) = true.
Proof. vm_compute; reflexivity. Qed.
Print Assumptions C10_detect_magic_satisfiable.

(* the property ids the parser model dispatches on are those of the live module *)
From S2T Require Import C10.Parse.
Theorem C10_prop_ids :
  prop_ids = [P_END; P_HEADER; P_ARCHIVE_PROPERTIES; P_ADDITIONAL_STREAMS; P_MAIN_STREAMS; P_FILES_INFO; P_PACK_INFO;
              P_UNPACK_INFO; P_SUBSTREAMS; P_SIZE; P_CRC; P_FOLDER; P_CODERS_UNPACK_SIZE; P_NUM_UNPACK_STREAM;
              P_EMPTY_STREAM; P_EMPTY_FILE; P_NAME; P_WIN_ATTRIBUTES; P_ENCODED_HEADER]
  /\ magic7 = MAGIC7.
Proof. split; vm_compute; reflexivity. Qed.
Print Assumptions C10_prop_ids.
