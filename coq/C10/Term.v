(* C10 — termination of the byte-level 7z header parser: with fuel > length of the stream no loop of
   C10/Parse.v ever runs out of fuel (the two `while True` loops and every count-driven loop of
   util/sevenzip.py consume at least one byte per iteration, or fail). *)
From Coq Require Import ZArith List Bool Lia ZifyBool.
From S2T Require Import Lib.PyStr C10.Model C10.Parse.
Import ListNotations.
Open Scope N_scope.

(* a result that is not PFuel and whose remaining stream is no longer than n *)
Definition safe_at {A} (x : pres A) (n : nat) : Prop :=
  x <> PFuel /\ forall a r, x = POk a r -> (List.length r <= n)%nat.

Lemma safe_ok {A} (a : A) r n : (List.length r <= n)%nat -> safe_at (POk a r) n.
Proof. intro H. split; [discriminate|]. intros a' r' E. inversion E; subst. exact H. Qed.
Lemma safe_bad {A} n : safe_at (@PBad A) n.
Proof. split; [discriminate|]. intros a r E. discriminate E. Qed.
Lemma safe_enc {A} n : safe_at (@PEnc A) n.
Proof. split; [discriminate|]. intros a r E. discriminate E. Qed.

Lemma safe_bind {A B} (p : pres A) (f : A -> bytes -> pres B) n :
  safe_at p n -> (forall a r, p = POk a r -> (List.length r <= n)%nat -> safe_at (f a r) n) -> safe_at (bind p f) n.
Proof.
  intros [Hp Hr] Hf. destruct p as [a r| | |]; cbn [bind].
  - apply Hf; [reflexivity | eapply Hr; reflexivity].
  - apply safe_bad.
  - apply safe_enc.
  - congruence.
Qed.

Lemma length_dropN {A} n (l : list A) : (List.length (dropN n l) <= List.length l)%nat.
Proof.
  revert n. induction l as [|x l IH]; intro n; cbn [dropN List.length]; [lia|].
  destruct (n =? 0); cbn [List.length]; [lia | specialize (IH (N.pred n)); lia].
Qed.

Lemma length_dropN_pos {A} n (l : list A) : 0 < n -> l <> [] -> (List.length (dropN n l) < List.length l)%nat.
Proof.
  intros Hn Hl. destruct l as [|x l]; [congruence|]. cbn [dropN List.length].
  destruct (n =? 0) eqn:E; [lia|]. pose proof (length_dropN (N.pred n) l). lia.
Qed.

(* primitives *)
Lemma safe_u8 b n : (List.length b <= n)%nat -> safe_at (r_u8 b) n.
Proof. intro H. destruct b; cbn [r_u8]; [apply safe_bad | apply safe_ok; cbn [List.length] in H; lia]. Qed.

Lemma u8_strict b a r : r_u8 b = POk a r -> (List.length r < List.length b)%nat.
Proof. destruct b; cbn [r_u8]; intro E; inversion E; subst. cbn [List.length]. lia. Qed.

Lemma safe_bytes k b n : (List.length b <= n)%nat -> safe_at (r_bytes k b) n.
Proof.
  intro H. unfold r_bytes. destruct (lenN b <? k); [apply safe_bad|]. apply safe_ok.
  pose proof (length_dropN k b). lia.
Qed.

Lemma bytes_strict k b a r : 0 < k -> r_bytes k b = POk a r -> (List.length r < List.length b)%nat.
Proof.
  intros Hk. unfold r_bytes. destruct (lenN b <? k) eqn:E; [discriminate|]. intro H. inversion H; subst.
  apply length_dropN_pos; [exact Hk|]. intro; subst. cbn [lenN] in E. lia.
Qed.

Lemma safe_rn_loop k i mask first value b n : (List.length b <= n)%nat -> safe_at (rn_loop k i mask first value b) n.
Proof.
  revert i mask value b. induction k as [|k IH]; intros i mask value b H; cbn [rn_loop].
  - apply safe_ok. exact H.
  - destruct (N.land first mask =? 0); [apply safe_ok; exact H|].
    apply safe_bind; [apply safe_u8; exact H|]. intros a r E Hr. apply IH. exact Hr.
Qed.

Lemma safe_number b n : (List.length b <= n)%nat -> safe_at (r_number b) n.
Proof.
  intro H. unfold r_number. apply safe_bind; [apply safe_u8; exact H|]. intros a r E Hr. apply safe_rn_loop. exact Hr.
Qed.

Lemma number_strict b a r : r_number b = POk a r -> (List.length r < List.length b)%nat.
Proof.
  unfold r_number. destruct (r_u8 b) as [x b'| | |] eqn:E; cbn [bind]; try discriminate.
  intro H. apply u8_strict in E. pose proof (safe_rn_loop 8 0 128 x 0 b' (List.length b') (le_n _)) as [_ S].
  specialize (S _ _ H). lia.
Qed.

Lemma safe_u16 b n : (List.length b <= n)%nat -> safe_at (r_u16 b) n.
Proof. intro H. unfold r_u16. apply safe_bind; [apply safe_bytes; exact H|]. intros a r E Hr. apply safe_ok. exact Hr. Qed.
Lemma safe_u32 b n : (List.length b <= n)%nat -> safe_at (r_u32 b) n.
Proof. intro H. unfold r_u32. apply safe_bind; [apply safe_bytes; exact H|]. intros a r E Hr. apply safe_ok. exact Hr. Qed.

Lemma u16_strict b a r : r_u16 b = POk a r -> (List.length r < List.length b)%nat.
Proof.
  unfold r_u16. destruct (r_bytes 2 b) as [x b'| | |] eqn:E; cbn [bind]; try discriminate.
  intro H. inversion H; subst. eapply bytes_strict; [|exact E]. lia.
Qed.

Lemma safe_boolvec c b n : (List.length b <= n)%nat -> safe_at (r_boolvec c b) n.
Proof. intro H. unfold r_boolvec. apply safe_bind; [apply safe_bytes; exact H|]. intros a r E Hr. apply safe_ok. exact Hr. Qed.

Lemma safe_boolvec_def c b n : (List.length b <= n)%nat -> safe_at (r_boolvec_def c b) n.
Proof.
  intro H. unfold r_boolvec_def. apply safe_bind; [apply safe_u8; exact H|]. intros a r E Hr.
  destruct (negb (a =? 0)); [apply safe_ok; exact Hr | apply safe_boolvec; exact Hr].
Qed.

Lemma safe_skip_crcs c b n : (List.length b <= n)%nat -> safe_at (skip_crcs c b) n.
Proof.
  intro H. unfold skip_crcs. apply safe_bind; [apply safe_u8; exact H|]. intros a r E Hr.
  destruct (negb (a =? 0)).
  - apply safe_bind; [apply safe_bytes; exact Hr|]. intros; apply safe_ok; assumption.
  - apply safe_bind; [apply safe_boolvec; exact Hr|]. intros v r' E' Hr'.
    apply safe_bind; [apply safe_bytes; exact Hr'|]. intros; apply safe_ok; assumption.
Qed.

Lemma safe_expect_end {A} p (a : A) r n : (List.length r <= n)%nat -> safe_at (expect_end p a r) n.
Proof. intro H. unfold expect_end. destruct (p =? P_END); [apply safe_ok; exact H | apply safe_bad]. Qed.

(* count-driven loops: the body is safe and consumes at least one byte *)
Lemma safe_rep {A} (p : bytes -> pres A) fuel :
  forall c b n,
    (forall b', (List.length b' <= n)%nat -> safe_at (p b') n) ->
    (forall b' a r, (List.length b' <= n)%nat -> p b' = POk a r -> (List.length r < List.length b')%nat) ->
    (List.length b <= n)%nat -> (List.length b < fuel)%nat -> safe_at (rep fuel c p b) n.
Proof.
  induction fuel as [|f IH]; intros c b n Hs Hc Hb Hf; [lia|].
  cbn [rep]. destruct (c =? 0); [apply safe_ok; exact Hb|].
  apply safe_bind; [apply Hs; exact Hb|]. intros x r E Hr.
  apply safe_bind.
  - apply IH; try assumption. apply Hc in E; [lia | exact Hb].
  - intros l r' E' Hr'. apply safe_ok. exact Hr'.
Qed.

Ltac sb := apply safe_bind; [ | intros ? ? ? ? ].
Ltac srep_num := apply safe_rep; [intros; apply safe_number; assumption | intros ? ? ? _; apply number_strict | assumption | lia].

Lemma safe_pack_body fuel b n : (n < fuel)%nat -> (List.length b <= n)%nat -> safe_at (parse_pack_body fuel b) n.
Proof.
  intros HF H. unfold parse_pack_body.
  sb; [apply safe_number; assumption|]. sb; [apply safe_number; assumption|]. sb; [apply safe_u8; assumption|].
  sb.
  - destruct (a1 =? P_SIZE); [|apply safe_ok; assumption].
    sb; [srep_num|].
    sb; [apply safe_u8; assumption|]. apply safe_ok; assumption.
  - sb.
    + destruct (snd a2 =? P_CRC); [|apply safe_ok; assumption].
      sb; [apply safe_skip_crcs; assumption|]. apply safe_u8; assumption.
    + apply safe_expect_end; assumption.
Qed.

Lemma safe_coder b n : (List.length b <= n)%nat -> safe_at (parse_coder b) n.
Proof.
  intro H. unfold parse_coder. sb; [apply safe_u8; assumption|]. sb; [apply safe_bytes; assumption|].
  sb.
  - destruct (N.testbit a 4); [|apply safe_ok; assumption].
    sb; [apply safe_number; assumption|]. sb; [apply safe_number; assumption|]. apply safe_ok; assumption.
  - destruct (N.testbit a 5); [|apply safe_ok; assumption].
    sb; [apply safe_number; assumption|]. sb; [apply safe_bytes; assumption|]. apply safe_ok; assumption.
Qed.

Lemma strict_of_u8_first {A} (f : N -> bytes -> pres A) :
  (forall x b', safe_at (f x b') (List.length b')) ->
  forall b a r, bind (r_u8 b) f = POk a r -> (List.length r < List.length b)%nat.
Proof.
  intros Hf b a r. destruct (r_u8 b) as [x b'| | |] eqn:E; cbn [bind]; try discriminate.
  intro H. apply u8_strict in E. destruct (Hf x b') as [_ S]. specialize (S _ _ H). lia.
Qed.

Lemma coder_strict b a r : parse_coder b = POk a r -> (List.length r < List.length b)%nat.
Proof.
  unfold parse_coder. apply strict_of_u8_first. intros x b'.
  sb; [apply safe_bytes; apply le_n|].
  sb.
  - destruct (N.testbit x 4); [|apply safe_ok; assumption].
    sb; [apply safe_number; assumption|]. sb; [apply safe_number; assumption|]. apply safe_ok; assumption.
  - destruct (N.testbit x 5); [|apply safe_ok; assumption].
    sb; [apply safe_number; assumption|]. sb; [apply safe_bytes; assumption|]. apply safe_ok; assumption.
Qed.

Ltac srep_coder := apply safe_rep; [intros; apply safe_coder; assumption | intros ? ? ? _; apply coder_strict | assumption | lia].

Lemma safe_folder fuel b n : (n < fuel)%nat -> (List.length b <= n)%nat -> safe_at (parse_folder fuel b) n.
Proof.
  intros HF H. unfold parse_folder. sb; [apply safe_number; assumption|].
  sb; [srep_coder|].
  sb; [srep_num|].
  apply safe_ok; assumption.
Qed.

Lemma folder_strict fuel b a r : (List.length b < fuel)%nat -> parse_folder fuel b = POk a r -> (List.length r < List.length b)%nat.
Proof.
  intros HF. unfold parse_folder. destruct (r_number b) as [x b'| | |] eqn:E; cbn [bind]; try discriminate.
  intro H. apply number_strict in E.
  assert (S : safe_at (let* (cs, r0) := rep fuel x parse_coder b' in
                       let* (bp, r1) := rep fuel (2 * (lenN cs - 1)) r_number r0 in POk cs r1) (List.length b')).
  { sb; [apply safe_rep; [intros; apply safe_coder; assumption | intros ? ? ? _; apply coder_strict | apply le_n | lia]|].
    sb; [apply safe_rep; [intros; apply safe_number; assumption | intros ? ? ? _; apply number_strict | assumption | lia]|].
    apply safe_ok; assumption. }
  destruct S as [_ S]. specialize (S _ _ H). lia.
Qed.

Lemma safe_unpack_sizes fuel fl : forall b n, (n < fuel)%nat -> (List.length b <= n)%nat -> safe_at (parse_unpack_sizes fuel fl b) n.
Proof.
  induction fl as [|cs fr IH]; intros b n HF H; cbn [parse_unpack_sizes]; [apply safe_ok; assumption|].
  sb; [srep_num|].
  sb; [apply IH; assumption|]. apply safe_ok; assumption.
Qed.

Lemma safe_unpack_body fuel b n : (n < fuel)%nat -> (List.length b <= n)%nat -> safe_at (parse_unpack_body fuel b) n.
Proof.
  intros HF H. unfold parse_unpack_body. sb; [apply safe_u8; assumption|].
  destruct (negb (a =? P_FOLDER)); [apply safe_bad|].
  sb; [apply safe_number; assumption|]. sb; [apply safe_u8; assumption|].
  destruct (negb (a1 =? 0)); [apply safe_bad|].
  sb; [apply safe_rep; [intros; apply safe_folder; [lia | assumption]
                       | intros b' x r' Hb' E; eapply folder_strict; [|exact E]; lia | assumption | lia]|].
  sb; [apply safe_u8; assumption|].
  destruct (negb (a3 =? P_CODERS_UNPACK_SIZE)); [apply safe_bad|].
  sb; [apply safe_unpack_sizes; assumption|]. sb; [apply safe_u8; assumption|].
  sb.
  - destruct (a5 =? P_CRC); [|apply safe_ok; assumption].
    sb; [apply safe_skip_crcs; assumption|]. apply safe_u8; assumption.
  - apply safe_expect_end; assumption.
Qed.

Lemma safe_ss_sizes_loop fuel fl : forall nus b n,
  (n < fuel)%nat -> (List.length b <= n)%nat -> safe_at (ss_sizes_loop fuel fl nus b) n.
Proof.
  induction fl as [|f fr IH]; intros nus b n HF H; cbn [ss_sizes_loop]; [apply safe_ok; assumption|].
  destruct nus as [|k nr]; [apply safe_ok; assumption|].
  sb; [srep_num|]. sb; [apply IH; assumption|]. apply safe_ok; assumption.
Qed.

Lemma safe_substreams_body fuel fl b n :
  (n < fuel)%nat -> (List.length b <= n)%nat -> safe_at (parse_substreams_body fuel fl b) n.
Proof.
  intros HF H. unfold parse_substreams_body. sb; [apply safe_u8; assumption|].
  sb.
  - destruct (a =? P_NUM_UNPACK_STREAM); [|apply safe_ok; assumption].
    sb; [srep_num|]. sb; [apply safe_u8; assumption|]. apply safe_ok; assumption.
  - sb.
    + destruct (snd a0 =? P_SIZE); [|apply safe_ok; assumption].
      sb; [apply safe_ss_sizes_loop; assumption|]. sb; [apply safe_u8; assumption|]. apply safe_ok; assumption.
    + sb.
      * destruct (snd a1 =? P_CRC); [|apply safe_ok; assumption].
        sb; [apply safe_skip_crcs; assumption|]. apply safe_u8; assumption.
      * apply safe_expect_end; assumption.
Qed.

Lemma safe_streams_info fuel st b n :
  (n < fuel)%nat -> (List.length b <= n)%nat -> safe_at (parse_streams_info fuel st b) n.
Proof.
  intros HF H. unfold parse_streams_info. sb; [apply safe_u8; assumption|].
  sb.
  - destruct (a =? P_PACK_INFO); [|apply safe_ok; assumption].
    sb; [apply safe_pack_body; assumption|]. sb; [apply safe_u8; assumption|]. apply safe_ok; assumption.
  - sb.
    + destruct (snd a0 =? P_UNPACK_INFO); [|apply safe_ok; assumption].
      sb; [apply safe_unpack_body; assumption|]. sb; [apply safe_u8; assumption|]. apply safe_ok; assumption.
    + sb.
      * destruct (snd a1 =? P_SUBSTREAMS); [|apply safe_ok; assumption].
        sb; [apply safe_substreams_body; assumption|]. sb; [apply safe_u8; assumption|]. apply safe_ok; assumption.
      * apply safe_expect_end; assumption.
Qed.

(* ------------------------------------------------------------------ files info *)
Lemma safe_name fuel : forall b n, (List.length b <= n)%nat -> (List.length b < fuel)%nat -> safe_at (r_name fuel b) n.
Proof.
  induction fuel as [|f IH]; intros b n H HF; [lia|]. cbn [r_name].
  apply safe_bind; [apply safe_u16; assumption|]. intros c r E Hr.
  destruct (c =? 0); [apply safe_ok; assumption|].
  apply u16_strict in E. sb; [apply IH; [assumption | lia]|]. apply safe_ok; assumption.
Qed.

Lemma name_strict fuel b a r : r_name fuel b = POk a r -> (List.length r < List.length b)%nat.
Proof.
  revert b a r. induction fuel as [|f IH]; intros b a r; cbn [r_name]; [discriminate|].
  destruct (r_u16 b) as [c b'| | |] eqn:E; cbn [bind]; try discriminate.
  apply u16_strict in E. destruct (c =? 0).
  - intro H. inversion H; subst. exact E.
  - destruct (r_name f b') as [t b''| | |] eqn:E2; cbn [bind]; try discriminate.
    intro H. inversion H; subst. apply IH in E2. lia.
Qed.

Lemma safe_set_attrs dv : forall old b n, (List.length b <= n)%nat -> safe_at (set_attrs dv old b) n.
Proof.
  induction dv as [|d dr IH]; intros old b n H; cbn [set_attrs]; [apply safe_ok; assumption|].
  destruct old as [|o orest]; [apply safe_ok; assumption|].
  destruct d.
  - sb; [apply safe_u32; assumption|]. sb; [apply IH; assumption|]. apply safe_ok; assumption.
  - sb; [apply IH; assumption|]. apply safe_ok; assumption.
Qed.

Lemma safe_files_prop fuel nf p acc b n :
  (n < fuel)%nat -> (List.length b <= n)%nat -> safe_at (files_prop fuel nf p acc b) n.
Proof.
  intros HF H. unfold files_prop.
  destruct (p =? P_EMPTY_STREAM); [sb; [apply safe_boolvec; assumption | apply safe_ok; assumption]|].
  destruct (p =? P_NAME).
  { sb; [apply safe_u8; assumption|]. destruct (negb (a =? 0)); [apply safe_bad|].
    sb; [|apply safe_ok; assumption].
    apply safe_rep; [intros; apply safe_name; [assumption | lia] | intros ? ? ? _; apply name_strict | assumption | lia]. }
  destruct (p =? P_WIN_ATTRIBUTES); [|apply safe_ok; assumption].
  sb; [apply safe_boolvec_def; assumption|]. sb; [apply safe_set_attrs; assumption|]. apply safe_ok; assumption.
Qed.

Lemma safe_files_loop fuel0 nf fuel : forall acc b n,
  (n < fuel0)%nat -> (List.length b <= n)%nat -> (List.length b < fuel)%nat -> safe_at (files_loop fuel fuel0 nf acc b) n.
Proof.
  induction fuel as [|f IH]; intros acc b n HF0 H HF; [lia|]. cbn [files_loop].
  apply safe_bind; [apply safe_u8; assumption|]. intros p r E Hr. apply u8_strict in E.
  destruct (p =? P_END); [apply safe_ok; assumption|].
  apply safe_bind; [apply safe_number; assumption|]. intros size r1 E1 Hr1.
  pose proof (safe_number r (List.length r) (le_n _)) as [_ S1]. specialize (S1 _ _ E1).
  apply safe_bind; [apply safe_files_prop; assumption|]. intros acc' unused E2 _.
  pose proof (length_dropN size r1). apply IH; [assumption | lia | lia].
Qed.

Lemma safe_files_info fuel b n : (n < fuel)%nat -> (List.length b <= n)%nat -> safe_at (parse_files_info fuel b) n.
Proof.
  intros HF H. unfold parse_files_info. sb; [apply safe_number; assumption|].
  sb; [apply safe_files_loop; [assumption | assumption | lia]|]. apply safe_ok; assumption.
Qed.

Lemma safe_archive_props fuel : forall b n, (List.length b <= n)%nat -> (List.length b < fuel)%nat -> safe_at (skip_archive_props fuel b) n.
Proof.
  induction fuel as [|f IH]; intros b n H HF; [lia|]. cbn [skip_archive_props].
  apply safe_bind; [apply safe_u8; assumption|]. intros p r E Hr. apply u8_strict in E.
  destruct (p =? P_END); [apply safe_ok; assumption|].
  apply safe_bind; [apply safe_number; assumption|]. intros size r1 E1 Hr1.
  pose proof (safe_number r (List.length r) (le_n _)) as [_ S1]. specialize (S1 _ _ E1).
  apply safe_bind; [apply safe_bytes; assumption|]. intros x r2 E2 Hr2.
  pose proof (safe_bytes size r1 (List.length r1) (le_n _)) as [_ S2]. specialize (S2 _ _ E2).
  apply IH; [assumption | lia].
Qed.

Lemma safe_main_header fuel st b n : (n < fuel)%nat -> (List.length b <= n)%nat -> safe_at (parse_main_header fuel st b) n.
Proof.
  intros HF H. unfold parse_main_header. sb; [apply safe_u8; assumption|].
  sb.
  - destruct (a =? P_ARCHIVE_PROPERTIES); [|apply safe_ok; assumption].
    sb; [apply safe_archive_props; [assumption | lia]|]. apply safe_u8; assumption.
  - sb.
    + destruct (a0 =? P_ADDITIONAL_STREAMS); [|apply safe_ok; assumption].
      sb; [apply safe_streams_info; assumption|]. sb; [apply safe_u8; assumption|]. apply safe_ok; assumption.
    + sb.
      * destruct (snd a1 =? P_MAIN_STREAMS); [|apply safe_ok; assumption].
        sb; [apply safe_streams_info; assumption|]. sb; [apply safe_u8; assumption|]. apply safe_ok; assumption.
      * sb.
        -- destruct (snd a2 =? P_FILES_INFO); [|apply safe_ok; assumption].
           sb; [apply safe_files_info; assumption|]. sb; [apply safe_u8; assumption|]. apply safe_ok; assumption.
        -- apply safe_expect_end; assumption.
Qed.

Section OpenTerm.
  Variable T : tables.
  Variable lzma_alone : bytes -> option N -> bytes -> dres.
  Variable lzma2_raw : N -> bytes -> dres.
  Variable crc32 : bytes -> N.

  Lemma chain_no_fuel cs us d : apply_chain_e T lzma_alone lzma2_raw cs us d <> PFuel.
  Proof.
    revert d. induction cs as [|c cs IH]; intro d; cbn [apply_chain_e]; [discriminate|].
    destruct (startswith (c_id c) (aes_prefix T)); [discriminate|].
    destruct (apply_decoder T lzma_alone lzma2_raw c us d); [apply IH | discriminate].
  Qed.

  Lemma safe_skip_ss_sizes fuel nus : forall b n, (n < fuel)%nat -> (List.length b <= n)%nat -> safe_at (skip_ss_sizes fuel nus b) n.
  Proof.
    induction nus as [|k nr IH]; intros b n HF H; cbn [skip_ss_sizes]; [apply safe_ok; assumption|].
    sb; [srep_num|]. apply IH; assumption.
  Qed.

  Lemma safe_skip_substreams fuel nf b n : (n < fuel)%nat -> (List.length b <= n)%nat -> safe_at (skip_substreams fuel nf b) n.
  Proof.
    intros HF H. unfold skip_substreams. sb; [apply safe_u8; assumption|].
    sb.
    - destruct (a =? P_NUM_UNPACK_STREAM); [|apply safe_ok; assumption].
      sb; [srep_num|]. sb; [apply safe_u8; assumption|]. apply safe_ok; assumption.
    - sb.
      + destruct (snd a0 =? P_SIZE); [|apply safe_ok; assumption].
        sb; [apply safe_skip_ss_sizes; assumption|]. apply safe_u8; assumption.
      + sb.
        * destruct (a1 =? P_CRC); [|apply safe_ok; assumption].
          sb; [apply safe_skip_crcs; assumption|]. apply safe_u8; assumption.
        * apply safe_expect_end; assumption.
  Qed.

  Lemma safe_encoded_header fuel body b n :
    (n < fuel)%nat -> (List.length b <= n)%nat -> safe_at (parse_encoded_header T lzma_alone lzma2_raw fuel body b) n.
  Proof.
    intros HF H. unfold parse_encoded_header. sb; [apply safe_u8; assumption|].
    sb.
    - destruct (a =? P_PACK_INFO); [|apply safe_ok; assumption].
      sb; [apply safe_pack_body; assumption|]. apply safe_ok; assumption.
    - sb; [apply safe_u8; assumption|].
      destruct (negb (a1 =? P_UNPACK_INFO)); [apply safe_bad|].
      sb; [apply safe_unpack_body; assumption|].
      destruct a2 as [|f0 fr]; [apply safe_bad|].
      sb; [apply safe_u8; assumption|].
      sb.
      + destruct (a2 =? P_SUBSTREAMS); [|apply safe_ok; assumption].
        sb; [apply safe_skip_substreams; assumption|]. sb; [apply safe_u8; assumption|]. apply safe_ok; assumption.
      + destruct (negb (snd a3 =? P_END)); [apply safe_bad|].
        destruct (f_coders f0) as [|c cs] eqn:Ec; [apply safe_bad|].
        match goal with |- safe_at (bind ?p _) _ => pose proof (chain_no_fuel (rev (c :: cs)) (f_unpack f0)
            (read_at body (match a0 with Some (q, _) => q | None => 0 end)
                     (sumN (match a0 with Some (_, z) => z | None => [] end)))) as Hc; destruct p eqn:Ep end;
          cbn [bind]; [apply safe_ok; assumption | apply safe_bad | apply safe_enc | congruence].
  Qed.

  (* _parse_end_header terminates on every byte string: no loop of the header parser runs out of fuel
     (the decompressed stream of an encoded header is parsed with fuel = its own length + 1) *)
  Lemma parse_end_header_terminates fuel body hdr :
    (List.length hdr < fuel)%nat -> parse_end_header T lzma_alone lzma2_raw fuel body hdr <> PFuel.
  Proof.
    intro HF. unfold parse_end_header.
    destruct (r_u8 hdr) as [p r| | |] eqn:E; cbn [bind]; try discriminate; [|destruct hdr; discriminate E].
    pose proof (u8_strict _ _ _ E) as Hr.
    destruct (p =? P_ENCODED_HEADER).
    - destruct (parse_encoded_header T lzma_alone lzma2_raw fuel body r) as [[st d] r'| | |] eqn:E1; cbn [bind];
        try discriminate.
      + cbn [snd fst]. destruct (r_u8 d) as [p' d'| | |] eqn:E2; cbn [bind]; try discriminate; [|destruct d; discriminate E2].
        pose proof (u8_strict _ _ _ E2) as Hd.
        destruct (p' =? P_HEADER).
        * apply (proj1 (safe_main_header (S (List.length d)) st d' (List.length d') ltac:(lia) (le_n _))).
        * destruct (p' =? P_END); discriminate.
      + exfalso. refine (proj1 (safe_encoded_header fuel body r (List.length r) _ (le_n _)) E1). lia.
    - cbn [bind]. destruct (p =? P_HEADER).
      + apply (proj1 (safe_main_header fuel st0 r (List.length r) ltac:(lia) (le_n _))).
      + destruct (p =? P_END); discriminate.
  Qed.

  Lemma open_7z_no_fuel file : open_7z crc32 file <> PFuel.
  Proof.
    unfold open_7z.
    repeat match goal with
           | |- bind ?p _ <> PFuel =>
               let E := fresh "E" in destruct p eqn:E; cbn [bind]; try discriminate
           | |- (if ?c then _ else _) <> PFuel => destruct c; try discriminate
           end.
    all: match goal with
         | E : r_bytes _ _ = PFuel |- _ => unfold r_bytes in E; destruct (lenN _ <? _) in E; discriminate E
         | E : r_u8 ?b = PFuel |- _ => destruct b; discriminate E
         | E : r_u32 ?b = PFuel |- _ => unfold r_u32, r_bytes in E; destruct (lenN _ <? _) in E; discriminate E
         end.
  Qed.

  Lemma open_7z_header_short file hb body r : open_7z crc32 file = POk (hb, body) r -> (List.length hb <= List.length file)%nat.
  Proof.
    unfold open_7z.
    repeat match goal with
           | |- bind ?p _ = _ -> _ =>
               let E := fresh "E" in destruct p eqn:E; cbn [bind]; try discriminate
           | |- (if ?c then _ else _) = _ -> _ => destruct c; try discriminate
           end.
    intro H. inversion H; subst.
    (* hb = takeN size (dropN off rest) where rest is a suffix of file *)
    assert (Ht : forall (n : N) (l : bytes), (List.length (takeN n l) <= List.length l)%nat).
    { intros n l. revert n. induction l as [|x l IH]; intro n; cbn [takeN List.length]; [lia|].
      destruct (n =? 0); cbn [List.length]; [lia | specialize (IH (N.pred n)); lia]. }
    match goal with |- (List.length (takeN ?n (dropN ?m ?l)) <= _)%nat =>
      pose proof (Ht n (dropN m l)) as H1; pose proof (length_dropN m l) as H2 end.
    repeat match goal with
           | E : r_bytes ?k ?b = POk _ ?r |- _ =>
               let S := fresh "S" in pose proof (proj2 (safe_bytes k b (List.length b) (le_n _)) _ _ E) as S; clear E
           | E : r_u8 ?b = POk _ ?r |- _ => apply u8_strict in E
           | E : r_u32 ?b = POk _ ?r |- _ =>
               let S := fresh "S" in pose proof (proj2 (safe_u32 b (List.length b) (le_n _)) _ _ E) as S; clear E
           end.
    lia.
  Qed.

  (* SevenZipReader(file) — signature check, end-header location, header parsing — terminates on every byte string *)
  Lemma parse_7z_terminates file : parse_7z T lzma_alone lzma2_raw crc32 file <> PFuel.
  Proof.
    unfold parse_7z. destruct (open_7z crc32 file) as [[hb body] r| | |] eqn:E; cbn [bind]; try discriminate.
    - apply parse_end_header_terminates. apply open_7z_header_short in E. cbn [fst]. lia.
    - exfalso. exact (open_7z_no_fuel file E).
  Qed.
End OpenTerm.
