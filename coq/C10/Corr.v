(* C10 — correspondence helpers: run the model on recorded cases and compare with what the
   implementation did.  In the correspondence an extraction result is the call the implementation
   made to the member's extractor: (basename used to choose the extractor, bytes, path label). *)
From Coq Require Import ZArith List Bool Lia.
From S2T Require Import Lib.PyStr C10.Model C10.Parse.
Import ListNotations.
Open Scope N_scope.

Definition call := (str * bytes * str)%type.

Definition opt_eqb {A} (f : A -> A -> bool) (a b : option A) : bool :=
  match a, b with Some x, Some y => f x y | None, None => true | _, _ => false end.

Fixpoint list_eqb {A B} (f : A -> B -> bool) (a : list A) (b : list B) : bool :=
  match a, b with
  | [], [] => true
  | x :: a', y :: b' => f x y && list_eqb f a' b'
  | _, _ => false
  end.

Definition call_eqb (a b : call) : bool :=
  let '(n1, d1, p1) := a in let '(n2, d2, p2) := b in str_eqb n1 n2 && str_eqb d1 d2 && str_eqb p1 p2.

Definition term_eqb (a b : term) : bool :=
  match a, b with
  | Done, Done => true
  | Raise Failed, Raise Failed | Raise Encrypted, Raise Encrypted | Raise TooLarge, Raise TooLarge => true
  | _, _ => false
  end.

Definition outcome_eqb (o : outcome call) (e : list call * term) : bool :=
  list_eqb call_eqb (yields o) (fst e) && term_eqb (fin o) (snd e).

(* recorded oracles *)
Definition names_oracle := list (str * (bool * str)).   (* basename -> (is_supported_file, lower) *)
Definition sup_of (t : names_oracle) (n : str) : bool := match assoc n t with Some (b, _) => b | None => false end.
Definition low_of (t : names_oracle) (n : str) : str := match assoc n t with Some (_, l) => l | None => n end.

(* lzma calls: (kind 1 = FORMAT_ALONE / 2 = FORMAT_RAW LZMA2, props, size, data) -> result *)
Definition lz_table := list (N * bytes * option N * bytes * dres).
Fixpoint lz_find (t : lz_table) (k : N) (p : bytes) (z : option N) (d : bytes) : dres :=
  match t with
  | [] => DErr
  | (k', p', z', d', r) :: t' =>
      if (k =? k') && str_eqb p p' && opt_eqb N.eqb z z' && str_eqb d d' then r else lz_find t' k p z d
  end.

Definition the_extract (bn : str) (d : bytes) (p : str) : list call := [(bn, d, p)].

Record case7 := {
  k_rev : revision; k_asize : N; k_header : option header; k_body : bytes; k_apath : option str;
  k_names : names_oracle; k_lz : lz_table;
  k_list : option (list (str * N * bool));     (* implementation's szf.list(): (filename, uncompressed, is_directory) *)
  k_expect : list call * term
}.

Definition finfo_eqb (f : finfo) (e : str * N * bool) : bool :=
  let '(n, z, d) := e in str_eqb (fi_name f) n && (fi_size f =? z) && Bool.eqb (fi_dir f) d.

Definition run7 (T : tables) (c : case7) : outcome call :=
  read_7z call T (fun p z d => lz_find (k_lz c) 1 p z d) (fun b d => lz_find (k_lz c) 2 [b] None d)
          (sup_of (k_names c)) (low_of (k_names c)) the_extract
          (k_rev c) (k_asize c) (k_header c) (k_body c) (k_apath c).

Definition corr7 (T : tables) (c : case7) : bool :=
  outcome_eqb (run7 T c) (k_expect c)
  && match k_list c, k_header c with
     | Some l, Some h => match list7 (k_rev c) h with
                         | Some infos => list_eqb finfo_eqb infos l
                         | None => false
                         end
     | _, _ => true
     end.

Record casez := { kz_rev : revision; kz_open : option (list zinfo); kz_apath : option str;
                  kz_names : names_oracle; kz_expect : list call * term }.
Definition corrz (T : tables) (c : casez) : bool :=
  outcome_eqb (read_zip call T (sup_of (kz_names c)) (low_of (kz_names c)) the_extract (kz_rev c) (kz_open c) (kz_apath c))
              (kz_expect c).

Record caset := { kt_open : option (list tinfo); kt_apath : option str;
                  kt_names : names_oracle; kt_expect : list call * term }.
Definition corrt (T : tables) (c : caset) : bool :=
  outcome_eqb (read_tar call T (sup_of (kt_names c)) (low_of (kt_names c)) the_extract (kt_open c) (kt_apath c))
              (kt_expect c).

(* detection: (first bytes of the file, tarfile's verdict on the first block, implementation's
   _detect_archive_type_optimized) *)
Definition corrd (T : tables) (c : bytes * bool * option str) : bool :=
  let '(f, ok, ex) := c in opt_eqb str_eqb (detect T (fun _ => ok) f) ex.

Definition handler_eqb (a b : handler) : bool :=
  match a, b with
  | HZip, HZip | H7z, H7z | HNone, HNone => true
  | HTar m, HTar m' => str_eqb m m'
  | _, _ => false
  end.

(* ------------------------------------------------------------------ byte-level header parser
   case = (archive bytes, lzma calls, crc32 calls, what SevenZipReader(file) did) *)
Inductive pexpect :=
| XBad | XEnc
| XOk (pack : option (N * list N))
      (folders : list (list (bytes * option bytes) * list N * N))   (* coders, unpack_sizes, num_streams *)
      (sizes : list N)                                              (* _file_sizes *)
      (files : list (str * N * bool * N)).                          (* filename, uncompressed, is_directory, attributes *)

Definition crc_table := list (bytes * N).
Fixpoint crc_find (t : crc_table) (d : bytes) : N :=
  match t with [] => 4294967296 | (d', c) :: t' => if str_eqb d d' then c else crc_find t' d end.

Definition coder_eqb (c : coder) (e : bytes * option bytes) : bool :=
  str_eqb (c_id c) (fst e) && opt_eqb str_eqb (c_props c) (snd e).
Definition folder_eqb (fn : folder * N) (e : list (bytes * option bytes) * list N * N) : bool :=
  let '(cs, us, n) := e in
  list_eqb coder_eqb (f_coders (fst fn)) cs && list_eqb N.eqb (f_unpack (fst fn)) us && (snd fn =? n).
Definition pack_eqb (a b : N * list N) : bool := (fst a =? fst b) && list_eqb N.eqb (snd a) (snd b).
Definition file_eqb (fe : finfo * fentry) (e : str * N * bool * N) : bool :=
  let '(n, z, d, a) := e in
  str_eqb (fi_name (fst fe)) n && (fi_size (fst fe) =? z) && Bool.eqb (fi_dir (fst fe)) d && (e_attr (snd fe) =? a).

Definition corrp (T : tables) (c : bytes * lz_table * crc_table * pexpect) : bool :=
  let '(file, lz, crcs, ex) := c in
  match parse_7z T (fun p z d => lz_find lz 1 p z d) (fun b d => lz_find lz 2 [b] None d) (crc_find crcs) file, ex with
  | PBad, XBad => true
  | PEnc, XEnc => true
  | POk st _, XOk pk fl sz fs =>
      opt_eqb pack_eqb (p_pack st) pk
      && list_eqb folder_eqb (combine (p_folders st) (p_nstreams st)) fl
      && (lenN (p_folders st) =? lenN (p_nstreams st))
      && list_eqb N.eqb (p_sizes st) sz
      && list_eqb file_eqb (combine (file_infos (p_files st) (p_sizes st)) (p_files st)) fs
  | _, _ => false
  end.

(* ------------------------------------------------------------------ the Coq serialiser (C10/Ser.v) against the harness's writer:
   (header description, digest bytes, EmptyFile vector bytes, attributes written?, pack area, crc32 calls,
    header bytes written by the Python writer, whole archive written by the Python writer) *)
From S2T Require Import C10.Ser.
Definition corrs (c : header * option bytes * option bytes * bool * bytes * crc_table * bytes * bytes) : bool :=
  let '(h, crcs, ef, wa, area, tbl, hb, arch) := c in
  str_eqb (ser_header h crcs ef wa) hb && str_eqb (archive_bytes (crc_find tbl) area hb) arch
  && wf_header h crcs ef wa && wf_archive (crc_find tbl) area hb.
