(* C10 — parse-after-serialise round trip of the byte-level 7z header parser. *)
From Coq Require Import ZArith List Bool Lia ZifyBool.
From S2T Require Import Lib.PyStr C10.Model C10.Spec C10.Proofs C10.Parse C10.Ser.
Import ListNotations.
Open Scope N_scope.

(* ------------------------------------------------------------------ bits *)
Lemma testbit_high x k m : x < 2 ^ k -> k <= m -> N.testbit x m = false.
Proof.
  intros Hx Hm. rewrite N.testbit_eqb. rewrite N.div_small; [reflexivity|].
  eapply N.lt_le_trans; [exact Hx|]. apply N.pow_le_mono_r; lia.
Qed.

Lemma lor_shiftl_add x y k : x < 2 ^ k -> N.lor x (N.shiftl y k) = x + y * 2 ^ k.
Proof.
  intro Hx. rewrite <- N.shiftl_mul_pow2.
  assert (Hl : N.land x (N.shiftl y k) = 0).
  { apply N.bits_inj_iff. intro m. rewrite N.land_spec, N.bits_0.
    destruct (N.lt_ge_cases m k) as [H|H].
    - rewrite N.shiftl_spec_low by exact H. apply andb_false_r.
    - rewrite (testbit_high x k m Hx H). reflexivity. }
  rewrite <- N.lxor_lor by exact Hl. symmetry. apply N.add_nocarry_lxor. exact Hl.
Qed.

(* ------------------------------------------------------------------ little-endian values *)
Lemma le_val_le_bytes k x : le_val (le_bytes k x) = x mod 256 ^ N.of_nat k.
Proof.
  revert x. induction k as [|k IH]; intro x; cbn [le_bytes le_val].
  - cbn. rewrite N.mod_1_r. reflexivity.
  - rewrite IH, Nat2N.inj_succ, N.pow_succ_r'. rewrite N.mod_mul_r by (try apply N.pow_nonzero; lia). reflexivity.
Qed.

Lemma length_le_bytes k x : List.length (le_bytes k x) = k.
Proof. revert x. induction k as [|k IH]; intro x; cbn [le_bytes List.length]; [reflexivity | rewrite IH; reflexivity]. Qed.

Lemma le_bytes_lt k x : Forall (fun b => b < 256) (le_bytes k x).
Proof.
  revert x. induction k as [|k IH]; intro x; cbn [le_bytes]; constructor; [apply N.mod_lt; lia | apply IH].
Qed.

Lemma le_val_bound l : Forall (fun b => b < 256) l -> le_val l < 256 ^ N.of_nat (List.length l).
Proof.
  induction 1 as [|b l Hb Hl IH]; cbn [le_val List.length]; [cbn; lia|].
  rewrite Nat2N.inj_succ, N.pow_succ_r'. nia.
Qed.

(* ------------------------------------------------------------------ _read_number *)
(* facts about the first byte, by exhaustion of its 256 values *)
Definition first_byte (e hi : N) : N := 256 - 2 ^ (8 - e) + hi.
Fixpoint upto (n : nat) : list N := match n with O => [] | S k => N.of_nat k :: upto k end.
Lemma upto_In n x : x < N.of_nat n -> In x (upto n).
Proof.
  induction n as [|n IH]; intro H; [lia|]. cbn [upto]. destruct (N.eq_dec x (N.of_nat n)) as [->|Hne]; [left; reflexivity|].
  right. apply IH. lia.
Qed.
Definition fb_check (e hi : N) : bool :=
  let f := first_byte e hi in
  forallb (fun i => negb (N.land f (N.shiftr 128 i) =? 0)) (filter (fun i => i <? e) (upto 9))
  && ((8 <=? e) || ((N.land f (N.shiftr 128 e) =? 0) && (N.land f (N.shiftr 128 e - 1) =? hi))).
Lemma fb_all : forallb (fun e => forallb (fun hi => fb_check e hi) (upto (N.to_nat (2 ^ (7 - e)))))
                       (upto 9) = true.
Proof. vm_compute. reflexivity. Qed.

Lemma fb_facts e hi : e <= 8 -> hi < 2 ^ (7 - e) -> fb_check e hi = true.
Proof.
  intros He Hh. pose proof fb_all as H. rewrite forallb_forall in H.
  specialize (H e (upto_In 9 e ltac:(lia))). rewrite forallb_forall in H. apply H.
  apply upto_In. rewrite N2Nat.id. exact Hh.
Qed.

Lemma fb_nonzero e hi i : e <= 8 -> hi < 2 ^ (7 - e) -> i < e -> (N.land (first_byte e hi) (N.shiftr 128 i) =? 0) = false.
Proof.
  intros He Hh Hi. pose proof (fb_facts e hi He Hh) as H. unfold fb_check in H. apply andb_true_iff in H as [H _].
  rewrite forallb_forall in H. specialize (H i). apply negb_true_iff. apply H.
  apply filter_In. split; [apply upto_In; lia | apply N.ltb_lt; exact Hi].
Qed.

Lemma fb_zero e hi : e <= 7 -> hi < 2 ^ (7 - e) ->
  (N.land (first_byte e hi) (N.shiftr 128 e) =? 0) = true /\ N.land (first_byte e hi) (N.shiftr 128 e - 1) = hi.
Proof.
  intros He Hh. pose proof (fb_facts e hi ltac:(lia) Hh) as H. unfold fb_check in H. apply andb_true_iff in H as [_ H].
  apply orb_true_iff in H as [H|H]; [apply N.leb_le in H; lia|].
  apply andb_true_iff in H as [H1 H2]. apply N.eqb_eq in H2. split; assumption.
Qed.

(* reading the extra bytes: j iterations of the loop *)
Lemma rn_steps first e hi (bs : bytes) : forall i value rest k,
  e <= 8 -> hi < 2 ^ (7 - e) -> first = first_byte e hi ->
  i + lenN bs <= e -> value < 2 ^ (8 * i) -> Forall (fun b => b < 256) bs ->
  rn_loop (List.length bs + k) i (N.shiftr 128 i) first value (bs ++ rest)
  = rn_loop k (i + lenN bs) (N.shiftr 128 (i + lenN bs)) first (value + le_val bs * 2 ^ (8 * i)) rest.
Proof.
  induction bs as [|b bs IH]; intros i value rest k He Hh Hf Hi Hv Hb.
  - cbn [List.length lenN le_val app plus]. rewrite N.add_0_r, N.mul_0_l, N.add_0_r. reflexivity.
  - cbn [List.length lenN app plus] in *. cbn [rn_loop]. subst first.
    rewrite (fb_nonzero e hi i He Hh) by lia. cbn [r_u8 bind].
    inversion Hb as [|? ? Hb1 Hb2]; subst.
    rewrite N.shiftr_shiftr. rewrite (N.mul_comm i 8). rewrite (lor_shiftl_add value b (8 * i) Hv).
    rewrite (IH (i + 1) (value + b * 2 ^ (8 * i)) rest k He Hh eq_refl) by
        (try assumption; try lia;
         replace (8 * (i + 1)) with (8 * i + 8) by lia; rewrite N.pow_add_r; change (2 ^ 8) with 256; nia).
    f_equal; [lia | f_equal; lia |].
    cbn [le_val]. replace (8 * (i + 1)) with (8 * i + 8) by lia. rewrite N.pow_add_r. change (2 ^ 8) with 256. lia.
Qed.

Lemma lenN_length {A} (l : list A) : lenN l = N.of_nat (List.length l).
Proof. induction l as [|x l IH]; cbn [lenN List.length]; [reflexivity | rewrite IH; lia]. Qed.

Lemma rn_enc e hi lo rest :
  (e <= 8)%nat -> hi < 2 ^ (7 - N.of_nat e) -> lo < 2 ^ (8 * N.of_nat e) ->
  rn_loop 8 0 128 (first_byte (N.of_nat e) hi) 0 (le_bytes e lo ++ rest) = POk (lo + hi * 2 ^ (8 * N.of_nat e)) rest.
Proof.
  intros He Hh Hl.
  assert (Hlen : List.length (le_bytes e lo) = e) by apply length_le_bytes.
  assert (Hval : le_val (le_bytes e lo) = lo).
  { rewrite le_val_le_bytes. rewrite N.mod_small; [reflexivity|].
    replace (256 ^ N.of_nat e) with (2 ^ (8 * N.of_nat e)); [exact Hl|].
    rewrite N.pow_mul_r. reflexivity. }
  pose proof (rn_steps (first_byte (N.of_nat e) hi) (N.of_nat e) hi (le_bytes e lo) 0 0 rest (8 - e)%nat
                ltac:(lia) Hh eq_refl) as H.
  rewrite Hlen in H. replace (e + (8 - e))%nat with 8%nat in H by lia.
  change (N.shiftr 128 0) with 128 in H. rewrite H; clear H.
  2:{ rewrite lenN_length, Hlen. lia. }
  2:{ cbn. lia. }
  2:{ apply le_bytes_lt. }
  rewrite lenN_length, Hlen, Hval. cbn [N.add]. rewrite N.mul_0_r. change (2 ^ 0) with 1. rewrite N.mul_1_r.
  replace (0 + N.of_nat e) with (N.of_nat e) by lia.
  destruct (8 - e)%nat as [|k] eqn:Ek.
  - (* e = 8: all eight bytes read *)
    assert (e = 8)%nat by lia. subst e. cbn [rn_loop].
    assert (hi = 0) by (change (7 - N.of_nat 8) with 0 in Hh; change (2 ^ 0) with 1 in Hh; lia). subst hi.
    rewrite N.mul_0_l, N.add_0_r. reflexivity.
  - cbn [rn_loop]. destruct (fb_zero (N.of_nat e) hi ltac:(lia) Hh) as [Z1 Z2]. rewrite Z1, Z2.
    rewrite (N.mul_comm (N.of_nat e) 8). rewrite (lor_shiftl_add lo hi _ Hl). reflexivity.
Qed.


Lemma div_class n a b : n < 2 ^ (a + b) -> n / 2 ^ a < 2 ^ b.
Proof.
  intro H. apply N.div_lt_upper_bound; [apply N.pow_nonzero; lia|]. rewrite <- N.pow_add_r. exact H.
Qed.

Lemma extra_of_spec n : n < 2 ^ 64 ->
  (extra_of n <= 8)%nat /\ n / 2 ^ (8 * N.of_nat (extra_of n)) < 2 ^ (7 - N.of_nat (extra_of n)).
Proof.
  intro Hn. unfold extra_of.
  destruct (N.ltb_spec n (2 ^ 7)) as [H|_]; [split; [lia | exact (div_class n 0 7 H)]|].
  destruct (N.ltb_spec n (2 ^ 14)) as [H|_]; [split; [lia | exact (div_class n 8 6 H)]|].
  destruct (N.ltb_spec n (2 ^ 21)) as [H|_]; [split; [lia | exact (div_class n 16 5 H)]|].
  destruct (N.ltb_spec n (2 ^ 28)) as [H|_]; [split; [lia | exact (div_class n 24 4 H)]|].
  destruct (N.ltb_spec n (2 ^ 35)) as [H|_]; [split; [lia | exact (div_class n 32 3 H)]|].
  destruct (N.ltb_spec n (2 ^ 42)) as [H|_]; [split; [lia | exact (div_class n 40 2 H)]|].
  destruct (N.ltb_spec n (2 ^ 49)) as [H|_]; [split; [lia | exact (div_class n 48 1 H)]|].
  destruct (N.ltb_spec n (2 ^ 56)) as [H|_]; [split; [lia | exact (div_class n 56 0 H)]|].
  split; [lia | exact (div_class n 64 0 Hn)].
Qed.

Theorem r_number_enc n rest : num_ok n = true -> r_number (enc_num n ++ rest) = POk n rest.
Proof.
  unfold num_ok. intro Hn. apply N.ltb_lt in Hn.
  destruct (extra_of_spec n Hn) as [He Hh].
  unfold enc_num, r_number. set (e := extra_of n) in *. set (k := 8 * N.of_nat e) in *.
  assert (Hp : 2 ^ k <> 0) by (apply N.pow_nonzero; lia).
  assert (Hfirst : (256 - 2 ^ (8 - N.of_nat e) + n / 2 ^ k) mod 256 = first_byte (N.of_nat e) (n / 2 ^ k)).
  { unfold first_byte. apply N.mod_small.
    assert (2 ^ (7 - N.of_nat e) <= 2 ^ (8 - N.of_nat e) /\ 2 ^ (8 - N.of_nat e) <= 256) as [A B].
    { split.
      - apply N.pow_le_mono_r; lia.
      - change 256 with (2 ^ 8). apply N.pow_le_mono_r; lia. }
    lia. }
  rewrite Hfirst. cbn [app r_u8 bind].
  rewrite (rn_enc e (n / 2 ^ k) (n mod 2 ^ k) rest He Hh) by (apply N.mod_lt; exact Hp).
  f_equal. unfold k in *. rewrite N.add_comm, N.mul_comm. symmetry. apply N.div_mod. exact Hp.
Qed.

(* ------------------------------------------------------------------ primitive readers on serialised data *)
Lemma r_bytes_app c rest : r_bytes (lenN c) (c ++ rest) = POk c rest.
Proof.
  unfold r_bytes. rewrite lenN_app. destruct (lenN c + lenN rest <? lenN c) eqn:E; [lia|].
  rewrite takeN_app_len, dropN_app_len. reflexivity.
Qed.

Lemma enc_num_length n : (1 <= List.length (enc_num n))%nat.
Proof. unfold enc_num. cbn [List.length]. lia. Qed.

Lemma rep_ser {A} (p : bytes -> pres A) (ser : A -> bytes) (ok : A -> bool) (F : nat) :
  (forall a rest, ok a = true -> (List.length (ser a ++ rest) < F)%nat -> p (ser a ++ rest) = POk a rest) ->
  (forall a, (1 <= List.length (ser a))%nat) ->
  forall l rest g, forallb ok l = true ->
    (List.length (flat_map ser l ++ rest) < g)%nat -> (List.length (flat_map ser l ++ rest) < F)%nat ->
    rep g (lenN l) p (flat_map ser l ++ rest) = POk l rest.
Proof.
  intros Hp Hlen. induction l as [|a l IH]; intros rest g Hok Hg HF.
  - destruct g; reflexivity.
  - cbn [forallb] in Hok. apply andb_true_iff in Hok as [Ha Hl].
    cbn [flat_map lenN] in *. rewrite <- app_assoc in *.
    destruct g as [|g]; [lia|]. cbn [rep].
    destruct (N.succ (lenN l) =? 0) eqn:E; [lia|]. rewrite N.pred_succ.
    rewrite (Hp a _ Ha HF). cbn [bind].
    pose proof (Hlen a). rewrite app_length in Hg, HF.
    rewrite (IH rest g Hl) by lia. reflexivity.
Qed.

Lemma rep_numbers l rest g :
  forallb num_ok l = true -> (List.length (enc_nums l ++ rest) < g)%nat ->
  rep g (lenN l) r_number (enc_nums l ++ rest) = POk l rest.
Proof.
  intros Hok Hg. unfold enc_nums.
  apply (rep_ser r_number enc_num num_ok g); try assumption.
  - intros a r Ha _. apply r_number_enc. exact Ha.
  - apply enc_num_length.
Qed.

Lemma r_u32_le x rest : x < 2 ^ 32 -> r_u32 (le_bytes 4 x ++ rest) = POk x rest.
Proof.
  intro H. unfold r_u32.
  pose proof (r_bytes_app (le_bytes 4 x) rest) as Hb. rewrite lenN_length, length_le_bytes in Hb. change (N.of_nat 4) with 4 in Hb.
  rewrite Hb. cbn [bind]. rewrite le_val_le_bytes. rewrite N.mod_small; [reflexivity|]. exact H.
Qed.

Lemma r_u16_le c rest : c < 65536 -> r_u16 (c mod 256 :: c / 256 :: rest) = POk c rest.
Proof.
  intro H. change (c mod 256 :: c / 256 :: rest) with ([c mod 256; c / 256] ++ rest).
  unfold r_u16. pose proof (r_bytes_app [c mod 256; c / 256] rest) as Hb. change (lenN [c mod 256; c / 256]) with 2 in Hb.
  rewrite Hb. cbn [bind le_val]. f_equal.
  pose proof (N.div_mod c 256 ltac:(lia)). lia.
Qed.

Lemma r_name_units us : forall rest fuel,
  wf_units us = true -> (List.length (utf16u us ++ rest) < fuel)%nat -> r_name fuel (utf16u us ++ rest) = POk us rest.
Proof.
  unfold utf16u. induction us as [|c us IH]; intros rest fuel Hw HF.
  - destruct fuel; [cbn in HF; lia|]. cbn [flat_map app r_name].
    rewrite (r_u16_le 0 rest ltac:(lia) : r_u16 (0 :: 0 :: rest) = POk 0 rest). reflexivity.
  - cbn [wf_units forallb] in Hw. apply andb_true_iff in Hw as [Hc Hw]. apply andb_true_iff in Hc as [C1 C2].
    apply N.ltb_lt in C1, C2.
    destruct fuel as [|fuel]; [cbn in HF; lia|].
    cbn [flat_map app] in *. rewrite <- !app_assoc in *. cbn [app] in *. cbn [r_name].
    rewrite (r_u16_le c _ C2). cbn [bind]. destruct (c =? 0) eqn:E; [lia|].
    pose proof (IH rest fuel Hw) as IH'. rewrite <- app_assoc in IH'. cbn [app] in IH'.
    rewrite IH'; [reflexivity|]. cbn [List.length] in HF. lia.
Qed.

Lemma wf_name_units name : wf_name name = true -> wf_units (flat_map units_of name) = true.
Proof.
  induction name as [|c name IH]; cbn [wf_name forallb flat_map]; [reflexivity|]. intro H.
  apply andb_true_iff in H as [Hc Hn]. unfold wf_units in *. rewrite forallb_app, (IH Hn), andb_true_r.
  repeat (apply andb_true_iff in Hc; destruct Hc as [Hc ?X]). apply N.ltb_lt in Hc, X0.
  unfold units_of. destruct (N.ltb_spec c 65536) as [L|L]; cbn [forallb].
  - rewrite andb_true_r. apply andb_true_iff. split; [apply N.ltb_lt; lia | apply N.ltb_lt; exact L].
  - assert ((c - 65536) / 1024 < 1024) by (apply N.div_lt_upper_bound; lia).
    pose proof (N.mod_lt (c - 65536) 1024 ltac:(lia)).
    set (q := (c - 65536) / 1024) in *. set (m := (c - 65536) mod 1024) in *.
    assert (A1 : (0 <? 55296 + q) = true) by (apply N.ltb_lt; lia).
    assert (A2 : (55296 + q <? 65536) = true) by (apply N.ltb_lt; lia).
    assert (A3 : (0 <? 56320 + m) = true) by (apply N.ltb_lt; lia).
    assert (A4 : (56320 + m <? 65536) = true) by (apply N.ltb_lt; lia).
    rewrite A1, A2, A3, A4. reflexivity.
Qed.

Lemma join_pairs_units name : wf_name name = true -> join_pairs (flat_map units_of name) = name.
Proof.
  induction name as [|c name IH]; [reflexivity|]. cbn [wf_name forallb flat_map]. intro H.
  apply andb_true_iff in H as [Hc Hn]. specialize (IH Hn).
  repeat (apply andb_true_iff in Hc; destruct Hc as [Hc ?X]). apply N.ltb_lt in Hc, X0. apply negb_true_iff in X.
  unfold units_of at 1. destruct (N.ltb_spec c 65536) as [L|L]; cbn [app].
  - assert (Hh : is_high c = false).
    { assert (Hns : c < 55296 \/ 57343 < c).
      { apply andb_false_iff in X. destruct X as [X|X]; apply N.leb_gt in X; [left | right]; exact X. }
      unfold is_high. destruct (N.leb_spec 55296 c); [|reflexivity]. destruct (N.leb_spec c 56319); [|reflexivity].
      exfalso. lia. }
    cbn [join_pairs]. destruct (flat_map units_of name) as [|u r] eqn:E.
    + cbn in IH. rewrite <- IH. reflexivity.
    + rewrite Hh. cbn [andb]. rewrite IH. reflexivity.
  - remember (c - 65536) as v eqn:Ev. assert (Hv : v < 1048576) by lia.
    assert (v / 1024 < 1024) by (apply N.div_lt_upper_bound; lia).
    pose proof (N.mod_lt v 1024 ltac:(lia)). pose proof (N.div_mod v 1024 ltac:(lia)).
    cbn [join_pairs].
    assert (Hh : is_high (55296 + v / 1024) = true) by (unfold is_high; apply andb_true_iff; split; apply N.leb_le; lia).
    assert (Hl : is_low (56320 + v mod 1024) = true). { unfold is_low. apply andb_true_iff. split; apply N.leb_le; [apply N.le_add_r|]. generalize dependent (v mod 1024). clear. intros. lia. }
    rewrite Hh, Hl. cbn [andb]. rewrite IH. f_equal.
    rewrite (N.add_comm 55296), N.add_sub, (N.add_comm 56320), N.add_sub, (N.mul_comm (v / 1024)), <- N.add_assoc.
    rewrite <- (N.div_mod v 1024) by discriminate. subst v. lia.
Qed.

Lemma r_name_utf16 name rest fuel :
  wf_name name = true -> (List.length (utf16 name ++ rest) < fuel)%nat ->
  r_name fuel (utf16 name ++ rest) = POk (flat_map units_of name) rest.
Proof. intros Hw HF. unfold utf16 in *. apply r_name_units; [apply wf_name_units; exact Hw | exact HF]. Qed.

(* bit vectors *)
Lemma bits_byte b7 b6 b5 b4 b3 b2 b1 b0 :
  bits_of_byte (128 * b2n b7 + 64 * b2n b6 + 32 * b2n b5 + 16 * b2n b4 + 8 * b2n b3 + 4 * b2n b2 + 2 * b2n b1 + b2n b0)
  = [b7; b6; b5; b4; b3; b2; b1; b0].
Proof. destruct b7, b6, b5, b4, b3, b2, b1, b0; reflexivity. Qed.

Lemma pack_bits_spec : forall n (l : list bool), (List.length l <= n)%nat ->
  firstn (List.length l) (flat_map bits_of_byte (pack_bits l)) = l
  /\ lenN (pack_bits l) = (N.of_nat (List.length l) + 7) / 8.
Proof.
  induction n as [|n IH]; intros l Hn.
  - destruct l; [split; reflexivity | cbn in Hn; lia].
  - destruct l as [|b7 [|b6 [|b5 [|b4 [|b3 [|b2 [|b1 [|b0 r]]]]]]]].
    all: try (lazymatch goal with r : list bool |- _ => fail | _ => idtac end;
              repeat match goal with b : bool |- _ => destruct b end; split; reflexivity).
    cbn [pack_bits flat_map]. rewrite bits_byte. cbn [List.length] in *.
      destruct (IH r ltac:(lia)) as [I1 I2]. split.
      * cbn [app firstn]. rewrite I1. reflexivity.
      * cbn [lenN]. rewrite I2.
        replace (N.of_nat (S (S (S (S (S (S (S (S (List.length r))))))))) + 7) with (N.of_nat (List.length r) + 7 + 1 * 8) by lia.
        rewrite N.div_add by lia. lia.
Qed.

Lemma r_boolvec_pack bits rest : r_boolvec (lenN bits) (pack_bits bits ++ rest) = POk bits rest.
Proof.
  destruct (pack_bits_spec (List.length bits) bits (le_n _)) as [H1 H2].
  unfold r_boolvec. rewrite lenN_length, <- H2, r_bytes_app. cbn [bind].
  rewrite Nat2N.id, H1. reflexivity.
Qed.

(* ------------------------------------------------------------------ sections *)
Ltac norm := repeat (first [rewrite <- app_assoc | progress cbn [app]]).
Ltac fuel_tac := repeat (first [rewrite app_length in * | progress cbn [List.length] in *]); lia.

Definition pack_body_bytes (pos : N) (sizes : list N) : bytes :=
  enc_num pos ++ enc_num (lenN sizes) ++ (match sizes with [] => [] | _ => [9] ++ enc_nums sizes end) ++ [0].

Lemma pack_body_rt pos sizes rest fuel :
  wf_pack (pos, sizes) = true ->
  (List.length (pack_body_bytes pos sizes ++ rest) < fuel)%nat ->
  parse_pack_body fuel (pack_body_bytes pos sizes ++ rest) = POk (pos, sizes) rest.
Proof.
  unfold wf_pack, pack_body_bytes. cbn [fst snd]. intros Hw HF. revert HF. norm. intro HF.
  apply andb_true_iff in Hw as [Hw H3]. apply andb_true_iff in Hw as [H1 H2].
  unfold parse_pack_body. rewrite (r_number_enc pos _ H1). cbn [bind]. rewrite (r_number_enc _ _ H2). cbn [bind].
  destruct sizes as [|z zs].
  - cbn [app r_u8 bind]. reflexivity.
  - set (l := z :: zs) in *. norm. cbn [r_u8 bind]. change (9 =? P_SIZE) with true. cbn match.
    rewrite (rep_numbers l (0 :: rest) fuel H3) by (clear - HF; fuel_tac).
    cbn [bind r_u8]. reflexivity.
Qed.

(* coder flags *)
Lemma flags_all : forallb (fun k => (N.land k 15 =? k) && negb (N.testbit k 4) && negb (N.testbit k 5)
                                   && (N.land (k + 32) 15 =? k) && negb (N.testbit (k + 32) 4) && N.testbit (k + 32) 5)
                          (upto 16) = true.
Proof. vm_compute. reflexivity. Qed.
Lemma flags_facts k : k <= 15 ->
  N.land k 15 = k /\ N.testbit k 4 = false /\ N.testbit k 5 = false
  /\ N.land (k + 32) 15 = k /\ N.testbit (k + 32) 4 = false /\ N.testbit (k + 32) 5 = true.
Proof.
  intro H. pose proof flags_all as A. rewrite forallb_forall in A. specialize (A k (upto_In 16 k ltac:(lia))).
  repeat (apply andb_true_iff in A; destruct A as [A ?B]).
  apply N.eqb_eq in A, B1. apply negb_true_iff in B3, B2, B0. auto 10.
Qed.

Lemma coder_rt c rest : wf_coder c = true -> parse_coder (ser_coder c ++ rest) = POk c rest.
Proof.
  unfold wf_coder. intro Hw. apply andb_true_iff in Hw as [Hl Hp]. apply N.leb_le in Hl.
  destruct (flags_facts _ Hl) as (F1 & F2 & F3 & F4 & F5 & F6).
  destruct c as [cid props]. cbn [c_id c_props] in *. unfold ser_coder, parse_coder. cbn [c_id c_props].
  destruct props as [p|]; norm; cbn [r_u8 bind].
  - rewrite F4, r_bytes_app. cbn [bind]. rewrite F5, F6. cbn [bind].
    rewrite (r_number_enc _ _ Hp). cbn [bind]. rewrite r_bytes_app. reflexivity.
  - rewrite F1, r_bytes_app. cbn [bind]. rewrite F2, F3. reflexivity.
Qed.

Lemma ser_coder_length c : (1 <= List.length (ser_coder c))%nat.
Proof. unfold ser_coder. destruct (c_props c); cbn [List.length]; lia. Qed.

Definition ser_coders (cs : list coder) : bytes :=
  enc_num (lenN cs) ++ flat_map ser_coder cs ++ enc_nums (bind_pairs cs).
Definition wf_coders (cs : list coder) : bool := num_ok (lenN cs) && forallb wf_coder cs.

Lemma bp_upto_spec k : k < 2 ^ 64 -> forall j, (j <= N.to_nat k)%nat ->
  lenN (bp_upto j) = 2 * N.of_nat j /\ forallb num_ok (bp_upto j) = true.
Proof.
  intros Hk. induction j as [|j IH]; intro Hj; [split; reflexivity|].
  destruct (IH ltac:(lia)) as [I1 I2]. cbn [bp_upto]. rewrite lenN_app, forallb_app, I1, I2. cbn [lenN forallb].
  split; [lia|]. unfold num_ok.
  assert (N.of_nat (S j) < 2 ^ 64) by lia. assert (N.of_nat j < 2 ^ 64) by lia.
  destruct (N.ltb_spec (N.of_nat (S j)) (2 ^ 64)); [|lia]. destruct (N.ltb_spec (N.of_nat j) (2 ^ 64)); [|lia]. reflexivity.
Qed.

Lemma folder_rt cs rest fuel :
  wf_coders cs = true -> (List.length (ser_coders cs ++ rest) < fuel)%nat ->
  parse_folder fuel (ser_coders cs ++ rest) = POk cs rest.
Proof.
  unfold wf_coders, ser_coders. intros Hw HF. apply andb_true_iff in Hw as [H1 H2].
  assert (Hk : lenN cs < 2 ^ 64) by (unfold num_ok in H1; apply N.ltb_lt in H1; exact H1).
  destruct (bp_upto_spec (lenN cs) Hk (List.length cs - 1)%nat ltac:(rewrite lenN_length, Nat2N.id; lia)) as [B1 B2].
  unfold parse_folder. revert HF. norm. intro HF. rewrite (r_number_enc _ _ H1). cbn [bind].
  rewrite (rep_ser parse_coder ser_coder wf_coder fuel) ; try assumption.
  - cbn [bind].
    replace (2 * (lenN cs - 1)) with (lenN (bind_pairs cs))
      by (unfold bind_pairs; rewrite B1, lenN_length, Nat2N.inj_sub; reflexivity).
    rewrite (rep_numbers (bind_pairs cs) rest fuel B2) by (clear - HF; fuel_tac). reflexivity.
  - intros a r Ha _. apply coder_rt. exact Ha.
  - apply ser_coder_length.
  - clear - HF. fuel_tac.
  - clear - HF. fuel_tac.
Qed.

Lemma flat_map_map {A B C} (h : A -> B) (g : B -> list C) l : flat_map (fun x => g (h x)) l = flat_map g (map h l).
Proof. induction l as [|x l IH]; cbn [flat_map map]; [reflexivity | rewrite IH; reflexivity]. Qed.

Lemma unpack_sizes_rt fl : forall rest fuel,
  forallb (fun f => (lenN (f_unpack f) =? lenN (f_coders f)) && forallb num_ok (f_unpack f)) fl = true ->
  (List.length (flat_map (fun f => enc_nums (f_unpack f)) fl ++ rest) < fuel)%nat ->
  parse_unpack_sizes fuel (map f_coders fl) (flat_map (fun f => enc_nums (f_unpack f)) fl ++ rest) = POk fl rest.
Proof.
  induction fl as [|f fl IH]; intros rest fuel Hw HF; [reflexivity|].
  cbn [forallb] in Hw. apply andb_true_iff in Hw as [Hf Hw]. apply andb_true_iff in Hf as [H1 H2]. apply N.eqb_eq in H1.
  cbn [map flat_map parse_unpack_sizes]. norm. rewrite <- H1.
  rewrite (rep_numbers _ _ fuel H2) by (clear - HF; cbn [flat_map] in HF; fuel_tac). cbn [bind].
  rewrite (IH rest fuel Hw) by (clear - HF; cbn [flat_map] in HF; fuel_tac). cbn [bind]. destruct f; reflexivity.
Qed.

Definition wf_folder_sizes (f : folder) : bool := (lenN (f_unpack f) =? lenN (f_coders f)) && forallb num_ok (f_unpack f).

Lemma wf_folder_split fl :
  forallb wf_folder fl = true -> forallb wf_coders (map f_coders fl) = true /\ forallb wf_folder_sizes fl = true.
Proof.
  induction fl as [|f fl IH]; cbn [forallb map]; [auto|]. intro H. apply andb_true_iff in H as [Hf Hl].
  destruct (IH Hl) as [I1 I2]. unfold wf_folder in Hf. repeat (apply andb_true_iff in Hf; destruct Hf as [Hf ?X]).
  rewrite I1, I2. unfold wf_coders, wf_folder_sizes. rewrite Hf, X1, X0, X. auto.
Qed.

Definition unpack_body_bytes (fl : list folder) : bytes :=
  [11] ++ enc_num (lenN fl) ++ [0] ++ flat_map ser_folder fl ++ [12] ++ flat_map (fun f => enc_nums (f_unpack f)) fl ++ [0].

Lemma unpack_body_rt fl rest fuel :
  num_ok (lenN fl) = true -> forallb wf_folder fl = true ->
  (List.length (unpack_body_bytes fl ++ rest) < fuel)%nat ->
  parse_unpack_body fuel (unpack_body_bytes fl ++ rest) = POk fl rest.
Proof.
  unfold unpack_body_bytes. norm.
  intros Hn Hw HF. destruct (wf_folder_split fl Hw) as [W1 W2].
  unfold parse_unpack_body. norm. cbn [r_u8 bind]. change (negb (11 =? P_FOLDER)) with false. cbn match.
  rewrite (r_number_enc _ _ Hn). cbn [bind r_u8]. change (negb (0 =? 0)) with false. cbn match.
  change ser_folder with (fun f => ser_coders (f_coders f)). rewrite (flat_map_map f_coders ser_coders).
  rewrite <- (lenN_map f_coders fl).
  rewrite (rep_ser (parse_folder fuel) ser_coders wf_coders fuel); try assumption.
  - cbn [bind r_u8]. change (negb (12 =? P_CODERS_UNPACK_SIZE)) with false. cbn match.
    rewrite (unpack_sizes_rt fl _ fuel W2) by (clear - HF; fuel_tac). cbn [bind r_u8]. reflexivity.
  - intros a r Ha Hf. apply folder_rt; assumption.
  - intro a. unfold ser_coders. pose proof (enc_num_length (lenN a)). rewrite app_length. lia.
  - clear - HF. change ser_folder with (fun f => ser_coders (f_coders f)) in HF. rewrite (flat_map_map f_coders ser_coders) in HF. fuel_tac.
  - clear - HF. change ser_folder with (fun f => ser_coders (f_coders f)) in HF. rewrite (flat_map_map f_coders ser_coders) in HF. fuel_tac.
Qed.

(* ------------------------------------------------------------------ SubStreamsInfo *)
Lemma lenN_takeN {A} k (l : list A) : k <= lenN l -> lenN (takeN k l) = k.
Proof.
  revert k. induction l as [|x l IH]; intros k H; cbn [lenN takeN] in *; [lia|].
  destruct (k =? 0) eqn:E; cbn [lenN]; [lia|]. rewrite IH by lia. lia.
Qed.

Lemma read_sizes_take raw : forall k total, k <= lenN raw ->
  read_sizes (N.to_nat k) raw total = Some (takeN k raw, dropN k raw, total - sumN (takeN k raw)).
Proof.
  induction raw as [|z raw IH]; intros k total H; cbn [lenN] in H.
  - assert (k = 0) by lia. subst. cbn. rewrite N.sub_0_r. reflexivity.
  - destruct (k =? 0) eqn:E.
    + assert (k = 0) by lia. subst. cbn. rewrite N.sub_0_r. reflexivity.
    + replace (N.to_nat k) with (S (N.to_nat (N.pred k))) by lia. cbn [read_sizes takeN dropN]. rewrite E.
      rewrite (IH (N.pred k)) by lia. cbn [sumN]. f_equal. f_equal. lia.
Qed.

Lemma forallb_takeN {A} (f : A -> bool) k l : forallb f l = true -> forallb f (takeN k l) = true /\ forallb f (dropN k l) = true.
Proof.
  revert k. induction l as [|x l IH]; intros k H; cbn [takeN dropN]; [auto|].
  cbn [forallb] in H. apply andb_true_iff in H as [H1 H2]. destruct (k =? 0); cbn [forallb].
  - rewrite H1, H2. auto.
  - destruct (IH (N.pred k) H2) as [A1 B1]. rewrite H1, A1. auto.
Qed.

Lemma ss_sizes_rt fl : forall nus raw rest fuel,
  lenN nus = lenN fl -> sizes_exact fl nus raw = true -> forallb num_ok raw = true ->
  (List.length (enc_nums raw ++ rest) < fuel)%nat ->
  exists out, ss_sizes_loop fuel fl nus (enc_nums raw ++ rest) = POk out rest /\ sizes_prop fl nus raw = Some out.
Proof.
  induction fl as [|f fl IH]; intros nus raw rest fuel Hl Hx Hok HF.
  - destruct nus; [|cbn [lenN] in Hl; lia]. cbn [sizes_exact] in Hx. destruct raw; [|discriminate].
    exists []. split; reflexivity.
  - destruct nus as [|n nus]; [cbn [lenN] in Hl; lia|]. cbn [lenN] in Hl.
    cbn [sizes_exact] in Hx. apply andb_true_iff in Hx as [Hk Hx]. apply N.leb_le in Hk.
    destruct (forallb_takeN num_ok (N.pred n) raw Hok) as [Ok1 Ok2].
    replace (enc_nums raw) with (enc_nums (takeN (N.pred n) raw) ++ enc_nums (dropN (N.pred n) raw)) in HF |- *
      by (unfold enc_nums; rewrite <- flat_map_app, takeN_dropN; reflexivity).
    rewrite <- app_assoc in HF |- *.
    destruct (IH nus (dropN (N.pred n) raw) rest fuel ltac:(lia) Hx Ok2 ltac:(clear - HF; fuel_tac)) as [more [I1 I2]].
    cbn [ss_sizes_loop sizes_prop].
    pose proof (rep_numbers (takeN (N.pred n) raw) (enc_nums (dropN (N.pred n) raw) ++ rest) fuel Ok1 HF) as Hr.
    rewrite (lenN_takeN _ _ Hk) in Hr. rewrite Hr. cbn [bind]. rewrite I1. cbn [bind].
    rewrite (read_sizes_take raw (N.pred n) _ Hk), I2.
    eexists. split; reflexivity.
Qed.

Definition crc_bytes (crcs : option bytes) : bytes := match crcs with Some c => [10; 1] ++ c | None => [] end.

Definition ss_body_bytes (ss : substreams) (crcs : option bytes) : bytes :=
  (match ss_nus ss with Some l => [13] ++ enc_nums l | None => [] end)
  ++ (match ss_sizes ss with Some l => [9] ++ enc_nums l | None => [] end)
  ++ crc_bytes crcs ++ [0].

Lemma skip_crcs_all k c r0 : lenN c = 4 * k -> skip_crcs k (1 :: c ++ r0) = POk tt r0.
Proof.
  intro H. unfold skip_crcs. cbn [r_u8 bind]. change (negb (1 =? 0)) with true. cbn match.
  rewrite <- H, r_bytes_app. reflexivity.
Qed.

Ltac ss_tail X :=
  unfold crc_bytes; match goal with |- context [match ?c with Some _ => _ | None => _ end] => destruct c as [?c|] end;
  norm; cbn [r_u8 bind fst snd];
  [ repeat (match goal with |- context [10 =? ?P] => let b := eval vm_compute in (10 =? P) in change (10 =? P) with b end; cbn match; cbn [fst snd bind]);
    apply N.eqb_eq in X; rewrite (skip_crcs_all _ _ _ X); cbn [bind r_u8]; reflexivity
  | reflexivity ].

Lemma substreams_body_rt fl ss crcs rest fuel :
  wf_ss fl ss crcs = true ->
  (List.length (ss_body_bytes ss crcs ++ rest) < fuel)%nat ->
  exists sz, file_sizes rev_new fl (Some ss) = Some sz /\
             parse_substreams_body fuel fl (ss_body_bytes ss crcs ++ rest) = POk (num_streams fl (Some ss), sz) rest.
Proof.
  unfold wf_ss, ss_body_bytes. intros Hw. repeat (apply andb_true_iff in Hw; destruct Hw as [Hw ?X]).
  apply N.eqb_eq in Hw. destruct ss as [nus sizes]. cbn [ss_nus ss_sizes] in *. norm. intro HF.
  unfold parse_substreams_body, file_sizes, num_streams. cbn [ss_nus ss_sizes].
  destruct nus as [l|]; norm; cbn [r_u8 bind fst snd].
  - change (13 =? P_NUM_UNPACK_STREAM) with true. cbn match. rewrite <- Hw.
    rewrite (rep_numbers l _ fuel X1) by (clear - HF; fuel_tac). cbn [bind r_u8 fst snd].
    destruct sizes as [raw|]; norm; cbn [r_u8 bind fst snd].
    + change (9 =? P_SIZE) with true. cbn match. apply andb_true_iff in X0 as [R1 R2].
      destruct (ss_sizes_rt fl l raw (crc_bytes crcs ++ 0 :: rest) fuel Hw R2 R1
                  ltac:(clear - HF; fuel_tac)) as [out [S1 S2]].
      rewrite S1. cbn [bind fst snd]. exists out. split; [exact S2|]. ss_tail X.
    + exists (unpack_lasts fl). split; [reflexivity|]. ss_tail X.
  - remember (map (fun _ : folder => 1) fl) as ones eqn:Eo.
    destruct sizes as [raw|]; norm; cbn [r_u8 bind fst snd].
    + change (9 =? P_NUM_UNPACK_STREAM) with false. cbn match. cbn [bind fst snd]. change (9 =? P_SIZE) with true. cbn match.
      apply andb_true_iff in X0 as [R1 R2].
      destruct (ss_sizes_rt fl ones raw (crc_bytes crcs ++ 0 :: rest) fuel Hw R2 R1
                  ltac:(clear - HF; fuel_tac)) as [out [S1 S2]].
      rewrite S1. cbn [bind fst snd]. exists out. split; [exact S2|]. ss_tail X.
    + exists (unpack_lasts fl). split; [reflexivity|]. ss_tail X.
Qed.

(* ------------------------------------------------------------------ MainStreamsInfo *)
Definition streams_body_bytes (pk : option (N * list N)) (fl : list folder) (ss : option substreams) (crcs : option bytes) : bytes :=
  (match pk with Some p => [6] ++ pack_body_bytes (fst p) (snd p) | None => [] end)
  ++ (match fl with [] => [] | _ => [7] ++ unpack_body_bytes fl end)
  ++ (match ss with Some x => [8] ++ ss_body_bytes x crcs | None => [] end) ++ [0].

Ltac lit_if :=
  repeat (match goal with
          | |- context [if (?k =? ?P) then _ else _] =>
              let b := eval vm_compute in (k =? P) in
              match b with true => idtac | false => idtac end;
              change (k =? P) with b
          end; cbn match; cbn [bind fst snd r_u8]).

Lemma streams_info_rt pk fl ss crcs rest fuel :
  match pk with Some p => wf_pack p | None => true end = true ->
  num_ok (lenN fl) = true -> forallb wf_folder fl = true ->
  match ss with Some x => wf_ss fl x crcs | None => true end = true ->
  (List.length (streams_body_bytes pk fl ss crcs ++ rest) < fuel)%nat ->
  exists sz, file_sizes rev_new fl ss = Some sz /\
    parse_streams_info fuel st0 (streams_body_bytes pk fl ss crcs ++ rest)
    = POk {| p_pack := pk; p_folders := fl; p_nstreams := num_streams fl ss; p_sizes := sz; p_files := [] |} rest.
Proof.
  intros Wp Wn Wf Ws. unfold streams_body_bytes.
  assert (Hss : forall x, ss = Some x -> forall fuel', (List.length (ss_body_bytes x crcs ++ 0%N :: rest) < fuel')%nat ->
            exists sz, file_sizes rev_new fl (Some x) = Some sz /\
              parse_substreams_body fuel' fl (ss_body_bytes x crcs ++ 0 :: rest) = POk (num_streams fl (Some x), sz) (0 :: rest)).
  { intros x E fuel' H. subst ss. apply substreams_body_rt; assumption. }
  destruct pk as [[pos sizes]|]; destruct fl as [|f0 fl']; destruct ss as [x|]; norm; cbn [fst snd]; intro HF;
    unfold parse_streams_info; cbn [r_u8 bind fst snd]; lit_if;
    try (rewrite (pack_body_rt pos sizes _ fuel Wp) by (clear - HF; fuel_tac); cbn [bind r_u8 fst snd]; lit_if);
    try (rewrite (unpack_body_rt (f0 :: fl') _ fuel Wn Wf) by (clear - HF; fuel_tac); cbn [bind r_u8 fst snd p_pack p_folders p_nstreams p_sizes p_files st0]; lit_if);
    cbn [p_pack p_folders p_nstreams p_sizes p_files st0].
  all: try (destruct (Hss x eq_refl fuel ltac:(clear - HF; fuel_tac)) as [sz [Z1 Z2]]; rewrite Z2;
            cbn [bind r_u8 fst snd]; lit_if; exists sz; split; [exact Z1 | reflexivity]).
  all: eexists; split; reflexivity.
Qed.

(* ------------------------------------------------------------------ FilesInfo *)
Lemma files_loop_step f F nf acc p c rest acc' u :
  (p =? P_END) = false -> num_ok (lenN c) = true -> files_prop F nf p acc (c ++ rest) = POk acc' u ->
  files_loop (S f) F nf acc (p :: enc_num (lenN c) ++ c ++ rest) = files_loop f F nf acc' rest.
Proof.
  intros Hp Hn Hprop. cbn [files_loop r_u8 bind]. rewrite Hp. rewrite (r_number_enc _ _ Hn). cbn [bind].
  rewrite Hprop. cbn [bind]. rewrite dropN_app_len. reflexivity.
Qed.

Lemma files_loop_end f F nf acc rest : files_loop (S f) F nf acc (0 :: rest) = POk acc rest.
Proof. reflexivity. Qed.

Lemma prop_empty F fs acc rest :
  files_prop F (lenN fs) 14 acc (pack_bits (map e_empty fs) ++ rest)
  = POk {| a_empty := map e_empty fs; a_names := a_names acc; a_attrs := a_attrs acc |} rest.
Proof.
  unfold files_prop. change (14 =? P_EMPTY_STREAM) with true. cbn match.
  rewrite <- (lenN_map e_empty fs), r_boolvec_pack. reflexivity.
Qed.

Lemma prop_skip F nf acc x : files_prop F nf 15 acc x = POk acc x.
Proof. reflexivity. Qed.

Lemma utf16u_length us : (1 <= List.length (utf16u us))%nat.
Proof. unfold utf16u. rewrite app_length. cbn [List.length]. lia. Qed.

Lemma map_join_units names : forallb wf_name names = true -> map join_pairs (map (fun n => flat_map units_of n) names) = names.
Proof.
  induction names as [|n names IH]; cbn [forallb map]; [reflexivity|]. intro H. apply andb_true_iff in H as [H1 H2].
  rewrite (join_pairs_units n H1), (IH H2). reflexivity.
Qed.

Lemma wf_units_names names : forallb wf_name names = true -> forallb wf_units (map (fun n => flat_map units_of n) names) = true.
Proof.
  induction names as [|n names IH]; cbn [forallb map]; [reflexivity|]. intro H. apply andb_true_iff in H as [H1 H2].
  rewrite (wf_name_units n H1), (IH H2). reflexivity.
Qed.

Lemma prop_names F fs acc rest :
  forallb (fun f => wf_name (e_name f)) fs = true ->
  (List.length (flat_map (fun f => utf16 (e_name f)) fs ++ rest) < F)%nat ->
  files_prop F (lenN fs) 17 acc (0 :: flat_map (fun f => utf16 (e_name f)) fs ++ rest)
  = POk {| a_empty := a_empty acc; a_names := map e_name fs; a_attrs := a_attrs acc |} rest.
Proof.
  intros Hw HF. unfold files_prop. change (17 =? P_EMPTY_STREAM) with false. change (17 =? P_NAME) with true. cbn match.
  cbn [r_u8 bind]. change (negb (0 =? 0)) with false. cbn match.
  assert (Hw' : forallb wf_name (map e_name fs) = true) by (rewrite forallb_forall in *; intros x Hx; apply in_map_iff in Hx as [f [<- Hf]]; auto).
  replace (flat_map (fun f => utf16 (e_name f)) fs)
    with (flat_map utf16u (map (fun n => flat_map units_of n) (map e_name fs))) in *
    by (rewrite map_map, <- flat_map_map; reflexivity).
  replace (lenN fs) with (lenN (map (fun n => flat_map units_of n) (map e_name fs))) by (rewrite !lenN_map; reflexivity).
  rewrite (rep_ser (r_name F) utf16u wf_units F); try assumption.
  - cbn [bind]. rewrite (map_join_units _ Hw'). reflexivity.
  - intros a r Ha Hf. apply r_name_units; assumption.
  - apply utf16u_length.
  - apply wf_units_names. exact Hw'.
Qed.

Lemma set_attrs_all fs : forall old rest,
  List.length old = List.length fs -> forallb (fun f => e_attr f <? 2 ^ 32) fs = true ->
  set_attrs (repeat true (List.length fs)) old (flat_map (fun f => le_bytes 4 (e_attr f)) fs ++ rest) = POk (map e_attr fs) rest.
Proof.
  induction fs as [|f fs IH]; intros old rest Hl Hw.
  - destruct old; [reflexivity | discriminate Hl].
  - destruct old as [|o old]; [discriminate Hl|]. cbn [List.length repeat flat_map forallb map] in *.
    apply andb_true_iff in Hw as [H1 H2]. apply N.ltb_lt in H1. cbn [set_attrs]. rewrite <- app_assoc.
    rewrite (r_u32_le _ _ H1). cbn [bind]. rewrite (IH old rest ltac:(lia) H2). reflexivity.
Qed.

Lemma prop_attrs F fs acc rest :
  List.length (a_attrs acc) = List.length fs -> forallb (fun f => e_attr f <? 2 ^ 32) fs = true ->
  files_prop F (lenN fs) 21 acc (1 :: flat_map (fun f => le_bytes 4 (e_attr f)) fs ++ rest)
  = POk {| a_empty := a_empty acc; a_names := a_names acc; a_attrs := map e_attr fs |} rest.
Proof.
  intros Hl Hw. unfold files_prop. change (21 =? P_EMPTY_STREAM) with false. change (21 =? P_NAME) with false.
  change (21 =? P_WIN_ATTRIBUTES) with true. cbn match. unfold r_boolvec_def. cbn [r_u8 bind].
  change (negb (1 =? 0)) with true. cbn match. cbn [bind].
  rewrite lenN_length, Nat2N.id. rewrite (set_attrs_all fs _ rest Hl Hw). reflexivity.
Qed.

Lemma zip3_map fs : zip3 (map e_empty fs) (map e_name fs) (map e_attr fs) = fs.
Proof. induction fs as [|f fs IH]; cbn [map zip3]; [reflexivity|]. rewrite IH. destruct f; reflexivity. Qed.

Lemma no_empty_repeat fs : existsb e_empty fs = false -> repeat false (List.length fs) = map e_empty fs.
Proof.
  induction fs as [|f fs IH]; cbn [existsb List.length repeat map]; [reflexivity|]. intro H.
  apply orb_false_iff in H as [H1 H2]. rewrite H1, (IH H2). reflexivity.
Qed.

Lemma zero_attrs_repeat fs : forallb (fun f => e_attr f =? 0) fs = true -> repeat 0 (List.length fs) = map e_attr fs.
Proof.
  induction fs as [|f fs IH]; cbn [forallb List.length repeat map]; [reflexivity|]. intro H.
  apply andb_true_iff in H as [H1 H2]. apply N.eqb_eq in H1. rewrite H1, (IH H2). reflexivity.
Qed.

Definition files_body_bytes (fs : list fentry) (emptyfile : option bytes) (with_attrs : bool) : bytes :=
  let ev := pack_bits (map e_empty fs) in
  let nm := 0 :: flat_map (fun f => utf16 (e_name f)) fs in
  let at' := 1 :: flat_map (fun f => le_bytes 4 (e_attr f)) fs in
  enc_num (lenN fs)
  ++ (if existsb e_empty fs
      then [14] ++ enc_num (lenN ev) ++ ev
           ++ (match emptyfile with Some v => [15] ++ enc_num (lenN v) ++ v | None => [] end)
      else [])
  ++ [17] ++ enc_num (lenN nm) ++ nm
  ++ (if with_attrs then [21] ++ enc_num (lenN at') ++ at' else [])
  ++ [0].

Lemma files_info_rt fs ef wa rest fuel :
  wf_files fs ef wa = true ->
  (List.length (files_body_bytes fs ef wa ++ rest) < fuel)%nat ->
  parse_files_info fuel (files_body_bytes fs ef wa ++ rest) = POk fs rest.
Proof.
  unfold wf_files. intro Hw. repeat (apply andb_true_iff in Hw; destruct Hw as [Hw ?X]).
  rename Hw into Wn, X3 into Wnames, X2 into Wev, X1 into Wnm, X0 into Wefile, X into Wattr.
  unfold files_body_bytes. norm. intro HF.
  unfold parse_files_info. rewrite (r_number_enc _ _ Wn). cbn [bind].
  replace (N.to_nat (lenN fs)) with (List.length fs) by (rewrite lenN_length, Nat2N.id; reflexivity).
  (* enough fuel for the (at most four) properties and END *)
  assert (H5 : (6 <= fuel)%nat).
  { clear - HF. pose proof (enc_num_length (lenN fs)).
    pose proof (enc_num_length (lenN (0 :: flat_map (fun f => utf16 (e_name f)) fs))).
    repeat (first [rewrite app_length in HF | progress cbn [List.length] in HF]).
    destruct (existsb e_empty fs); destruct wa; repeat (first [rewrite app_length in HF | progress cbn [List.length] in HF]); lia. }
  destruct fuel as [|[|[|[|[|f]]]]]; try lia.
  set (F := S (S (S (S (S f))))) in *.
  set (k := List.length fs).
  assert (Hnames : forall acc g rest',
            (List.length (flat_map (fun f0 => utf16 (e_name f0)) fs ++ rest') < F)%nat ->
            files_loop (S g) F (lenN fs) acc (17 :: enc_num (lenN (0 :: flat_map (fun f0 => utf16 (e_name f0)) fs))
                                               ++ 0 :: flat_map (fun f0 => utf16 (e_name f0)) fs ++ rest')
            = files_loop g F (lenN fs) {| a_empty := a_empty acc; a_names := map e_name fs; a_attrs := a_attrs acc |} rest').
  { intros acc g rest' Hl. apply (files_loop_step g F _ acc 17 (0 :: flat_map (fun f0 => utf16 (e_name f0)) fs) rest' _ rest'); [reflexivity | exact Wnm |].
    cbn [app]. apply prop_names; assumption. }
  assert (Hattr : forall acc g rest', List.length (a_attrs acc) = k ->
            wa = true ->
            files_loop (S g) F (lenN fs) acc (21 :: enc_num (lenN (1 :: flat_map (fun f0 => le_bytes 4 (e_attr f0)) fs))
                                               ++ 1 :: flat_map (fun f0 => le_bytes 4 (e_attr f0)) fs ++ rest')
            = files_loop g F (lenN fs) {| a_empty := a_empty acc; a_names := a_names acc; a_attrs := map e_attr fs |} rest').
  { intros acc g rest' Hl Ewa. subst wa. apply andb_true_iff in Wattr as [A1 A2].
    apply (files_loop_step g F _ acc 21 (1 :: flat_map (fun f0 => le_bytes 4 (e_attr f0)) fs) rest' _ rest'); [reflexivity | exact A2 |].
    cbn [app]. apply prop_attrs; assumption. }
  (* tail: Names, optional Attributes, END - from any accumulator whose empty vector is already right *)
  assert (Htail : forall acc g, a_empty acc = map e_empty fs -> a_attrs acc = repeat 0 k ->
            (let* (acc', r) := files_loop (S (S (S g))) F (lenN fs) acc
                                 (17 :: enc_num (lenN (0 :: flat_map (fun f0 => utf16 (e_name f0)) fs))
                                  ++ 0 :: flat_map (fun f0 => utf16 (e_name f0)) fs
                                  ++ (if wa then 21 :: enc_num (lenN (1 :: flat_map (fun f0 => le_bytes 4 (e_attr f0)) fs))
                                                ++ 1 :: flat_map (fun f0 => le_bytes 4 (e_attr f0)) fs else []) ++ 0 :: rest) in
             POk (zip3 (a_empty acc') (a_names acc') (a_attrs acc')) r) = POk fs rest).
  { intros acc g He Ha. rewrite Hnames by (clear - HF; destruct (existsb e_empty fs); destruct ef; destruct wa; revert HF; norm; intro HF; fuel_tac).
    destruct wa eqn:Ewa; norm.
    - rewrite Hattr; [ | cbn [a_attrs]; rewrite Ha; apply repeat_length | reflexivity ].
      rewrite files_loop_end. cbn [bind a_empty a_names a_attrs]. rewrite He, zip3_map. reflexivity.
    - rewrite files_loop_end. cbn [bind a_empty a_names a_attrs]. rewrite He, Ha. unfold k.
      rewrite (zero_attrs_repeat fs Wattr), zip3_map. reflexivity. }
  change (files_loop F F) with (files_loop (S (S (S (S (S f))))) F).
  destruct (existsb e_empty fs) eqn:Ee; norm.
  - rewrite (files_loop_step _ F _ _ 14 (pack_bits (map e_empty fs)) _ _ _ eq_refl Wev (prop_empty F fs _ _)).
    destruct ef as [v|]; norm.
    + rewrite (files_loop_step _ F _ _ 15 v _ _ _ eq_refl Wefile (prop_skip F _ _ _)).
      apply Htail; reflexivity.
    + apply Htail; reflexivity.
  - apply Htail; [apply no_empty_repeat; exact Ee | reflexivity].
Qed.

(* ------------------------------------------------------------------ whole header *)
Lemma ser_streams_shape h crcs :
  negb (match h_pack h, h_folders h with None, [] => true | _, _ => false end) = true ->
  ser_streams h crcs = 4 :: streams_body_bytes (h_pack h) (h_folders h) (h_ss h) crcs.
Proof.
  intro H. unfold ser_streams, streams_body_bytes, ser_pack, ser_unpack, ser_ss, unpack_body_bytes, ss_body_bytes,
    crc_bytes, pack_body_bytes.
  destruct (h_pack h) as [pk|]; destruct (h_folders h) as [|f fl]; try discriminate H;
    destruct (h_ss h); repeat (rewrite <- app_assoc || cbn [app]); reflexivity.
Qed.

Lemma ser_files_shape fs ef wa : fs <> [] -> ser_files fs ef wa = 5 :: files_body_bytes fs ef wa.
Proof.
  intro H. destruct fs as [|f fs]; [congruence|]. unfold ser_files, files_body_bytes.
  repeat (rewrite <- app_assoc || cbn [app]). reflexivity.
Qed.

Section HeaderRT.
  Variable T : tables.
  Variable lzma_alone : bytes -> option N -> bytes -> dres.
  Variable lzma2_raw : N -> bytes -> dres.

  Lemma header_rt h crcs ef wa rest fuel body :
    wf_header h crcs ef wa = true ->
    (List.length (ser_header h crcs ef wa ++ rest) < fuel)%nat ->
    exists st, state_of h = Some st /\
      parse_end_header T lzma_alone lzma2_raw fuel body (ser_header h crcs ef wa ++ rest) = POk st rest.
  Proof.
    unfold wf_header. intro Hw. repeat (apply andb_true_iff in Hw; destruct Hw as [Hw ?X]).
    rename Hw into Wp, X2 into Wn, X1 into Wf, X0 into Ws, X into Wfiles.
    unfold ser_header. norm. intro HF.
    unfold parse_end_header. cbn [r_u8 bind]. change (1 =? P_ENCODED_HEADER) with false. cbn match. cbn [bind].
    change (1 =? P_HEADER) with true. cbn match.
    unfold state_of.
    destruct (match h_pack h, h_folders h with None, [] => true | _, _ => false end) eqn:Enone.
    - (* no streams info at all *)
      assert (h_pack h = None /\ h_folders h = []) as [Ep Efl]
        by (destruct (h_pack h); destruct (h_folders h); try discriminate Enone; auto).
      assert (Ess : h_ss h = None).
      { destruct (h_ss h) as [x|]; [|reflexivity]. apply andb_true_iff in Ws as [_ Ws]. discriminate Ws. }
      unfold ser_streams in *. rewrite Ep, Efl, Ess in *. cbn [app] in *.
      unfold file_sizes, num_streams. cbn [default_sizes rev_new unpack_lasts map].
      eexists. split; [reflexivity|].
      unfold parse_main_header.
      destruct (h_files h) as [|f0 fs0] eqn:Ef.
      + cbn [ser_files app r_u8 bind]. reflexivity.
      + rewrite <- Ef in *. revert HF. rewrite (ser_files_shape (h_files h) ef wa) by (rewrite Ef; discriminate).
        norm. intro HF. cbn [r_u8 bind]. lit_if.
        rewrite (files_info_rt (h_files h) ef wa (0 :: rest) fuel Wfiles) by (clear - HF; fuel_tac).
        cbn [bind r_u8 fst snd]. reflexivity.
    - (* MainStreamsInfo present *)
      revert HF. rewrite (ser_streams_shape h crcs) by (rewrite Enone; reflexivity). norm. intro HF.
      assert (Ws' : match h_ss h with Some x => wf_ss (h_folders h) x crcs | None => true end = true).
      { destruct (h_ss h); [|reflexivity]. apply andb_true_iff in Ws as [Ws _]. exact Ws. }
      destruct (streams_info_rt (h_pack h) (h_folders h) (h_ss h) crcs
                  (ser_files (h_files h) ef wa ++ 0 :: rest) fuel Wp Wn Wf Ws' ltac:(clear - HF; fuel_tac)) as [sz [Z1 Z2]].
      rewrite Z1. eexists. split; [reflexivity|].
      unfold parse_main_header. cbn [r_u8 bind]. lit_if. rewrite Z2. cbn [bind fst snd].
      destruct (h_files h) as [|f0 fs0] eqn:Ef.
      + cbn [ser_files app r_u8 bind]. reflexivity.
      + rewrite <- Ef in *. revert HF. rewrite (ser_files_shape (h_files h) ef wa) by (rewrite Ef; discriminate).
        norm. intro HF. cbn [r_u8 bind]. lit_if.
        rewrite (files_info_rt (h_files h) ef wa (0 :: rest) fuel Wfiles) by (clear - HF; fuel_tac).
        cbn [bind r_u8 fst snd p_pack p_folders p_nstreams p_sizes]. reflexivity.
  Qed.
End HeaderRT.

(* ------------------------------------------------------------------ the archive: start header + area + end header *)
Lemma takeN_all {A} (l : list A) : takeN (lenN l) l = l.
Proof. rewrite <- (app_nil_r l) at 2. apply takeN_app_len. Qed.

Lemma r_bytes_le k x rest : r_bytes (N.of_nat k) (le_bytes k x ++ rest) = POk (le_bytes k x) rest.
Proof. pose proof (r_bytes_app (le_bytes k x) rest) as H. rewrite lenN_length, length_le_bytes in H. exact H. Qed.

Section ArchiveRT.
  Variable T : tables.
  Variable lzma_alone : bytes -> option N -> bytes -> dres.
  Variable lzma2_raw : N -> bytes -> dres.
  Variable crc32 : bytes -> N.

  Lemma open_7z_rt area hb :
    wf_archive crc32 area hb = true ->
    open_7z crc32 (archive_bytes crc32 area hb) = POk (hb, area ++ hb) [].
  Proof.
    unfold wf_archive. intro Hw. repeat (apply andb_true_iff in Hw; destruct Hw as [Hw ?X]).
    apply N.ltb_lt in Hw, X1, X0, X.
    unfold open_7z. set (tail := sig_tail crc32 area hb) in *.
    assert (Hdrop : takeN 20 (dropN 12 (archive_bytes crc32 area hb)) = tail).
    { unfold archive_bytes. fold tail.
      replace (MAGIC7 ++ [0; 4] ++ le_bytes 4 (crc32 tail) ++ tail ++ area ++ hb)
        with ((MAGIC7 ++ [0; 4] ++ le_bytes 4 (crc32 tail)) ++ tail ++ area ++ hb) by (rewrite <- !app_assoc; reflexivity).
      replace 12 with (lenN (MAGIC7 ++ [0; 4] ++ le_bytes 4 (crc32 tail))) by reflexivity.
      rewrite dropN_app_len.
      replace 20 with (lenN tail) by (unfold tail, sig_tail; rewrite !lenN_app, !lenN_length, !length_le_bytes; reflexivity).
      apply takeN_app_len. }
    rewrite Hdrop. unfold archive_bytes. fold tail.
    change 6 with (lenN MAGIC7). rewrite r_bytes_app. cbn [bind]. rewrite str_eqb_refl. cbn [negb].
    cbn [app r_u8 bind]. change (negb (0 =? 0) || (4 <? 4)) with false. cbn match.
    rewrite (r_u32_le _ _ X). cbn [bind].
    unfold tail at 1, sig_tail. rewrite <- !app_assoc.
    rewrite (r_bytes_le 8 (lenN area)). cbn [bind]. rewrite (r_bytes_le 8 (lenN hb)). cbn [bind].
    rewrite (r_u32_le _ _ X0). cbn [bind].
    rewrite N.eqb_refl. cbn [negb].
    rewrite !le_val_le_bytes. change (256 ^ N.of_nat 8) with (2 ^ 64). rewrite !N.mod_small by assumption.
    rewrite dropN_app_len, takeN_all, !N.eqb_refl. reflexivity.
  Qed.

  Lemma parse_7z_rt h crcs ef wa area :
    wf_header h crcs ef wa = true -> wf_archive crc32 area (ser_header h crcs ef wa) = true ->
    exists st, state_of h = Some st /\
      parse_7z T lzma_alone lzma2_raw crc32 (archive_bytes crc32 area (ser_header h crcs ef wa)) = POk st [].
  Proof.
    intros Hh Ha. unfold parse_7z. rewrite (open_7z_rt _ _ Ha). cbn [bind fst snd].
    pose proof (header_rt T lzma_alone lzma2_raw h crcs ef wa [] (S (List.length (archive_bytes crc32 area (ser_header h crcs ef wa))))
                  (area ++ ser_header h crcs ef wa) Hh) as H.
    rewrite app_nil_r in H. apply H. unfold archive_bytes. repeat rewrite app_length. lia.
  Qed.
End ArchiveRT.

(* ------------------------------------------------------------------ reader from the parsed state = reader from the header description *)
Lemma read_7z_state_eq R T la l2 sup low (ext : str -> bytes -> str -> list R) h st asize body apath :
  state_of h = Some st -> (max_7z T <? asize) = false ->
  read_7z R T la l2 sup low ext rev_new asize (Some h) body apath = read_7z_state R T la l2 sup low ext st body apath.
Proof.
  unfold state_of, read_7z, read_7z_state, list7. intros Hs Hz. rewrite Hz.
  destruct (file_sizes rev_new (h_folders h) (h_ss h)) as [sz|]; [|discriminate Hs].
  inversion Hs; subst. cbn [p_files p_sizes p_folders p_pack p_nstreams]. reflexivity.
Qed.

(* ------------------------------------------------------------------ end to end from the archive BYTES *)
Lemma dropN_32_archive crc32 area hb : dropN 32 (archive_bytes crc32 area hb) = area ++ hb.
Proof.
  unfold archive_bytes.
  replace (MAGIC7 ++ [0; 4] ++ le_bytes 4 (crc32 (sig_tail crc32 area hb)) ++ sig_tail crc32 area hb ++ area ++ hb)
    with ((MAGIC7 ++ [0; 4] ++ le_bytes 4 (crc32 (sig_tail crc32 area hb)) ++ sig_tail crc32 area hb) ++ area ++ hb)
    by (rewrite <- !app_assoc; reflexivity).
  replace 32 with (lenN (MAGIC7 ++ [0; 4] ++ le_bytes 4 (crc32 (sig_tail crc32 area hb)) ++ sig_tail crc32 area hb))
    by (unfold sig_tail; rewrite !lenN_app, !lenN_length, !length_le_bytes; reflexivity).
  apply dropN_app_len.
Qed.

Section FromBytesThm.
  Variable R : Type.
  Variable T : tables.
  Variable lzma_alone : bytes -> option N -> bytes -> dres.
  Variable lzma2_raw : N -> bytes -> dres.
  Variable crc32 : bytes -> N.
  Variable supported : str -> bool.
  Variable lower : str -> str.
  Variable extract : str -> bytes -> str -> list R.

  Definition area7z (junk : bytes) (L : layout) : bytes := junk ++ List.concat (map sg_stream (segs L)).

  Lemma members_exact_from_bytes (L : layout) full junk ad af crcs ef wa apath :
    let H := pack7z full ad af (lenN junk) L in
    let hb := ser_header H crcs ef wa in
    let file := archive_bytes crc32 (area7z junk L) hb in
    std7z_ok T lzma_alone lzma2_raw L af (lenN file) = true ->
    wf_header H crcs ef wa = true ->
    wf_archive crc32 (area7z junk L) hb = true ->
    read_7z_bytes R T lzma_alone lzma2_raw crc32 supported lower extract file apath
    = {| yields := expected7 R T supported lower extract apath (all_members L); fin := Done |}.
  Proof.
    intros H hb file Hstd Hwf Harch.
    assert (Hsz : (max_7z T <? lenN file) = false).
    { unfold std7z_ok in Hstd. apply andb_true_iff in Hstd as [_ Hz]. apply negb_true_iff in Hz. exact Hz. }
    unfold read_7z_bytes. rewrite Hsz.
    destruct (parse_7z_rt T lzma_alone lzma2_raw crc32 H crcs ef wa (area7z junk L) Hwf Harch) as [st [S1 S2]].
    fold hb in S2. fold file in S2. rewrite S2.
    rewrite <- (read_7z_state_eq R T lzma_alone lzma2_raw supported lower extract H st (lenN file) _ apath S1 Hsz).
    unfold file. rewrite dropN_32_archive. unfold area7z. rewrite <- app_assoc.
    change (junk ++ List.concat (map sg_stream (segs L)) ++ hb) with (body7z junk L hb).
    apply members_exact_7z. exact Hstd.
  Qed.
End FromBytesThm.
