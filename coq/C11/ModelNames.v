(* C11 — what counts as a directory entry.  Definitions only.
   zipfile.ZipInfo.is_dir() of this Python is  filename.endswith('/') ; zipfile inflates every other
   member as a file, whatever external_attr (MS-DOS directory bit 0x10, unix mode S_IFDIR in the high
   16 bits) and create_system say.  zip_bomb._is_directory is exactly that test, so the guard's view
   of an entry is a function of (name, file_size, compress_size) only. *)
From Coq Require Import ZArith List Bool.
From S2T Require Import Lib.PyStr C11.Model.
Open Scope Z_scope.

Record raw_entry := {
  r_name : str;
  r_file_size : Z;
  r_compress_size : Z;
  r_external_attr : Z;
  r_create_system : Z }.

Definition name_is_dir (n : str) : bool := endswith n [47%N].     (* '/' *)

Definition entry_of (r : raw_entry) : entry :=
  {| file_size := r_file_size r; compress_size := r_compress_size r; is_dir := name_is_dir (r_name r) |}.

Definition validate_raw (L : limits) (rs : list raw_entry) : outcome := validate L (map entry_of rs).

(* rewriting the attribute fields of every entry *)
Definition set_attrs (f : raw_entry -> Z * Z) (r : raw_entry) : raw_entry :=
  {| r_name := r_name r; r_file_size := r_file_size r; r_compress_size := r_compress_size r;
     r_external_attr := fst (f r); r_create_system := snd (f r) |}.

(* the entry breaks one of the per-entry clauses *)
Definition entry_violates (L : limits) (r : raw_entry) : Prop :=
  r_file_size r > max_single L
  \/ (r_file_size r > 0 /\ r_compress_size r = 0)
  \/ (r_compress_size r > 0 /\ exceeds (r_file_size r) (r_compress_size r) (max_entry_ratio L)).
