(* C11 — property theorems about the model of zip_bomb.py / zip_context.py.
   Only statements closed by `exact`, each followed by Print Assumptions. *)
From Coq Require Import ZArith List Bool Lia.
From S2T Require Import C11.Model C11.ProofsFloat C11.Proofs C11.ModelNames C11.ModelSession C11.ModelRead C11.ProofsNames.
Import ListNotations.
Open Scope Z_scope.

(* The guard rejects (ExtractionZipBombError) exactly when the declarative six-clause disjunction
   Bomb holds: entry count, a single size, a non-empty entry with zero compressed size, a per-entry
   ratio, the total size, the total ratio -- all with strict >, ratios as exact rationals, directory
   entries ignored except in the count.  Hypotheses: sizes of the non-directory entries are >= 0 and
   the limits are in the range where Python's float division decides the exact comparison
   (limits_exact: byte limits >= 0, ratio limits m*2^e finite and >= 1, and
   byte limit * 2^max(-e,0) < 2^53 for the ratio it feeds; the defaults are, see Inst.v). *)
Theorem C11_rejects_iff :
  forall (L : limits) (es : list entry),
    limits_exact L = true -> sizes_nonneg (files es) = true ->
    ((exists c, validate L es = Reject c) <-> Bomb L es).
Proof. exact rejects_iff. Qed.
Print Assumptions C11_rejects_iff.

(* ... and is accepted otherwise (in particular no other exception escapes) *)
Theorem C11_accepts_iff :
  forall (L : limits) (es : list entry),
    limits_exact L = true -> sizes_nonneg (files es) = true ->
    (validate L es = Accept <-> ~ Bomb L es).
Proof. exact accepts_iff. Qed.
Print Assumptions C11_accepts_iff.

Theorem C11_never_overflows :
  forall (L : limits) (es : list entry),
    limits_exact L = true -> sizes_nonneg (files es) = true -> validate L es <> Overflow.
Proof. exact never_overflow. Qed.
Print Assumptions C11_never_overflows.

(* the hypotheses are satisfiable, by a bomb and by a non-bomb *)
Example C11_hypotheses_satisfiable :
  let L := {| max_entries := 3; max_total := 1000; max_single := 400;
              max_total_ratio := RFin 20 0; max_entry_ratio := RFin 5 2 |} in
  let good := [ {| file_size := 400; compress_size := 20; is_dir := false |};
                {| file_size := 0; compress_size := 0; is_dir := true |} ] in
  let bad := [ {| file_size := 401; compress_size := 20; is_dir := false |} ] in
  limits_exact L = true /\ sizes_nonneg (files good) = true /\ sizes_nonneg (files bad) = true
  /\ validate L good = Accept /\ validate L bad = Reject EntryTooLarge.
Proof. vm_compute. repeat split; reflexivity. Qed.
Print Assumptions C11_hypotheses_satisfiable.

(* Python's  (a / b) > L  -- correctly rounded binary64 quotient compared with the limit -- is the exact
   rational comparison whenever 0 < a <= S, 0 < b and rl_exact S L: L = m*2^e is finite, >= 1 and
   S * 2^max(-e,0) < 2^53  (integer limits: S < 2^53; 500.5 = 1001*2^-1: S < 2^52; ...).
   The division cannot raise OverflowError there. *)
Theorem C11_ratio_exact :
  forall (a b S : Z) (L : rlimit),
    0 < b -> 0 < a <= S -> rl_exact S L = true ->
    exists q, fdiv a b = Some q /\ ratio_gt q L = exceedsb a b L.
Proof. exact fdiv_exact_gen. Qed.
Print Assumptions C11_ratio_exact.

Example C11_rl_exact_covers_dyadic :
  rl_exact (2 ^ 30) (RFin 1001 (-1)) = true /\ rl_exact (2 ^ 32) (RFin 401 (-1)) = true
  /\ rl_exact (2 ^ 30) (RFin 500 0) = true /\ rl_exact (2 ^ 30) (RFin 1 (-1)) = false
  /\ limits_exact {| max_entries := 50000; max_total := 2 ^ 32; max_single := 2 ^ 30;
                     max_total_ratio := RFin 401 (-1); max_entry_ratio := RFin 1001 (-1) |} = true.
Proof. vm_compute. repeat split; reflexivity. Qed.
Print Assumptions C11_rl_exact_covers_dyadic.

(* One-sided soundness with NO bound on the sizes: whenever Python's  (a / b) > L  is true for a
   limit L = m*2^e with m < 2^53 and e >= -1074 (every finite binary64 value, every int below 2^53,
   negative and tiny limits included), the exact quotient a/b exceeds L. *)
Theorem C11_float_gt_sound :
  forall (a b m e : Z) (q : dyadic),
    0 < a -> 0 < b -> m < 2 ^ 53 -> EMIN <= e ->
    fdiv a b = Some q -> ratio_gt q (RFin m e) = true -> exceedsb a b (RFin m e) = true.
Proof. exact fdiv_gt_sound. Qed.
Print Assumptions C11_float_gt_sound.

(* hence the guard never rejects a container that the exact predicate accepts: all byte limits (also
   above 2^53), all non-negative sizes, all ratio limits that are binary64 values / ints < 2^53.
   The converse for these limits is false (C11_rejects_iff_unrestricted_refuted below). *)
Theorem C11_reject_sound_all_limits :
  forall (L : limits) (es : list entry),
    rl_repr (max_total_ratio L) = true -> rl_repr (max_entry_ratio L) = true ->
    sizes_nonneg (files es) = true ->
    (exists c, validate L es = Reject c) -> Bomb L es.
Proof. exact reject_sound. Qed.
Print Assumptions C11_reject_sound_all_limits.

(* exceeds is the plain integer inequality for an integer-valued limit m*2^e *)
Theorem C11_exceeds_int :
  forall a b m e, 0 <= e -> exceedsb a b (RFin m e) = (m * 2 ^ e * b <? a).
Proof. exact exceedsb_int. Qed.
Print Assumptions C11_exceeds_int.

(* directory entries change nothing except through the entry count (all limits, all sizes) *)
Theorem C11_dirs_ignored :
  forall (L : limits) (es1 : list entry) (d : entry) (es2 : list entry),
    is_dir d = true ->
    Z.of_nat (length (es1 ++ d :: es2)) <= max_entries L ->
    validate L (es1 ++ d :: es2) = validate L (es1 ++ es2).
Proof. exact dir_insert. Qed.
Print Assumptions C11_dirs_ignored.

Theorem C11_dirs_ignored_after_count :
  forall (L : limits) (es : list entry), validate_body L es = validate_body L (files es).
Proof. exact body_files. Qed.
Print Assumptions C11_dirs_ignored_after_count.

Theorem C11_count_counts_dirs :
  forall (L : limits) (es : list entry),
    max_entries L < Z.of_nat (length es) -> validate L es = Reject TooManyEntries.
Proof. exact count_counts_dirs. Qed.
Print Assumptions C11_count_counts_dirs.

(* validate_zip_bytesio leaves the caller's stream position where it was, whatever zipfile does to
   the stream, whether it returns, raises the bomb error, or the container is not a ZIP at all *)
Theorem C11_position_preserved :
  forall (L : limits) (pos : Z) (o : zip_oracle), snd (validate_zip_bytesio L pos o) = pos.
Proof. exact position_preserved. Qed.
Print Assumptions C11_position_preserved.

Theorem C11_bytesio_decides_like_validate :
  forall (L : limits) (pos : Z) (o : zip_oracle),
    fst (validate_zip_bytesio L pos o) =
    if zo_opens o then bresult_of (validate_zipfile L (zo_infos o)) else BRaiseBadZip.
Proof. exact bytesio_result. Qed.
Print Assumptions C11_bytesio_decides_like_validate.

(* ZipContext: for every client program (sequence of operations) and every behaviour of zipfile,
   each member read is preceded by a successful validation of the same container *)
Theorem C11_validate_dominates_reads :
  forall (L : limits) (c : N) (ops : list zop), dominated (zrun L c Unopened ops).
Proof. exact zcontext_dominated. Qed.
Print Assumptions C11_validate_dominates_reads.

(* ... and a read can only happen when the guard accepted the container's entry list *)
Theorem C11_read_implies_accepted :
  forall (L : limits) (c : N) (o : zip_oracle) (ops : list zop),
    has_read (zrun L c Unopened (OpInit o :: ops)) = true ->
    zo_opens o = true /\ exists es, zo_infos o = Some es /\ validate L es = Accept.
Proof. exact zcontext_read_implies_accept. Qed.
Print Assumptions C11_read_implies_accepted.

(* the acceptor run on the recorded monitor traces is sound for "validate dominates reads" *)
Theorem C11_trace_ok_sound : forall t : list event, trace_ok t = true -> dominated t.
Proof. exact trace_ok_sound. Qed.
Print Assumptions C11_trace_ok_sound.

(* ---- refutations of the unrestricted statement (limits outside limits_exact) ---- *)
(* With byte limits raised above 2^53 the float quotient rounds down to the limit: an entry of
   500*2^60+1 bytes compressed to 2^60 bytes exceeds ratio 500 but is accepted. *)
Theorem C11_rejects_iff_unrestricted_refuted :
  exists (L : limits) (es : list entry),
    sizes_nonneg (files es) = true /\ validate L es = Accept /\ Bomb L es.
Proof. exact float_rounding_witness. Qed.
Print Assumptions C11_rejects_iff_unrestricted_refuted.

(* With byte limits of 2^1024 and more, int/int raises OverflowError, which is not the bomb error. *)
Theorem C11_overflow_unrestricted_refuted :
  exists (L : limits) (es : list entry),
    sizes_nonneg (files es) = true /\ validate L es = Overflow.
Proof. exact overflow_witness. Qed.
Print Assumptions C11_overflow_unrestricted_refuted.

(* ---- what counts as a directory entry (round 3) ---- *)
(* The guard's view of an entry is (name, sizes): a member is a directory iff its NAME ends with '/'
   (zipfile.ZipInfo.is_dir); external_attr (DOS bit 0x10, unix S_IFDIR) and create_system are not read. *)
Theorem C11_attrs_irrelevant :
  forall (L : limits) (f : raw_entry -> Z * Z) (rs : list raw_entry),
    validate_raw L (map (set_attrs f) rs) = validate_raw L rs.
Proof. exact attrs_irrelevant. Qed.
Print Assumptions C11_attrs_irrelevant.

(* every member that zipfile would inflate as a file (name not ending in '/') is subject to the
   per-entry clauses, whatever its attributes claim: if it breaks one, the container is rejected *)
Theorem C11_file_member_never_ignored :
  forall (L : limits) (rs : list raw_entry) (r : raw_entry),
    limits_exact L = true -> sizes_nonneg (files (map entry_of rs)) = true ->
    In r rs -> name_is_dir (r_name r) = false -> entry_violates L r ->
    exists c, validate_raw L rs = Reject c.
Proof. exact file_member_never_ignored. Qed.
Print Assumptions C11_file_member_never_ignored.

Theorem C11_trailing_slash_is_dir : forall n : list N, name_is_dir (n ++ [47%N]) = true.
Proof. exact name_is_dir_slash. Qed.
Print Assumptions C11_trailing_slash_is_dir.

(* ---- every record counts, no state between calls (round 4) ---- *)
(* names matter only through the trailing slash: repeated names, empty names, any renaming that keeps the
   slash status leave the verdict unchanged (with C11_file_member_never_ignored: EVERY record is checked,
   also a later record of a name already seen) *)
Theorem C11_names_irrelevant :
  forall (L : limits) (g : list N -> list N) (rs : list raw_entry),
    (forall n, name_is_dir (g n) = name_is_dir n) ->
    validate_raw L (map (rename g) rs) = validate_raw L rs.
Proof. exact names_irrelevant. Qed.
Print Assumptions C11_names_irrelevant.

(* in a sequence of guard calls (validate_zip_bytesio / open_zipfile / ZipContext), whatever came before
   and whatever comes after, each call does what it would do on its own: the outcome is a function of the
   bytes in the buffer now and of the limits passed now *)
Theorem C11_session_history_independent :
  forall (pre : list call) (c : call) (post : list call),
    nth_error (run_session (pre ++ c :: post)) (List.length pre) = Some (run_call c).
Proof. exact session_history_independent. Qed.
Print Assumptions C11_session_history_independent.

(* ---- extension round: is_odf_encrypted, what "accepted" bounds ---- *)
(* is_odf_encrypted answers True only for a package that zipfile opened and the guard accepted; its member
   read comes after the validation (every trace of the probe is accepted by trace_ok) *)
Theorem C11_odf_encrypted_only_if_validated :
  forall (L : limits) (z : bool) (o : zip_oracle) (enc : bool),
    is_odf_encrypted L z o enc = SBool true ->
    z = true /\ zo_opens o = true /\ validate_zipfile L (zo_infos o) = Accept.
Proof. exact odf_encrypted_only_if_validated. Qed.
Print Assumptions C11_odf_encrypted_only_if_validated.

Theorem C11_odf_probe_validate_dominates_read :
  forall (L : limits) (c : N) (z : bool) (o : zip_oracle) (has_manifest : bool),
    dominated (odf_probe_events L c z o has_manifest).
Proof. intros. apply trace_ok_sound. exact (odf_probe_dominated L c z o has_manifest). Qed.
Print Assumptions C11_odf_probe_validate_dominates_read.

(* The guard judges the sizes CLAIMED BY THE CENTRAL DIRECTORY (the model's input `es` is zipfile's infolist():
   ZIP64 extra fields decoded, local headers and data descriptors never consulted).  Accepted means: every
   claimed size and ratio is within its limit ... *)
Theorem C11_accept_bounds :
  forall (L : limits) (es : list entry),
    limits_exact L = true -> sizes_nonneg (files es) = true -> validate L es = Accept ->
    Z.of_nat (List.length es) <= max_entries L
    /\ total_u (files es) <= max_total L
    /\ (forall x, In x (files es) -> file_size x <= max_single L
                                    /\ (file_size x > 0 -> compress_size x > 0)
                                    /\ (compress_size x > 0 -> ~ exceeds (file_size x) (compress_size x) (max_entry_ratio L)))
    /\ (total_c (files es) > 0 -> ~ exceeds (total_u (files es)) (total_c (files es)) (max_total_ratio L)).
Proof. exact accept_bounds. Qed.
Print Assumptions C11_accept_bounds.

(* ... hence, for every reader that obtains at most the claimed file_size from a member (zipfile.ZipExtFile
   truncates its output to it: checked at run time), an accepted container yields at most max_total bytes
   in all and max_single per member.  What the DEcompressor produces internally before that truncation is not
   bounded by the claim: see the known finding inflate-exceeds-declared-size. *)
Theorem C11_accepted_output_bounded :
  forall (L : limits) (es : list entry) (out : entry -> Z),
    limits_exact L = true -> sizes_nonneg (files es) = true -> validate L es = Accept ->
    reader_truncates out (files es) = true ->
    total_out out (files es) <= max_total L /\ forall x, In x (files es) -> out x <= max_single L.
Proof. exact accepted_output_bounded. Qed.
Print Assumptions C11_accepted_output_bounded.

Example C11_reader_truncates_satisfiable :
  reader_truncates (fun x => file_size x / 2)
    [ {| file_size := 400; compress_size := 20; is_dir := false |} ] = true.
Proof. vm_compute. reflexivity. Qed.
Print Assumptions C11_reader_truncates_satisfiable.

(* ---- zip_utils.read_zip_member: what repository code obtains from a member (extension round 2) ---- *)
(* member.read(info.file_size): whatever the member's data really inflates to (stream oracle), the bytes
   obtained are between 0 and the size the central directory claims *)
Theorem C11_read_zip_member_bounded :
  forall (x : entry) (st : stream),
    0 <= file_size x -> 0 <= s_avail st ->
    0 <= read_len (read_zip_member x st) <= file_size x.
Proof. exact read_zip_member_bounded. Qed.
Print Assumptions C11_read_zip_member_bounded.

(* ... and the decompressor is never asked for more than max(claim, MIN_READ_SIZE) *)
Theorem C11_read_zip_member_work_bounded :
  forall (x : entry) (st : stream),
    0 <= file_size x -> read_zip_member_work x st <= Z.max (file_size x) MIN_READ_SIZE.
Proof. exact read_zip_member_work_bounded. Qed.
Print Assumptions C11_read_zip_member_work_bounded.

(* The reader hypothesis of C11_accepted_output_bounded is discharged for repository reads: for an accepted
   container and ANY member streams, what read_zip_member obtains is at most max_total in all, max_single per
   member, and the decompressor's output per read is at most max(max_single, MIN_READ_SIZE). *)
Theorem C11_repository_reads_bounded :
  forall (L : limits) (es : list entry) (streams : entry -> stream),
    limits_exact L = true -> sizes_nonneg (files es) = true -> validate L es = Accept ->
    (forall x, 0 <= s_avail (streams x)) ->
    total_out (fun x => read_len (read_zip_member x (streams x))) (files es) <= max_total L
    /\ (forall x, In x (files es) -> read_len (read_zip_member x (streams x)) <= max_single L
                                    /\ read_zip_member_work x (streams x) <= Z.max (max_single L) MIN_READ_SIZE).
Proof. exact repository_reads_bounded. Qed.
Print Assumptions C11_repository_reads_bounded.

(* the shape it replaced, zf.read(path): the decompressor's output is not bounded by the claim
   (claimed 65232 bytes, inflates 64 MiB) -- the repaired finding inflate-exceeds-declared-size *)
Theorem C11_zipfile_read_work_unbounded_refuted :
  exists (x : entry) (st : stream), 0 <= file_size x /\ zipfile_read_work x st > file_size x + MIN_READ_SIZE.
Proof. exact zipfile_read_work_unbounded. Qed.
Print Assumptions C11_zipfile_read_work_unbounded_refuted.
