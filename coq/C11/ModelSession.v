(* C11 — sequences of guard calls in one process, possibly on one reused buffer object.  Definitions only.
   The code keeps no state between calls: what a call does is a function of the bytes in the buffer NOW
   (through the zipfile oracle for those bytes) and of the limits passed NOW.  A session is therefore the
   map of the single-call semantics; the differential run compares real sessions on one io.BytesIO object
   (content rewritten between calls, limits varied between calls) with this map. *)
From Coq Require Import ZArith List Bool.
From S2T Require Import C11.Model.
Import ListNotations.
Open Scope Z_scope.

(* open_zipfile: seek(0); ZipFile(...); validate (close and re-raise on failure); return the archive *)
Definition open_zipfile (L : limits) (o : zip_oracle) : bresult :=
  if zo_opens o then bresult_of (validate_zipfile L (zo_infos o)) else BRaiseBadZip.

(* a call either behaves like a guard call (returns / raises) or returns a boolean *)
Inductive sresult := SGuard (r : bresult) | SBool (b : bool).

(* encryption.is_odf_encrypted: zipfile.is_zipfile (oracle) false -> False without opening anything;
   otherwise the package is opened through open_zipfile (default limits) -- the bomb error / BadZipFile
   propagate -- and only then META-INF/manifest.xml is read; `enc` is the oracle "the manifest exists,
   parses and contains an encryption-data element" (ElementTree). *)
Definition is_odf_encrypted (L : limits) (is_zip : bool) (o : zip_oracle) (enc : bool) : sresult :=
  if is_zip then
    match open_zipfile L o with
    | BReturn => SBool enc
    | r => SGuard r
    end
  else SBool false.

(* events of one is_odf_encrypted call on container c (same alphabet as ZipContext) *)
Definition odf_probe_events (L : limits) (c : N) (is_zip : bool) (o : zip_oracle) (has_manifest : bool) : list event :=
  if is_zip then
    if zo_opens o then
      match validate_zipfile L (zo_infos o) with
      | Accept => if has_manifest then [EvOpen c; EvValidate c true; EvRead c; EvClose c]
                  else [EvOpen c; EvValidate c true; EvClose c]
      | _ => [EvOpen c; EvValidate c false; EvClose c]
      end
    else []
  else [].

Inductive call :=
  | CValidateBytesio (L : limits) (pos : Z) (o : zip_oracle)
  | COpenZipfile (L : limits) (o : zip_oracle)
  | CZipContext (L : limits) (o : zip_oracle)        (* L = the default limits: ZipContext passes none *)
  | CIsOdfEncrypted (L : limits) (is_zip : bool) (o : zip_oracle) (enc : bool).

Definition run_call (c : call) : sresult :=
  match c with
  | CValidateBytesio L pos o => SGuard (fst (validate_zip_bytesio L pos o))
  | COpenZipfile L o => SGuard (open_zipfile L o)
  | CZipContext L o => SGuard (open_zipfile L o)
  | CIsOdfEncrypted L z o e => is_odf_encrypted L z o e
  end.

Definition run_session (cs : list call) : list sresult := map run_call cs.

(* what an accepted container can cost: `out x` = bytes a reader obtains from member x *)
Definition total_out (out : entry -> Z) (es : list entry) : Z := fold_right (fun x acc => out x + acc) 0 es.
Definition reader_truncates (out : entry -> Z) (es : list entry) : bool :=
  forallb (fun x => (0 <=? out x) && (out x <=? file_size x)) es.
