(* C11 — sequences of guard calls in one process, possibly on one reused buffer object.  Definitions only.
   The code keeps no state between calls: what a call does is a function of the bytes in the buffer NOW
   (through the zipfile oracle for those bytes) and of the limits passed NOW.  A session is therefore the
   map of the single-call semantics; the differential run compares real sessions on one io.BytesIO object
   (content rewritten between calls, limits varied between calls) with this map. *)
From Coq Require Import ZArith List Bool.
From S2T Require Import C11.Model.
Import ListNotations.
Open Scope Z_scope.

(* open_zipfile: seek(0); ZipFile(...); validate (close and re-raise on failure); return the archive *)
Definition open_zipfile (L : limits) (o : zip_oracle) : bresult :=
  if zo_opens o then bresult_of (validate_zipfile L (zo_infos o)) else BRaiseBadZip.

Inductive call :=
  | CValidateBytesio (L : limits) (pos : Z) (o : zip_oracle)
  | COpenZipfile (L : limits) (o : zip_oracle)
  | CZipContext (L : limits) (o : zip_oracle).       (* L = the default limits: ZipContext passes none *)

Definition run_call (c : call) : bresult :=
  match c with
  | CValidateBytesio L pos o => fst (validate_zip_bytesio L pos o)
  | COpenZipfile L o => open_zipfile L o
  | CZipContext L o => open_zipfile L o
  end.

Definition run_session (cs : list call) : list bresult := map run_call cs.
