(* C11 — executable model of sharepoint2text/parsing/extractors/util/zip_bomb.py (validate_zipfile,
   open_zipfile, validate_zip_bytesio) and of zip_context.ZipContext as an event-emitting state machine.
   Definitions only.  Python ints are Z; Python's int/int true division is `fdiv` (round-to-nearest-even
   to 53 bits, subnormal clamp at 2^-1074, OverflowError at 2^1024 — CPython's long_true_divide), floats
   are dyadic rationals (m, e) = m * 2^e. *)
From Coq Require Import ZArith List Bool Lia ZifyBool.
Import ListNotations.
Open Scope Z_scope.

(* ------------------------------------------------------------------ data *)
Record entry := { file_size : Z; compress_size : Z; is_dir : bool }.

(* a ratio limit as Python sees it: a finite int/float m*2^e, +-inf or nan *)
Inductive rlimit := RFin (m e : Z) | RPosInf | RNegInf | RNaN.

Record limits := {
  max_entries : Z;
  max_total : Z;          (* max_total_uncompressed_bytes *)
  max_single : Z;         (* max_single_uncompressed_bytes *)
  max_total_ratio : rlimit;
  max_entry_ratio : rlimit }.

Inductive clause :=
  | InspectFailed | TooManyEntries | EntryTooLarge | ZeroCompressedEntry | EntryRatio
  | TotalTooLarge | ZeroCompressedTotal | TotalRatio.

(* Accept = returns None; Reject = ExtractionZipBombError; Overflow = OverflowError escaping from int/int *)
Inductive outcome := Accept | Reject (c : clause) | Overflow.

(* ------------------------------------------------------------------ dyadic numbers and int/int *)
Definition dyadic := (Z * Z)%type.

Definition dy_cmp (x y : dyadic) : comparison :=
  let '(m1, e1) := x in let '(m2, e2) := y in
  let e := Z.min e1 e2 in
  (m1 * 2 ^ (e1 - e)) ?= (m2 * 2 ^ (e2 - e)).

Definition dy_gtb (x y : dyadic) : bool := match dy_cmp x y with Gt => true | _ => false end.
Definition dy_geb (x y : dyadic) : bool := match dy_cmp x y with Lt => false | _ => true end.
Definition dy_eqb (x y : dyadic) : bool := match dy_cmp x y with Eq => true | _ => false end.

(* a / (b * 2^e) as a fraction of integers *)
Definition scale (a b e : Z) : Z * Z :=
  if 0 <? e then (a, b * 2 ^ e) else (a * 2 ^ (- e), b).

(* round-half-even of n/d (n >= 0, d > 0) to an integer *)
Definition rne (n d : Z) : Z :=
  let q := n / d in
  let r := n mod d in
  match 2 * r ?= d with
  | Lt => q
  | Gt => q + 1
  | Eq => if Z.even q then q else q + 1
  end.

Definition EMIN : Z := -1074.
Definition PREC : Z := 53.

(* exponent of the quotient's last place: the integer part of a/(b*2^e) has 53 bits, unless subnormal *)
Definition fdiv_exp (a b : Z) : Z :=
  let e0 := Z.log2 a - Z.log2 b - PREC in
  let '(n, d) := scale a b e0 in
  Z.max (if n / d <? 2 ^ PREC then e0 else e0 + 1) EMIN.

(* Python  a / b  for ints a, b > 0 : None = OverflowError, Some (m, e) = the float m * 2^e *)
Definition fdiv (a b : Z) : option dyadic :=
  let e := fdiv_exp a b in
  let '(n, d) := scale a b e in
  let m := rne n d in
  if dy_geb (m, e) (1, 1024) then None else Some (m, e).

(* Python  ratio > limit  (float against float or int: exact comparison of the two values) *)
Definition ratio_gt (r : dyadic) (L : rlimit) : bool :=
  match L with
  | RFin m e => dy_gtb r (m, e)
  | RNegInf => true
  | RPosInf | RNaN => false
  end.

(* ------------------------------------------------------------------ validate_zipfile *)
(* the ratio part of the loop body / of the epilogue:  if size > 0: if csize <= 0: raise; ratio = ...; if ratio > lim: raise *)
Definition ratio_check (zero over : clause) (lim : rlimit) (size csize : Z) : option outcome :=
  if 0 <? size then
    if csize <=? 0 then Some (Reject zero)
    else match fdiv size csize with
         | None => Some Overflow
         | Some q => if ratio_gt q lim then Some (Reject over) else None
         end
  else None.

(* the for-loop; inl = left by an exception, inr = totals after the last entry *)
Fixpoint loop (L : limits) (es : list entry) (tu tc : Z) : outcome + (Z * Z) :=
  match es with
  | [] => inr (tu, tc)
  | x :: r =>
      if is_dir x then loop L r tu tc
      else
        let fs := file_size x in
        let cs := compress_size x in
        if max_single L <? fs then inl (Reject EntryTooLarge)
        else match ratio_check ZeroCompressedEntry EntryRatio (max_entry_ratio L) fs cs with
             | Some o => inl o
             | None =>
                 let tu' := tu + fs in
                 let tc' := tc + cs in
                 if max_total L <? tu' then inl (Reject TotalTooLarge) else loop L r tu' tc'
             end
  end.

(* everything after the entry-count test *)
Definition validate_body (L : limits) (es : list entry) : outcome :=
  match loop L es 0 0 with
  | inl o => o
  | inr (tu, tc) =>
      match ratio_check ZeroCompressedTotal TotalRatio (max_total_ratio L) tu tc with
      | Some o => o
      | None => Accept
      end
  end.

Definition validate (L : limits) (es : list entry) : outcome :=
  if max_entries L <? Z.of_nat (length es) then Reject TooManyEntries else validate_body L es.

(* zf.infolist() is an oracle: None = it raised *)
Definition validate_zipfile (L : limits) (infos : option (list entry)) : outcome :=
  match infos with None => Reject InspectFailed | Some es => validate L es end.

(* ------------------------------------------------------------------ declarative specification *)
Definition files (es : list entry) : list entry := filter (fun x => negb (is_dir x)) es.
Definition total_u (es : list entry) : Z := fold_right (fun x acc => file_size x + acc) 0 es.
Definition total_c (es : list entry) : Z := fold_right (fun x acc => compress_size x + acc) 0 es.

(* exact rational comparison  a / b > L  (b > 0), no rounding anywhere *)
Definition exceedsb (a b : Z) (L : rlimit) : bool :=
  match L with
  | RFin m e => dy_gtb (a, 0) (m * b, e)
  | RNegInf => true
  | RPosInf | RNaN => false
  end.
Definition exceeds (a b : Z) (L : rlimit) : Prop := exceedsb a b L = true.

Definition Bomb (L : limits) (es : list entry) : Prop :=
  Z.of_nat (length es) > max_entries L
  \/ (exists x, In x (files es) /\ file_size x > max_single L)
  \/ (exists x, In x (files es) /\ file_size x > 0 /\ compress_size x = 0)
  \/ (exists x, In x (files es) /\ compress_size x > 0
                /\ exceeds (file_size x) (compress_size x) (max_entry_ratio L))
  \/ total_u (files es) > max_total L
  \/ (total_c (files es) > 0 /\ exceeds (total_u (files es)) (total_c (files es)) (max_total_ratio L)).

(* the same, decidable *)
Definition bombb (L : limits) (es : list entry) : bool :=
  (max_entries L <? Z.of_nat (length es))
  || existsb (fun x => max_single L <? file_size x) (files es)
  || existsb (fun x => (0 <? file_size x) && (compress_size x =? 0)) (files es)
  || existsb (fun x => (0 <? compress_size x)
                       && exceedsb (file_size x) (compress_size x) (max_entry_ratio L)) (files es)
  || (max_total L <? total_u (files es))
  || ((0 <? total_c (files es)) && exceedsb (total_u (files es)) (total_c (files es)) (max_total_ratio L)).

(* hypotheses of the exactness theorem, as boolean predicates *)
Definition sizes_nonneg (es : list entry) : bool :=
  forallb (fun x => (0 <=? file_size x) && (0 <=? compress_size x)) es.

(* an integer-valued limit >= 1 *)
Definition rl_int_ge1 (L : rlimit) : bool :=
  match L with RFin m e => (1 <=? m) && (0 <=? e) | _ => false end.

(* rl_exact S L : the ratio limit L = m*2^e is finite and >= 1, and every size a <= S that can reach
   the ratio test satisfies  a * 2^max(-e,0) < 2^53  -- the range in which the rounded quotient
   decides the exact comparison.  Integer limits (e >= 0): S < 2^53.  Dyadic limits such as
   500.5 = 1001*2^-1 : S*2 < 2^53. *)
Definition rl_exact (S : Z) (L : rlimit) : bool :=
  match L with
  | RFin m e =>
      if 0 <=? e then (1 <=? m) && (S <? 2 ^ 53)
      else (2 ^ (- e) <=? m) && (S * 2 ^ (- e) <? 2 ^ 53)
  | _ => false
  end.

Definition limits_exact (L : limits) : bool :=
  (0 <=? max_total L) && (0 <=? max_single L)
  && rl_exact (max_total L) (max_total_ratio L) && rl_exact (max_single L) (max_entry_ratio L).

(* a finite limit that is a binary64 value or an int below 2^53 in magnitude towards +oo: all that the
   one-sided soundness theorem needs (negative and small limits included) *)
Definition rl_repr (L : rlimit) : bool :=
  match L with RFin m e => (m <? 2 ^ 53) && (EMIN <=? e) | _ => true end.

(* ------------------------------------------------------------------ open_zipfile / validate_zip_bytesio *)
(* What zipfile.ZipFile(file_like) does is an oracle: whether the constructor raises, what infolist()
   returns, and where it leaves the stream position after construction and after close(). *)
Record zip_oracle := {
  zo_opens : bool;                       (* false: ZipFile(...) raises BadZipFile *)
  zo_infos : option (list entry);        (* None: infolist() raises *)
  zo_pos_open : Z;                       (* stream position left by the constructor *)
  zo_pos_close : Z }.                    (* stream position left by close() *)

Inductive bresult := BReturn | BRaiseBomb (c : clause) | BRaiseOverflow | BRaiseBadZip.

Definition bresult_of (o : outcome) : bresult :=
  match o with Accept => BReturn | Reject c => BRaiseBomb c | Overflow => BRaiseOverflow end.

(* validate_zip_bytesio: returns (what the call does, stream position afterwards) *)
Definition validate_zip_bytesio (L : limits) (pos : Z) (o : zip_oracle) : bresult * Z :=
  let original_pos := pos in                 (* original_pos = file_like.tell() *)
  let pos := 0 in                            (* file_like.seek(0) *)
  let '(r, pos) :=
    if zo_opens o then
      let pos := zo_pos_open o in
      let r := validate_zipfile L (zo_infos o) in
      let pos := zo_pos_close o in           (* with-exit closes on return and on exception *)
      (bresult_of r, pos)
    else (BRaiseBadZip, pos) in
  let pos := original_pos in                 (* finally: file_like.seek(original_pos) *)
  (r, pos).

(* ------------------------------------------------------------------ events and ZipContext *)
(* events seen by a monitor wrapped around zipfile.ZipFile and validate_zipfile; c = container id *)
Inductive event :=
  | EvOpen (c : N)                 (* ZipFile(...) constructed on container c *)
  | EvValidate (c : N) (ok : bool) (* validate_zipfile returned (true) / raised (false) *)
  | EvRead (c : N)                 (* ZipFile.open / ZipFile.read handed out a member stream *)
  | EvClose (c : N).               (* an open archive is closed (repeated close() calls are not events) *)

Inductive zstate := Unopened | Validated | Closed | Failed.

Inductive zop :=
  | OpInit (o : zip_oracle)   (* ZipContext(file_like) *)
  | OpRead (present : bool)   (* read_bytes / read_text / read_xml_root / open_stream; present = the member exists *)
  | OpQuery                   (* exists / namelist *)
  | OpClose.

Definition zstep (L : limits) (c : N) (s : zstate) (op : zop) : zstate * list event :=
  match s, op with
  | Unopened, OpInit o =>
      if zo_opens o then
        match validate_zipfile L (zo_infos o) with
        | Accept => (Validated, [EvOpen c; EvValidate c true])
        | _ => (Failed, [EvOpen c; EvValidate c false; EvClose c])   (* open_zipfile closes and re-raises *)
        end
      else (Failed, [])
  | Validated, OpRead true => (Validated, [EvRead c])   (* a missing member raises KeyError: nothing is read *)
  | Validated, OpClose => (Closed, [EvClose c])
  | s, _ => (s, [])            (* no object (constructor raised), or zipfile refuses a closed archive *)
  end.

Fixpoint zrun (L : limits) (c : N) (s : zstate) (ops : list zop) : list event :=
  match ops with
  | [] => []
  | op :: r => let '(s', ev) := zstep L c s op in ev ++ zrun L c s' r
  end.

(* trace acceptor used on recorded traces: scans with the set of containers validated so far *)
Fixpoint trace_ok_from (ok : list N) (t : list event) : bool :=
  match t with
  | [] => true
  | EvValidate c true :: r => trace_ok_from (c :: ok) r
  | EvRead c :: r => existsb (N.eqb c) ok && trace_ok_from ok r
  | _ :: r => trace_ok_from ok r
  end.
Definition trace_ok (t : list event) : bool := trace_ok_from [] t.
