(* C11 — lemmas about the model of Python's int/int and the float comparison. *)
From Coq Require Import ZArith List Bool Lia ZifyBool.
From S2T Require Import C11.Model.
Import ListNotations.
Open Scope Z_scope.

(* ---------------------------------------------------------------- rne : round-half-even of n/d *)
Lemma rne_le : forall n d k, 0 < d -> n <= k * d -> rne n d <= k.
Proof.
  intros n d k Hd H. unfold rne.
  pose proof (Z.div_mod n d ltac:(lia)) as E.
  pose proof (Z.mod_pos_bound n d Hd) as B.
  set (q := n / d) in *. set (r := n mod d) in *.
  assert (Hq : q <= k) by nia.
  destruct (Z.compare_spec (2 * r) d) as [C|C|C].
  - destruct (Z.even q); nia.
  - lia.
  - nia.
Qed.

Lemma rne_ge : forall n d k, 0 < d -> 2 * n > (2 * k + 1) * d -> rne n d >= k + 1.
Proof.
  intros n d k Hd H. unfold rne.
  pose proof (Z.div_mod n d ltac:(lia)) as E.
  pose proof (Z.mod_pos_bound n d Hd) as B.
  set (q := n / d) in *. set (r := n mod d) in *.
  assert (Hq : q >= k) by nia.
  destruct (Z.compare_spec (2 * r) d) as [C|C|C].
  - destruct (Z.even q); nia.
  - nia.
  - nia.
Qed.

Lemma rne_ge0 : forall n d k, 0 < d -> k * d <= n -> k <= rne n d.
Proof.
  intros n d k Hd H. unfold rne.
  pose proof (Z.div_mod n d ltac:(lia)) as E.
  pose proof (Z.mod_pos_bound n d Hd) as B.
  set (q := n / d) in *. set (r := n mod d) in *.
  assert (Hq : k <= q) by nia.
  destruct (Z.compare_spec (2 * r) d) as [C|C|C]; try destruct (Z.even q); lia.
Qed.

Lemma rne_ub : forall n d, 0 < d -> 0 <= n -> rne n d <= n + 1.
Proof.
  intros n d Hd Hn. unfold rne.
  pose proof (Z.div_mod n d ltac:(lia)) as E.
  pose proof (Z.mod_pos_bound n d Hd) as B.
  set (q := n / d) in *. set (r := n mod d) in *.
  assert (Hq : q <= n) by nia.
  destruct (Z.compare_spec (2 * r) d) as [C|C|C]; try destruct (Z.even q); lia.
Qed.

(* ---------------------------------------------------------------- comparison helpers *)
Lemma dy_gtb_true : forall m1 e1 m2 e2,
  dy_gtb (m1, e1) (m2, e2) = true <->
  m1 * 2 ^ (e1 - Z.min e1 e2) > m2 * 2 ^ (e2 - Z.min e1 e2).
Proof.
  intros. unfold dy_gtb, dy_cmp.
  destruct (Z.compare_spec (m1 * 2 ^ (e1 - Z.min e1 e2)) (m2 * 2 ^ (e2 - Z.min e1 e2))); split; intros; try discriminate; try lia; reflexivity.
Qed.

Lemma dy_geb_true : forall m1 e1 m2 e2,
  dy_geb (m1, e1) (m2, e2) = true <->
  m1 * 2 ^ (e1 - Z.min e1 e2) >= m2 * 2 ^ (e2 - Z.min e1 e2).
Proof.
  intros. unfold dy_geb, dy_cmp.
  destruct (Z.compare_spec (m1 * 2 ^ (e1 - Z.min e1 e2)) (m2 * 2 ^ (e2 - Z.min e1 e2))); split; intros; try discriminate; try lia; reflexivity.
Qed.

Lemma scale_nonpos : forall a b e, e <= 0 -> scale a b e = (a * 2 ^ (- e), b).
Proof. intros. unfold scale. destruct (0 <? e) eqn:E; [lia|reflexivity]. Qed.

(* exact comparison against an integer-valued limit is the integer inequality a > K*b *)
Lemma exceedsb_int : forall a b m e, 0 <= e ->
  exceedsb a b (RFin m e) = (m * 2 ^ e * b <? a).
Proof.
  intros a b m e He. unfold exceedsb.
  apply eq_true_iff_eq. rewrite dy_gtb_true.
  replace (Z.min 0 e) with 0 by lia. rewrite !Z.sub_0_r, Z.pow_0_r.
  rewrite Z.ltb_lt. nia.
Qed.

(* ---------------------------------------------------------------- exponent bounds *)
Lemma fdiv_exp_cases : forall a b,
  let e0 := Z.log2 a - Z.log2 b - 53 in
  fdiv_exp a b = Z.max e0 (-1074) \/ fdiv_exp a b = Z.max (e0 + 1) (-1074).
Proof.
  intros a b e0. unfold fdiv_exp, PREC, EMIN. fold e0.
  destruct (scale a b e0) as [n d]. destruct (n / d <? 2 ^ 53); auto.
Qed.

(* ---------------------------------------------------------------- the exactness theorem *)
(* For 0 < b, 0 < a < 2^53 and an integer-valued limit K >= 1 :
   Python's  (a / b) > K  (rounded quotient against the limit) is exactly  a > K * b,
   and the division does not overflow. *)
Lemma fdiv_exact : forall a b L,
  0 < b -> 0 < a < 2 ^ 53 -> rl_int_ge1 L = true ->
  exists q, fdiv a b = Some q /\ ratio_gt q L = exceedsb a b L.
Proof.
  intros a b L Hb Ha HL.
  destruct L as [m e| | |]; try discriminate. cbn [rl_int_ge1] in HL.
  assert (Hm : 1 <= m) by lia. assert (He : 0 <= e) by lia. clear HL.
  set (K := m * 2 ^ e).
  assert (HK : 1 <= K). { unfold K. pose proof (Z.pow_pos_nonneg 2 e ltac:(lia) He). nia. }
  (* logarithms *)
  pose proof (Z.log2_nonneg a) as Hla0. pose proof (Z.log2_nonneg b) as Hlb0.
  assert (Hla : Z.log2 a <= 52).
  { assert (Z.log2 a < 53) by (apply Z.log2_lt_pow2; lia). lia. }
  destruct (Z.log2_spec b Hb) as [_ Hb2].
  set (E := fdiv_exp a b).
  assert (HE0 : E <= 0).
  { unfold E. destruct (fdiv_exp_cases a b) as [H|H]; rewrite H; lia. }
  assert (HElb : Z.log2 b <= 52 -> E <= - Z.log2 b).
  { intro. unfold E. destruct (fdiv_exp_cases a b) as [H1|H1]; rewrite H1; lia. }
  set (P := 2 ^ (- E)).
  assert (HP : 1 <= P). { unfold P. pose proof (Z.pow_pos_nonneg 2 (- E) ltac:(lia) ltac:(lia)). lia. }
  unfold fdiv. fold E. rewrite (scale_nonpos a b E HE0). fold P.
  set (M := rne (a * P) b).
  (* no overflow *)
  assert (HMub : M <= a * P + 1). { unfold M. apply rne_ub; nia. }
  assert (Hov : dy_geb (M, E) (1, 1024) = false).
  { destruct (dy_geb (M, E) (1, 1024)) eqn:G; [|reflexivity]. exfalso.
    apply dy_geb_true in G. replace (Z.min E 1024) with E in G by lia.
    rewrite Z.sub_diag, Z.pow_0_r in G.
    replace (1024 - E) with (1024 + - E) in G by lia.
    rewrite Z.pow_add_r in G by lia. fold P in G.
    assert (2 ^ 53 < 2 ^ 1024) by (apply Z.pow_lt_mono_r; lia).
    nia. }
  rewrite Hov. eexists; split; [reflexivity|].
  (* the comparison *)
  rewrite exceedsb_int by exact He. fold K.
  apply eq_true_iff_eq. unfold ratio_gt. rewrite dy_gtb_true, Z.ltb_lt.
  replace (Z.min E e) with E by lia. rewrite Z.sub_diag, Z.pow_0_r.
  replace (e - E) with (e + - E) by lia. rewrite Z.pow_add_r by lia. fold P.
  replace (m * (2 ^ e * P)) with (K * P) by (unfold K; ring).
  split.
  - (* rounded quotient above the limit -> exact quotient above it *)
    intro G. destruct (Z_lt_le_dec (K * b) a) as [|Hle]; [assumption|exfalso].
    assert (M <= K * P). { unfold M. apply rne_le; nia. }
    lia.
  - (* exact quotient above the limit -> the rounded one is, too: half an ulp is below 1/b *)
    intro G.
    assert (Hba : b < a) by nia.
    assert (Hlb : Z.log2 b <= 52).
    { assert (Z.log2 b < 53) by (apply Z.log2_lt_pow2; lia). lia. }
    specialize (HElb Hlb).
    assert (HbP : b < 2 * P).
    { unfold P. replace (2 * 2 ^ (- E)) with (2 ^ (Z.succ (- E))) by (rewrite Z.pow_succ_r; lia).
      eapply Z.lt_le_trans; [exact Hb2|]. apply Z.pow_le_mono_r; lia. }
    assert (M >= K * P + 1). { unfold M. apply rne_ge; nia. }
    lia.
Qed.


(* ================================================================ round 2 *)
Lemma scale_pos : forall a b e, 0 < e -> scale a b e = (a, b * 2 ^ e).
Proof. intros. unfold scale. destruct (0 <? e) eqn:E; [reflexivity|lia]. Qed.

Lemma pow2_gt0 : forall x, 0 <= x -> 0 < 2 ^ x.
Proof. intros. apply Z.pow_pos_nonneg; lia. Qed.

(* ---------------------------------------------------------------- normalisation of fdiv *)
(* with the first-guess exponent e0 the quotient has at least 53 bits *)
Lemma norm_A : forall a b, 0 < a -> 0 < b ->
  forall n0 d0, scale a b (Z.log2 a - Z.log2 b - 53) = (n0, d0) -> 2 ^ 52 * d0 <= n0 /\ 0 < d0.
Proof.
  intros a b Ha Hb n0 d0 S.
  destruct (Z.log2_spec a Ha) as [A1 _]. destruct (Z.log2_spec b Hb) as [_ B2].
  pose proof (Z.log2_nonneg a) as La. pose proof (Z.log2_nonneg b) as Lb.
  set (la := Z.log2 a) in *. set (lb := Z.log2 b) in *. set (e0 := la - lb - 53) in *.
  destruct (Z_lt_le_dec 0 e0) as [P|P].
  - rewrite scale_pos in S by exact P. injection S as <- <-.
    pose proof (pow2_gt0 e0 ltac:(lia)) as X.
    assert (E : 2 ^ la = 2 ^ 52 * (2 ^ e0 * 2 ^ Z.succ lb)).
    { rewrite <- !Z.pow_add_r by lia. f_equal; lia. }
    set (c := 2 ^ 52) in *. assert (0 < c) by (unfold c; apply pow2_gt0; lia).
    set (x := 2 ^ e0) in *. set (y := 2 ^ Z.succ lb) in *.
    split; [|nia].
    assert (b * x < x * y) by nia.
    assert (c * (b * x) < c * (x * y)) by (apply Z.mul_lt_mono_pos_l; assumption).
    lia.
  - rewrite scale_nonpos in S by exact P. injection S as <- <-.
    pose proof (pow2_gt0 (- e0) ltac:(lia)) as X.
    assert (E : 2 ^ la * 2 ^ (- e0) = 2 ^ 52 * 2 ^ Z.succ lb).
    { rewrite <- !Z.pow_add_r by lia. f_equal; lia. }
    set (c := 2 ^ 52) in *. assert (0 < c) by (unfold c; apply pow2_gt0; lia).
    set (x := 2 ^ (- e0)) in *. set (y := 2 ^ Z.succ lb) in *.
    split; [|lia].
    assert (2 ^ la * x <= a * x) by nia.
    assert (c * b < c * y) by (apply Z.mul_lt_mono_pos_l; assumption).
    lia.
Qed.

(* if it has 54 bits, one exponent higher it has 53 *)
Lemma norm_B : forall a b e0 n0 d0 n1 d1, 0 < b ->
  scale a b e0 = (n0, d0) -> scale a b (e0 + 1) = (n1, d1) ->
  2 ^ 53 * d0 <= n0 -> 2 ^ 52 * d1 <= n1.
Proof.
  intros a b e0 n0 d0 n1 d1 Hb S0 S1 H.
  change (2 ^ 53) with (2 * 2 ^ 52) in H. set (c := 2 ^ 52) in *.
  destruct (Z_lt_le_dec 0 e0) as [P|P].
  - rewrite scale_pos in S0 by lia. rewrite scale_pos in S1 by lia.
    injection S0 as <- <-. injection S1 as <- <-.
    rewrite Z.pow_add_r by lia. change (2 ^ 1) with 2. nia.
  - destruct (Z.eq_dec e0 0) as [Z0|NZ].
    + subst e0. rewrite scale_nonpos in S0 by lia. rewrite scale_pos in S1 by lia.
      injection S0 as <- <-. injection S1 as <- <-.
      change (2 ^ (- 0)) with 1 in H. change (2 ^ (0 + 1)) with 2. lia.
    + rewrite scale_nonpos in S0 by lia. rewrite scale_nonpos in S1 by lia.
      injection S0 as <- <-. injection S1 as <- <-.
      replace (- e0) with (- (e0 + 1) + 1) in H by lia.
      rewrite Z.pow_add_r in H by lia. change (2 ^ 1) with 2 in H. nia.
Qed.

Lemma fdiv_exp_normal : forall a b n d, 0 < a -> 0 < b ->
  EMIN < fdiv_exp a b -> scale a b (fdiv_exp a b) = (n, d) -> 2 ^ 52 * d <= n /\ 0 < d.
Proof.
  intros a b n d Ha Hb. unfold fdiv_exp, PREC.
  set (e0 := Z.log2 a - Z.log2 b - 53).
  destruct (scale a b e0) as [n0 d0] eqn:S0.
  destruct (norm_A a b Ha Hb n0 d0 S0) as [A D0].
  destruct (n0 / d0 <? 2 ^ 53) eqn:C; intros HE S.
  - replace (Z.max e0 EMIN) with e0 in S by lia. rewrite S0 in S. injection S as <- <-. auto.
  - replace (Z.max (e0 + 1) EMIN) with (e0 + 1) in S by lia.
    assert (H53 : 2 ^ 53 * d0 <= n0).
    { pose proof (Z.mul_div_le n0 d0 D0). assert (2 ^ 53 <= n0 / d0) by lia. nia. }
    split; [exact (norm_B a b e0 n0 d0 n d Hb S0 S H53)|].
    destruct (Z_lt_le_dec 0 (e0 + 1)).
    + rewrite scale_pos in S by lia. injection S as <- <-. pose proof (pow2_gt0 (e0 + 1) ltac:(lia)). nia.
    + rewrite scale_nonpos in S by lia. injection S as <- <-. lia.
Qed.

Lemma scale_den_pos : forall a b e n d, 0 < b -> scale a b e = (n, d) -> 0 < d.
Proof.
  intros a b e n d Hb S. destruct (Z_lt_le_dec 0 e).
  - rewrite scale_pos in S by lia. injection S as <- <-. pose proof (pow2_gt0 e ltac:(lia)). nia.
  - rewrite scale_nonpos in S by lia. injection S as <- <-. lia.
Qed.

(* ---------------------------------------------------------------- one-sided soundness, all sizes *)
(* Whenever Python's  (a / b) > L  is true for a finite limit L = m*2^e with m < 2^53, e >= -1074
   (every binary64 value, every int below 2^53), the exact quotient exceeds L.  No bound on a, b. *)
Lemma fdiv_gt_sound : forall a b m e q,
  0 < a -> 0 < b -> m < 2 ^ 53 -> EMIN <= e ->
  fdiv a b = Some q -> ratio_gt q (RFin m e) = true -> exceedsb a b (RFin m e) = true.
Proof.
  intros a b m e q Ha Hb Hm He F G.
  unfold fdiv in F. set (E := fdiv_exp a b) in *.
  destruct (scale a b E) as [n d] eqn:S.
  destruct (dy_geb (rne n d, E) (1, 1024)); [discriminate|]. injection F as <-.
  unfold ratio_gt in G. apply dy_gtb_true in G.
  unfold exceedsb. apply dy_gtb_true.
  pose proof (scale_den_pos a b E n d Hb S) as Dpos.
  destruct (Z_le_gt_dec E e) as [Le|Gt].
  - (* the limit is on the quotient's grid: rounding is monotone *)
    replace (Z.min E e) with E in G by lia. rewrite Z.sub_diag, Z.pow_0_r, Z.mul_1_r in G.
    set (R := 2 ^ (e - E)) in *. assert (HR : 0 < R) by (apply pow2_gt0; lia).
    assert (Hn : n > m * R * d).
    { destruct (Z_le_gt_dec n (m * R * d)) as [C|C]; [|exact C].
      pose proof (rne_le n d (m * R) Dpos C). lia. }
    destruct (Z_lt_le_dec 0 E) as [PE|PE].
    + rewrite scale_pos in S by lia. injection S as <- <-.
      replace (Z.min 0 e) with 0 by lia. rewrite !Z.sub_0_r, Z.pow_0_r.
      replace e with ((e - E) + E) at 1 by lia. rewrite Z.pow_add_r by lia. fold R.
      pose proof (pow2_gt0 E ltac:(lia)). nia.
    + rewrite scale_nonpos in S by lia. injection S as <- <-.
      set (P := 2 ^ (- E)) in *. assert (HP : 0 < P) by (apply pow2_gt0; lia).
      destruct (Z_le_gt_dec 0 e) as [Pe|Ne].
      * replace (Z.min 0 e) with 0 by lia. rewrite !Z.sub_0_r, Z.pow_0_r.
        assert (ER : R = 2 ^ e * P).
        { unfold R, P. rewrite <- Z.pow_add_r by lia. f_equal; lia. }
        pose proof (pow2_gt0 e Pe). rewrite ER in Hn. nia.
      * replace (Z.min 0 e) with e by lia. rewrite Z.sub_diag, Z.pow_0_r, Z.sub_0_l.
        assert (EP : P = 2 ^ (- e) * R).
        { unfold R, P. rewrite <- Z.pow_add_r by lia. f_equal; lia. }
        pose proof (pow2_gt0 (- e) ltac:(lia)). rewrite EP in Hn. nia.
  - (* the limit is finer than the quotient's grid: then it is below 2^52 ulps, hence below a/b *)
    assert (HE : EMIN < E) by lia.
    destruct (fdiv_exp_normal a b n d Ha Hb HE S) as [N _]. clear G.
    destruct (Z_le_gt_dec m 0) as [M0|M0].
    { (* non-positive limit *)
      assert (0 < a * 2 ^ (0 - Z.min 0 e)).
      { pose proof (pow2_gt0 (0 - Z.min 0 e) ltac:(lia)). nia. }
      assert (m * b * 2 ^ (e - Z.min 0 e) <= 0).
      { pose proof (pow2_gt0 (e - Z.min 0 e) ltac:(lia)). nia. }
      lia. }
    change (2 ^ 53) with (2 * 2 ^ 52) in Hm. set (c := 2 ^ 52) in *.
    assert (Hc : 0 < c) by (unfold c; apply pow2_gt0; lia).
    destruct (Z_lt_le_dec 0 E) as [PE|PE].
    + rewrite scale_pos in S by lia. injection S as <- <-.
      destruct (Z_le_gt_dec 0 e) as [Pe|Ne].
      * replace (Z.min 0 e) with 0 by lia. rewrite !Z.sub_0_r, Z.pow_0_r.
        assert (EE : 2 ^ E = 2 ^ e * 2 * 2 ^ (E - e - 1)).
        { change (2 ^ e * 2 * 2 ^ (E - e - 1)) with (2 ^ e * 2 ^ 1 * 2 ^ (E - e - 1)).
          rewrite <- !Z.pow_add_r by lia. f_equal; lia. }
        pose proof (pow2_gt0 e Pe). pose proof (pow2_gt0 (E - e - 1) ltac:(lia)).
        rewrite EE in N. set (x := 2 ^ e) in *. set (y := 2 ^ (E - e - 1)) in *.
        assert (m * b * x < 2 * c * b * x) by nia.
        assert (2 * c * b * x <= c * (b * (x * 2 * y))) by nia.
        lia.
      * replace (Z.min 0 e) with e by lia. rewrite Z.sub_diag, Z.pow_0_r, Z.sub_0_l.
        assert (E1 : 2 <= 2 ^ E).
        { change 2 with (2 ^ 1) at 1. apply Z.pow_le_mono_r; lia. }
        pose proof (pow2_gt0 (- e) ltac:(lia)).
        set (x := 2 ^ E) in *. set (y := 2 ^ (- e)) in *.
        assert (m * b < 2 * c * b) by nia.
        assert (2 * c * b <= c * (b * x)) by nia.
        assert (a <= a * y) by nia.
        nia.
    + rewrite scale_nonpos in S by lia. injection S as <- <-.
      replace (Z.min 0 e) with e by lia. rewrite Z.sub_diag, Z.pow_0_r, Z.sub_0_l.
      assert (EE : 2 ^ (- e) = 2 ^ (- E) * 2 * 2 ^ (E - e - 1)).
      { change (2 ^ (- E) * 2 * 2 ^ (E - e - 1)) with (2 ^ (- E) * 2 ^ 1 * 2 ^ (E - e - 1)).
        rewrite <- !Z.pow_add_r by lia. f_equal; lia. }
      pose proof (pow2_gt0 (- E) ltac:(lia)). pose proof (pow2_gt0 (E - e - 1) ltac:(lia)).
      rewrite EE. set (x := 2 ^ (- E)) in *. set (y := 2 ^ (E - e - 1)) in *.
      assert (m * b < 2 * c * b) by nia.
      assert (2 * (c * b) <= 2 * (a * x)) by lia.
      assert (2 * (a * x) <= a * (x * 2 * y)) by nia.
      lia.
Qed.

(* ---------------------------------------------------------------- exactness for dyadic limits *)
(* L = m * 2^e with e < 0 (e.g. 500.5 = 1001 * 2^-1), L >= 1, and a * 2^-e < 2^53 *)
Lemma fdiv_exact_frac : forall a b m e,
  0 < b -> 0 < a -> e < 0 -> 2 ^ (- e) <= m -> a * 2 ^ (- e) < 2 ^ 53 ->
  exists q, fdiv a b = Some q /\ ratio_gt q (RFin m e) = exceedsb a b (RFin m e).
Proof.
  intros a b m e Hb Ha He Hm HaG.
  set (G := 2 ^ (- e)) in *.
  assert (HG : 0 < G) by (unfold G; apply pow2_gt0; lia).
  pose proof (Z.log2_nonneg a) as Hla0. pose proof (Z.log2_nonneg b) as Hlb0.
  destruct (Z.log2_spec a Ha) as [Ha1 _]. destruct (Z.log2_spec b Hb) as [_ Hb2].
  assert (Hlag : Z.log2 a + - e < 53).
  { apply (Z.pow_lt_mono_r_iff 2); [lia|lia|]. rewrite Z.pow_add_r by lia. fold G.
    eapply Z.le_lt_trans; [|exact HaG]. nia. }
  assert (Ha53 : a < 2 ^ 53) by nia.
  set (E := fdiv_exp a b).
  assert (HEe : E <= e).
  { unfold E. destruct (fdiv_exp_cases a b) as [H|H]; rewrite H; lia. }
  assert (HElb : Z.log2 b <= 52 -> E <= e - Z.log2 b).
  { intro. unfold E. destruct (fdiv_exp_cases a b) as [H1|H1]; rewrite H1; lia. }
  assert (HE0 : E <= 0) by lia.
  set (R := 2 ^ (e - E)). assert (HR : 0 < R) by (unfold R; apply pow2_gt0; lia).
  set (P := 2 ^ (- E)).
  assert (EP : P = G * R).
  { unfold P, G, R. rewrite <- Z.pow_add_r by lia. f_equal; lia. }
  assert (HP : 1 <= P) by nia.
  unfold fdiv. fold E. rewrite (scale_nonpos a b E HE0). fold P.
  set (M := rne (a * P) b).
  assert (HMub : M <= a * P + 1). { unfold M. apply rne_ub; nia. }
  assert (Hov : dy_geb (M, E) (1, 1024) = false).
  { destruct (dy_geb (M, E) (1, 1024)) eqn:Gv; [|reflexivity]. exfalso.
    apply dy_geb_true in Gv. replace (Z.min E 1024) with E in Gv by lia.
    rewrite Z.sub_diag, Z.pow_0_r in Gv.
    replace (1024 - E) with (1024 + - E) in Gv by lia.
    rewrite Z.pow_add_r in Gv by lia. fold P in Gv.
    assert (2 ^ 53 < 2 ^ 1024) by (apply Z.pow_lt_mono_r; lia).
    nia. }
  rewrite Hov. eexists; split; [reflexivity|].
  apply eq_true_iff_eq. unfold ratio_gt, exceedsb. rewrite !dy_gtb_true.
  replace (Z.min E e) with E by lia. replace (Z.min 0 e) with e by lia.
  rewrite !Z.sub_diag, Z.pow_0_r, Z.sub_0_l. fold R. fold G.
  split.
  - intro Gt. destruct (Z_lt_le_dec (m * b * 1) (a * G)) as [|Hle]; [lia|exfalso].
    assert (M <= m * R). { unfold M. apply rne_le; [lia|]. rewrite EP. nia. }
    lia.
  - intro Gt.
    assert (Hba : b < a) by nia.
    assert (Hlb : Z.log2 b <= 52).
    { assert (Z.log2 b < 53) by (apply Z.log2_lt_pow2; lia). lia. }
    specialize (HElb Hlb).
    assert (HbR : b < 2 * R).
    { unfold R. replace (2 * 2 ^ (e - E)) with (2 ^ (Z.succ (e - E))) by (rewrite Z.pow_succ_r; lia).
      eapply Z.lt_le_trans; [exact Hb2|]. apply Z.pow_le_mono_r; lia. }
    assert (M >= m * R + 1). { unfold M. apply rne_ge; [lia|]. rewrite EP. nia. }
    lia.
Qed.

Lemma fdiv_exact_gen : forall a b S L,
  0 < b -> 0 < a <= S -> rl_exact S L = true ->
  exists q, fdiv a b = Some q /\ ratio_gt q L = exceedsb a b L.
Proof.
  intros a b S L Hb Ha HL. destruct L as [m e| | |]; try discriminate. cbn [rl_exact] in HL.
  destruct (0 <=? e) eqn:E0.
  - apply fdiv_exact; [assumption|lia|]. cbn [rl_int_ge1]. lia.
  - pose proof (pow2_gt0 (- e) ltac:(lia)).
    apply fdiv_exact_frac; try lia. nia.
Qed.

Lemma exceedsb_zero_false_gen : forall b S L, 0 < b -> rl_exact S L = true -> exceedsb 0 b L = false.
Proof.
  intros b S L Hb HL. destruct L as [m e| | |]; try discriminate. cbn [rl_exact] in HL.
  unfold exceedsb. destruct (dy_gtb (0, 0) (m * b, e)) eqn:D; [|reflexivity]. exfalso.
  apply dy_gtb_true in D. rewrite Z.mul_0_l in D.
  pose proof (pow2_gt0 (e - Z.min 0 e) ltac:(lia)).
  destruct (0 <=? e) eqn:E0.
  - assert (0 < m * b) by nia. nia.
  - pose proof (pow2_gt0 (- e) ltac:(lia)). assert (0 < m * b) by nia. nia.
Qed.
