(* C11 — lemmas about the model of Python's int/int and the float comparison. *)
From Coq Require Import ZArith List Bool Lia ZifyBool.
From S2T Require Import C11.Model.
Import ListNotations.
Open Scope Z_scope.

(* ---------------------------------------------------------------- rne : round-half-even of n/d *)
Lemma rne_le : forall n d k, 0 < d -> n <= k * d -> rne n d <= k.
Proof.
  intros n d k Hd H. unfold rne.
  pose proof (Z.div_mod n d ltac:(lia)) as E.
  pose proof (Z.mod_pos_bound n d Hd) as B.
  set (q := n / d) in *. set (r := n mod d) in *.
  assert (Hq : q <= k) by nia.
  destruct (Z.compare_spec (2 * r) d) as [C|C|C].
  - destruct (Z.even q); nia.
  - lia.
  - nia.
Qed.

Lemma rne_ge : forall n d k, 0 < d -> 2 * n > (2 * k + 1) * d -> rne n d >= k + 1.
Proof.
  intros n d k Hd H. unfold rne.
  pose proof (Z.div_mod n d ltac:(lia)) as E.
  pose proof (Z.mod_pos_bound n d Hd) as B.
  set (q := n / d) in *. set (r := n mod d) in *.
  assert (Hq : q >= k) by nia.
  destruct (Z.compare_spec (2 * r) d) as [C|C|C].
  - destruct (Z.even q); nia.
  - nia.
  - nia.
Qed.

Lemma rne_ge0 : forall n d k, 0 < d -> k * d <= n -> k <= rne n d.
Proof.
  intros n d k Hd H. unfold rne.
  pose proof (Z.div_mod n d ltac:(lia)) as E.
  pose proof (Z.mod_pos_bound n d Hd) as B.
  set (q := n / d) in *. set (r := n mod d) in *.
  assert (Hq : k <= q) by nia.
  destruct (Z.compare_spec (2 * r) d) as [C|C|C]; try destruct (Z.even q); lia.
Qed.

Lemma rne_ub : forall n d, 0 < d -> 0 <= n -> rne n d <= n + 1.
Proof.
  intros n d Hd Hn. unfold rne.
  pose proof (Z.div_mod n d ltac:(lia)) as E.
  pose proof (Z.mod_pos_bound n d Hd) as B.
  set (q := n / d) in *. set (r := n mod d) in *.
  assert (Hq : q <= n) by nia.
  destruct (Z.compare_spec (2 * r) d) as [C|C|C]; try destruct (Z.even q); lia.
Qed.

(* ---------------------------------------------------------------- comparison helpers *)
Lemma dy_gtb_true : forall m1 e1 m2 e2,
  dy_gtb (m1, e1) (m2, e2) = true <->
  m1 * 2 ^ (e1 - Z.min e1 e2) > m2 * 2 ^ (e2 - Z.min e1 e2).
Proof.
  intros. unfold dy_gtb, dy_cmp.
  destruct (Z.compare_spec (m1 * 2 ^ (e1 - Z.min e1 e2)) (m2 * 2 ^ (e2 - Z.min e1 e2))); split; intros; try discriminate; try lia; reflexivity.
Qed.

Lemma dy_geb_true : forall m1 e1 m2 e2,
  dy_geb (m1, e1) (m2, e2) = true <->
  m1 * 2 ^ (e1 - Z.min e1 e2) >= m2 * 2 ^ (e2 - Z.min e1 e2).
Proof.
  intros. unfold dy_geb, dy_cmp.
  destruct (Z.compare_spec (m1 * 2 ^ (e1 - Z.min e1 e2)) (m2 * 2 ^ (e2 - Z.min e1 e2))); split; intros; try discriminate; try lia; reflexivity.
Qed.

Lemma scale_nonpos : forall a b e, e <= 0 -> scale a b e = (a * 2 ^ (- e), b).
Proof. intros. unfold scale. destruct (0 <? e) eqn:E; [lia|reflexivity]. Qed.

(* exact comparison against an integer-valued limit is the integer inequality a > K*b *)
Lemma exceedsb_int : forall a b m e, 0 <= e ->
  exceedsb a b (RFin m e) = (m * 2 ^ e * b <? a).
Proof.
  intros a b m e He. unfold exceedsb.
  apply eq_true_iff_eq. rewrite dy_gtb_true.
  replace (Z.min 0 e) with 0 by lia. rewrite !Z.sub_0_r, Z.pow_0_r.
  rewrite Z.ltb_lt. nia.
Qed.

(* ---------------------------------------------------------------- exponent bounds *)
Lemma fdiv_exp_cases : forall a b,
  let e0 := Z.log2 a - Z.log2 b - 53 in
  fdiv_exp a b = Z.max e0 (-1074) \/ fdiv_exp a b = Z.max (e0 + 1) (-1074).
Proof.
  intros a b e0. unfold fdiv_exp, PREC, EMIN. fold e0.
  destruct (scale a b e0) as [n d]. destruct (n / d <? 2 ^ 53); auto.
Qed.

(* ---------------------------------------------------------------- the exactness theorem *)
(* For 0 < b, 0 < a < 2^53 and an integer-valued limit K >= 1 :
   Python's  (a / b) > K  (rounded quotient against the limit) is exactly  a > K * b,
   and the division does not overflow. *)
Lemma fdiv_exact : forall a b L,
  0 < b -> 0 < a < 2 ^ 53 -> rl_int_ge1 L = true ->
  exists q, fdiv a b = Some q /\ ratio_gt q L = exceedsb a b L.
Proof.
  intros a b L Hb Ha HL.
  destruct L as [m e| | |]; try discriminate. cbn [rl_int_ge1] in HL.
  assert (Hm : 1 <= m) by lia. assert (He : 0 <= e) by lia. clear HL.
  set (K := m * 2 ^ e).
  assert (HK : 1 <= K). { unfold K. pose proof (Z.pow_pos_nonneg 2 e ltac:(lia) He). nia. }
  (* logarithms *)
  pose proof (Z.log2_nonneg a) as Hla0. pose proof (Z.log2_nonneg b) as Hlb0.
  assert (Hla : Z.log2 a <= 52).
  { assert (Z.log2 a < 53) by (apply Z.log2_lt_pow2; lia). lia. }
  destruct (Z.log2_spec b Hb) as [_ Hb2].
  set (E := fdiv_exp a b).
  assert (HE0 : E <= 0).
  { unfold E. destruct (fdiv_exp_cases a b) as [H|H]; rewrite H; lia. }
  assert (HElb : Z.log2 b <= 52 -> E <= - Z.log2 b).
  { intro. unfold E. destruct (fdiv_exp_cases a b) as [H1|H1]; rewrite H1; lia. }
  set (P := 2 ^ (- E)).
  assert (HP : 1 <= P). { unfold P. pose proof (Z.pow_pos_nonneg 2 (- E) ltac:(lia) ltac:(lia)). lia. }
  unfold fdiv. fold E. rewrite (scale_nonpos a b E HE0). fold P.
  set (M := rne (a * P) b).
  (* no overflow *)
  assert (HMub : M <= a * P + 1). { unfold M. apply rne_ub; nia. }
  assert (Hov : dy_geb (M, E) (1, 1024) = false).
  { destruct (dy_geb (M, E) (1, 1024)) eqn:G; [|reflexivity]. exfalso.
    apply dy_geb_true in G. replace (Z.min E 1024) with E in G by lia.
    rewrite Z.sub_diag, Z.pow_0_r in G.
    replace (1024 - E) with (1024 + - E) in G by lia.
    rewrite Z.pow_add_r in G by lia. fold P in G.
    assert (2 ^ 53 < 2 ^ 1024) by (apply Z.pow_lt_mono_r; lia).
    nia. }
  rewrite Hov. eexists; split; [reflexivity|].
  (* the comparison *)
  rewrite exceedsb_int by exact He. fold K.
  apply eq_true_iff_eq. unfold ratio_gt. rewrite dy_gtb_true, Z.ltb_lt.
  replace (Z.min E e) with E by lia. rewrite Z.sub_diag, Z.pow_0_r.
  replace (e - E) with (e + - E) by lia. rewrite Z.pow_add_r by lia. fold P.
  replace (m * (2 ^ e * P)) with (K * P) by (unfold K; ring).
  split.
  - (* rounded quotient above the limit -> exact quotient above it *)
    intro G. destruct (Z_lt_le_dec (K * b) a) as [|Hle]; [assumption|exfalso].
    assert (M <= K * P). { unfold M. apply rne_le; nia. }
    lia.
  - (* exact quotient above the limit -> the rounded one is, too: half an ulp is below 1/b *)
    intro G.
    assert (Hba : b < a) by nia.
    assert (Hlb : Z.log2 b <= 52).
    { assert (Z.log2 b < 53) by (apply Z.log2_lt_pow2; lia). lia. }
    specialize (HElb Hlb).
    assert (HbP : b < 2 * P).
    { unfold P. replace (2 * 2 ^ (- E)) with (2 ^ (Z.succ (- E))) by (rewrite Z.pow_succ_r; lia).
      eapply Z.lt_le_trans; [exact Hb2|]. apply Z.pow_le_mono_r; lia. }
    assert (M >= K * P + 1). { unfold M. apply rne_ge; nia. }
    lia.
Qed.

