(* C11 — obligations re-decided by the kernel for the limits generated from /repo on this run. *)
From Coq Require Import ZArith List Bool.
From S2T Require Import C11.Model C11.Proofs Gen.C11Limits.
Open Scope Z_scope.

(* premise of C11_rejects_iff / C11_accepts_iff for today's DEFAULT_ZIP_BOMB_LIMITS *)
Theorem C11_default_limits_exact : limits_exact default_limits = true.
Proof. vm_compute. reflexivity. Qed.
Print Assumptions C11_default_limits_exact.

(* hence, with the defaults every ZIP-container extractor uses, the guard decides the declarative
   predicate exactly, for every central directory with non-negative sizes *)
Theorem C11_default_guard_exact :
  forall es : list entry, sizes_nonneg (files es) = true ->
    ((exists c, validate default_limits es = Reject c) <-> Bomb default_limits es)
    /\ (validate default_limits es = Accept <-> ~ Bomb default_limits es).
Proof.
  intros es H. split.
  - exact (rejects_iff default_limits es C11_default_limits_exact H).
  - exact (accepts_iff default_limits es C11_default_limits_exact H).
Qed.
Print Assumptions C11_default_guard_exact.
