(* C11 — lemmas: validate_zipfile decides the declarative Bomb predicate; directories; stream position;
   ZipContext traces. *)
From Coq Require Import ZArith List Bool Lia ZifyBool.
From S2T Require Import C11.Model C11.ProofsFloat.
Import ListNotations.
Open Scope Z_scope.

(* ---------------------------------------------------------------- ratio_check under exact limits *)
Lemma ratio_check_exact : forall zero over lim S size csize,
  0 <= size <= S -> 0 <= csize -> rl_exact S lim = true ->
  ratio_check zero over lim size csize =
    if (0 <? size) && (csize =? 0) then Some (Reject zero)
    else if (0 <? csize) && exceedsb size csize lim then Some (Reject over)
    else None.
Proof.
  intros zero over lim S size csize Hs Hc HL. unfold ratio_check.
  destruct (0 <? size) eqn:S0; cbn [andb].
  - destruct (csize =? 0) eqn:C0.
    + replace (csize <=? 0) with true by lia. reflexivity.
    + replace (csize <=? 0) with false by lia. replace (0 <? csize) with true by lia. cbn [andb].
      destruct (fdiv_exact_gen size csize S lim ltac:(lia) ltac:(lia) HL) as [q [Hq Hr]].
      rewrite Hq, Hr. reflexivity.
  - assert (size = 0) by lia. subst size.
    destruct (0 <? csize) eqn:C1; cbn [andb]; [|reflexivity].
    rewrite (exceedsb_zero_false_gen csize S lim) by (assumption || lia). reflexivity.
Qed.

(* ---------------------------------------------------------------- the loop *)
Definition viol (L : limits) (x : entry) : bool :=
  (max_single L <? file_size x)
  || ((0 <? file_size x) && (compress_size x =? 0))
  || ((0 <? compress_size x) && exceedsb (file_size x) (compress_size x) (max_entry_ratio L)).

Lemma total_u_nonneg : forall l, sizes_nonneg l = true -> 0 <= total_u l.
Proof.
  induction l as [|x r IH]; cbn [sizes_nonneg forallb total_u fold_right]; intros H; [lia|].
  apply andb_prop in H. destruct H as [H1 H2]. specialize (IH H2). unfold total_u in IH. lia.
Qed.

Lemma total_c_nonneg : forall l, sizes_nonneg l = true -> 0 <= total_c l.
Proof.
  induction l as [|x r IH]; cbn [sizes_nonneg forallb total_c fold_right]; intros H; [lia|].
  apply andb_prop in H. destruct H as [H1 H2]. specialize (IH H2). unfold total_c in IH. lia.
Qed.

Lemma files_cons : forall x r, files (x :: r) = if is_dir x then files r else x :: files r.
Proof. intros. unfold files. cbn [filter]. destruct (is_dir x); reflexivity. Qed.

Lemma loop_spec : forall L es tu tc,
  limits_exact L = true -> sizes_nonneg (files es) = true -> 0 <= tu -> 0 <= tc ->
  match loop L es tu tc with
  | inr (tu', tc') =>
      tu' = tu + total_u (files es) /\ tc' = tc + total_c (files es)
      /\ existsb (viol L) (files es) = false
      /\ (tu <= max_total L -> tu' <= max_total L)
  | inl o =>
      (exists c, o = Reject c)
      /\ (existsb (viol L) (files es) = true \/ max_total L < tu + total_u (files es))
  end.
Proof.
  intros L es. induction es as [|x r IH]; intros tu tc HL Hnn Htu Htc.
  - cbn. repeat split; lia.
  - cbn [loop]. rewrite files_cons in *. destruct (is_dir x) eqn:D.
    + apply IH; assumption.
    + cbn [sizes_nonneg forallb] in Hnn. apply andb_prop in Hnn. destruct Hnn as [Hx Hr].
      fold (sizes_nonneg (files r)) in Hr.
      pose proof (total_u_nonneg _ Hr) as Tu. pose proof (total_c_nonneg _ Hr) as Tc.
      assert (HL' := HL). unfold limits_exact in HL'.
      cbn [existsb total_u total_c fold_right]. fold (total_u (files r)). fold (total_c (files r)).
      unfold viol at 1 3.
      destruct (max_single L <? file_size x) eqn:S1.
      * cbn [orb]. split; [eexists; reflexivity|left; reflexivity].
      * apply andb_prop in HL'. destruct HL' as [HL' Hre]. apply andb_prop in HL'. destruct HL' as [HL' Hrt].
        rewrite (ratio_check_exact ZeroCompressedEntry EntryRatio (max_entry_ratio L) (max_single L)
                   (file_size x) (compress_size x)) by (exact Hre || lia).
        cbn [orb].
        destruct ((0 <? file_size x) && (compress_size x =? 0)) eqn:Z1.
        { cbn [orb]. split; [eexists; reflexivity|left; reflexivity]. }
        destruct ((0 <? compress_size x) && exceedsb (file_size x) (compress_size x) (max_entry_ratio L)) eqn:R1.
        { cbn [orb]. split; [eexists; reflexivity|left; reflexivity]. }
        cbn [orb].
        destruct (max_total L <? tu + file_size x) eqn:T1.
        { split; [eexists; reflexivity|right; lia]. }
        specialize (IH (tu + file_size x) (tc + compress_size x) HL Hr ltac:(lia) ltac:(lia)).
        destruct (loop L r (tu + file_size x) (tc + compress_size x)) as [o|[tu' tc']].
        { destruct IH as [Ho [Hv|Ht]]; split; auto. right. lia. }
        { destruct IH as [E1 [E2 [E3 E4]]]. repeat split; try lia; try exact E3. }
Qed.

Lemma no_zero_total : forall L l,
  sizes_nonneg l = true -> existsb (viol L) l = false -> total_c l = 0 -> total_u l = 0.
Proof.
  intros L l. induction l as [|x r IH]; intros Hnn Hv Hc; [reflexivity|].
  cbn [sizes_nonneg forallb] in Hnn. apply andb_prop in Hnn. destruct Hnn as [Hx Hr].
  fold (sizes_nonneg r) in Hr.
  cbn [existsb] in Hv. apply orb_false_elim in Hv. destruct Hv as [Hvx Hvr].
  cbn [total_u total_c fold_right] in *. fold (total_u r). fold (total_c r) in Hc.
  pose proof (total_c_nonneg _ Hr). unfold viol in Hvx.
  assert (total_c r = 0) by lia. rewrite (IH Hr Hvr H0).
  destruct (0 <? file_size x) eqn:F; destruct (compress_size x =? 0) eqn:C;
    destruct (max_single L <? file_size x); cbn in Hvx; try discriminate; lia.
Qed.

Lemma existsb_orb : forall (A : Type) (f g : A -> bool) l,
  existsb (fun x => f x || g x) l = existsb f l || existsb g l.
Proof.
  induction l as [|x r IH]; cbn [existsb]; [reflexivity|]. rewrite IH.
  destruct (f x), (g x), (existsb f r), (existsb g r); reflexivity.
Qed.

Lemma bombb_alt : forall L es,
  bombb L es =
  (max_entries L <? Z.of_nat (length es)) || existsb (viol L) (files es)
  || (max_total L <? total_u (files es))
  || ((0 <? total_c (files es)) && exceedsb (total_u (files es)) (total_c (files es)) (max_total_ratio L)).
Proof.
  intros. unfold bombb, viol. rewrite !existsb_orb.
  repeat rewrite <- orb_assoc. reflexivity.
Qed.

(* validate_body decides everything but the entry count *)
Lemma validate_body_spec : forall L es,
  limits_exact L = true -> sizes_nonneg (files es) = true ->
  let b := existsb (viol L) (files es) || (max_total L <? total_u (files es))
           || ((0 <? total_c (files es)) && exceedsb (total_u (files es)) (total_c (files es)) (max_total_ratio L)) in
  (validate_body L es = Accept /\ b = false) \/ ((exists c, validate_body L es = Reject c) /\ b = true).
Proof.
  intros L es HL Hnn b. unfold validate_body.
  assert (HL' := HL). unfold limits_exact in HL'.
  pose proof (loop_spec L es 0 0 HL Hnn ltac:(lia) ltac:(lia)) as S.
  pose proof (total_u_nonneg _ Hnn) as Tu. pose proof (total_c_nonneg _ Hnn) as Tc.
  destruct (loop L es 0 0) as [o|[tu tc]].
  - destruct S as [Ho [Hv|Ht]]; right; split; auto; unfold b.
    + rewrite Hv. reflexivity.
    + replace (max_total L <? total_u (files es)) with true by lia.
      destruct (existsb (viol L) (files es)); reflexivity.
  - destruct S as [E1 [E2 [E3 E4]]]. cbn in E1, E2. subst tu tc.
    specialize (E4 ltac:(lia)).
    apply andb_prop in HL'. destruct HL' as [HL' Hre]. apply andb_prop in HL'. destruct HL' as [HL' Hrt].
    rewrite (ratio_check_exact ZeroCompressedTotal TotalRatio (max_total_ratio L) (max_total L)) by (exact Hrt || lia).
    unfold b. rewrite E3. cbn [orb].
    replace (max_total L <? total_u (files es)) with false by lia. cbn [orb].
    destruct ((0 <? total_u (files es)) && (total_c (files es) =? 0)) eqn:Z1.
    + exfalso. pose proof (no_zero_total L _ Hnn E3). lia.
    + destruct ((0 <? total_c (files es)) && exceedsb _ _ _) eqn:R1.
      * right. split; [eexists; reflexivity|reflexivity].
      * left. split; reflexivity.
Qed.

Lemma validate_spec : forall L es,
  limits_exact L = true -> sizes_nonneg (files es) = true ->
  (validate L es = Accept /\ bombb L es = false)
  \/ ((exists c, validate L es = Reject c) /\ bombb L es = true).
Proof.
  intros L es HL Hnn. rewrite bombb_alt. unfold validate.
  destruct (max_entries L <? Z.of_nat (length es)) eqn:C.
  - right. split; [eexists; reflexivity|reflexivity].
  - cbn [orb]. pose proof (validate_body_spec L es HL Hnn) as S. cbn zeta in S.
    rewrite <- !orb_assoc in *. exact S.
Qed.

(* ---------------------------------------------------------------- bombb reflects Bomb *)
Lemma bombb_Bomb : forall L es, bombb L es = true <-> Bomb L es.
Proof.
  intros L es. unfold bombb, Bomb, exceeds. rewrite !orb_true_iff, !existsb_exists, !andb_true_iff.
  split.
  - intros [[[[[H|[x [I H]]]|[x [I H]]]|[x [I H]]]|H]|[H1 H2]].
    + left. lia.
    + right; left. exists x. split; [assumption|lia].
    + right; right; left. exists x. apply andb_true_iff in H. split; [assumption|lia].
    + right; right; right; left. exists x. apply andb_true_iff in H. destruct H. repeat split; try assumption; lia.
    + right; right; right; right; left. lia.
    + right; right; right; right; right. split; [lia|assumption].
  - intros [H|[[x [I H]]|[[x [I [H1 H2]]]|[[x [I [H1 H2]]]|[H|[H1 H2]]]]]].
    + left; left; left; left; left. lia.
    + left; left; left; left; right. exists x. split; [assumption|lia].
    + left; left; left; right. exists x. split; [assumption|]. apply andb_true_iff. lia.
    + left; left; right. exists x. split; [assumption|]. apply andb_true_iff. split; [lia|assumption].
    + left; right. lia.
    + right. split; [lia|assumption].
Qed.

(* ---------------------------------------------------------------- main results *)
Lemma rejects_iff : forall L es,
  limits_exact L = true -> sizes_nonneg (files es) = true ->
  ((exists c, validate L es = Reject c) <-> Bomb L es).
Proof.
  intros L es HL Hnn. rewrite <- bombb_Bomb.
  destruct (validate_spec L es HL Hnn) as [[A B]|[[c A] B]]; rewrite B.
  - split; [intros [c Hc]; rewrite A in Hc; discriminate|discriminate].
  - split; [reflexivity|intros _; exists c; exact A].
Qed.

Lemma accepts_iff : forall L es,
  limits_exact L = true -> sizes_nonneg (files es) = true ->
  (validate L es = Accept <-> ~ Bomb L es).
Proof.
  intros L es HL Hnn. rewrite <- bombb_Bomb.
  destruct (validate_spec L es HL Hnn) as [[A B]|[[c A] B]]; rewrite B, A.
  - split; [intros _; discriminate|reflexivity].
  - split; [discriminate|intros H; exfalso; apply H; reflexivity].
Qed.

Lemma never_overflow : forall L es,
  limits_exact L = true -> sizes_nonneg (files es) = true -> validate L es <> Overflow.
Proof.
  intros L es HL Hnn. destruct (validate_spec L es HL Hnn) as [[A B]|[[c A] B]]; rewrite A; discriminate.
Qed.

(* ---------------------------------------------------------------- one-sided soundness: ALL byte limits, ALL sizes *)
Lemma ratio_check_sound : forall zero over lim size csize c,
  rl_repr lim = true -> 0 <= csize ->
  ratio_check zero over lim size csize = Some (Reject c) ->
  (0 < size /\ csize = 0) \/ (0 < csize /\ exceedsb size csize lim = true).
Proof.
  intros zero over lim size csize c HL Hc H. unfold ratio_check in H.
  destruct (0 <? size) eqn:S0; [|discriminate].
  destruct (csize <=? 0) eqn:C0; [left; lia|].
  destruct (fdiv size csize) as [q|] eqn:F; [|discriminate].
  destruct (ratio_gt q lim) eqn:G; [|discriminate].
  right. split; [lia|].
  destruct lim as [m e| | |]; cbn [ratio_gt] in G; try discriminate; [|reflexivity].
  cbn [rl_repr] in HL. apply andb_prop in HL. destruct HL as [H1 H2].
  apply (fdiv_gt_sound size csize m e q); try lia; assumption.
Qed.

Lemma loop_sound : forall L es tu tc,
  rl_repr (max_entry_ratio L) = true -> sizes_nonneg (files es) = true -> 0 <= tu ->
  match loop L es tu tc with
  | inl (Reject c) => existsb (viol L) (files es) = true \/ max_total L < tu + total_u (files es)
  | inl _ => True
  | inr (tu', tc') => tu' = tu + total_u (files es) /\ tc' = tc + total_c (files es)
  end.
Proof.
  intros L es. induction es as [|x r IH]; intros tu tc HL Hnn Htu.
  - cbn. split; lia.
  - cbn [loop]. rewrite files_cons in *. destruct (is_dir x) eqn:D.
    + apply IH; assumption.
    + cbn [sizes_nonneg forallb] in Hnn. apply andb_prop in Hnn. destruct Hnn as [Hx Hr].
      fold (sizes_nonneg (files r)) in Hr.
      pose proof (total_u_nonneg _ Hr) as Tu.
      cbn [existsb total_u total_c fold_right]. fold (total_u (files r)). fold (total_c (files r)).
      unfold viol at 1.
      destruct (max_single L <? file_size x) eqn:S1; [left; reflexivity|]. cbn [orb].
      destruct (ratio_check ZeroCompressedEntry EntryRatio (max_entry_ratio L) (file_size x) (compress_size x))
        as [o|] eqn:RC.
      * destruct o as [|c|]; try exact I. left.
        assert (Hcs : 0 <= compress_size x) by lia.
        destruct (ratio_check_sound _ _ _ _ _ _ HL Hcs RC) as [[A B]|[A B]].
        -- replace (0 <? file_size x) with true by lia. replace (compress_size x =? 0) with true by lia. reflexivity.
        -- replace (0 <? compress_size x) with true by lia. rewrite B.
           destruct ((0 <? file_size x) && (compress_size x =? 0)); reflexivity.
      * destruct (max_total L <? tu + file_size x) eqn:T1; [right; lia|].
        specialize (IH (tu + file_size x) (tc + compress_size x) HL Hr ltac:(lia)).
        destruct (loop L r (tu + file_size x) (tc + compress_size x)) as [o|[tu' tc']].
        -- destruct o as [|c|]; try exact I. destruct IH as [Hv|Ht]; [left; rewrite Hv|right; lia].
           destruct ((0 <? file_size x) && (compress_size x =? 0)); destruct ((0 <? compress_size x) && _); reflexivity.
        -- destruct IH. split; lia.
Qed.

Lemma zero_total_witness : forall l,
  sizes_nonneg l = true -> 0 < total_u l -> total_c l = 0 ->
  existsb (fun x => (0 <? file_size x) && (compress_size x =? 0)) l = true.
Proof.
  induction l as [|x r IH]; cbn [sizes_nonneg forallb total_u total_c fold_right existsb]; intros Hnn Hu Hc; [lia|].
  apply andb_prop in Hnn. destruct Hnn as [Hx Hr]. fold (sizes_nonneg r) in Hr.
  fold (total_u r) in Hu. fold (total_c r) in Hc.
  pose proof (total_c_nonneg _ Hr). pose proof (total_u_nonneg _ Hr).
  destruct (0 <? file_size x) eqn:F.
  - replace (compress_size x =? 0) with true by lia. reflexivity.
  - cbn [andb orb]. apply IH; try assumption; lia.
Qed.

(* whenever the guard rejects, the exact predicate holds -- for every limit setting whose ratio
   limits are binary64 values (or ints below 2^53), every byte limit, every size *)
Lemma reject_sound : forall L es,
  rl_repr (max_total_ratio L) = true -> rl_repr (max_entry_ratio L) = true ->
  sizes_nonneg (files es) = true ->
  (exists c, validate L es = Reject c) -> Bomb L es.
Proof.
  intros L es HT HE Hnn [c Hc]. apply bombb_Bomb. unfold bombb. unfold validate in Hc.
  destruct (max_entries L <? Z.of_nat (length es)) eqn:C; [reflexivity|]. cbn [orb].
  unfold validate_body in Hc.
  pose proof (loop_sound L es 0 0 HE Hnn ltac:(lia)) as S.
  pose proof (total_c_nonneg _ Hnn) as Tc.
  destruct (loop L es 0 0) as [o|[tu tc]].
  - subst o. destruct S as [Hv|Ht].
    + unfold viol in Hv. rewrite !existsb_orb in Hv. rewrite Hv. reflexivity.
    + replace (max_total L <? total_u (files es)) with true by lia.
      rewrite !orb_true_r. reflexivity.
  - destruct S as [E1 E2]. cbn in E1, E2. subst tu tc.
    destruct (ratio_check ZeroCompressedTotal TotalRatio (max_total_ratio L) (total_u (files es)) (total_c (files es)))
      as [o|] eqn:RC; [|discriminate].
    subst o. destruct (ratio_check_sound _ _ _ _ _ _ HT Tc RC) as [[A B]|[A B]].
    + rewrite (zero_total_witness _ Hnn A B). rewrite !orb_true_r. reflexivity.
    + replace (0 <? total_c (files es)) with true by lia. rewrite B. rewrite !orb_true_r. reflexivity.
Qed.

(* ---------------------------------------------------------------- directories are ignored (all limits, all sizes) *)
Lemma loop_files : forall L es tu tc, loop L es tu tc = loop L (files es) tu tc.
Proof.
  intros L es. induction es as [|x r IH]; intros tu tc; [reflexivity|].
  rewrite files_cons. cbn [loop]. destruct (is_dir x) eqn:D.
  - apply IH.
  - cbn [loop]. rewrite D.
    destruct (max_single L <? file_size x); [reflexivity|].
    destruct (ratio_check _ _ _ _ _); [reflexivity|].
    destruct (max_total L <? tu + file_size x); [reflexivity|]. apply IH.
Qed.

Lemma body_files : forall L es, validate_body L es = validate_body L (files es).
Proof. intros. unfold validate_body. rewrite loop_files. reflexivity. Qed.

Lemma files_app : forall a b, files (a ++ b) = files a ++ files b.
Proof. intros. unfold files. apply filter_app. Qed.

Lemma dir_insert : forall L es1 d es2,
  is_dir d = true ->
  Z.of_nat (length (es1 ++ d :: es2)) <= max_entries L ->
  validate L (es1 ++ d :: es2) = validate L (es1 ++ es2).
Proof.
  intros L es1 d es2 Hd Hn. unfold validate.
  rewrite app_length in Hn. cbn [length] in Hn.
  assert (E2 : length (es1 ++ es2) = (length es1 + length es2)%nat) by apply app_length.
  assert (E1 : length (es1 ++ d :: es2) = (length es1 + S (length es2))%nat) by apply app_length.
  replace (max_entries L <? Z.of_nat (length (es1 ++ d :: es2))) with false by lia.
  replace (max_entries L <? Z.of_nat (length (es1 ++ es2))) with false by lia.
  rewrite body_files, (body_files L (es1 ++ es2)), !files_app, files_cons, Hd. reflexivity.
Qed.

(* the count clause counts directory entries too *)
Lemma count_counts_dirs : forall L es,
  max_entries L < Z.of_nat (length es) -> validate L es = Reject TooManyEntries.
Proof. intros. unfold validate. replace (max_entries L <? Z.of_nat (length es)) with true by lia. reflexivity. Qed.

(* ---------------------------------------------------------------- stream position *)
Lemma position_preserved : forall L pos o, snd (validate_zip_bytesio L pos o) = pos.
Proof. intros. unfold validate_zip_bytesio. destruct (zo_opens o); reflexivity. Qed.

Lemma bytesio_result : forall L pos o,
  fst (validate_zip_bytesio L pos o) =
  if zo_opens o then bresult_of (validate_zipfile L (zo_infos o)) else BRaiseBadZip.
Proof. intros. unfold validate_zip_bytesio. destruct (zo_opens o); reflexivity. Qed.

(* ---------------------------------------------------------------- traces *)
Definition dominated (t : list event) : Prop :=
  forall i c, nth_error t i = Some (EvRead c) ->
    exists j, (j < i)%nat /\ nth_error t j = Some (EvValidate c true).

Lemma trace_ok_from_sound : forall t ok,
  trace_ok_from ok t = true ->
  forall i c, nth_error t i = Some (EvRead c) ->
    In c ok \/ exists j, (j < i)%nat /\ nth_error t j = Some (EvValidate c true).
Proof.
  induction t as [|e r IH]; intros ok H i c Hi.
  - destruct i; discriminate.
  - destruct i as [|i].
    + cbn in Hi. injection Hi as ->. cbn in H. apply andb_prop in H. destruct H as [H _].
      apply existsb_exists in H. destruct H as [y [Hy E]]. apply N.eqb_eq in E. subst y. left. exact Hy.
    + cbn [nth_error] in Hi.
      assert (forall ok', trace_ok_from ok' r = true ->
               In c ok' \/ exists j, (j < S i)%nat /\ nth_error (e :: r) j = Some (EvValidate c true)) as K.
      { intros ok' H'. destruct (IH ok' H' i c Hi) as [Hin|[j [Hj Hn]]]; [left; exact Hin|].
        right. exists (S j). split; [lia|exact Hn]. }
      destruct e as [c'|c' b|c'|c']; cbn [trace_ok_from] in H.
      * apply K. exact H.
      * destruct b.
        -- destruct (K _ H) as [[E|Hin]|R]; [|left; exact Hin|right; exact R].
           subst c'. right. exists 0%nat. split; [lia|reflexivity].
        -- apply K. exact H.
      * apply andb_prop in H. destruct H as [_ H]. apply K. exact H.
      * apply K. exact H.
Qed.

Lemma trace_ok_sound : forall t, trace_ok t = true -> dominated t.
Proof.
  intros t H i c Hi. destruct (trace_ok_from_sound t [] H i c Hi) as [[]|R]. exact R.
Qed.

(* every trace of the ZipContext machine, for every client program and every zipfile behaviour,
   is accepted, provided reads are only counted once the set contains the container *)
Lemma zrun_ok : forall L c ops s ok,
  (s = Validated -> existsb (N.eqb c) ok = true) ->
  trace_ok_from ok (zrun L c s ops) = true.
Proof.
  intros L c ops. induction ops as [|op r IH]; intros s ok Hs; [reflexivity|].
  cbn [zrun].
  destruct s, op as [o|[|]| |]; cbn [zstep];
    try (destruct (zo_opens o); [destruct (validate_zipfile L (zo_infos o))|]);
    cbn [app trace_ok_from]; try rewrite (Hs eq_refl); cbn [andb];
    apply IH; intros E; try discriminate E; auto;
    cbn [existsb]; rewrite N.eqb_refl; reflexivity.
Qed.

Lemma zcontext_dominated : forall L c ops, dominated (zrun L c Unopened ops).
Proof.
  intros. apply trace_ok_sound. unfold trace_ok. apply zrun_ok. intros E; discriminate E.
Qed.

(* a member read happens only after validate accepted *this* container's entry list *)
Fixpoint has_read (t : list event) : bool :=
  match t with [] => false | EvRead _ :: _ => true | _ :: r => has_read r end.

Lemma zrun_no_read_unless_validated : forall L c ops s,
  s <> Validated -> s <> Unopened -> has_read (zrun L c s ops) = false.
Proof.
  intros L c ops. induction ops as [|op r IH]; intros s H1 H2; [reflexivity|].
  cbn [zrun]. destruct s; try congruence; destruct op as [o|[|]| |]; cbn [zstep app has_read]; apply IH; congruence.
Qed.

Lemma zcontext_read_implies_accept : forall L c o ops,
  has_read (zrun L c Unopened (OpInit o :: ops)) = true ->
  zo_opens o = true /\ exists es, zo_infos o = Some es /\ validate L es = Accept.
Proof.
  intros L c o ops H. cbn [zrun zstep] in H.
  destruct (zo_opens o) eqn:O.
  - split; [reflexivity|]. destruct (zo_infos o) as [es|] eqn:I; cbn [validate_zipfile] in H.
    + exists es. split; [reflexivity|].
      destruct (validate L es) eqn:V; [reflexivity| |];
        cbn [app has_read] in H; rewrite zrun_no_read_unless_validated in H by congruence; discriminate.
    + cbn [app has_read] in H. rewrite zrun_no_read_unless_validated in H by congruence. discriminate.
  - cbn [app] in H. rewrite zrun_no_read_unless_validated in H by congruence. discriminate.
Qed.

(* ---------------------------------------------------------------- refutation witnesses *)
Definition L_wide : limits :=
  {| max_entries := 50000; max_total := 2 ^ 70; max_single := 2 ^ 70;
     max_total_ratio := RFin 500 0; max_entry_ratio := RFin 500 0 |}.
Definition es_wide : list entry :=
  [ {| file_size := 500 * 2 ^ 60 + 1; compress_size := 2 ^ 60; is_dir := false |} ].

Lemma float_rounding_witness :
  exists (L : limits) (es : list entry),
    sizes_nonneg (files es) = true /\ validate L es = Accept /\ Bomb L es.
Proof.
  exists L_wide, es_wide. split; [vm_compute; reflexivity|]. split; [vm_compute; reflexivity|].
  apply bombb_Bomb. vm_compute. reflexivity.
Qed.

Definition L_huge : limits :=
  {| max_entries := 50000; max_total := 2 ^ 1100; max_single := 2 ^ 1100;
     max_total_ratio := RFin 200 0; max_entry_ratio := RFin 500 0 |}.
Definition es_huge : list entry :=
  [ {| file_size := 2 ^ 1030; compress_size := 1; is_dir := false |} ].

Lemma overflow_witness :
  exists (L : limits) (es : list entry),
    sizes_nonneg (files es) = true /\ validate L es = Overflow.
Proof. exists L_huge, es_huge. split; vm_compute; reflexivity. Qed.
