(* C11 — zip_utils.read_zip_member (the one place where repository code reads a container member:
   ZipContext.read_bytes / read_text / read_xml_root and is_odf_encrypted go through it).  Definitions only.

     info = zf.getinfo(path)
     with zf.open(info) as member:
         return member.read(info.file_size)

   The member stream (zipfile.ZipExtFile) is an oracle: `s_avail` = the number of bytes the member's data
   really inflates to.  Its read(n) follows the io contract: n < 0 reads everything, otherwise at most n bytes;
   to produce them the decompressor is asked for at most max(n, MIN_READ_SIZE) bytes at a time, and all the
   rest of the stream when n < 0 (this is what ZipFile.read(name) does). *)
From Coq Require Import ZArith List Bool.
From S2T Require Import C11.Model.
Import ListNotations.
Open Scope Z_scope.

Record stream := { s_avail : Z }.
Definition MIN_READ_SIZE : Z := 4096.

(* bytes returned by member.read(n) *)
Definition sread (st : stream) (n : Z) : Z := if n <? 0 then s_avail st else Z.min n (s_avail st).
(* upper bound of what the decompressor produces in memory for that call *)
Definition swork (st : stream) (n : Z) : Z :=
  if n <? 0 then s_avail st else Z.min (Z.max n MIN_READ_SIZE) (s_avail st).

Inductive rresult := RBytes (len : Z) | RBadCrc.

(* the CRC of the central directory is that of the real data: a non-empty read that stops short of it fails *)
Definition read_zip_member (x : entry) (st : stream) : rresult :=
  let n := file_size x in
  if (0 <? n) && (n <? s_avail st) then RBadCrc else RBytes (sread st n).
Definition read_zip_member_work (x : entry) (st : stream) : Z := swork st (file_size x).

(* the shape it replaced:  zf.read(path)  =  member.read()  *)
Definition zipfile_read_work (x : entry) (st : stream) : Z := swork st (-1).

Definition read_len (r : rresult) : Z := match r with RBytes n => n | RBadCrc => 0 end.
