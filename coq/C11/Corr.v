(* C11 — boolean case checkers for the correspondence runs (tests, not proofs). *)
From Coq Require Import ZArith List Bool Floats.SpecFloat.
From S2T Require Import C11.Model.
Import ListNotations.
Open Scope Z_scope.

Definition mk (fs cs : Z) (d : bool) : entry := {| file_size := fs; compress_size := cs; is_dir := d |}.
Definition rep (n : positive) (x : entry) : list entry := Pos.iter (cons x) [] n.
Definition mkL (n t s_ : Z) (tr er : rlimit) : limits :=
  {| max_entries := n; max_total := t; max_single := s_; max_total_ratio := tr; max_entry_ratio := er |}.

(* implementation's answer: 0 = returned, 1 = ExtractionZipBombError, 2 = OverflowError *)
Definition code_of (o : outcome) : Z := match o with Accept => 0 | Reject _ => 1 | Overflow => 2 end.

Definition corr_validate (c : limits * list entry * Z) : bool :=
  let '(L, es, want) := c in code_of (validate L es) =? want.

(* the declarative predicate evaluated next to it: must agree wherever the theorem's hypotheses hold *)
Definition corr_bomb (c : limits * list entry * Z) : bool :=
  let '(L, es, want) := c in
  (if limits_exact L && sizes_nonneg (files es) then (if bombb L es then 1 else 0) =? want else true)
  && (if rl_repr (max_total_ratio L) && rl_repr (max_entry_ratio L) && sizes_nonneg (files es) && (want =? 1)
      then bombb L es else true).

(* Python's a / b, given as Some (m, e) (value m*2^e) or None for OverflowError *)
Definition corr_fdiv (c : Z * Z * option (Z * Z)) : bool :=
  let '(a, b, want) := c in
  match fdiv a b, want with
  | None, None => true
  | Some q, Some w => dy_eqb q w
  | _, _ => false
  end.

(* cross-check with Coq's IEEE-754 specification: SFdiv on exact integer mantissas *)
Definition sf_of (r : option dyadic) : spec_float :=
  match r with
  | None => S754_infinity false
  | Some (m, e) =>
      match m with
      | Zpos p => if m =? 2 ^ 53 then S754_finite false (Z.to_pos (2 ^ 52)) (e + 1) else S754_finite false p e
      | _ => S754_zero false
      end
  end.
Definition sf_eqb (x y : spec_float) : bool :=
  match x, y with
  | S754_zero a, S754_zero b => Bool.eqb a b
  | S754_infinity a, S754_infinity b => Bool.eqb a b
  | S754_finite a m e, S754_finite b m' e' => Bool.eqb a b && Pos.eqb m m' && (e =? e')
  | _, _ => false
  end.
Definition corr_specfloat (c : Z * Z * option (Z * Z)) : bool :=
  let '(a, b, _) := c in
  sf_eqb (sf_of (fdiv a b))
         (SFdiv 53 1024 (S754_finite false (Z.to_pos a) 0) (S754_finite false (Z.to_pos b) 0)).

(* validate_zip_bytesio: (limits, position before, oracle, (result code, position after));
   result code 0 returned, 1 bomb error, 2 OverflowError, 3 BadZipFile *)
Definition bcode (r : bresult) : Z :=
  match r with BReturn => 0 | BRaiseBomb _ => 1 | BRaiseOverflow => 2 | BRaiseBadZip => 3 end.
Definition mkO (opens : bool) (infos : option (list entry)) (p1 p2 : Z) : zip_oracle :=
  {| zo_opens := opens; zo_infos := infos; zo_pos_open := p1; zo_pos_close := p2 |}.
Definition corr_bytesio (c : limits * Z * zip_oracle * (Z * Z)) : bool :=
  let '(L, pos, o, (wr, wp)) := c in
  let '(r, p) := validate_zip_bytesio L pos o in (bcode r =? wr) && (p =? wp).

(* ZipContext: (limits, oracle, client operations, events seen by the monitor) *)
Definition ev_eqb (x y : event) : bool :=
  match x, y with
  | EvOpen a, EvOpen b => N.eqb a b
  | EvValidate a u, EvValidate b v => N.eqb a b && Bool.eqb u v
  | EvRead a, EvRead b => N.eqb a b
  | EvClose a, EvClose b => N.eqb a b
  | _, _ => false
  end.
Fixpoint evs_eqb (x y : list event) : bool :=
  match x, y with
  | [], [] => true
  | a :: r, b :: r' => ev_eqb a b && evs_eqb r r'
  | _, _ => false
  end.
Definition corr_zcontext (c : limits * zip_oracle * list zop * list event) : bool :=
  let '(L, o, ops, want) := c in evs_eqb (zrun L 0%N Unopened (OpInit o :: ops)) want.

Definition corr_trace (t : list event) : bool := trace_ok t.

(* entries with names and attributes: the model decides "directory" from the name alone *)
From S2T Require Import Lib.PyStr C11.ModelNames.
Definition mkR (n : str) (fs cs attr sys : Z) : raw_entry :=
  {| r_name := n; r_file_size := fs; r_compress_size := cs; r_external_attr := attr; r_create_system := sys |}.
Definition corr_validate_raw (c : limits * list raw_entry * Z) : bool :=
  let '(L, rs, want) := c in code_of (validate_raw L rs) =? want.

(* sessions: (calls, implementation's result codes in order) *)
From S2T Require Import C11.ModelSession.
Fixpoint zs_eqb (x y : list Z) : bool :=
  match x, y with [] , [] => true | a :: r, b :: r' => (a =? b) && zs_eqb r r' | _, _ => false end.
(* result codes: guard calls as bcode; is_odf_encrypted returning False / True = 10 / 11 *)
Definition scode (r : sresult) : Z := match r with SGuard g => bcode g | SBool false => 10 | SBool true => 11 end.
Definition corr_session (c : list call * list Z) : bool :=
  let '(cs, want) := c in zs_eqb (map scode (run_session cs)) want.

(* the events of one is_odf_encrypted call *)
Definition corr_odf_probe (c : limits * bool * zip_oracle * bool * list event) : bool :=
  let '(L, z, o, m, want) := c in evs_eqb (odf_probe_events L 0%N z o m) want.

(* read_zip_member on a member whose central directory claims `fs` and whose data inflates to `avail`:
   (fs, avail, implementation's result: -1 = BadZipFile, otherwise the length returned, decompressor output measured) *)
From S2T Require Import C11.ModelRead.
Definition corr_read_member (c : Z * Z * Z * Z) : bool :=
  let '(fs, avail, want, inflated) := c in
  let x := mk fs fs false in let st := {| s_avail := avail |} in
  (match read_zip_member x st with RBadCrc => want =? -1 | RBytes n => want =? n end)
  && (inflated <=? Z.max (read_zip_member_work x st) 0 + MIN_READ_SIZE).
