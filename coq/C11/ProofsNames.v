From Coq Require Import ZArith List Bool Lia ZifyBool.
From S2T Require Import Lib.PyStr C11.Model C11.ProofsFloat C11.Proofs C11.ModelNames.
Import ListNotations.
Open Scope Z_scope.

Lemma attrs_irrelevant : forall L f rs, validate_raw L (map (set_attrs f) rs) = validate_raw L rs.
Proof.
  intros. unfold validate_raw. rewrite map_map. f_equal.
Qed.

Lemma file_member_in_files : forall rs r,
  In r rs -> name_is_dir (r_name r) = false -> In (entry_of r) (files (map entry_of rs)).
Proof.
  intros rs r Hin Hn. unfold files. apply filter_In. split.
  - apply in_map. exact Hin.
  - change (negb (name_is_dir (r_name r)) = true). rewrite Hn. reflexivity.
Qed.

Lemma file_member_never_ignored : forall L rs r,
  limits_exact L = true -> sizes_nonneg (files (map entry_of rs)) = true ->
  In r rs -> name_is_dir (r_name r) = false -> entry_violates L r ->
  exists c, validate_raw L rs = Reject c.
Proof.
  intros L rs r HL Hnn Hin Hn Hv. unfold validate_raw.
  apply (rejects_iff L (map entry_of rs) HL Hnn).
  pose proof (file_member_in_files rs r Hin Hn) as F.
  destruct Hv as [H|[H|H]].
  - right; left. exists (entry_of r). split; [exact F|exact H].
  - right; right; left. exists (entry_of r). split; [exact F|exact H].
  - right; right; right; left. exists (entry_of r). split; [exact F|exact H].
Qed.

(* a name with a trailing slash is ignored after the count, whatever it claims *)
Lemma name_is_dir_slash : forall n, name_is_dir (n ++ [47%N]) = true.
Proof. intros. unfold name_is_dir. apply endswith_app. exists n. reflexivity. Qed.
