From Coq Require Import ZArith List Bool Lia ZifyBool.
From S2T Require Import Lib.PyStr C11.Model C11.ProofsFloat C11.Proofs C11.ModelNames.
Import ListNotations.
Open Scope Z_scope.

Lemma attrs_irrelevant : forall L f rs, validate_raw L (map (set_attrs f) rs) = validate_raw L rs.
Proof.
  intros. unfold validate_raw. rewrite map_map. f_equal.
Qed.

Lemma file_member_in_files : forall rs r,
  In r rs -> name_is_dir (r_name r) = false -> In (entry_of r) (files (map entry_of rs)).
Proof.
  intros rs r Hin Hn. unfold files. apply filter_In. split.
  - apply in_map. exact Hin.
  - change (negb (name_is_dir (r_name r)) = true). rewrite Hn. reflexivity.
Qed.

Lemma file_member_never_ignored : forall L rs r,
  limits_exact L = true -> sizes_nonneg (files (map entry_of rs)) = true ->
  In r rs -> name_is_dir (r_name r) = false -> entry_violates L r ->
  exists c, validate_raw L rs = Reject c.
Proof.
  intros L rs r HL Hnn Hin Hn Hv. unfold validate_raw.
  apply (rejects_iff L (map entry_of rs) HL Hnn).
  pose proof (file_member_in_files rs r Hin Hn) as F.
  destruct Hv as [H|[H|H]].
  - right; left. exists (entry_of r). split; [exact F|exact H].
  - right; right; left. exists (entry_of r). split; [exact F|exact H].
  - right; right; right; left. exists (entry_of r). split; [exact F|exact H].
Qed.

(* a name with a trailing slash is ignored after the count, whatever it claims *)
Lemma name_is_dir_slash : forall n, name_is_dir (n ++ [47%N]) = true.
Proof. intros. unfold name_is_dir. apply endswith_app. exists n. reflexivity. Qed.

(* ---------------------------------------------------------------- names and sessions (round 4) *)
From S2T Require Import C11.ModelSession.

Definition rename (g : str -> str) (r : raw_entry) : raw_entry :=
  {| r_name := g (r_name r); r_file_size := r_file_size r; r_compress_size := r_compress_size r;
     r_external_attr := r_external_attr r; r_create_system := r_create_system r |}.

(* names matter only through the trailing slash: duplicates, empty names, any renaming that keeps
   the slash status leave the verdict unchanged -- every record is looked at *)
Lemma names_irrelevant : forall L g rs,
  (forall n, name_is_dir (g n) = name_is_dir n) ->
  validate_raw L (map (rename g) rs) = validate_raw L rs.
Proof.
  intros L g rs H. unfold validate_raw. rewrite map_map. f_equal.
  apply map_ext. intro r. unfold entry_of. f_equal. exact (H (r_name r)).
Qed.

Lemma session_history_independent : forall pre c post,
  nth_error (run_session (pre ++ c :: post)) (List.length pre) = Some (run_call c).
Proof.
  intros. unfold run_session. rewrite map_app. cbn [map].
  rewrite nth_error_app2 by (rewrite map_length; apply le_n).
  rewrite map_length, PeanoNat.Nat.sub_diag. reflexivity.
Qed.

Lemma session_same_as_fresh : forall pre c, run_session (pre ++ [c]) = run_session pre ++ run_session [c].
Proof. intros. unfold run_session. apply map_app. Qed.
