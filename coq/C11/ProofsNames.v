From Coq Require Import ZArith List Bool Lia ZifyBool.
From S2T Require Import Lib.PyStr C11.Model C11.ProofsFloat C11.Proofs C11.ModelNames.
Import ListNotations.
Open Scope Z_scope.

Lemma attrs_irrelevant : forall L f rs, validate_raw L (map (set_attrs f) rs) = validate_raw L rs.
Proof.
  intros. unfold validate_raw. rewrite map_map. f_equal.
Qed.

Lemma file_member_in_files : forall rs r,
  In r rs -> name_is_dir (r_name r) = false -> In (entry_of r) (files (map entry_of rs)).
Proof.
  intros rs r Hin Hn. unfold files. apply filter_In. split.
  - apply in_map. exact Hin.
  - change (negb (name_is_dir (r_name r)) = true). rewrite Hn. reflexivity.
Qed.

Lemma file_member_never_ignored : forall L rs r,
  limits_exact L = true -> sizes_nonneg (files (map entry_of rs)) = true ->
  In r rs -> name_is_dir (r_name r) = false -> entry_violates L r ->
  exists c, validate_raw L rs = Reject c.
Proof.
  intros L rs r HL Hnn Hin Hn Hv. unfold validate_raw.
  apply (rejects_iff L (map entry_of rs) HL Hnn).
  pose proof (file_member_in_files rs r Hin Hn) as F.
  destruct Hv as [H|[H|H]].
  - right; left. exists (entry_of r). split; [exact F|exact H].
  - right; right; left. exists (entry_of r). split; [exact F|exact H].
  - right; right; right; left. exists (entry_of r). split; [exact F|exact H].
Qed.

(* a name with a trailing slash is ignored after the count, whatever it claims *)
Lemma name_is_dir_slash : forall n, name_is_dir (n ++ [47%N]) = true.
Proof. intros. unfold name_is_dir. apply endswith_app. exists n. reflexivity. Qed.

(* ---------------------------------------------------------------- names and sessions (round 4) *)
From S2T Require Import C11.ModelSession.

Definition rename (g : str -> str) (r : raw_entry) : raw_entry :=
  {| r_name := g (r_name r); r_file_size := r_file_size r; r_compress_size := r_compress_size r;
     r_external_attr := r_external_attr r; r_create_system := r_create_system r |}.

(* names matter only through the trailing slash: duplicates, empty names, any renaming that keeps
   the slash status leave the verdict unchanged -- every record is looked at *)
Lemma names_irrelevant : forall L g rs,
  (forall n, name_is_dir (g n) = name_is_dir n) ->
  validate_raw L (map (rename g) rs) = validate_raw L rs.
Proof.
  intros L g rs H. unfold validate_raw. rewrite map_map. f_equal.
  apply map_ext. intro r. unfold entry_of. f_equal. exact (H (r_name r)).
Qed.

Lemma session_history_independent : forall pre c post,
  nth_error (run_session (pre ++ c :: post)) (List.length pre) = Some (run_call c).
Proof.
  intros. unfold run_session. rewrite map_app. cbn [map].
  rewrite nth_error_app2 by (rewrite map_length; apply le_n).
  rewrite map_length, PeanoNat.Nat.sub_diag. reflexivity.
Qed.

Lemma session_same_as_fresh : forall pre c, run_session (pre ++ [c]) = run_session pre ++ run_session [c].
Proof. intros. unfold run_session. apply map_app. Qed.

(* ---------------------------------------------------------------- extension round *)
Lemma odf_encrypted_only_if_validated : forall L z o enc,
  is_odf_encrypted L z o enc = SBool true ->
  z = true /\ zo_opens o = true /\ validate_zipfile L (zo_infos o) = Accept.
Proof.
  intros L z o enc H. unfold is_odf_encrypted in H. destruct z; [|discriminate].
  unfold open_zipfile in H. destruct (zo_opens o); [|discriminate].
  destruct (validate_zipfile L (zo_infos o)); try discriminate. auto.
Qed.

Lemma odf_probe_dominated : forall L c z o m, trace_ok (odf_probe_events L c z o m) = true.
Proof.
  intros. unfold odf_probe_events. destruct z; [|reflexivity]. destruct (zo_opens o); [|reflexivity].
  destruct (validate_zipfile L (zo_infos o)); try destruct m; cbn; rewrite ?N.eqb_refl; reflexivity.
Qed.

(* accepted => every claimed size is within the limits *)
Lemma accept_bounds : forall L es,
  limits_exact L = true -> sizes_nonneg (files es) = true -> validate L es = Accept ->
  Z.of_nat (List.length es) <= max_entries L
  /\ total_u (files es) <= max_total L
  /\ (forall x, In x (files es) -> file_size x <= max_single L
                                  /\ (file_size x > 0 -> compress_size x > 0)
                                  /\ (compress_size x > 0 -> ~ exceeds (file_size x) (compress_size x) (max_entry_ratio L)))
  /\ (total_c (files es) > 0 -> ~ exceeds (total_u (files es)) (total_c (files es)) (max_total_ratio L)).
Proof.
  intros L es HL Hnn HA. apply (accepts_iff L es HL Hnn) in HA. unfold Bomb in HA.
  assert (NN : forall x, In x (files es) -> 0 <= file_size x /\ 0 <= compress_size x).
  { intros x Hx. unfold sizes_nonneg in Hnn. rewrite forallb_forall in Hnn. specialize (Hnn x Hx). lia. }
  repeat split.
  - destruct (Z_le_gt_dec (Z.of_nat (List.length es)) (max_entries L)); [assumption|]. exfalso. apply HA. left. lia.
  - destruct (Z_le_gt_dec (total_u (files es)) (max_total L)); [assumption|]. exfalso. apply HA. do 4 right. left. lia.
  - destruct (Z_le_gt_dec (file_size x) (max_single L)); [assumption|]. exfalso. apply HA. right; left. exists x. split; [assumption|lia].
  - intro P. destruct (NN x H) as [_ C]. destruct (Z.eq_dec (compress_size x) 0) as [E|E]; [|lia].
    exfalso. apply HA. right; right; left. exists x. repeat split; assumption.
  - intros P X. apply HA. right; right; right; left. exists x. repeat split; assumption.
  - intros P X. apply HA. do 5 right. split; assumption.
Qed.

Lemma total_out_le : forall out l, reader_truncates out l = true -> 0 <= total_out out l <= total_u l.
Proof.
  intros out l. induction l as [|x r IH]; cbn [reader_truncates forallb total_out total_u fold_right]; intros H; [lia|].
  apply andb_prop in H. destruct H as [Hx Hr]. specialize (IH Hr). unfold total_out, total_u in IH. lia.
Qed.

(* if a reader never obtains more than the central directory's file_size from a member (zipfile truncates),
   an accepted container costs at most max_total bytes in all and max_single per member *)
Lemma accepted_output_bounded : forall L es out,
  limits_exact L = true -> sizes_nonneg (files es) = true -> validate L es = Accept ->
  reader_truncates out (files es) = true ->
  total_out out (files es) <= max_total L /\ forall x, In x (files es) -> out x <= max_single L.
Proof.
  intros L es out HL Hnn HA HT. destruct (accept_bounds L es HL Hnn HA) as [_ [T [E _]]].
  split.
  - pose proof (total_out_le out _ HT). lia.
  - intros x Hx. destruct (E x Hx) as [S _]. unfold reader_truncates in HT. rewrite forallb_forall in HT.
    specialize (HT x Hx). lia.
Qed.

(* ---------------------------------------------------------------- read_zip_member (extension round 2) *)
From S2T Require Import C11.ModelRead.

Lemma read_zip_member_bounded : forall x st,
  0 <= file_size x -> 0 <= s_avail st ->
  0 <= read_len (read_zip_member x st) <= file_size x.
Proof.
  intros x st Hf Ha. unfold read_zip_member, sread.
  destruct ((0 <? file_size x) && (file_size x <? s_avail st)); cbn [read_len]; [lia|].
  destruct (file_size x <? 0) eqn:E; lia.
Qed.

Lemma read_zip_member_work_bounded : forall x st,
  0 <= file_size x -> read_zip_member_work x st <= Z.max (file_size x) MIN_READ_SIZE.
Proof.
  intros x st Hf. unfold read_zip_member_work, swork. destruct (file_size x <? 0) eqn:E; lia.
Qed.

Lemma repository_reads_truncate : forall (streams : entry -> stream) l,
  sizes_nonneg l = true -> (forall x, 0 <= s_avail (streams x)) ->
  reader_truncates (fun x => read_len (read_zip_member x (streams x))) l = true.
Proof.
  intros streams l Hnn Ha. unfold reader_truncates. apply forallb_forall. intros x Hx.
  unfold sizes_nonneg in Hnn. rewrite forallb_forall in Hnn. specialize (Hnn x Hx).
  pose proof (read_zip_member_bounded x (streams x) ltac:(lia) (Ha x)). lia.
Qed.

Lemma repository_reads_bounded : forall L es (streams : entry -> stream),
  limits_exact L = true -> sizes_nonneg (files es) = true -> validate L es = Accept ->
  (forall x, 0 <= s_avail (streams x)) ->
  total_out (fun x => read_len (read_zip_member x (streams x))) (files es) <= max_total L
  /\ (forall x, In x (files es) -> read_len (read_zip_member x (streams x)) <= max_single L
                                  /\ read_zip_member_work x (streams x) <= Z.max (max_single L) MIN_READ_SIZE).
Proof.
  intros L es streams HL Hnn HA Ha.
  destruct (accepted_output_bounded L es _ HL Hnn HA (repository_reads_truncate streams _ Hnn Ha)) as [T S].
  split; [exact T|]. intros x Hx. split; [exact (S x Hx)|].
  destruct (accept_bounds L es HL Hnn HA) as [_ [_ [E _]]]. destruct (E x Hx) as [B _].
  unfold sizes_nonneg in Hnn. rewrite forallb_forall in Hnn. specialize (Hnn x Hx).
  pose proof (read_zip_member_work_bounded x (streams x) ltac:(lia)). lia.
Qed.

Lemma zipfile_read_work_unbounded :
  exists x st, 0 <= file_size x /\ zipfile_read_work x st > file_size x + MIN_READ_SIZE.
Proof.
  exists {| file_size := 65232; compress_size := 65232; is_dir := false |}, {| s_avail := 67108864 |}.
  vm_compute. split; [discriminate|reflexivity].
Qed.
