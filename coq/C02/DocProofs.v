(* C02 — format-independent lemmas about the abstract document and its specification. *)
From Coq Require Import ZArith List Bool Lia ZifyBool.
From S2T Require Import Lib.PyStr C02.Lib C02.Doc.
Import ListNotations.
Open Scope N_scope.

(* ---------------------------------------------------------------- list helpers *)
Lemma flat_map_flat_map {A B C} (f : B -> list C) (g : A -> list B) l :
  flat_map f (flat_map g l) = flat_map (fun x => flat_map f (g x)) l.
Proof. induction l as [|x l IH]; simpl; [reflexivity|]. rewrite flat_map_app, IH. reflexivity. Qed.

Lemma flat_map_map' {A B C} (f : B -> list C) (g : A -> B) l :
  flat_map f (map g l) = flat_map (fun x => f (g x)) l.
Proof. induction l as [|x l IH]; simpl; [reflexivity|]. rewrite IH. reflexivity. Qed.

Lemma flat_map_ext_in' {A B} (f g : A -> list B) l :
  (forall x, In x l -> f x = g x) -> flat_map f l = flat_map g l.
Proof.
  induction l as [|x l IH]; intro H; simpl; [reflexivity|].
  rewrite H by (left; reflexivity). rewrite IH by (intros y Hy; apply H; right; exact Hy). reflexivity.
Qed.

Lemma flat_map_nil_in {A B} (f : A -> list B) l : (forall x, In x l -> f x = []) -> flat_map f l = [].
Proof.
  induction l as [|x l IH]; intro H; simpl; [reflexivity|].
  rewrite H by (left; reflexivity). apply IH. intros y Hy; apply H; right; exact Hy.
Qed.

Lemma forallb_In {A} (f : A -> bool) l x : forallb f l = true -> In x l -> f x = true.
Proof. intros H Hx. rewrite forallb_forall in H. apply H; exact Hx. Qed.

Lemma forallb_flat_map {A B} (p : B -> bool) (f : A -> list B) l :
  forallb p (flat_map f l) = forallb (fun x => forallb p (f x)) l.
Proof. induction l as [|x l IH]; simpl; [reflexivity|]. rewrite forallb_app, IH. reflexivity. Qed.

Lemma In_concat_iff {A} (x : A) ll : In x (List.concat ll) <-> exists l, In l ll /\ In x l.
Proof.
  induction ll as [|l ll IH]; simpl.
  - split; [tauto | intros [l [[] _]]].
  - rewrite in_app_iff, IH. split.
    + intros [H|[l' [H1 H2]]]; [exists l; auto | exists l'; auto].
    + intros [l' [[->|H1] H2]]; [left; exact H2 | right; exists l'; auto].
Qed.

Lemma flat_app a b : flat (a ++ b) = flat a ++ flat b.
Proof. apply flat_map_app. Qed.

(* ---------------------------------------------------------------- closedness of block symbols *)
Lemma blk_syms_closed b : closed (blk_syms b).
Proof.
  induction b as [st l | rows IH | bs IH | items IH] using block_ind'.
  - right. exists (para_syms l), 10. reflexivity.
  - simpl. apply closed_flat_map. intros row Hrow.
    rewrite Forall_forall in IH. specialize (IH row Hrow).
    apply closed_flat_map. intros cell Hcell.
    rewrite Forall_forall in IH. specialize (IH cell Hcell).
    apply closed_flat_map. intros b Hb. rewrite Forall_forall in IH. apply IH; exact Hb.
  - simpl. apply closed_flat_map. intros b Hb. rewrite Forall_forall in IH. apply IH; exact Hb.
  - simpl. apply closed_flat_map. intros it Hit.
    rewrite Forall_forall in IH. specialize (IH it Hit).
    apply closed_flat_map. intros b Hb. rewrite Forall_forall in IH. apply IH; exact Hb.
Qed.

Lemma groups_blocks bs : groups (flat_map blk_syms bs) = flat_map (fun b => groups (blk_syms b)) bs.
Proof. apply groups_flat_map. intros b _. apply blk_syms_closed. Qed.

Lemma segments_blocks d : segments d = flat_map (fun b => groups (blk_syms b)) (body d).
Proof. apply groups_blocks. Qed.

(* ---------------------------------------------------------------- well-formedness of the symbols *)
Section Wf.
  Variable ws : N -> bool.
  Variable cls_of : N -> N.
  Hypothesis ws_tab : ws 9 = true.
  Hypothesis ws_nl : ws 10 = true.

  (* a specification symbol of a well-formed document: a visible leaf, or a tab / newline boundary *)
  Definition spec_ok (x : sym) : bool :=
    match x with Leaf t => leaf_ok ws cls_of true t | Sep c => (c =? 9) || (c =? 10) end.

  Lemma inl_syms_ok i : inl_wf ws cls_of i = true -> forallb spec_ok (inl_syms i) = true.
  Proof.
    induction i as [t| |b| |t|t|t|k l IH|v ps IH] using inl_ind'; intro H; simpl in *;
      try reflexivity.
    - rewrite H. reflexivity.
    - rewrite forallb_flat_map. apply forallb_forall. intros x Hx.
      rewrite Forall_forall in IH. apply IH; [exact Hx | exact (forallb_In _ _ _ H Hx)].
    - rewrite forallb_flat_map. apply forallb_forall. intros p Hp.
      rewrite forallb_app. simpl. rewrite andb_true_r.
      rewrite forallb_flat_map. apply forallb_forall. intros x Hx.
      rewrite Forall_forall in IH. specialize (IH p Hp). rewrite Forall_forall in IH.
      apply IH; [exact Hx|]. exact (forallb_In _ _ _ (forallb_In _ _ _ H Hp) Hx).
  Qed.

  Lemma para_syms_ok l : forallb (inl_wf ws cls_of) l = true -> forallb spec_ok (para_syms l) = true.
  Proof.
    intro H. unfold para_syms. rewrite forallb_flat_map. apply forallb_forall. intros x Hx.
    apply inl_syms_ok. exact (forallb_In _ _ _ H Hx).
  Qed.

  Lemma blk_syms_ok b : blk_wf ws cls_of b = true -> forallb spec_ok (blk_syms b) = true.
  Proof.
    induction b as [st l | rows IH | bs IH | items IH] using block_ind'; intro H; simpl in *.
    - rewrite forallb_app, para_syms_ok by exact H. reflexivity.
    - rewrite forallb_flat_map. apply forallb_forall. intros row Hrow.
      rewrite Forall_forall in IH. specialize (IH row Hrow).
      rewrite forallb_flat_map. apply forallb_forall. intros cell Hcell.
      rewrite Forall_forall in IH. specialize (IH cell Hcell).
      rewrite forallb_flat_map. apply forallb_forall. intros b Hb.
      rewrite Forall_forall in IH. apply IH; [exact Hb|].
      exact (forallb_In _ _ _ (forallb_In _ _ _ (forallb_In _ _ _ H Hrow) Hcell) Hb).
    - rewrite forallb_flat_map. apply forallb_forall. intros b Hb.
      rewrite Forall_forall in IH. apply IH; [exact Hb | exact (forallb_In _ _ _ H Hb)].
    - rewrite forallb_flat_map. apply forallb_forall. intros it Hit.
      rewrite Forall_forall in IH. specialize (IH it Hit).
      rewrite forallb_flat_map. apply forallb_forall. intros b Hb.
      rewrite Forall_forall in IH. apply IH; [exact Hb|].
      exact (forallb_In _ _ _ (forallb_In _ _ _ H Hit) Hb).
  Qed.

  Lemma doc_syms_ok d : wf_doc ws cls_of d = true -> forallb spec_ok (doc_syms d) = true.
  Proof.
    unfold wf_doc. intro H. apply andb_true_iff in H as [H _]. apply andb_true_iff in H as [H _].
    unfold doc_syms. rewrite forallb_flat_map. apply forallb_forall. intros b Hb.
    apply blk_syms_ok. exact (forallb_In _ _ _ H Hb).
  Qed.

  Lemma leaf_ok_chars vis t c :
    leaf_ok ws cls_of vis t = true -> In c t -> ws c = false /\ is_vis cls_of c = vis.
  Proof.
    unfold leaf_ok. intros H Hc. apply andb_true_iff in H as [_ H].
    pose proof (forallb_In _ _ _ H Hc) as Hx. simpl in Hx. apply andb_true_iff in Hx as [H1 H2].
    apply negb_true_iff in H1. apply eqb_prop in H2. auto.
  Qed.

  Lemma spec_ok_syms_ok l : forallb spec_ok l = true -> syms_ok ws l = true.
  Proof.
    unfold syms_ok. intro H. apply forallb_forall. intros x Hx.
    pose proof (forallb_In _ _ _ H Hx) as Hs. destruct x as [t|c]; simpl in *.
    - unfold no_ws. apply forallb_forall. intros c Hc.
      destruct (leaf_ok_chars _ _ _ Hs Hc) as [H1 _]. rewrite H1. reflexivity.
    - apply orb_true_iff in Hs as [E|E]; apply N.eqb_eq in E; subst; assumption.
  Qed.

  (* every character of a visible leaf is a non-whitespace character of class 0 *)
  Lemma visible_chars l c :
    forallb spec_ok l = true -> In c (List.concat (leaves l)) -> ws c = false /\ is_vis cls_of c = true.
  Proof.
    induction l as [|x l IH]; simpl; intros H Hc; [contradiction|].
    apply andb_true_iff in H as [Hx Hl]. destruct x as [t|s]; simpl in *.
    - apply in_app_iff in Hc as [Hc|Hc]; [exact (leaf_ok_chars _ _ _ Hx Hc) | apply IH; assumption].
    - apply IH; assumption.
  Qed.

  (* ---------------------------------------------------------------- excluded leaves *)
  Lemma inl_excl_ok i t : inl_wf ws cls_of i = true -> In t (inl_excl i) -> leaf_ok ws cls_of false t = true.
  Proof.
    induction i as [t'| |b| |t'|t'|t'|k l IH|v ps IH] using inl_ind'; simpl; intros H Ht;
      try contradiction; try (destruct Ht as [<-|[]]; exact H).
    - apply in_flat_map in Ht as [x [Hx Ht]]. rewrite Forall_forall in IH.
      apply (IH x Hx); [exact (forallb_In _ _ _ H Hx) | exact Ht].
    - apply in_flat_map in Ht as [p [Hp Ht]]. apply in_flat_map in Ht as [x [Hx Ht]].
      rewrite Forall_forall in IH. specialize (IH p Hp). rewrite Forall_forall in IH.
      apply (IH x Hx); [exact (forallb_In _ _ _ (forallb_In _ _ _ H Hp) Hx) | exact Ht].
  Qed.

  Lemma blk_excl_ok b t : blk_wf ws cls_of b = true -> In t (blk_excl b) -> leaf_ok ws cls_of false t = true.
  Proof.
    induction b as [st l | rows IH | bs IH | items IH] using block_ind'; simpl; intros H Ht.
    - apply in_flat_map in Ht as [x [Hx Ht]]. apply (inl_excl_ok x); [exact (forallb_In _ _ _ H Hx) | exact Ht].
    - apply in_flat_map in Ht as [row [Hrow Ht]]. apply in_flat_map in Ht as [cell [Hcell Ht]].
      apply in_flat_map in Ht as [b [Hb Ht]].
      rewrite Forall_forall in IH. specialize (IH row Hrow).
      rewrite Forall_forall in IH. specialize (IH cell Hcell). rewrite Forall_forall in IH.
      apply (IH b Hb); [|exact Ht].
      exact (forallb_In _ _ _ (forallb_In _ _ _ (forallb_In _ _ _ H Hrow) Hcell) Hb).
    - apply in_flat_map in Ht as [b [Hb Ht]]. rewrite Forall_forall in IH.
      apply (IH b Hb); [exact (forallb_In _ _ _ H Hb) | exact Ht].
    - apply in_flat_map in Ht as [it [Hit Ht]]. apply in_flat_map in Ht as [b [Hb Ht]].
      rewrite Forall_forall in IH. specialize (IH it Hit). rewrite Forall_forall in IH.
      apply (IH b Hb); [exact (forallb_In _ _ _ (forallb_In _ _ _ H Hit) Hb) | exact Ht].
  Qed.

  Lemma excluded_ok d t : wf_doc ws cls_of d = true -> In t (excluded d) -> leaf_ok ws cls_of false t = true.
  Proof.
    unfold wf_doc, excluded. intros H Ht.
    apply andb_true_iff in H as [H Hf]. apply andb_true_iff in H as [Hb Hh].
    apply in_app_iff in Ht as [Ht|Ht]; [|apply in_app_iff in Ht as [Ht|Ht]].
    - apply in_flat_map in Ht as [b [Hb' Ht]]. apply (blk_excl_ok b); [exact (forallb_In _ _ _ Hb Hb') | exact Ht].
    - exact (forallb_In _ _ _ Hh Ht).
    - exact (forallb_In _ _ _ Hf Ht).
  Qed.

  (* ---------------------------------------------------------------- from the word equation to the
     four statements of the property (any format): `out` is the extracted main text *)
  Section FromWords.
    Variable d : doc.
    Variable out : str.
    Hypothesis Hwf : wf_doc ws cls_of d = true.
    Hypothesis Hwords : words ws out = segments d.

    Lemma fidelity_of_words : tokchars ws out = List.concat (visible d).
    Proof. rewrite <- concat_words, Hwords. apply concat_groups. Qed.

    Lemma decoration_of_words c : In c out -> ws c = false -> In c (List.concat (visible d)).
    Proof. intros Hc Hw. rewrite <- fidelity_of_words. apply tokchars_In. auto. Qed.

    Lemma no_excluded_of_words : forallb (fun c => ws c || is_vis cls_of c) out = true.
    Proof.
      apply forallb_forall. intros c Hc. destruct (ws c) eqn:E; [reflexivity|]. simpl.
      pose proof (decoration_of_words c Hc E) as Hv.
      exact (proj2 (visible_chars _ _ (doc_syms_ok d Hwf) Hv)).
    Qed.

    Lemma excluded_absent_of_words t c : In t (excluded d) -> In c t -> ~ In c out.
    Proof.
      intros Ht Hc Hout. destruct (leaf_ok_chars _ _ _ (excluded_ok d t Hwf Ht) Hc) as [H1 H2].
      pose proof (forallb_In _ _ _ no_excluded_of_words Hout) as H. simpl in H.
      rewrite H1, H2 in H. discriminate.
    Qed.
  End FromWords.
End Wf.
