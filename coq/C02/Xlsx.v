(* C02 / XLSX — the trimming of a sheet in xlsx_extractor._read_sheet_data:
     last_row = _find_last_data_row(rows); rows = rows[:last_row]
     last_col = _find_last_data_column(rows); rows = [row[:last_col] for row in rows]
   over RAGGED rows (openpyxl's read-only reader pads rows to a common width only when the worksheet
   carries a <dimension> element).  Only the emptiness of a cell matters here, so a row is a list of
   booleans (`_is_cell_non_empty`, recorded from the real function in the correspondence). *)
From Coq Require Import List Bool Arith Lia.
Import ListNotations.

Notation row := (list bool).

(* 1-based index of the last non-empty cell, 0 if there is none
   (`for i in range(len(row) - 1, -1, -1): if non_empty(row[i]): ... i + 1; break`) *)
Fixpoint last_ne (r : row) : nat :=
  match r with
  | [] => 0
  | b :: t => match last_ne t with 0 => if b then 1 else 0 | S k => S (S k) end
  end.

(* _find_last_data_column *)
Definition last_col (rows : list row) : nat := fold_right (fun r m => Nat.max (last_ne r) m) 0 rows.
(* _find_last_data_row: last row with any non-empty cell *)
Definition last_row (rows : list row) : nat := last_ne (map (existsb (fun b => b)) rows).

Definition trim (rows : list row) : list row :=
  let rows' := firstn (last_row rows) rows in
  map (firstn (last_col rows')) rows'.

Definition cell (rows : list row) (r c : nat) : bool := nth c (nth r rows []) false.

(* correspondence checker: (grid, (last_row, last_col of the row-trimmed grid)) *)
Definition corr_trim (x : list row * (nat * nat)) : bool :=
  let '(rows, (lr, lc)) := x in
  Nat.eqb (last_row rows) lr && Nat.eqb (last_col (firstn (last_row rows) rows)) lc.

(* ---------------------------------------------------------------- proofs *)
Lemma last_ne_gt r c : nth c r false = true -> c < last_ne r.
Proof.
  revert c. induction r as [|b t IH]; intros c H; [destruct c; discriminate|].
  destruct c as [|c]; simpl in *.
  - subst. destruct (last_ne t); lia.
  - specialize (IH c H). destruct (last_ne t); lia.
Qed.

Lemma last_col_ge rows r : In r rows -> last_ne r <= last_col rows.
Proof.
  induction rows as [|x rows IH]; intro H; [contradiction|].
  simpl. destruct H as [->|H]; [lia | specialize (IH H); lia].
Qed.

Lemma nth_firstn {A} (l : list A) n k d : n < k -> nth n (firstn k l) d = nth n l d.
Proof.
  revert n k. induction l as [|x l IH]; intros n k H; [rewrite firstn_nil; reflexivity|].
  destruct k as [|k]; [lia|]. destruct n as [|n]; [reflexivity|]. simpl. apply IH. lia.
Qed.

Lemma existsb_nth r c : nth c r false = true -> existsb (fun b => b) r = true.
Proof.
  revert c. induction r as [|b t IH]; intros c H; [destruct c; discriminate|].
  destruct c as [|c]; simpl in *; [subst; reflexivity|]. rewrite (IH c H). apply orb_true_r.
Qed.

Lemma map_nth_nil {A} (f : list A -> list A) (l : list (list A)) r :
  f [] = [] -> nth r (map f l) [] = f (nth r l []).
Proof. intro E. transitivity (nth r (map f l) (f [])); [rewrite E; reflexivity | apply map_nth]. Qed.

(* every non-empty cell survives the trimming, at its coordinates — ragged rows included *)
Theorem trim_keeps_cells rows r c : cell rows r c = true -> cell (trim rows) r c = true.
Proof.
  unfold cell, trim. cbv zeta. intro H.
  assert (Hr : r < last_row rows).
  { unfold last_row. apply last_ne_gt.
    destruct (lt_dec r (length rows)) as [L|L].
    - rewrite (nth_indep _ false (existsb (fun b => b) []))
        by (rewrite map_length; exact L).
      rewrite map_nth. apply (existsb_nth _ c). exact H.
    - rewrite (nth_overflow rows) in H by lia. destruct c; discriminate. }
  set (rows' := firstn (last_row rows) rows).
  assert (E : nth r rows' [] = nth r rows []) by (apply nth_firstn; exact Hr).
  rewrite (map_nth_nil (firstn (last_col rows')) rows' r (firstn_nil _ _)). rewrite E.
  rewrite nth_firstn; [exact H|].
  destruct (lt_dec r (length rows')) as [L|L].
  - apply Nat.lt_le_trans with (last_ne (nth r rows [])); [apply last_ne_gt; exact H|].
    apply last_col_ge. rewrite <- E. apply nth_In. exact L.
  - rewrite (nth_overflow rows') in E by lia. rewrite <- E in H. destruct c; discriminate.
Qed.

(* and nothing is invented: a cell of the trimmed grid is a cell of the grid *)
Theorem trim_only_cells rows r c : cell (trim rows) r c = true -> cell rows r c = true.
Proof.
  unfold cell, trim. cbv zeta. set (rows' := firstn (last_row rows) rows). intro H.
  rewrite (map_nth_nil (firstn (last_col rows')) rows' r (firstn_nil _ _)) in H.
  assert (Hc : nth c (nth r rows' []) false = true).
  { revert H. generalize (nth r rows' []) as x. generalize (last_col rows') as k. clear.
    intros k x. revert k c. induction x as [|b t IH]; intros k c H; [rewrite firstn_nil in H; destruct c; discriminate|].
    destruct k as [|k]; [destruct c; discriminate|]. destruct c as [|c]; [exact H|]. simpl in *. apply (IH k c H). }
  revert Hc. unfold rows'. generalize (last_row rows) as k. clear.
  intro k. revert k r. induction rows as [|x rows IH]; intros k r H; [rewrite firstn_nil in H; destruct r; destruct c; discriminate|].
  destruct k as [|k]; [destruct r; destruct c; discriminate|]. destruct r as [|r]; [exact H|]. simpl in *. apply (IH k r H).
Qed.

(* the rewrite that probes from the width of the first row only (seen as a regression) loses cells *)
Definition last_col_first_row (rows : list row) : nat :=
  match rows with
  | [] => 0
  | r0 :: _ => (fix probe (k : nat) : nat :=
                  match k with
                  | 0 => 0
                  | S j => if existsb (fun r => nth j r false) rows then S j else probe j
                  end) (length r0)
  end.
Lemma first_row_probe_refuted :
  exists rows r c, cell rows r c = true /\ cell (map (firstn (last_col_first_row rows)) rows) r c = false.
Proof. exists [[true; true]; [true; true; false; true]], 1, 3. split; reflexivity. Qed.
