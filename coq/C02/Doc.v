(* C02 — the abstract document and its specification (format independent).

   A document is a list of blocks; every text leaf is a string of "token characters".  Characters are
   class-tagged by an arbitrary function `cls_of : N -> N` (class 0 = visible body text, any other
   class = text the documentation excludes from the main text: tracked deletions, comments,
   headers/footers).  The specification of the main text is
     doc_syms d : list sym      leaf texts and boundaries in reading order
     segments d = groups (doc_syms d)   what str.split() of the full text must be
     visible d  = leaves (doc_syms d)   the visible leaf texts in order (multiplicity, order)
     excluded d                          the excluded leaf texts *)
From Coq Require Import ZArith List Bool Lia ZifyBool.
From S2T Require Import Lib.PyStr C02.Lib.
Import ListNotations.
Open Scope N_scope.

Inductive wrapk := KLink | KIns | KSdt | KSmart | KField | KMoveTo | KSpan.

(* kinds of break inside a paragraph: all of them are boundaries *)
Inductive brk := BrLine | BrPage | BrColumn | BrWrap | BrCr.

Inductive inl :=
| IRun (t : str)                       (* visible run text *)
| ITab                                 (* tab stop: a boundary *)
| IBreak (k : brk)                     (* line / page / column / text-wrapping break, carriage return: a boundary *)
| IMark                                (* layout marker (last rendered / soft page break): NOT a boundary *)
| IDel (t : str)                       (* tracked deletion (excluded) *)
| IMovedFrom (t : str)                 (* source position of a tracked move (excluded) *)
| IComment (t : str)                   (* comment / annotation anchored here (excluded) *)
| IWrap (k : wrapk) (l : list inl)     (* hyperlink, tracked insertion, inline content control, ... *)
| IBox (vml_only : bool) (ps : list (list inl)).   (* text box anchored here, with its paragraphs *)

Inductive pstyle := PNormal | PHeading (lvl : N) | PListItem (lvl : N).

Inductive block :=
| BPara (st : pstyle) (l : list inl)
| BTable (rows : list (list (list block)))   (* rows of cells of blocks: nesting allowed *)
| BSdt (bs : list block)                     (* block-level content control / section *)
| BList (items : list (list block)).         (* list: items of blocks: nesting allowed *)

Record doc := { body : list block; headers : list str; footers : list str }.

(* ---------------------------------------------------------------- induction principles *)
Section InlInd.
  Variable P : inl -> Prop.
  Hypothesis Hrun : forall t, P (IRun t).
  Hypothesis Htab : P ITab.
  Hypothesis Hbrk : forall k, P (IBreak k).
  Hypothesis Hmark : P IMark.
  Hypothesis Hdel : forall t, P (IDel t).
  Hypothesis Hmov : forall t, P (IMovedFrom t).
  Hypothesis Hcom : forall t, P (IComment t).
  Hypothesis Hwrap : forall k l, Forall P l -> P (IWrap k l).
  Hypothesis Hbox : forall v ps, Forall (Forall P) ps -> P (IBox v ps).
  Fixpoint inl_ind' (i : inl) : P i :=
    match i with
    | IRun t => Hrun t | ITab => Htab | IBreak k => Hbrk k | IMark => Hmark | IDel t => Hdel t
    | IMovedFrom t => Hmov t | IComment t => Hcom t
    | IWrap k l => Hwrap k l ((fix go (l : list inl) : Forall P l :=
                                 match l with [] => Forall_nil P | x :: r => Forall_cons x (inl_ind' x) (go r) end) l)
    | IBox v ps => Hbox v ps ((fix go2 (ps : list (list inl)) : Forall (Forall P) ps :=
                                 match ps with
                                 | [] => Forall_nil _
                                 | p :: r => Forall_cons p
                                     ((fix go (l : list inl) : Forall P l :=
                                         match l with [] => Forall_nil P | x :: r => Forall_cons x (inl_ind' x) (go r) end) p)
                                     (go2 r)
                                 end) ps)
    end.
End InlInd.

Section BlockInd.
  Variable P : block -> Prop.
  Hypothesis Hp : forall st l, P (BPara st l).
  Hypothesis Ht : forall rows, Forall (Forall (Forall P)) rows -> P (BTable rows).
  Hypothesis Hs : forall bs, Forall P bs -> P (BSdt bs).
  Hypothesis Hl : forall items, Forall (Forall P) items -> P (BList items).
  Fixpoint block_ind' (b : block) : P b :=
    let go := fix go (l : list block) : Forall P l :=
      match l with [] => Forall_nil P | x :: r => Forall_cons x (block_ind' x) (go r) end in
    let go2 := fix go2 (l : list (list block)) : Forall (Forall P) l :=
      match l with [] => Forall_nil _ | x :: r => Forall_cons x (go x) (go2 r) end in
    let go3 := fix go3 (l : list (list (list block))) : Forall (Forall (Forall P)) l :=
      match l with [] => Forall_nil _ | x :: r => Forall_cons x (go2 x) (go3 r) end in
    match b with
    | BPara st l => Hp st l
    | BTable rows => Ht rows (go3 rows)
    | BSdt bs => Hs bs (go bs)
    | BList items => Hl items (go2 items)
    end.
End BlockInd.

(* ---------------------------------------------------------------- specification *)
Fixpoint inl_syms (i : inl) : list sym :=
  match i with
  | IRun t => [Leaf t]
  | ITab => [Sep 9]
  | IBreak _ => [Sep 10]
  | IMark | IDel _ | IMovedFrom _ | IComment _ => []
  | IWrap _ l => flat_map inl_syms l
  | IBox _ ps => Sep 10 :: flat_map (fun p => flat_map inl_syms p ++ [Sep 10]) ps
  end.

Definition para_syms (l : list inl) : list sym := flat_map inl_syms l.

Fixpoint blk_syms (b : block) : list sym :=
  match b with
  | BPara _ l => para_syms l ++ [Sep 10]
  | BTable rows => flat_map (flat_map (flat_map blk_syms)) rows
  | BSdt bs => flat_map blk_syms bs
  | BList items => flat_map (flat_map blk_syms) items
  end.

Definition doc_syms (d : doc) : list sym := flat_map blk_syms (body d).
Definition segments (d : doc) : list str := groups (doc_syms d).
Definition visible (d : doc) : list str := leaves (doc_syms d).

Fixpoint inl_excl (i : inl) : list str :=
  match i with
  | IRun _ | ITab | IBreak _ | IMark => []
  | IDel t | IMovedFrom t | IComment t => [t]
  | IWrap _ l => flat_map inl_excl l
  | IBox _ ps => flat_map (flat_map inl_excl) ps
  end.

Fixpoint blk_excl (b : block) : list str :=
  match b with
  | BPara _ l => flat_map inl_excl l
  | BTable rows => flat_map (flat_map (flat_map blk_excl)) rows
  | BSdt bs => flat_map blk_excl bs
  | BList items => flat_map (flat_map blk_excl) items
  end.

Definition excluded (d : doc) : list str := flat_map blk_excl (body d) ++ headers d ++ footers d.

(* comments anchored in the body, in order (rendered into a separate part by DOCX) *)
Fixpoint inl_comments (i : inl) : list str :=
  match i with
  | IComment t => [t]
  | IWrap _ l => flat_map inl_comments l
  | IBox _ ps => flat_map (flat_map inl_comments) ps
  | _ => []
  end.
Fixpoint blk_comments (b : block) : list str :=
  match b with
  | BPara _ l => flat_map inl_comments l
  | BTable rows => flat_map (flat_map (flat_map blk_comments)) rows
  | BSdt bs => flat_map blk_comments bs
  | BList items => flat_map (flat_map blk_comments) items
  end.

(* ---------------------------------------------------------------- well-formed documents *)
Section Wf.
  Variable ws : N -> bool.
  Variable cls_of : N -> N.

  Definition is_vis (c : N) : bool := cls_of c =? 0.

  (* a leaf: non-empty, no whitespace character, every character of the leaf's class *)
  Definition leaf_ok (vis : bool) (t : str) : bool :=
    negb (match t with [] => true | _ => false end) &&
    forallb (fun c => negb (ws c) && Bool.eqb (is_vis c) vis) t.

  Fixpoint inl_wf (i : inl) : bool :=
    match i with
    | IRun t => leaf_ok true t
    | ITab | IBreak _ | IMark => true
    | IDel t | IMovedFrom t | IComment t => leaf_ok false t
    | IWrap _ l => forallb inl_wf l
    | IBox _ ps => forallb (forallb inl_wf) ps
    end.

  Fixpoint blk_wf (b : block) : bool :=
    match b with
    | BPara _ l => forallb inl_wf l
    | BTable rows => forallb (forallb (forallb blk_wf)) rows
    | BSdt bs => forallb blk_wf bs
    | BList items => forallb (forallb blk_wf) items
    end.

  Definition wf_doc (d : doc) : bool :=
    forallb blk_wf (body d) && forallb (leaf_ok false) (headers d) && forallb (leaf_ok false) (footers d).
End Wf.
