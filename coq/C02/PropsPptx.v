(* C02 / PPTX — property theorems about the ordering step (statements only). *)
From Coq Require Import ZArith List Bool Sorted Permutation.
From S2T Require Import Lib.PyStr C02.Pptx.
Import ListNotations.

(* the model of list.sort(key=...) returns a permutation of its input ... *)
Theorem C02_pptx_sort_permutation : forall (A : Type) (l : list (key * A)), Permutation (ssort l) l.
Proof. intros A l. exact (ssort_perm l). Qed.
Print Assumptions C02_pptx_sort_permutation.

(* ... sorted by the (y, x) key ... *)
Theorem C02_pptx_sort_sorted : forall (A : Type) (l : list (key * A)), Sorted le (ssort l).
Proof. intros A l. exact (ssort_sorted l). Qed.
Print Assumptions C02_pptx_sort_sorted.

(* ... in which the elements of any one key keep their input order (stability); together with
   sortedness this determines the result *)
Theorem C02_pptx_sort_stable :
  forall (A : Type) (k : key) (l : list (key * A)), filter (has_key k) (ssort l) = filter (has_key k) l.
Proof. intros A k l. exact (ssort_stable k l). Qed.
Print Assumptions C02_pptx_sort_stable.

(* the items of a slide (text shapes AND tables, group children included) come out sorted by
   position, and items that share a position are emitted in document order *)
Theorem C02_pptx_position_order : forall l : list item, Sorted le (slide_items l).
Proof. exact slide_items_sorted. Qed.
Print Assumptions C02_pptx_position_order.

Theorem C02_pptx_ties_document_order :
  forall (l : list item) (k : key), filter (has_key k) (slide_items l) = filter (has_key k) (keyed l).
Proof. exact slide_items_stable. Qed.
Print Assumptions C02_pptx_ties_document_order.

(* every item is emitted exactly once *)
Theorem C02_pptx_each_item_once : forall l : list item, Permutation (slide_items l) (keyed l).
Proof. exact slide_items_perm. Qed.
Print Assumptions C02_pptx_each_item_once.

(* the code BEFORE fixes/C02-pptx-shapes-document-order.patch collected all p:sp before all
   p:graphicFrame: a table preceding a text shape of the same position was emitted after it *)
Theorem C02_pptx_table_tie_refuted_before_fix : exists l, slide_order_by_kind l <> ideal_order l.
Proof. exact table_tie_refuted_before_fix. Qed.
Print Assumptions C02_pptx_table_tie_refuted_before_fix.
