(* C02 — DOCX property theorems.  Nothing but statements closed by `exact`, each followed by
   Print Assumptions.

   Reading guide.  `ws` is Python's str.isspace on code points and `cls_of` the class tag of a
   character (class 0 = visible body text); both are universally quantified — the theorems need
   only that tab, newline and space are whitespace.  `docx_text ws d` is the model of
   DocxContent.get_full_text() for the package rendered from the abstract document d
   (C02/Model.v; tied to the code by the correspondence run).  `segments d`, `visible d`,
   `excluded d` are the specification (C02/Doc.v).  `supported_docx d` excludes exactly the
   constructs whose refutations follow below. *)
From Coq Require Import ZArith List Bool.
From S2T Require Import Lib.PyStr C02.Lib C02.Xml C02.Doc C02.DocProofs C02.Model C02.Proofs C02.ProofsW C02.Witness.
Import ListNotations.
Open Scope N_scope.

(* separation (and, with it, order and multiplicity): str.split() of the full text is exactly the
   list of segments — leaf texts not separated by a boundary are concatenated, everything separated
   by a boundary is separated by whitespace.  Boundaries (Doc.inl_syms / blk_syms): w:tab; EVERY
   w:br (no type, w:type="page", "column", "textWrapping") and w:cr; paragraph ends; table cells;
   list items; block-level content controls.  NOT a boundary: w:lastRenderedPageBreak (IMark),
   run / hyperlink / w:ins / inline w:sdt / field boundaries. *)
Theorem C02_docx_separated :
  forall (ws : N -> bool) (cls_of : N -> N) (d : doc),
    ws 9 = true -> ws 10 = true -> ws 32 = true ->
    wf_doc ws cls_of d = true -> supported_docx d = true ->
    words ws (docx_text ws d) = segments d.
Proof. intros ws cls_of d H9 H10 H32. exact (docx_words ws cls_of H9 H10 H32 d). Qed.
Print Assumptions C02_docx_separated.

(* the same for the rendering in which table rows / cells are wrapped in row-level / cell-level
   content controls (w:tbl/w:sdt/w:sdtContent/w:tr, w:tr/w:sdt/w:sdtContent/w:tc) or w:customXml,
   for EVERY choice of wrapped positions (masks rm, cm): the wrappers change neither words nor order *)
Theorem C02_docx_separated_wrapped :
  forall (ws : N -> bool) (cls_of : N -> N) (rm cm : list N) (d : doc),
    ws 9 = true -> ws 10 = true -> ws 32 = true ->
    wf_doc ws cls_of d = true -> supported_docx d = true ->
    words ws (full_text_of_document ws (r_document_w rm cm d)) = segments d.
Proof.
  intros ws cls_of rm cm d H9 H10 H32 Hw Hs.
  rewrite (docx_words_w_eq ws rm cm d H10 Hs). exact (docx_words ws cls_of H9 H10 H32 d Hw Hs).
Qed.
Print Assumptions C02_docx_separated_wrapped.

(* fidelity: the non-whitespace characters of the full text are the visible leaves, each once, in
   document order *)
Theorem C02_docx_fidelity :
  forall (ws : N -> bool) (cls_of : N -> N) (d : doc),
    ws 9 = true -> ws 10 = true -> ws 32 = true ->
    wf_doc ws cls_of d = true -> supported_docx d = true ->
    tokchars ws (docx_text ws d) = List.concat (visible d).
Proof.
  intros ws cls_of d H9 H10 H32 Hw Hs.
  exact (fidelity_of_words ws d (docx_text ws d) (docx_words ws cls_of H9 H10 H32 d Hw Hs)).
Qed.
Print Assumptions C02_docx_fidelity.

(* no excluded text: every character of the full text is whitespace or of the visible class ... *)
Theorem C02_docx_no_excluded :
  forall (ws : N -> bool) (cls_of : N -> N) (d : doc),
    ws 9 = true -> ws 10 = true -> ws 32 = true ->
    wf_doc ws cls_of d = true -> supported_docx d = true ->
    forallb (fun c => ws c || is_vis cls_of c) (docx_text ws d) = true.
Proof.
  intros ws cls_of d H9 H10 H32 Hw Hs.
  exact (no_excluded_of_words ws cls_of d (docx_text ws d) Hw (docx_words ws cls_of H9 H10 H32 d Hw Hs)).
Qed.
Print Assumptions C02_docx_no_excluded.

(* ... hence no character of a tracked deletion, comment, header or footer occurs in it *)
Theorem C02_docx_excluded_absent :
  forall (ws : N -> bool) (cls_of : N -> N) (d : doc) (t : str) (c : N),
    ws 9 = true -> ws 10 = true -> ws 32 = true ->
    wf_doc ws cls_of d = true -> supported_docx d = true ->
    In t (excluded d) -> In c t -> ~ In c (docx_text ws d).
Proof.
  intros ws cls_of d t c H9 H10 H32 Hw Hs.
  exact (excluded_absent_of_words ws cls_of d (docx_text ws d) Hw (docx_words ws cls_of H9 H10 H32 d Hw Hs) t c).
Qed.
Print Assumptions C02_docx_excluded_absent.

(* only documented decoration: DOCX documents none for plain text, and indeed every
   non-whitespace character of the full text is a character of a visible leaf *)
Theorem C02_docx_only_documented_decoration :
  forall (ws : N -> bool) (cls_of : N -> N) (d : doc) (c : N),
    ws 9 = true -> ws 10 = true -> ws 32 = true ->
    wf_doc ws cls_of d = true -> supported_docx d = true ->
    In c (docx_text ws d) -> ws c = false -> In c (List.concat (visible d)).
Proof.
  intros ws cls_of d c H9 H10 H32 Hw Hs.
  exact (decoration_of_words ws d (docx_text ws d) (docx_words ws cls_of H9 H10 H32 d Hw Hs) c).
Qed.
Print Assumptions C02_docx_only_documented_decoration.

(* the hypotheses are satisfiable by a rich document (non-vacuity) *)
Example C02_docx_supported_nonvacuous :
  wf_doc ws0 cls0 rich_doc = true /\ supported_docx rich_doc = true /\
  List.length (segments rich_doc) = 22%nat /\ excluded rich_doc <> [].
Proof. exact rich_doc_ok. Qed.
Print Assumptions C02_docx_supported_nonvacuous.

(* ---------------------------------------------------------------- refuted: the full statement
   (without `supported_docx`) is false of the faithful model; one witness per construct *)

(* a table nested in a table cell: its text comes out three times *)
Theorem C02_docx_nested_table_refuted :
  exists d, wf_doc ws0 cls0 d = true /\ tokchars ws0 (docx_text ws0 d) <> List.concat (visible d).
Proof. exact nested_table_refuted. Qed.
Print Assumptions C02_docx_nested_table_refuted.

(* a text box: multiplicity and order hold, but its paragraphs are glued to each other and to
   the host paragraph's text (no whitespace) *)
Theorem C02_docx_textbox_refuted :
  exists d, wf_doc ws0 cls0 d = true /\ tokchars ws0 (docx_text ws0 d) = List.concat (visible d) /\
            words ws0 (docx_text ws0 d) <> segments d.
Proof. exact textbox_refuted. Qed.
Print Assumptions C02_docx_textbox_refuted.

(* a text box anchored in a table cell: its text comes out three times *)
Theorem C02_docx_textbox_in_cell_refuted :
  exists d, wf_doc ws0 cls0 d = true /\ tokchars ws0 (docx_text ws0 d) <> List.concat (visible d).
Proof. exact textbox_in_cell_refuted. Qed.
Print Assumptions C02_docx_textbox_in_cell_refuted.

(* a VML-only text box (w:r/w:pict, no mc:AlternateContent): its text is lost *)
Theorem C02_docx_vml_textbox_refuted :
  exists d, wf_doc ws0 cls0 d = true /\ tokchars ws0 (docx_text ws0 d) <> List.concat (visible d).
Proof. exact vml_textbox_refuted. Qed.
Print Assumptions C02_docx_vml_textbox_refuted.

(* the source position of a tracked move (w:moveFrom, a tracked deletion): its text appears *)
Theorem C02_docx_moved_from_refuted :
  exists d, wf_doc ws0 cls0 d = true /\
            forallb (fun c => ws0 c || is_vis cls0 c) (docx_text ws0 d) = false.
Proof. exact moved_from_refuted. Qed.
Print Assumptions C02_docx_moved_from_refuted.

(* the code BEFORE fixes/C02-docx-tab-break.patch (w:tab, w:br, w:cr ignored): tokens on the two
   sides of a tab or line break were merged *)
Theorem C02_docx_tab_break_refuted_before_fix :
  exists d, wf_doc ws0 cls0 d = true /\ supported_docx d = true /\
            words ws0 (unfixed_docx_text ws0 d) <> segments d.
Proof. exact tab_break_refuted_before_fix. Qed.
Print Assumptions C02_docx_tab_break_refuted_before_fix.

(* the code BEFORE fixes/C02-docx-block-level-sdt.patch (`for element in body`): the paragraphs of a
   block-level content control (w:body/w:sdt/w:sdtContent/w:p) were lost *)
Theorem C02_docx_body_sdt_refuted_before_fix :
  exists d, wf_doc ws0 cls0 d = true /\ supported_docx d = true /\
            tokchars ws0 (docx_text_direct ws0 d) <> List.concat (visible d).
Proof. exact body_sdt_refuted_before_fix. Qed.
Print Assumptions C02_docx_body_sdt_refuted_before_fix.
