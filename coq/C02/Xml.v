(* C02 — abstract XML trees (what xml.etree.ElementTree hands to the walkers), the tag vocabulary of
   the modelled formats, the ElementTree navigation forms the walkers use (iteration over children,
   Element.iter(tag), Element.find(tag), Element.findall(tag)), and the serialiser that turns a tree
   rendered in Coq into the text the harness puts into a real package (one source of truth). *)
From Coq Require Import ZArith List Bool Lia ZifyBool DecimalString.
From S2T Require Import Lib.PyStr.
Import ListNotations.
Open Scope N_scope.

Inductive tag :=
(* WordprocessingML *)
| W_document | W_body | W_sectPr
| W_p | W_pPr | W_pStyle | W_numPr | W_r | W_rPr | W_t | W_tab | W_br | W_cr
| W_hyperlink | W_ins | W_del | W_delText | W_moveFrom | W_moveTo
| W_sdt | W_sdtPr | W_sdtContent | W_smartTag | W_customXml | W_fldSimple
| W_tbl | W_tblPr | W_tr | W_tc | W_tcPr
| W_commentReference | W_commentRangeStart | W_footnoteReference
| W_pict | W_drawing | W_txbxContent | W_lastRenderedPageBreak
| W_comments | W_comment | W_hdr | W_ftr | W_footnotes | W_footnote
| MC_AlternateContent | MC_Choice | MC_Fallback
| WPS_wsp | WPS_txbx | WP_anchor | A_graphic | A_graphicData | V_shape | V_textbox
(* DrawingML text (PresentationML shapes) *)
| A_p | A_r | A_t | A_br | A_fld | A_pPr | A_rPr | A_endParaRPr | A_bodyPr | P_txBody
(* OpenDocument *)
| O_document_content | O_body | O_text | O_annotation | O_annotation_end
| T_p | T_h | T_span | T_a | T_s | T_tab | T_line_break
| T_list | T_list_item | T_list_header | T_section
| T_note | T_note_citation | T_note_body
| T_tracked_changes | T_changed_region | T_deletion | T_insertion | T_change_start | T_change_end | T_change
| T_soft_page_break | T_bookmark | T_sequence_decls
| TB_table | TB_column | TB_row | TB_cell | TB_covered_cell | TB_header_rows
| D_frame | D_text_box | D_g | D_page | PR_notes | O_presentation
| DC_creator | DC_date
(* anything else (foreign namespace) *)
| X_other (n : N).

(* (prefix, namespace URI, local name) *)
Definition ns_w := s "http://schemas.openxmlformats.org/wordprocessingml/2006/main".
Definition ns_mc := s "http://schemas.openxmlformats.org/markup-compatibility/2006".
Definition ns_wps := s "http://schemas.microsoft.com/office/word/2010/wordprocessingShape".
Definition ns_wp := s "http://schemas.openxmlformats.org/drawingml/2006/wordprocessingDrawing".
Definition ns_a := s "http://schemas.openxmlformats.org/drawingml/2006/main".
Definition ns_v := s "urn:schemas-microsoft-com:vml".
Definition ns_office := s "urn:oasis:names:tc:opendocument:xmlns:office:1.0".
Definition ns_text := s "urn:oasis:names:tc:opendocument:xmlns:text:1.0".
Definition ns_table := s "urn:oasis:names:tc:opendocument:xmlns:table:1.0".
Definition ns_draw := s "urn:oasis:names:tc:opendocument:xmlns:drawing:1.0".
Definition ns_dc := s "http://purl.org/dc/elements/1.1/".
Definition ns_presentation := s "urn:oasis:names:tc:opendocument:xmlns:presentation:1.0".
Definition ns_svg := s "urn:oasis:names:tc:opendocument:xmlns:svg-compatible:1.0".
Definition ns_p := s "http://schemas.openxmlformats.org/presentationml/2006/main".
Definition ns_x := s "urn:x-verif:other".

Definition prefixes : list (str * str) :=
  [ (s "w", ns_w); (s "mc", ns_mc); (s "wps", ns_wps); (s "wp", ns_wp); (s "a", ns_a); (s "v", ns_v);
    (s "office", ns_office); (s "text", ns_text); (s "table", ns_table); (s "draw", ns_draw);
    (s "dc", ns_dc); (s "presentation", ns_presentation); (s "svg", ns_svg); (s "p", ns_p); (s "x", ns_x) ].

Definition dec (n : N) : str := s (NilZero.string_of_uint (N.to_uint n)).

Definition tag_parts (t : tag) : str * str :=
  match t with
  | W_document => (s "w", s "document") | W_body => (s "w", s "body") | W_sectPr => (s "w", s "sectPr")
  | W_p => (s "w", s "p") | W_pPr => (s "w", s "pPr") | W_pStyle => (s "w", s "pStyle")
  | W_numPr => (s "w", s "numPr") | W_r => (s "w", s "r") | W_rPr => (s "w", s "rPr")
  | W_t => (s "w", s "t") | W_tab => (s "w", s "tab") | W_br => (s "w", s "br") | W_cr => (s "w", s "cr")
  | W_hyperlink => (s "w", s "hyperlink") | W_ins => (s "w", s "ins") | W_del => (s "w", s "del")
  | W_delText => (s "w", s "delText") | W_moveFrom => (s "w", s "moveFrom") | W_moveTo => (s "w", s "moveTo")
  | W_sdt => (s "w", s "sdt") | W_sdtPr => (s "w", s "sdtPr") | W_sdtContent => (s "w", s "sdtContent")
  | W_smartTag => (s "w", s "smartTag") | W_customXml => (s "w", s "customXml")
  | W_fldSimple => (s "w", s "fldSimple")
  | W_tbl => (s "w", s "tbl") | W_tblPr => (s "w", s "tblPr") | W_tr => (s "w", s "tr")
  | W_tc => (s "w", s "tc") | W_tcPr => (s "w", s "tcPr")
  | W_commentReference => (s "w", s "commentReference")
  | W_commentRangeStart => (s "w", s "commentRangeStart")
  | W_footnoteReference => (s "w", s "footnoteReference")
  | W_lastRenderedPageBreak => (s "w", s "lastRenderedPageBreak")
  | W_pict => (s "w", s "pict") | W_drawing => (s "w", s "drawing") | W_txbxContent => (s "w", s "txbxContent")
  | W_comments => (s "w", s "comments") | W_comment => (s "w", s "comment")
  | W_hdr => (s "w", s "hdr") | W_ftr => (s "w", s "ftr")
  | W_footnotes => (s "w", s "footnotes") | W_footnote => (s "w", s "footnote")
  | MC_AlternateContent => (s "mc", s "AlternateContent") | MC_Choice => (s "mc", s "Choice")
  | MC_Fallback => (s "mc", s "Fallback")
  | WPS_wsp => (s "wps", s "wsp") | WPS_txbx => (s "wps", s "txbx") | WP_anchor => (s "wp", s "anchor")
  | A_graphic => (s "a", s "graphic") | A_graphicData => (s "a", s "graphicData")
  | V_shape => (s "v", s "shape") | V_textbox => (s "v", s "textbox")
  | A_p => (s "a", s "p") | A_r => (s "a", s "r") | A_t => (s "a", s "t") | A_br => (s "a", s "br")
  | A_fld => (s "a", s "fld") | A_pPr => (s "a", s "pPr") | A_rPr => (s "a", s "rPr")
  | A_endParaRPr => (s "a", s "endParaRPr") | A_bodyPr => (s "a", s "bodyPr") | P_txBody => (s "p", s "txBody")
  | O_document_content => (s "office", s "document-content") | O_body => (s "office", s "body")
  | O_text => (s "office", s "text") | O_annotation => (s "office", s "annotation")
  | O_annotation_end => (s "office", s "annotation-end")
  | T_p => (s "text", s "p") | T_h => (s "text", s "h") | T_span => (s "text", s "span")
  | T_a => (s "text", s "a") | T_s => (s "text", s "s") | T_tab => (s "text", s "tab")
  | T_line_break => (s "text", s "line-break")
  | T_list => (s "text", s "list") | T_list_item => (s "text", s "list-item")
  | T_list_header => (s "text", s "list-header") | T_section => (s "text", s "section")
  | T_note => (s "text", s "note") | T_note_citation => (s "text", s "note-citation")
  | T_note_body => (s "text", s "note-body")
  | T_tracked_changes => (s "text", s "tracked-changes") | T_changed_region => (s "text", s "changed-region")
  | T_deletion => (s "text", s "deletion") | T_insertion => (s "text", s "insertion")
  | T_change_start => (s "text", s "change-start") | T_change_end => (s "text", s "change-end")
  | T_change => (s "text", s "change")
  | T_soft_page_break => (s "text", s "soft-page-break") | T_bookmark => (s "text", s "bookmark")
  | T_sequence_decls => (s "text", s "sequence-decls")
  | TB_table => (s "table", s "table") | TB_column => (s "table", s "table-column")
  | TB_row => (s "table", s "table-row") | TB_cell => (s "table", s "table-cell")
  | TB_covered_cell => (s "table", s "covered-table-cell")
  | TB_header_rows => (s "table", s "table-header-rows")
  | D_frame => (s "draw", s "frame") | D_text_box => (s "draw", s "text-box")
  | D_g => (s "draw", s "g") | D_page => (s "draw", s "page")
  | PR_notes => (s "presentation", s "notes") | O_presentation => (s "office", s "presentation")
  | DC_creator => (s "dc", s "creator") | DC_date => (s "dc", s "date")
  | X_other n => (s "x", s "o" ++ dec n)
  end.

Definition ns_of (p : str) : str := match assoc p prefixes with Some u => u | None => [] end.

(* ElementTree's qualified name  "{uri}local" *)
Definition qname (t : tag) : str :=
  let '(p, l) := tag_parts t in s "{" ++ ns_of p ++ s "}" ++ l.

(* Element(tag, attrib, text, children, tail); text/tail = [] stands for None or "" (the walkers only
   test truthiness) *)
Inductive xml := Elem (t : tag) (attrs : list (str * str)) (text : str) (children : list xml) (tail : str).

Definition xtag (e : xml) : tag := match e with Elem t _ _ _ _ => t end.
Definition xattrs (e : xml) := match e with Elem _ a _ _ _ => a end.
Definition xtext (e : xml) : str := match e with Elem _ _ x _ _ => x end.
Definition xkids (e : xml) : list xml := match e with Elem _ _ _ c _ => c end.
Definition xtail (e : xml) : str := match e with Elem _ _ _ _ x => x end.

(* element with only children *)
Definition el (t : tag) (c : list xml) : xml := Elem t [] [] c [].

(* hand-written induction principle for the nested inductive *)
Section XmlInd.
  Variable P : xml -> Prop.
  Hypothesis H : forall t a x c l, Forall P c -> P (Elem t a x c l).
  Fixpoint xml_ind' (e : xml) : P e :=
    match e with
    | Elem t a x c l =>
        H t a x c l ((fix go (c : list xml) : Forall P c :=
                        match c with
                        | [] => Forall_nil P
                        | y :: r => Forall_cons y (xml_ind' y) (go r)
                        end) c)
    end.
End XmlInd.

(* Element.iter(tag): the element itself and all descendants with that tag, document order *)
Fixpoint iter (f : tag -> bool) (e : xml) : list xml :=
  match e with
  | Elem t _ _ c _ => (if f t then [e] else []) ++ flat_map (iter f) c
  end.

(* Element.findall(tag): direct children with that tag *)
Definition findall (f : tag -> bool) (e : xml) : list xml := filter (fun c => f (xtag c)) (xkids e).

(* Element.find(tag): first direct child with that tag *)
Definition find (f : tag -> bool) (e : xml) : option xml :=
  match findall f e with [] => None | x :: _ => Some x end.

(* ---------------------------------------------------------------- serialiser (harness only) *)
Definition esc_char (c : N) : str :=
  if (c <? 32) || (126 <? c) || (c =? 38) || (c =? 60) || (c =? 62) || (c =? 34)
  then s "&#" ++ dec c ++ s ";" else [c].
Definition esc (x : str) : str := flat_map esc_char x.

Definition tag_name (t : tag) : str := let '(p, l) := tag_parts t in p ++ s ":" ++ l.

Definition ser_attr (a : str * str) : str := s " " ++ fst a ++ s "=""" ++ esc (snd a) ++ s """".

Fixpoint ser (e : xml) : str :=
  match e with
  | Elem t a x c l =>
      s "<" ++ tag_name t ++ flat_map ser_attr a ++ s ">" ++ esc x ++ flat_map ser c ++
      s "</" ++ tag_name t ++ s ">" ++ esc l
  end.

Definition xmlns_decls : str :=
  flat_map (fun pu => s " xmlns:" ++ fst pu ++ s "=""" ++ snd pu ++ s """") prefixes.

(* root element gets the namespace declarations *)
Definition ser_root (e : xml) : str :=
  match e with
  | Elem t a x c l =>
      s "<" ++ tag_name t ++ xmlns_decls ++ flat_map ser_attr a ++ s ">" ++ esc x ++ flat_map ser c ++
      s "</" ++ tag_name t ++ s ">"
  end.

Fixpoint to_string (x : str) : string :=
  match x with
  | [] => EmptyString
  | c :: r => String (ascii_of_N c) (to_string r)
  end.
