(* C02 / PPTX — property theorems about the paragraph text of a shape / table cell (statements only). *)
From Coq Require Import ZArith List Bool.
From S2T Require Import Lib.PyStr C02.Lib C02.Xml C02.PptxText.
Import ListNotations.
Open Scope N_scope.

(* _extract_text_from_paragraphs on a rendered text body: its words are exactly the segments — runs,
   fields and bare a:t of a paragraph concatenated, a:br and the paragraph end are boundaries *)
Theorem C02_pptx_paragraphs_separated :
  forall (ws : N -> bool) (ps : list (list ainl)),
    ws 10 = true -> ws 11 = true -> txbody_wf ws ps = true ->
    words ws (a_text (r_txbody ps)) = txbody_segments ps.
Proof. intros ws ps H10 H11. exact (txbody_words ws H10 H11 ps). Qed.
Print Assumptions C02_pptx_paragraphs_separated.

(* multiplicity and order: the non-whitespace characters are the visible leaves, once, in order;
   nothing else appears *)
Theorem C02_pptx_paragraphs_fidelity :
  forall (ws : N -> bool) (ps : list (list ainl)),
    ws 10 = true -> ws 11 = true -> txbody_wf ws ps = true ->
    tokchars ws (a_text (r_txbody ps)) = List.concat (txbody_visible ps).
Proof. intros ws ps H10 H11. exact (txbody_tokens ws H10 H11 ps). Qed.
Print Assumptions C02_pptx_paragraphs_fidelity.

(* if a:br contributed nothing the words on both sides would be merged *)
Theorem C02_pptx_line_break_needed :
  exists ps, txbody_wf (fun c => c <=? 32) ps = true /\
             words (fun c => c <=? 32) (a_text_nobr (r_txbody ps)) <> txbody_segments ps.
Proof. exact nobr_refuted. Qed.
Print Assumptions C02_pptx_line_break_needed.
