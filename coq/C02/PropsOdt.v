(* C02 — OpenDocument Text property theorems.  Nothing but statements closed by `exact`, each
   followed by Print Assumptions.

   Reading guide.  `ws` is Python's str.isspace on code points and `cls_of` the class tag of a
   character (class 0 = visible body text); both are universally quantified — the theorems need only
   that tab and newline are whitespace.  `odt_text ws d` is the model of
   next(read_odt(pkg)).get_full_text() for the package rendered from the abstract document d
   (C02/OdtModel.v: render_odt, etext = _append_element_text, walk = _append_full_text_from_element
   as repaired by fixes/C02-odt-full-text-walk.patch; tied to the code by Gen/C02Odt.v + C02/InstOdt.v
   and by the correspondence run).  `segments d`, `visible d`, `excluded d` are the specification
   (C02/Doc.v).  `supported_odt d` excludes exactly the text box anchored in a paragraph, whose
   refutation follows.  `odt_text_asis` is the walker before the repair; its refutations are kept. *)
From Coq Require Import ZArith List Bool.
From S2T Require Import Lib.PyStr C02.Lib C02.Xml C02.Doc C02.DocProofs C02.OdtModel C02.OdtProofs.
Import ListNotations.
Open Scope N_scope.

(* separation (and with it order and multiplicity): str.split() of the full text is exactly the list
   of segments — leaf texts not separated by a tab / line-break / paragraph / cell / item boundary are
   concatenated, everything separated by such a boundary is separated by whitespace; holds for
   tables in tables, lists in lists, headings in cells and list items, sections, tracked changes *)
Theorem C02_odt_separated :
  forall (ws : N -> bool) (cls_of : N -> N) (d : doc),
    ws 9 = true -> ws 10 = true ->
    wf_doc ws cls_of d = true -> supported_odt d = true ->
    words ws (odt_text ws d) = segments d.
Proof. intros ws cls_of d H9 H10. exact (odt_separated ws cls_of H9 H10 d). Qed.
Print Assumptions C02_odt_separated.

(* fidelity: the non-whitespace characters of the full text are the visible leaves, each once, in
   document order *)
Theorem C02_odt_fidelity :
  forall (ws : N -> bool) (cls_of : N -> N) (d : doc),
    ws 9 = true -> ws 10 = true ->
    wf_doc ws cls_of d = true -> supported_odt d = true ->
    tokchars ws (odt_text ws d) = List.concat (visible d).
Proof. intros ws cls_of d H9 H10. exact (odt_fidelity ws cls_of H9 H10 d). Qed.
Print Assumptions C02_odt_fidelity.

(* no excluded text: every character of the full text is whitespace or of the visible class ... *)
Theorem C02_odt_no_excluded :
  forall (ws : N -> bool) (cls_of : N -> N) (d : doc),
    ws 9 = true -> ws 10 = true ->
    wf_doc ws cls_of d = true -> supported_odt d = true ->
    forallb (fun c => ws c || (cls_of c =? 0)) (odt_text ws d) = true.
Proof. intros ws cls_of d H9 H10. exact (odt_no_excluded ws cls_of H9 H10 d). Qed.
Print Assumptions C02_odt_no_excluded.

(* ... hence no character of a tracked deletion, annotation, header or footer occurs in it *)
Theorem C02_odt_excluded_absent :
  forall (ws : N -> bool) (cls_of : N -> N) (d : doc) (t : str) (c : N),
    ws 9 = true -> ws 10 = true ->
    wf_doc ws cls_of d = true -> supported_odt d = true ->
    In t (excluded d) -> In c t -> ~ In c (odt_text ws d).
Proof. intros ws cls_of d t c H9 H10. exact (odt_excluded_absent ws cls_of H9 H10 d t c). Qed.
Print Assumptions C02_odt_excluded_absent.

(* nothing else appears: every non-whitespace character of the output is a character of a visible leaf *)
Theorem C02_odt_only_documented_decoration :
  forall (ws : N -> bool) (cls_of : N -> N) (d : doc) (c : N),
    ws 9 = true -> ws 10 = true ->
    wf_doc ws cls_of d = true -> supported_odt d = true ->
    In c (odt_text ws d) -> ws c = false -> In c (List.concat (visible d)).
Proof. intros ws cls_of d c H9 H10. exact (odt_only_documented_decoration ws cls_of H9 H10 d c). Qed.
Print Assumptions C02_odt_only_documented_decoration.

(* read_odt's body lookup finds the rendered office:text (the `None => []` default of odt_text is
   never taken) *)
Theorem C02_odt_body_found : forall d, body_of (content_xml d) = Some (r_body d).
Proof. exact body_of_content. Qed.
Print Assumptions C02_odt_body_found.

(* the hypotheses are satisfiable by a rich document: heading, link, tab, break, tracked insertion and
   deletion, annotation, spans, multi-level list paragraph, table in table, heading in a cell, list in
   list in a cell, nested sections, heading and table in list items, header and footer *)
Example C02_odt_supported_nonvacuous :
  wf_doc o_ws0 o_cls0 odt_rich_doc = true /\ supported_odt odt_rich_doc = true /\
  List.length (segments odt_rich_doc) = 15%nat /\ List.length (excluded odt_rich_doc) = 5%nat /\
  nodup N.eq_dec (odt_kinds odt_rich_doc) = [1; 3; 4; 5] /\
  words o_ws0 (odt_text o_ws0 odt_rich_doc) = segments odt_rich_doc.
Proof. exact odt_rich_doc_ok. Qed.
Print Assumptions C02_odt_supported_nonvacuous.

(* ---------------------------------------------------------------- refuted (open finding): a text box
   anchored in a paragraph (draw:frame/draw:text-box/text:p inside text:p): multiplicity and order
   hold, but its paragraphs are glued to each other and to the host paragraph's text *)
Theorem C02_odt_text_box_refuted :
  exists d, wf_doc o_ws0 o_cls0 d = true /\
            tokchars o_ws0 (odt_text o_ws0 d) = List.concat (visible d) /\
            words o_ws0 (odt_text o_ws0 d) <> segments d.
Proof. exact odt_text_box_refuted. Qed.
Print Assumptions C02_odt_text_box_refuted.

(* ---------------------------------------------------------------- the walker before the repair
   (findings repaired by fixes/C02-odt-full-text-walk.patch) *)
(* deleted text kept in text:tracked-changes is emitted *)
Theorem C02_odt_asis_deletion_refuted :
  exists d, wf_doc o_ws0 o_cls0 d = true /\
            forallb (fun c => o_ws0 c || (o_cls0 c =? 0)) (odt_text_asis o_ws0 d) = false.
Proof. exact odt_asis_deletion_refuted. Qed.
Print Assumptions C02_odt_asis_deletion_refuted.

(* a table in a table cell: its text comes out twice, the second time after the outer row *)
Theorem C02_odt_asis_nested_table_refuted :
  exists d, wf_doc o_ws0 o_cls0 d = true /\
            tokchars o_ws0 (odt_text_asis o_ws0 d) <> List.concat (visible d).
Proof. exact odt_asis_nested_table_refuted. Qed.
Print Assumptions C02_odt_asis_nested_table_refuted.

(* a second-level list paragraph (text:list nested in text:list-item): emitted once per enclosing item *)
Theorem C02_odt_asis_nested_list_refuted :
  exists d, wf_doc o_ws0 o_cls0 d = true /\
            tokchars o_ws0 (odt_text_asis o_ws0 d) <> List.concat (visible d).
Proof. exact odt_asis_nested_list_refuted. Qed.
Print Assumptions C02_odt_asis_nested_list_refuted.

(* a heading inside a list item (numbered heading) is lost *)
Theorem C02_odt_asis_heading_in_list_refuted :
  exists d, wf_doc o_ws0 o_cls0 d = true /\
            tokchars o_ws0 (odt_text_asis o_ws0 d) <> List.concat (visible d).
Proof. exact odt_asis_heading_in_list_refuted. Qed.
Print Assumptions C02_odt_asis_heading_in_list_refuted.

(* an annotation anchored in a paragraph of a list item or table cell: its text:p is emitted *)
Theorem C02_odt_asis_annotation_in_list_refuted :
  exists d, wf_doc o_ws0 o_cls0 d = true /\
            forallb (fun c => o_ws0 c || (o_cls0 c =? 0)) (odt_text_asis o_ws0 d) = false.
Proof. exact odt_asis_annotation_in_list_refuted. Qed.
Print Assumptions C02_odt_asis_annotation_in_list_refuted.
