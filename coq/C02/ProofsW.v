(* C02 — DOCX: the rendering variant with row-level / cell-level wrappers (w:sdt, w:customXml around
   w:tr and w:tc) yields the same main text as the plain rendering, hence the same theorems. *)
From Coq Require Import ZArith List Bool Lia ZifyBool.
From S2T Require Import Lib.PyStr C02.Lib C02.Xml C02.Doc C02.DocProofs C02.Model C02.Proofs.
Import ListNotations.
Open Scope N_scope.

Lemma iter_sdt_wrap f x : blockf f -> iter f (sdt_wrap x) = iter f x.
Proof. intros [-> | [-> | ->]]; unfold sdt_wrap, el; simpl; rewrite !app_nil_r; reflexivity. Qed.

Lemma iter_cx_wrap f x : blockf f -> iter f (cx_wrap x) = iter f x.
Proof. intros [-> | [-> | ->]]; unfold cx_wrap, el; simpl; rewrite !app_nil_r; reflexivity. Qed.

Lemma iter_wrap_by f m l : blockf f -> flat_map (iter f) (wrap_by m l) = flat_map (iter f) l.
Proof.
  intro Hf. revert m. induction l as [|x l IH]; intro m; [destruct m; reflexivity|].
  destruct m as [|k m]; [reflexivity|]. simpl. rewrite IH.
  destruct (k =? 1); [rewrite iter_sdt_wrap by exact Hf; reflexivity|].
  destruct (k =? 2); [rewrite iter_cx_wrap by exact Hf; reflexivity | reflexivity].
Qed.

(* inside a supported cell there is no table, so the variant renders the cell's blocks as before *)
Lemma r_block_w_cell rm cm b : cell_blk_sup b = true -> r_block_w rm cm b = r_block b.
Proof.
  induction b as [st l | rows IH | bs IH | items IH] using block_ind'; intro H; [reflexivity | discriminate H | |].
  - simpl in H.
    assert (E : flat_map (r_block_w rm cm) bs = flat_map r_block bs).
    { induction IH as [|b bs Hb _ IHbs]; [reflexivity|]. simpl in H. apply andb_true_iff in H as [H1 H2].
      simpl. rewrite Hb, IHbs by assumption. reflexivity. }
    simpl. rewrite E. reflexivity.
  - simpl in *. induction IH as [|it items Hit _ IHitems]; [reflexivity|].
    simpl in H. apply andb_true_iff in H as [H1 H2]. simpl. rewrite IHitems by exact H2. f_equal.
    clear IHitems H2. induction Hit as [|b bs Hb _ IHbs]; [reflexivity|].
    simpl in H1. apply andb_true_iff in H1 as [A B]. simpl. rewrite Hb, IHbs by assumption. reflexivity.
Qed.

Lemma r_cells_w rm cm cell :
  forallb cell_blk_sup cell = true -> flat_map (r_block_w rm cm) cell = flat_map r_block cell.
Proof.
  induction cell as [|b cell IH]; intro H; [reflexivity|].
  simpl in H. apply andb_true_iff in H as [H1 H2]. simpl. rewrite r_block_w_cell, IH by assumption. reflexivity.
Qed.

Definition r_row_w (cm : list N) (row : list (list block)) : xml := el W_tr (wrap_by cm (map r_cell row)).
Definition r_tbl_w (rm cm : list N) (rows : list (list (list block))) : xml :=
  el W_tbl (el W_tblPr [] :: wrap_by rm (map (r_row_w cm) rows)).

Lemma r_block_w_table rm cm rows :
  forallb (forallb (forallb cell_blk_sup)) rows = true -> r_block_w rm cm (BTable rows) = [r_tbl_w rm cm rows].
Proof.
  intro H. simpl. unfold r_tbl_w. do 4 f_equal.
  induction rows as [|row rows IH]; [reflexivity|].
  simpl in H. apply andb_true_iff in H as [H1 H2]. simpl. rewrite IH by exact H2. f_equal.
  unfold r_row_w. do 2 f_equal. clear IH H2.
  induction row as [|c row IH]; [reflexivity|].
  simpl in H1. apply andb_true_iff in H1 as [A B]. simpl. rewrite IH by exact B. f_equal.
  unfold r_cell. rewrite r_cells_w by exact A. reflexivity.
Qed.

Lemma iter_tc_r_row_w cm row :
  forallb (forallb cell_blk_sup) row = true -> iter is_tc (r_row_w cm row) = map r_cell row.
Proof.
  intro H. unfold r_row_w. rewrite iter_el_no by reflexivity.
  rewrite iter_wrap_by by (right; right; reflexivity).
  pose proof (iter_tc_r_row row H) as E. unfold r_row in E. rewrite iter_el_no in E by reflexivity. exact E.
Qed.

Lemma iter_tr_r_row_w cm row :
  forallb (forallb cell_blk_sup) row = true -> iter is_tr (r_row_w cm row) = [r_row_w cm row].
Proof.
  intro H. unfold r_row_w at 1. rewrite iter_el_yes by reflexivity. fold (r_row_w cm row). f_equal.
  rewrite iter_wrap_by by (right; left; reflexivity).
  rewrite flat_map_map'. apply flat_map_nil_in. intros c Hc.
  apply iter_tr_r_cell; exact (forallb_In _ _ _ H Hc).
Qed.

Lemma iter_tr_r_tbl_w rm cm rows :
  forallb (forallb (forallb cell_blk_sup)) rows = true -> iter is_tr (r_tbl_w rm cm rows) = map (r_row_w cm) rows.
Proof.
  intro H. unfold r_tbl_w. rewrite iter_el_no by reflexivity. cbn [flat_map].
  change (iter is_tr (el W_tblPr [])) with (@nil xml). cbn [app].
  rewrite iter_wrap_by by (right; left; reflexivity). rewrite flat_map_map'.
  rewrite (flat_map_ext_in' _ (fun r => [r_row_w cm r]))
    by (intros r Hr; apply iter_tr_r_row_w; exact (forallb_In _ _ _ H Hr)).
  apply flat_map_singleton.
Qed.

Section W.
  Variable ws : N -> bool.

  Lemma table_text_w rm cm rows :
    forallb (forallb (forallb cell_blk_sup)) rows = true ->
    table_text ws (r_tbl_w rm cm rows) = table_text ws (r_tbl rows).
  Proof.
    intro H. unfold table_text. rewrite iter_tr_r_tbl_w, iter_tr_r_tbl by exact H.
    rewrite !flat_map_map'. apply flat_map_ext_in'. intros r Hr.
    rewrite iter_tc_r_row_w, iter_tc_r_row by exact (forallb_In _ _ _ H Hr). reflexivity.
  Qed.

  Lemma bw_tbl_w rm cm rows :
    forallb (forallb (forallb cell_blk_sup)) rows = true -> bw ws [r_tbl_w rm cm rows] = bw ws [r_tbl rows].
  Proof.
    intro H. unfold bw.
    change (flat_map block_elements [r_tbl_w rm cm rows]) with [r_tbl_w rm cm rows].
    change (flat_map block_elements [r_tbl rows]) with [r_tbl rows].
    cbn [flat_map]. unfold body_elem_text.
    change (xtag (r_tbl_w rm cm rows)) with W_tbl. change (xtag (r_tbl rows)) with W_tbl. cbv iota.
    rewrite table_text_w by exact H. reflexivity.
  Qed.

  Lemma bw_blocks_w rm cm bs :
    Forall (fun b => blk_sup b = true -> bw ws (r_block_w rm cm b) = bw ws (r_block b)) bs ->
    forallb blk_sup bs = true ->
    bw ws (flat_map (r_block_w rm cm) bs) = bw ws (flat_map r_block bs).
  Proof.
    induction 1 as [|b bs Hb _ IH]; intro H; [reflexivity|].
    simpl in H. apply andb_true_iff in H as [H1 H2]. simpl. rewrite !bw_app, Hb, IH by assumption. reflexivity.
  Qed.

  Lemma bw_block_w rm cm b : blk_sup b = true -> bw ws (r_block_w rm cm b) = bw ws (r_block b).
  Proof.
    induction b as [st l | rows IH | bs IH | items IH] using block_ind'; intro H.
    - reflexivity.
    - simpl in H. rewrite r_block_w_table, r_block_table by exact H. apply bw_tbl_w; exact H.
    - simpl in H. simpl r_block_w. simpl r_block. rewrite !bw_sdt. apply bw_blocks_w; assumption.
    - simpl in H. simpl r_block_w. simpl r_block.
      induction IH as [|it items Hit _ IHitems]; [reflexivity|].
      simpl in H. apply andb_true_iff in H as [H1 H2]. simpl. rewrite !bw_app, IHitems by exact H2.
      rewrite (bw_blocks_w rm cm it Hit H1). reflexivity.
  Qed.

  (* the wrapped rendering has the same words as the plain rendering *)
  Theorem docx_words_w_eq rm cm d :
    ws 10 = true -> supported_docx d = true ->
    words ws (full_text_of_document ws (r_document_w rm cm d)) = words ws (docx_text ws d).
  Proof.
    intros E10 Hs.
    change (full_text_of_document ws (r_document_w rm cm d))
      with (full_text_of_body ws (el W_body (flat_map (r_block_w rm cm) (body d) ++ [el W_sectPr []]))).
    change (docx_text ws d) with (full_text_of_body ws (r_body d)).
    unfold full_text_of_body. rewrite !words_join by exact E10.
    change (xkids (el W_body (flat_map (r_block_w rm cm) (body d) ++ [el W_sectPr []])))
      with (flat_map (r_block_w rm cm) (body d) ++ [el W_sectPr []]).
    change (xkids (r_body d)) with (flat_map r_block (body d) ++ [el W_sectPr []]).
    fold (bw ws (flat_map (r_block_w rm cm) (body d) ++ [el W_sectPr []])).
    fold (bw ws (flat_map r_block (body d) ++ [el W_sectPr []])).
    rewrite !bw_app. f_equal. apply bw_blocks_w; [|exact Hs].
    apply Forall_forall. intros b _. apply bw_block_w.
  Qed.
End W.
