(* C02 / RTF — boolean case checkers for the differential correspondence. *)
From Coq Require Import ZArith List Bool.
From S2T Require Import Lib.PyStr C02.Lib C02.RtfModel.
Import ListNotations.
Open Scope N_scope.

(* structured stream: document, get_full_text() of the implementation on the rendered bytes *)
Definition corr_doc (T : tables) (ws : N -> bool) (c : rdoc * str) : bool :=
  str_eqb (full_text_of T ws (render_rtf (fst c))) (snd c).

(* malformed stream: text, _strip_rtf_full_with_pages(text), "\n".join(paragraphs) after
   _extract_body_text(text) *)
Definition corr_mal (T : tables) (ws : N -> bool) (c : str * str * str) : bool :=
  let '(x, stripped, body) := c in
  str_eqb (strip_full T x) stripped && str_eqb (body_full_text T ws x) body.

(* what the first pass prints per document *)
Definition describe (T : tables) (ws : N -> bool) (d : rdoc) :=
  (render_rtf d, (wf_rdoc T ws d, supported_rtf T d, pre_ok d && supported_rtf T (prune d)), segments T d).
