(* C02 / ODT — boolean case checkers and printers for the differential correspondence. *)
From Coq Require Import ZArith List Bool.
From S2T Require Import Lib.PyStr C02.Lib C02.Xml C02.Doc C02.OdtModel.
Import ListNotations.
Open Scope N_scope.

Definition o_ws_tbl (tbl : list N) (c : N) : bool := existsb (N.eqb c) tbl.

(* ser_root with a placeholder for the (constant, long) namespace declarations: printing is the
   expensive part of the first pass; the harness substitutes `to_string xmlns_decls`, printed once *)
Definition ser_root_short (e : xml) : str :=
  match e with
  | Elem t a x c l =>
      s "<" ++ tag_name t ++ s " @NS@" ++ flat_map ser_attr a ++ s ">" ++ esc x ++ flat_map ser c ++
      s "</" ++ tag_name t ++ s ">"
  end.
Definition odt_ns_line : string := to_string xmlns_decls.

(* rendered abstract document: model(render d) = what read_odt(...).get_full_text() returned *)
Definition odt_corr_doc (tbl : list N) (c : doc * str) : bool :=
  str_eqb (odt_text (o_ws_tbl tbl) (fst c)) (snd c).

(* the same against the walker before the repair (diagnostic only) *)
Definition odt_corr_doc_asis (tbl : list N) (c : doc * str) : bool :=
  str_eqb (odt_text_asis (o_ws_tbl tbl) (fst c)) (snd c).

(* arbitrary tree handed to _extract_full_text: the harness generated the tree and serialised it
   itself; the first conjunct re-checks that what it parsed is this tree's serialisation *)
Definition odt_corr_tree (tbl : list N) (c : xml * str * str) : bool :=
  let '(e, xmltext, out) := c in
  str_eqb (ser_root_short e) xmltext && str_eqb (odt_full_text (o_ws_tbl tbl) e) out.
Definition odt_ser_ok (c : xml * str * str) : bool :=
  let '(e, xmltext, _) := c in str_eqb (ser_root_short e) xmltext.

(* ---- printers (first pass): one printable-ASCII line per case
        <content.xml> US <supported 0/1> US <kinds, comma separated> US <segments: code points
        comma separated, segments separated by ';'>     (US = "|" which `esc` never leaves in... it
        may occur in XML text, so the fields are taken from the right) *)
Fixpoint sep_join (sep : str) (l : list str) : str :=
  match l with [] => [] | [x] => x | x :: r => x ++ sep ++ sep_join sep r end.

Definition odt_case_line (d : doc) : string :=
  to_string (ser_root_short (content_xml d) ++ s "|" ++ (if supported_odt d then s "1" else s "0") ++ s "|" ++
             sep_join (s ",") (map dec (odt_kinds d)) ++ s "|" ++
             sep_join (s ";") (map (fun w => sep_join (s ",") (map dec w)) (segments d))).

