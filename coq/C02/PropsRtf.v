(* C02 / RTF — property theorems (statements only; proofs in C02/RtfProofs.v).
   T = the tables of the live _RtfParser class (SKIP_DESTINATIONS, SPECIAL_CHARS), ws = str.isspace;
   both universally quantified under boolean premises that C02/InstRtf.v discharges for the
   regenerated Gen/C02Rtf.v.  d ranges over ALL abstract documents (no size bound). *)
From Coq Require Import ZArith List Bool.
From S2T Require Import Lib.PyStr C02.Lib C02.RtfModel C02.RtfProofs.
Import ListNotations.
Open Scope N_scope.

(* _strip_rtf_full_with_pages on a rendered supported document returns exactly the characters of the
   specification symbols: leaf texts and one whitespace character per boundary, in order *)
Theorem C02_rtf_strip_rendered : forall T ws d,
  ws_ok ws = true -> tables_ok T ws = true -> wf_rdoc T ws d = true -> supported_rtf T d = true ->
  strip_full T (render_rtf d) = flat (doc_syms T d).
Proof. exact (fun T ws d Hws HT => strip_rendered T ws Hws HT d). Qed.
Print Assumptions C02_rtf_strip_rendered.

(* stripper + paragraph split/strip/join: the words of the text are the visible segments *)
Theorem C02_rtf_words_body : forall T ws d,
  ws_ok ws = true -> tables_ok T ws = true -> wf_rdoc T ws d = true -> supported_rtf T d = true ->
  words ws (post ws (strip_full T (render_rtf d))) = segments T d.
Proof. exact (fun T ws d Hws HT => words_body T ws Hws HT d). Qed.
Print Assumptions C02_rtf_words_body.

(* end to end (decoded text -> get_full_text()), the seven _DEST_PATTERNS substitutions included:
   pre_ok d says that they turn the source of d into the source of `prune d` (checked per case by
   Coq in the correspondence; true for every generated supported document) *)
Theorem C02_rtf_words : forall T ws d,
  ws_ok ws = true -> tables_ok T ws = true ->
  wf_rdoc T ws (prune d) = true -> supported_rtf T (prune d) = true -> pre_ok d = true ->
  words ws (full_text_of T ws (render_rtf d)) = segments T d.
Proof. exact (fun T ws d Hws HT => words_pruned T ws Hws HT d). Qed.
Print Assumptions C02_rtf_words.

(* end to end when no substitution matches anywhere in the source *)
Theorem C02_rtf_words_inert : forall T ws d,
  ws_ok ws = true -> tables_ok T ws = true ->
  wf_rdoc T ws d = true -> supported_rtf T d = true -> pre_inert (render_rtf d) = true ->
  words ws (full_text_of T ws (render_rtf d)) = segments T d.
Proof. exact words_inert. Qed.
Print Assumptions C02_rtf_words_inert.

(* multiplicity and order: the non-whitespace characters are the visible leaves, concatenated *)
Theorem C02_rtf_tokens : forall T ws d,
  ws_ok ws = true -> tables_ok T ws = true ->
  wf_rdoc T ws (prune d) = true -> supported_rtf T (prune d) = true -> pre_ok d = true ->
  tokchars ws (full_text_of T ws (render_rtf d)) = List.concat (visible T d).
Proof. exact (fun T ws d Hws HT => tokens_main T ws Hws HT d). Qed.
Print Assumptions C02_rtf_tokens.

(* nothing from a skipped destination (nor anything invented): every non-whitespace character of the
   output is a character of a visible leaf *)
Theorem C02_rtf_no_excluded : forall T ws d,
  ws_ok ws = true -> tables_ok T ws = true ->
  wf_rdoc T ws (prune d) = true -> supported_rtf T (prune d) = true -> pre_ok d = true ->
  forall c, In c (full_text_of T ws (render_rtf d)) -> ws c = false -> In c (List.concat (visible T d)).
Proof. exact (fun T ws d Hws HT => no_excluded_main T ws Hws HT d). Qed.
Print Assumptions C02_rtf_no_excluded.

(* the only other characters are "\n" and the separator characters of the document's own boundaries *)
Theorem C02_rtf_only_documented_decoration : forall T ws d,
  ws_ok ws = true -> tables_ok T ws = true ->
  wf_rdoc T ws (prune d) = true -> supported_rtf T (prune d) = true -> pre_ok d = true ->
  forall c, In c (full_text_of T ws (render_rtf d)) -> c = 10 \/ In c (flat (doc_syms T d)).
Proof. exact (fun T ws d Hws HT => decoration_main T ws Hws HT d). Qed.
Print Assumptions C02_rtf_only_documented_decoration.

(* the seven regex substitutions are the identity on a text in which none of them matches anywhere *)
Theorem C02_rtf_dest_passes_inert : forall x, pre_inert x = true -> remove_dests x = x.
Proof. exact remove_dests_inert. Qed.
Print Assumptions C02_rtf_dest_passes_inert.

(* removing destinations does not change the specification *)
Theorem C02_rtf_prune_keeps_spec : forall T d, doc_syms T (prune d) = doc_syms T d.
Proof. exact prune_syms. Qed.
Print Assumptions C02_rtf_prune_keeps_spec.
