(* C02 / OpenDocument shared helper — property theorems (statements only). *)
From Coq Require Import ZArith List Bool.
From S2T Require Import Lib.PyStr C02.Lib C02.Xml C02.Doc C02.OdtModel C02.OdfShared.
Import ListNotations.
Open Scope N_scope.

(* element_text with ODT's skip set IS the ODT inline walk (every tree) *)
Theorem C02_odf_element_text_is_odt_walk : forall e : xml, etext_g o_skip_inline e = etext e.
Proof. exact etext_g_odt. Qed.
Print Assumptions C02_odf_element_text_is_odt_walk.

(* on every rendered supported paragraph / heading / cell paragraph the helper gives the same text
   under the skip set of ods / odp / odg / odf ({office:annotation}) as under ODT's: the ODT
   paragraph-level results transfer *)
Theorem C02_odf_paragraph_text_transfers :
  forall (t : tag) (a : list (str * str)) (l : list inl), forallb o_inl_sup l = true ->
    etext_g skip_ann (mixed t a (flat_map r_inl l)) = etext (mixed t a (flat_map r_inl l)).
Proof.
  intros t a l H. destruct (shared_para_text t a l H) as [H1 H2]. rewrite H1, H2. reflexivity.
Qed.
Print Assumptions C02_odf_paragraph_text_transfers.

(* hence, per paragraph: the words are the segments (separation at tab / line-break, annotations
   absent, nothing else) for all five ODF formats *)
Theorem C02_odf_paragraph_separated :
  forall (ws : N -> bool) (cls_of : N -> N) (t : tag) (a : list (str * str)) (l : list inl),
    ws 9 = true -> ws 10 = true ->
    forallb o_inl_sup l = true -> forallb (inl_wf ws cls_of) l = true ->
    words ws (etext_g skip_ann (mixed t a (flat_map r_inl l))) = groups (para_syms l).
Proof. intros ws cls_of t a l H9 H10. exact (shared_para_words ws cls_of H9 H10 t a l). Qed.
Print Assumptions C02_odf_paragraph_separated.
