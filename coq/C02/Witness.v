(* C02 — concrete witnesses: a rich supported document (non-vacuity) and one refuting document per
   unsupported DOCX construct.  Concrete classification: whitespace = code points <= 32,
   class of a character = (c - 0x4E00) / 1024 (the harness draws leaf characters from
   0x4E00 + 1024*class + id). *)
From Coq Require Import ZArith List Bool.
From S2T Require Import Lib.PyStr C02.Lib C02.Xml C02.Doc C02.Model.
Import ListNotations.
Open Scope N_scope.

Definition ws0 (c : N) : bool := c <=? 32.
Definition cls0 (c : N) : N := (c - 19968) / 1024.

Definition v (n : N) : str := [19968 + n].                     (* a visible leaf *)
Definition x (k n : N) : str := [19968 + 1024 * k + n].        (* an excluded leaf of class k >= 1 *)
Definition mkdoc (b : list block) : doc := {| body := b; headers := [x 3 1]; footers := [x 4 1] |}.
Definition P (l : list inl) : block := BPara PNormal l.

Definition rich_doc : doc := mkdoc
  [ BPara (PHeading 1) [IRun (v 1); IRun (v 2)];
    P [IRun (v 3); ITab; IRun (v 4); IBreak BrLine; IRun (v 5); IDel (x 1 1); IComment (x 2 1)];
    P [IRun (v 22); IBreak BrPage; IRun (v 23); IBreak BrColumn; IRun (v 24); IBreak BrWrap; IRun (v 25); IBreak BrCr;
       IRun (v 26); IMark; IRun (v 27)];
    P [IWrap KLink [IRun (v 6); IWrap KIns [IRun (v 7)]]; IWrap KSdt [IRun (v 8)]; IWrap KField [IRun (v 9)]];
    P [];
    BSdt [P [IRun (v 17)]; BSdt [BPara (PHeading 2) [IRun (v 18)]]];
    BList [[BPara (PListItem 0) [IRun (v 10)]]; [BPara (PListItem 0) [IRun (v 11)]; BList [[BPara (PListItem 1) [IRun (v 12)]]]]];
    BTable [[ [P [IRun (v 13)]; P [IRun (v 14); IDel (x 1 2)]]; [P [IRun (v 15)]] ];
            [ [P []]; [P [IRun (v 16)]; BSdt [P [IRun (v 19)]; BList [[P [IRun (v 20); ITab; IRun (v 21)]]]]] ]] ].

Lemma rich_doc_ok :
  wf_doc ws0 cls0 rich_doc = true /\ supported_docx rich_doc = true /\
  List.length (segments rich_doc) = 22%nat /\ excluded rich_doc <> [].
Proof. repeat split; try (vm_compute; reflexivity). vm_compute. discriminate. Qed.

Definition d_nested : doc := mkdoc
  [BTable [[ [P [IRun (v 1)]; BTable [[ [P [IRun (v 2)]] ]]]; [P [IRun (v 3)]] ]]].
Lemma nested_table_refuted :
  exists d, wf_doc ws0 cls0 d = true /\ tokchars ws0 (docx_text ws0 d) <> List.concat (visible d).
Proof. exists d_nested. split; [vm_compute; reflexivity | vm_compute; discriminate]. Qed.

Definition d_body_sdt : doc := mkdoc [P [IRun (v 1)]; BSdt [P [IRun (v 2)]]; P [IRun (v 3)]].
Lemma body_sdt_refuted_before_fix :
  exists d, wf_doc ws0 cls0 d = true /\ supported_docx d = true /\
            tokchars ws0 (docx_text_direct ws0 d) <> List.concat (visible d).
Proof. exists d_body_sdt. repeat split; try (vm_compute; reflexivity). vm_compute. discriminate. Qed.

Definition d_box : doc := mkdoc [P [IRun (v 1); IBox false [[IRun (v 2)]; [IRun (v 3)]]; IRun (v 4)]].
Lemma textbox_refuted :
  exists d, wf_doc ws0 cls0 d = true /\ tokchars ws0 (docx_text ws0 d) = List.concat (visible d) /\
            words ws0 (docx_text ws0 d) <> segments d.
Proof. exists d_box. repeat split; try (vm_compute; reflexivity). vm_compute. discriminate. Qed.

Definition d_box_cell : doc := mkdoc [BTable [[ [P [IRun (v 1); IBox false [[IRun (v 2)]]]] ]]].
Lemma textbox_in_cell_refuted :
  exists d, wf_doc ws0 cls0 d = true /\ tokchars ws0 (docx_text ws0 d) <> List.concat (visible d).
Proof. exists d_box_cell. split; [vm_compute; reflexivity | vm_compute; discriminate]. Qed.

Definition d_vml : doc := mkdoc [P [IRun (v 1); IBox true [[IRun (v 2)]]; IRun (v 3)]].
Lemma vml_textbox_refuted :
  exists d, wf_doc ws0 cls0 d = true /\ tokchars ws0 (docx_text ws0 d) <> List.concat (visible d).
Proof. exists d_vml. split; [vm_compute; reflexivity | vm_compute; discriminate]. Qed.

Definition d_moved : doc := mkdoc [P [IRun (v 1); IMovedFrom (x 1 1)]; P [IWrap KMoveTo [IRun (v 2)]]].
Lemma moved_from_refuted :
  exists d, wf_doc ws0 cls0 d = true /\
            forallb (fun c => ws0 c || is_vis cls0 c) (docx_text ws0 d) = false.
Proof. exists d_moved. split; vm_compute; reflexivity. Qed.

Definition d_tab : doc := mkdoc [P [IRun (v 1); ITab; IRun (v 2); IBreak BrLine; IRun (v 3)]].
Lemma tab_break_refuted_before_fix :
  exists d, wf_doc ws0 cls0 d = true /\ supported_docx d = true /\
            words ws0 (unfixed_docx_text ws0 d) <> segments d.
Proof. exists d_tab. repeat split; try (vm_compute; reflexivity). vm_compute. discriminate. Qed.
