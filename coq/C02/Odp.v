(* C02 / ODP — the frames of a slide: odp_extractor._iter_slide_frames (direct draw:frame children and
   the frames inside possibly nested draw:g groups, the attached notes page presentation:notes NOT
   entered), their stable ordering by position (frames_with_positions.sort(key=(y, x)), model `ssort`
   of C02/Pptx.v), and the abstract slide they are rendered from. *)
From Coq Require Import ZArith List Bool Lia ZifyBool Sorted Permutation.
From S2T Require Import Lib.PyStr C02.Lib C02.Xml C02.Pptx.
Import ListNotations.
Open Scope N_scope.

(* ---------------------------------------------------------------- the walker *)
(* _iter_slide_frames(parent): over the children of `parent` *)
Fixpoint slide_frames (e : xml) : list xml :=
  match e with
  | Elem _ _ _ cs _ =>
      flat_map (fun c => match xtag c with
                         | D_frame => [c]
                         | D_g => slide_frames c
                         | _ => []
                         end) cs
  end.

(* ---------------------------------------------------------------- the abstract slide *)
(* a frame: token id (its text box holds one paragraph with the character 0x4E00 + id) and position *)
Record frame := { fid : N; fy : Z; fx : Z }.

Inductive shape :=
| SFrame (f : frame)
| SGroup (l : list shape)           (* draw:g, nesting allowed *)
| SOther (n : N).                   (* any other drawing shape (no frame inside) *)

Record slide := { shapes : list shape; note_frames : list frame }.

Section ShapeInd.
  Variable P : shape -> Prop.
  Hypothesis Hf : forall f, P (SFrame f).
  Hypothesis Hg : forall l, Forall P l -> P (SGroup l).
  Hypothesis Ho : forall n, P (SOther n).
  Fixpoint shape_ind' (x : shape) : P x :=
    match x with
    | SFrame f => Hf f
    | SGroup l => Hg l ((fix go (l : list shape) : Forall P l :=
                           match l with [] => Forall_nil P | y :: r => Forall_cons y (shape_ind' y) (go r) end) l)
    | SOther n => Ho n
    end.
End ShapeInd.

Definition zdec (z : Z) : str := dec (Z.to_N z).
Definition r_frame (f : frame) : xml :=
  Elem D_frame [(s "svg:x", zdec (fx f) ++ s "cm"); (s "svg:y", zdec (fy f) ++ s "cm");
                (s "svg:width", s "5cm"); (s "svg:height", s "1cm")] []
       [el D_text_box [Elem T_p [] [19968 + fid f] [] []]] [].

Fixpoint r_shape (x : shape) : xml :=
  match x with
  | SFrame f => r_frame f
  | SGroup l => el D_g (map r_shape l)
  | SOther n => el (X_other n) []
  end.

Definition r_page (sl : slide) : xml :=
  el D_page (map r_shape (shapes sl) ++
             match note_frames sl with [] => [] | nf => [el PR_notes (map r_frame nf)] end).

(* the specification: the frames of the slide in document order, at any group depth *)
Fixpoint shape_frames (x : shape) : list frame :=
  match x with
  | SFrame f => [f]
  | SGroup l => flat_map shape_frames l
  | SOther _ => []
  end.
Definition slide_frame_list (sl : slide) : list frame := flat_map shape_frames (shapes sl).

(* ---------------------------------------------------------------- ordering *)
Definition fkey (f : frame) : key := (fy f, fx f).
(* ids in the order in which _extract_slide processes the frames *)
Definition odp_order (sl : slide) : list N :=
  map (fun e => fid (snd e)) (ssort (map (fun f => (fkey f, f)) (slide_frame_list sl))).

(* correspondence: ids of the tokens in get_full_text() of the rendered slide *)
Definition corr_odp (c : slide * list N) : bool := nlist_eqb (odp_order (fst c)) (snd c).

(* ---------------------------------------------------------------- proofs *)
Lemma slide_frames_el t cs :
  slide_frames (el t cs) =
  flat_map (fun c => match xtag c with D_frame => [c] | D_g => slide_frames c | _ => [] end) cs.
Proof. reflexivity. Qed.

Lemma frames_of_shape x :
  (match xtag (r_shape x) with D_frame => [r_shape x] | D_g => slide_frames (r_shape x) | _ => [] end)
  = map r_frame (shape_frames x).
Proof.
  induction x as [f | l IH | n] using shape_ind'; [reflexivity | | reflexivity].
  simpl xtag. cbv iota. simpl r_shape. rewrite slide_frames_el. simpl shape_frames.
  induction IH as [|y l Hy _ IHl]; [reflexivity|].
  simpl. rewrite map_app, Hy, IHl. reflexivity.
Qed.

Lemma frames_of_shapes l :
  flat_map (fun c => match xtag c with D_frame => [c] | D_g => slide_frames c | _ => [] end) (map r_shape l)
  = map r_frame (flat_map shape_frames l).
Proof.
  induction l as [|x l IH]; [reflexivity|]. simpl. rewrite map_app, frames_of_shape, IH. reflexivity.
Qed.

(* every frame of the slide, at any group depth, exactly once and in document order; nothing of the
   notes page *)
Lemma slide_frames_page sl : slide_frames (r_page sl) = map r_frame (slide_frame_list sl).
Proof.
  unfold r_page. rewrite slide_frames_el, flat_map_app, frames_of_shapes.
  destruct (note_frames sl); simpl; rewrite app_nil_r; reflexivity.
Qed.

Lemma odp_order_perm sl : Permutation (odp_order sl) (map fid (slide_frame_list sl)).
Proof.
  unfold odp_order. rewrite ssort_perm. rewrite map_map. reflexivity.
Qed.

(* frames sharing a position keep document order *)
Lemma odp_order_stable sl k :
  filter (has_key k) (ssort (map (fun f => (fkey f, f)) (slide_frame_list sl)))
  = filter (has_key k) (map (fun f => (fkey f, f)) (slide_frame_list sl)).
Proof. apply ssort_stable. Qed.

(* before a0edc91 (`page.findall("draw:frame")`): frames inside a group were lost *)
Definition direct_frames (e : xml) : list xml := filter (fun c => match xtag c with D_frame => true | _ => false end) (xkids e).
Definition group_witness : slide :=
  {| shapes := [SFrame {| fid := 1; fy := 1; fx := 1 |}; SGroup [SGroup [SFrame {| fid := 2; fy := 2; fx := 1 |}]]];
     note_frames := [{| fid := 3; fy := 9; fx := 1 |}] |}.
Lemma direct_frames_refuted : exists sl, direct_frames (r_page sl) <> map r_frame (slide_frame_list sl).
Proof. exists group_witness. vm_compute. discriminate. Qed.
(* `page.iter(draw:frame)` (descending everywhere) would enter the notes page *)
Lemma iter_frames_refuted :
  exists sl, iter (fun t => match t with D_frame => true | _ => false end) (r_page sl) <> map r_frame (slide_frame_list sl).
Proof. exists group_witness. vm_compute. discriminate. Qed.
