(* C02 / RTF — obligations over the regenerated tables (Gen/C02Rtf.v) and refutation witnesses. *)
From Coq Require Import ZArith List Bool.
From S2T Require Import Lib.PyStr C02.Lib C02.RtfModel C02.RtfProofs Gen.C02Rtf.
Import ListNotations.
Open Scope N_scope.

(* "\n" " " "\r" are whitespace, the RTF specials are not; every SKIP_DESTINATIONS keyword is
   alphabetic and at most 28 long (fits the 29-character look-ahead); {\rtf1 is not skipped;
   par/line/tab/cell/row/page each produce exactly one whitespace character; rtf/ansi produce nothing *)
Theorem C02_rtf_tables_ok : ws_ok rtf_ws = true /\ tables_ok rtf_tables rtf_ws = true.
Proof. vm_compute. split; reflexivity. Qed.
Print Assumptions C02_rtf_tables_ok.

Definition rich : rdoc :=
  [ RDest false (s "fonttbl") [RGroup [RCtrl (s "f") (s "0"); RCtrl (s "froman") []; RText (s "Times;")]];
    RDest false (s "info") [RDest false (s "title") [RText (s "Secret")]; RGroup [RGroup [RText (s "deep")]]];
    RDest false (s "header") [RCtrl (s "pard") []; RText (s "HEAD"); RGroup [RGroup [RDest false (s "pict") [RText (s "0a0b")]]]; RText (s "Page")];
    RCtrl (s "pard") []; RCtrl (s "fs") (s "24");
    RText (s "Hello"); RSpace; RGroup [RCtrl (s "b") []; RText (s "bold")]; RText (s "er"); RPar;
    RText (s "M"); RUni false (s "228") (s "?"); RText (s "dchen"); RTab; RHex 101 57; RLine;
    RUni true (s "8190") (s "?") ; RSpace; REsc 123; RText (s "x"); REsc 125; REsc 92; RPar;
    RText (s "c1"); RCell; RText (s "c2"); RCell; RRow; RPage;
    RDest true (s "bkmkstart") [RText (s "anchor")]; RText (s "end");
    RDest false (s "footer") [RDest true (s "fldinst") [RText (s "PAGE")]; RGroup [RCtrl (s "fldrslt") []; RText (s "7")]; RText (s "foot")] ].

(* the hypotheses of the theorems are satisfiable by a reasonably rich document, whose spec is not trivial *)
Theorem C02_rtf_rich_supported :
  wf_rdoc rtf_tables rtf_ws rich = true /\ supported_rtf rtf_tables rich = true /\
  wf_rdoc rtf_tables rtf_ws (prune rich) = true /\ supported_rtf rtf_tables (prune rich) = true /\ pre_ok rich = true /\
  segments rtf_tables rich =
    [s "Hello"; s "bolder"; [77; 228] ++ s "dchen"; [233]; [57346]; s "{x}\"; s "c1"; s "c2"; s "end"].
Proof. vm_compute. repeat split; reflexivity. Qed.
Print Assumptions C02_rtf_rich_supported.

(* the end-to-end theorem for the live tables *)
Theorem C02_rtf_words_live : forall d,
  wf_rdoc rtf_tables rtf_ws (prune d) = true -> supported_rtf rtf_tables (prune d) = true -> pre_ok d = true ->
  words rtf_ws (full_text_of rtf_tables rtf_ws (render_rtf d)) = segments rtf_tables d.
Proof.
  intro d. destruct C02_rtf_tables_ok as [H1 H2]. exact (words_pruned rtf_tables rtf_ws H1 H2 d).
Qed.
Print Assumptions C02_rtf_words_live.

(* ---------------------------------------------------------------- refuted: the full statement without `supported_rtf` *)
Definition refutes (d : rdoc) : Prop :=
  wf_rdoc rtf_tables rtf_ws d = true /\
  words rtf_ws (full_text_of rtf_tables rtf_ws (render_rtf d)) <> segments rtf_tables d.
Ltac refute := split; [vm_compute; reflexivity | vm_compute; let H := fresh in intro H; discriminate H].

(* \\u228a : the fallback character is kept: M, a-umlaut, a, dchen *)
Theorem C02_rtf_unicode_fallback_refuted : exists d, refutes d.
Proof. exists [RText (s "M"); RUni false (s "228") (s "a"); RText (s "dchen")]. refute. Qed.
Print Assumptions C02_rtf_unicode_fallback_refuted.

(* \u228<space> : the delimiter space is kept and splits the word *)
Theorem C02_rtf_unicode_delimiter_space_refuted : exists d, refutes d.
Proof. exists [RText (s "M"); RUni false (s "228") []; RText (s "dchen")]. refute. Qed.
Print Assumptions C02_rtf_unicode_delimiter_space_refuted.

(* \ul : "l" is emitted as text *)
Theorem C02_rtf_u_control_word_refuted : exists d, refutes d.
Proof. exists [RCtrl (s "ul") []; RText (s "under")]. refute. Qed.
Print Assumptions C02_rtf_u_control_word_refuted.

(* {\headery720 hello} : dropped because "header" is a prefix of the control word *)
Theorem C02_rtf_destination_prefix_refuted : exists d, refutes d.
Proof. exists [RText (s "a"); RSpace; RGroup [RCtrl (s "headery") (s "720"); RText (s "hello")]]. refute. Qed.
Print Assumptions C02_rtf_destination_prefix_refuted.

(* {\footnote note} : emitted inline, merged with the adjacent word *)
Theorem C02_rtf_footnote_refuted : exists d, refutes d.
Proof. exists [RText (s "word"); RDest false (s "footnote") [RText (s "note")]; RSpace; RText (s "next")]. refute. Qed.
Print Assumptions C02_rtf_footnote_refuted.

(* {\*\xyz q\{ } b : the escaped brace inside a skipped destination is counted as a brace *)
Theorem C02_rtf_escaped_brace_in_destination_refuted : exists d, refutes d.
Proof. exists [RText (s "a"); RSpace; RDest true (s "xyz") [RText (s "q"); REsc 123; RSpace]; RSpace; RText (s "b")]. refute. Qed.
Print Assumptions C02_rtf_escaped_brace_in_destination_refuted.

(* {x \{\info y} z : the info regex does not know escapes and deletes body text *)
Theorem C02_rtf_escaped_brace_before_control_refuted : exists d, refutes d.
Proof. exists [RGroup [RText (s "x"); RSpace; REsc 123; RCtrl (s "info") []; RText (s "y")]; RSpace; RText (s "z")]. refute. Qed.
Print Assumptions C02_rtf_escaped_brace_before_control_refuted.
