(* C02 / PPTX — the ordering step of pptx_extractor._process_slide_from_context.

   Python's list.sort(key=...) is a stable sort; `ssort` (insertion sort that places a new element
   before the first element whose key is not smaller) is the model.  The text items of a slide are
   collected as [all p:sp in document order] ++ [all p:graphicFrame in document order], sorted by
   the position key (y, x), turned into content items in that order, and sorted again. *)
From Coq Require Import ZArith List Bool Lia ZifyBool Sorted Permutation.
From S2T Require Import Lib.PyStr.
Import ListNotations.

Definition key := (Z * Z)%type.
Definition key_leb (a b : key) : bool :=
  (fst a <? fst b)%Z || ((fst a =? fst b)%Z && (snd a <=? snd b)%Z).      (* tuple comparison *)
Definition key_eqb (a b : key) : bool := (fst a =? fst b)%Z && (snd a =? snd b)%Z.

Section Sort.
  Context {A : Type}.
  Definition entry := (key * A)%type.

  Fixpoint insert (x : entry) (l : list entry) : list entry :=
    match l with
    | [] => [x]
    | y :: r => if key_leb (fst x) (fst y) then x :: l else y :: insert x r
    end.
  Definition ssort (l : list entry) : list entry := fold_right insert [] l.

  Definition le (a b : entry) : Prop := key_leb (fst a) (fst b) = true.
  Definition has_key (k : key) (e : entry) : bool := key_eqb (fst e) k.

  Lemma key_leb_total a b : key_leb a b = false -> key_leb b a = true.
  Proof. unfold key_leb. destruct a, b; simpl. lia. Qed.

  Lemma key_leb_false_neq a b k : key_leb a b = false -> key_eqb a k = true -> key_eqb b k = false.
  Proof. unfold key_leb, key_eqb. destruct a, b, k; simpl. lia. Qed.

  Lemma insert_perm x l : Permutation (insert x l) (x :: l).
  Proof.
    induction l as [|y r IH]; simpl; [reflexivity|].
    destruct (key_leb (fst x) (fst y)); [reflexivity|].
    rewrite IH. apply perm_swap.
  Qed.

  Lemma ssort_perm l : Permutation (ssort l) l.
  Proof. induction l as [|x l IH]; simpl; [reflexivity|]. rewrite insert_perm, IH. reflexivity. Qed.

  Lemma HdRel_insert y x r : HdRel le y r -> le y x -> HdRel le y (insert x r).
  Proof.
    intros H Hx. destruct r as [|z r]; simpl; [constructor; exact Hx|].
    destruct (key_leb (fst x) (fst z)); constructor; [exact Hx|]. inversion H; assumption.
  Qed.

  Lemma insert_sorted x l : Sorted le l -> Sorted le (insert x l).
  Proof.
    induction l as [|y r IH]; intro H; simpl; [repeat constructor|].
    destruct (key_leb (fst x) (fst y)) eqn:E.
    - constructor; [exact H | constructor; exact E].
    - inversion H as [|? ? Hs Hh]; subst. constructor; [apply IH; exact Hs|].
      apply HdRel_insert; [exact Hh | apply key_leb_total; exact E].
  Qed.

  Lemma ssort_sorted l : Sorted le (ssort l).
  Proof. induction l as [|x l IH]; simpl; [constructor | apply insert_sorted; exact IH]. Qed.

  Lemma insert_filter k x l :
    filter (has_key k) (insert x l) = if has_key k x then x :: filter (has_key k) l else filter (has_key k) l.
  Proof.
    induction l as [|y r IH]; simpl; [destruct (has_key k x); reflexivity|].
    destruct (key_leb (fst x) (fst y)) eqn:E; simpl.
    - destruct (has_key k x); reflexivity.
    - rewrite IH. destruct (has_key k x) eqn:Hx.
      + unfold has_key in *. rewrite (key_leb_false_neq _ _ _ E Hx). reflexivity.
      + reflexivity.
  Qed.

  (* stability: the elements of any given key keep their relative order *)
  Lemma ssort_stable k l : filter (has_key k) (ssort l) = filter (has_key k) l.
  Proof.
    induction l as [|x l IH]; simpl; [reflexivity|].
    rewrite insert_filter, IH. destruct (has_key k x); reflexivity.
  Qed.
End Sort.

(* a text item of a slide in DOCUMENT order: (is a p:sp (true) / a table frame (false), position key,
   its tokens) *)
Definition item := (bool * key * list N)%type.
Definition is_sp (it : item) : bool := fst (fst it).
Definition ikey (it : item) : key := snd (fst it).
Definition itoks (it : item) : list N := snd it.

(* with fixes/C02-pptx-shapes-document-order.patch: one pass `for shape in sp_tree.iter()` in
   document order *)
Definition collect (l : list item) : list item := l.
(* BEFORE the patch: `for sp in sp_tree.iter(P_SP)` ... `for frame in sp_tree.iter(P_GRAPHICFRAME)` *)
Definition collect_by_kind (l : list item) : list item := filter is_sp l ++ filter (fun it => negb (is_sp it)) l.
Definition keyed (l : list item) : list (key * item) := map (fun it => (ikey it, it)) l.

(* shape_elements.sort(key=position); content appended in that order; ordered_content.sort(key=position) *)
Definition slide_items (l : list item) : list (key * item) := ssort (ssort (keyed (collect l))).
Definition slide_order (l : list item) : list N := flat_map (fun e => itoks (snd e)) (slide_items l).

(* the property: position order, ties in document order *)
Definition ideal_order (l : list item) : list N := flat_map (fun e => itoks (snd e)) (ssort (keyed l)).

Fixpoint nlist_eqb (a b : list N) : bool :=
  match a, b with
  | [], [] => true
  | x :: a', y :: b' => N.eqb x y && nlist_eqb a' b'
  | _, _ => false
  end.
Definition corr_slide (c : list item * list N) : bool := nlist_eqb (slide_order (fst c)) (snd c).

Lemma slide_items_perm l : Permutation (slide_items l) (keyed l).
Proof. unfold slide_items, collect. rewrite !ssort_perm. reflexivity. Qed.

Lemma slide_items_stable l k : filter (has_key k) (slide_items l) = filter (has_key k) (keyed l).
Proof. unfold slide_items, collect. rewrite !ssort_stable. reflexivity. Qed.

Lemma slide_items_sorted l : Sorted le (slide_items l).
Proof. unfold slide_items. apply ssort_sorted. Qed.

(* before the patch: a table that precedes a text shape with the same position came out after it *)
Definition slide_order_by_kind (l : list item) : list N :=
  flat_map (fun e => itoks (snd e)) (ssort (ssort (keyed (collect_by_kind l)))).
Definition tie_witness : list item := [ (false, (100, 100)%Z, [1%N]); (true, (100, 100)%Z, [2%N]) ].
Lemma table_tie_refuted_before_fix : exists l, slide_order_by_kind l <> ideal_order l.
Proof. exists tie_witness. vm_compute. discriminate. Qed.
