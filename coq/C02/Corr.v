(* C02 — boolean case checkers for the differential correspondence (DOCX). *)
From Coq Require Import ZArith List Bool.
From S2T Require Import Lib.PyStr C02.Lib C02.Xml C02.Doc C02.Model.
Import ListNotations.
Open Scope N_scope.

Definition is_ws_tbl (tbl : list N) (c : N) : bool := existsb (N.eqb c) tbl.

(* rendered abstract document: model(render d) = what the implementation returned *)
Definition corr_doc (tbl : list N) (c : doc * str) : bool :=
  str_eqb (docx_text (is_ws_tbl tbl) (fst c)) (snd c).

(* arbitrary w:document tree *)
Definition corr_tree (tbl : list N) (c : xml * str) : bool :=
  str_eqb (full_text_of_document (is_ws_tbl tbl) (fst c)) (snd c).

(* package parts the harness writes next to word/document.xml *)
Definition part_comments (d : doc) : xml := r_comments d.
Definition part_header (d : doc) : xml := el W_hdr (map (fun t => r_para PNormal [IRun t]) (headers d)).
Definition part_footer (d : doc) : xml := el W_ftr (map (fun t => r_para PNormal [IRun t]) (footers d)).

Definition flag (b : bool) : N := if b then 1 else 0.

(* the wrapped rendering variant (row-/cell-level content controls and customXml) *)
Definition corr_doc_w (tbl : list N) (c : list N * list N * doc * str) : bool :=
  let '(rm, cm, d, out) := c in
  str_eqb (full_text_of_document (is_ws_tbl tbl) (r_document_w rm cm d)) out.
Definition ser_w (rm cm : list N) (d : doc) : str := if has_table d then ser (r_document_w rm cm d) else [].
