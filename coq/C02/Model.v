(* C02 — DOCX: rendering of the abstract document into WordprocessingML trees and a faithful model
   of the main-text walk of ms_modern/docx_extractor.py:
     _process_text_element / _extract_paragraph_content / _extract_table_text /
     _extract_full_text_from_body,   DocxContent.get_full_text() = full_text.
   The model follows the code WITH fixes/C02-docx-tab-break.patch (w:tab -> "\t", w:br / w:cr ->
   "\n" inside a run) and fixes/C02-docx-block-level-sdt.patch (block-level w:sdt / w:sdtContent /
   w:customXml wrappers are looked through) applied.  Definitions only. *)
From Coq Require Import ZArith List Bool Lia ZifyBool.
From S2T Require Import Lib.PyStr C02.Lib C02.Xml C02.Doc.
Import ListNotations.
Open Scope N_scope.

(* ================================================================ the walker *)
Definition is_p (t : tag) : bool := match t with W_p => true | _ => false end.
Definition is_tr (t : tag) : bool := match t with W_tr => true | _ => false end.
Definition is_tc (t : tag) : bool := match t with W_tc => true | _ => false end.

(* what one child of a w:r contributes (the `for child in elem` loop of the `tag == W_R` branch);
   `alt` is the recursive call for mc:AlternateContent children *)
Definition run_child (alt : xml -> list str) (c : xml) : list str :=
  match c with
  | Elem W_t _ x _ _ => match x with [] => [] | _ => [x] end
  | Elem W_tab _ _ _ _ => [[9]]
  | Elem W_br _ _ _ _ => [[10]]
  | Elem W_cr _ _ _ _ => [[10]]
  | Elem MC_AlternateContent _ _ _ _ => alt c
  | _ => []
  end.

(* _process_text_element(elem, parts, include_formulas): the strings appended to `parts`.
   (m:oMath / m:oMathPara are outside the tag vocabulary: formulas are C19's subject.) *)
Fixpoint pte (e : xml) : list str :=
  match e with
  | Elem t _ _ cs _ =>
      match t with
      | MC_AlternateContent =>
          (* choice = elem.find(MC_CHOICE): first direct child; then its children *)
          (fix first_choice (l : list xml) : list str :=
             match l with
             | [] => []
             | Elem MC_Choice _ _ ccs _ :: _ => flat_map pte ccs
             | _ :: r => first_choice r
             end) cs
      | MC_Fallback => []
      | W_r => flat_map (run_child pte) cs
      | _ => flat_map pte cs
      end
  end.

(* _extract_paragraph_content *)
Definition para_content (p : xml) : str := List.concat (flat_map pte (xkids p)).

(* _iter_block_elements(parent): block-level children, looking through content controls and
   custom-XML wrappers (fixes/C02-docx-block-level-sdt.patch) *)
Fixpoint block_elements (e : xml) : list xml :=
  match e with
  | Elem t _ _ cs _ =>
      match t with
      | W_sdt | W_sdtContent | W_customXml => flat_map block_elements cs
      | _ => [e]
      end
  end.

Section Walk.
  Variable ws : N -> bool.

  (* one cell of _extract_table_text *)
  (* `if cell_parts: texts.append(" ".join(cell_parts))` *)
  Definition joined_parts (parts : list str) : list str :=
    match parts with [] => [] | _ :: _ => [join [32] parts] end.

  Definition cell_text (cell : xml) : list str :=
    joined_parts (filter (nonblank ws) (map para_content (iter is_p cell))).

  (* _extract_table_text: `table.iter(W_TR)`, `row.iter(W_TC)`, `cell.iter(W_P)` are all recursive *)
  Definition table_text (tbl : xml) : list str :=
    flat_map (fun row => flat_map cell_text (iter is_tc row)) (iter is_tr tbl).

  Definition body_elem_text (e : xml) : list str :=
    match xtag e with
    | W_p => let t := para_content e in if nonblank ws t then [t] else []
    | W_tbl => table_text e
    | _ => []
    end.

  (* _extract_full_text_from_body: `for element in _iter_block_elements(body)` *)
  Definition full_text_of_body (body : xml) : str :=
    join [10] (flat_map body_elem_text (flat_map block_elements (xkids body))).

  (* the same BEFORE fixes/C02-docx-block-level-sdt.patch: `for element in body` *)
  Definition full_text_of_body_direct (body : xml) : str := join [10] (flat_map body_elem_text (xkids body)).

  (* ctx.document_body = root.find(W_BODY); None -> "" *)
  Definition full_text_of_document (root : xml) : str :=
    match find (fun t => match t with W_body => true | _ => false end) root with
    | Some b => full_text_of_body b
    | None => []
    end.
End Walk.

(* ================================================================ rendering *)
Definition r_run (t : str) : xml := el W_r [el W_rPr []; Elem W_t [] t [] []].
Definition r_del_run (t : str) : xml := el W_r [Elem W_delText [] t [] []].

Definition wrap_tag (k : wrapk) : tag :=
  match k with
  | KLink => W_hyperlink | KIns => W_ins | KSmart => W_smartTag | KField => W_fldSimple
  | KMoveTo => W_moveTo | KSdt => W_sdt | KSpan => W_smartTag
  end.

Definition p_props (st : pstyle) : xml :=
  match st with
  | PNormal => el W_pPr []
  | PHeading n => el W_pPr [Elem W_pStyle [(s "w:val", s "Heading" ++ dec n)] [] [] []]
  | PListItem n => el W_pPr [Elem W_pStyle [(s "w:val", s "ListParagraph")] [] [] []; el W_numPr []]
  end.

Definition txbx_modern (paras : list xml) : xml :=
  el W_drawing [el WP_anchor [el A_graphic [el A_graphicData [el WPS_wsp [el WPS_txbx [el W_txbxContent paras]]]]]].
Definition txbx_vml (paras : list xml) : xml :=
  el W_pict [el V_shape [el V_textbox [el W_txbxContent paras]]].

Fixpoint r_inl (i : inl) : list xml :=
  match i with
  | IRun t => [r_run t]
  | ITab => [el W_r [el W_tab []]]
  | IBreak BrLine => [el W_r [el W_br []]]
  | IBreak BrPage => [el W_r [Elem W_br [(s "w:type", s "page")] [] [] []]]
  | IBreak BrColumn => [el W_r [Elem W_br [(s "w:type", s "column")] [] [] []]]
  | IBreak BrWrap => [el W_r [Elem W_br [(s "w:type", s "textWrapping")] [] [] []]]
  | IBreak BrCr => [el W_r [el W_cr []]]
  | IMark => [el W_r [el W_lastRenderedPageBreak []]]
  | IDel t => [el W_del [r_del_run t]]
  | IMovedFrom t => [el W_moveFrom [r_run t]]
  | IComment _ => [el W_commentRangeStart []; el W_r [el W_commentReference []]]
  | IWrap KSdt l => [el W_sdt [el W_sdtPr []; el W_sdtContent (flat_map r_inl l)]]
  | IWrap k l => [el (wrap_tag k) (flat_map r_inl l)]
  | IBox vml ps =>
      let paras := map (fun p => el W_p (el W_pPr [] :: flat_map r_inl p)) ps in
      if vml then [el W_r [txbx_vml paras]]
      else [el W_r [el MC_AlternateContent [el MC_Choice [txbx_modern paras]; el MC_Fallback [txbx_vml paras]]]]
  end.

Definition r_para (st : pstyle) (l : list inl) : xml := el W_p (p_props st :: flat_map r_inl l).

Fixpoint r_block (b : block) : list xml :=
  match b with
  | BPara st l => [r_para st l]
  | BTable rows =>
      [el W_tbl (el W_tblPr [] ::
         map (fun row => el W_tr (map (fun cell => el W_tc (el W_tcPr [] :: flat_map r_block cell)) row)) rows)]
  | BSdt bs => [el W_sdt [el W_sdtPr []; el W_sdtContent (flat_map r_block bs)]]
  | BList items => flat_map (flat_map r_block) items
  end.

(* ---------------------------------------------------------------- rendering variant: the same
   document with row-level and cell-level wrappers.  Word wraps table rows (repeating sections) and
   cells in content controls: w:tbl/w:sdt/w:sdtContent/w:tr, w:tr/w:sdt/w:sdtContent/w:tc, or in
   w:customXml.  The wrappers are transparent for the text, so the specification of the document is
   unchanged.  A mask gives per position 0 = no wrapper, 1 = w:sdt, 2 = w:customXml (positions beyond
   the mask are not wrapped); `rm` is applied to the rows of every table, `cm` to the cells of every
   row. *)
Definition sdt_wrap (x : xml) : xml := el W_sdt [el W_sdtPr []; el W_sdtContent [x]].
Definition cx_wrap (x : xml) : xml := el W_customXml [x].
Fixpoint wrap_by (m : list N) (l : list xml) : list xml :=
  match l, m with
  | [], _ => []
  | x :: r, [] => x :: r
  | x :: r, k :: m' => (if k =? 1 then sdt_wrap x else if k =? 2 then cx_wrap x else x) :: wrap_by m' r
  end.

Fixpoint r_block_w (rm cm : list N) (b : block) : list xml :=
  match b with
  | BPara st l => [r_para st l]
  | BTable rows =>
      [el W_tbl (el W_tblPr [] ::
         wrap_by rm (map (fun row => el W_tr (wrap_by cm
            (map (fun cell => el W_tc (el W_tcPr [] :: flat_map (r_block_w rm cm) cell)) row))) rows))]
  | BSdt bs => [el W_sdt [el W_sdtPr []; el W_sdtContent (flat_map (r_block_w rm cm) bs)]]
  | BList items => flat_map (flat_map (r_block_w rm cm)) items
  end.

Definition r_document_w (rm cm : list N) (d : doc) : xml :=
  el W_document [el W_body (flat_map (r_block_w rm cm) (body d) ++ [el W_sectPr []])].

Fixpoint blk_has_table (b : block) : bool :=
  match b with
  | BPara _ _ => false
  | BTable _ => true
  | BSdt bs => existsb blk_has_table bs
  | BList items => existsb (existsb blk_has_table) items
  end.
Definition has_table (d : doc) : bool := existsb blk_has_table (body d).

Definition r_body (d : doc) : xml := el W_body (flat_map r_block (body d) ++ [el W_sectPr []]).
Definition r_document (d : doc) : xml := el W_document [r_body d].

(* the other parts of the package: comments, headers, footers (never read by the main-text walk) *)
Definition r_comments (d : doc) : xml :=
  el W_comments (map (fun t => el W_comment [r_para PNormal [IRun t]]) (flat_map blk_comments (body d))).
Definition r_header (t : str) : xml := el W_hdr [r_para PNormal [IRun t]].
Definition r_footer (t : str) : xml := el W_ftr [r_para PNormal [IRun t]].

(* the main text the extractor produces for the rendered document *)
Definition docx_text (ws : N -> bool) (d : doc) : str := full_text_of_document ws (r_document d).

(* ---------------------------------------------------------------- the walk BEFORE
   fixes/C02-docx-tab-break.patch: the w:r branch knew only w:t and mc:AlternateContent *)
Definition run_child_unfixed (alt : xml -> list str) (c : xml) : list str :=
  match c with
  | Elem W_t _ x _ _ => match x with [] => [] | _ => [x] end
  | Elem MC_AlternateContent _ _ _ _ => alt c
  | _ => []
  end.

Fixpoint pte_unfixed (e : xml) : list str :=
  match e with
  | Elem t _ _ cs _ =>
      match t with
      | MC_AlternateContent =>
          (fix first_choice (l : list xml) : list str :=
             match l with
             | [] => []
             | Elem MC_Choice _ _ ccs _ :: _ => flat_map pte_unfixed ccs
             | _ :: r => first_choice r
             end) cs
      | MC_Fallback => []
      | W_r => flat_map (run_child_unfixed pte_unfixed) cs
      | _ => flat_map pte_unfixed cs
      end
  end.

Definition unfixed_docx_text (ws : N -> bool) (d : doc) : str :=
  join [10] (flat_map (fun e =>
    match xtag e with
    | W_p => let t := List.concat (flat_map pte_unfixed (xkids e)) in if nonblank ws t then [t] else []
    | _ => []
    end) (xkids (r_body d))).

(* the main text BEFORE fixes/C02-docx-block-level-sdt.patch *)
Definition docx_text_direct (ws : N -> bool) (d : doc) : str := full_text_of_body_direct ws (r_body d).

(* ================================================================ supported fragment *)
(* constructs for which the positive theorems hold; everything else is a refuted construct
   (Props.v: C02_docx_*_refuted) *)
Fixpoint inl_sup (i : inl) : bool :=
  match i with
  | IRun _ | ITab | IBreak _ | IMark | IDel _ | IComment _ => true
  | IMovedFrom _ => false          (* the moved-from copy is emitted *)
  | IWrap _ l => forallb inl_sup l
  | IBox _ _ => false              (* merged with the host paragraph / dropped (VML) / duplicated in cells *)
  end.

(* inside a table cell: paragraphs, content controls and lists (`cell.iter(W_P)` finds their
   paragraphs in document order) — but no nested table *)
Fixpoint cell_blk_sup (b : block) : bool :=
  match b with
  | BPara _ l => forallb inl_sup l
  | BTable _ => false
  | BSdt bs => forallb cell_blk_sup bs
  | BList items => forallb (forallb cell_blk_sup) items
  end.

Fixpoint blk_sup (b : block) : bool :=
  match b with
  | BPara _ l => forallb inl_sup l
  | BTable rows => forallb (forallb (forallb cell_blk_sup)) rows
  | BSdt bs => forallb blk_sup bs
  | BList items => forallb (forallb blk_sup) items
  end.

Definition supported_docx (d : doc) : bool := forallb blk_sup (body d).

(* kinds of unsupported constructs present (for attributing findings); 1 moved-from, 2 text box,
   3 VML-only text box, (4 unused: block-level content controls are supported since the fix),
   5 nested table in a cell,
   (6 unused: content controls / lists inside a cell are in the proved fragment),
   7 text box anchored inside a table cell *)
Fixpoint inl_kinds (in_cell : bool) (i : inl) : list N :=
  match i with
  | IMovedFrom _ => [1]
  | IWrap _ l => flat_map (inl_kinds in_cell) l
  | IBox v ps => (if v then 3 else if in_cell then 7 else 2) :: flat_map (flat_map (inl_kinds in_cell)) ps
  | _ => []
  end.
Fixpoint blk_kinds (in_cell : bool) (b : block) : list N :=
  match b with
  | BPara _ l => flat_map (inl_kinds in_cell) l
  | BTable rows => (if in_cell then [5] else []) ++ flat_map (flat_map (flat_map (blk_kinds true))) rows
  | BSdt bs => flat_map (blk_kinds in_cell) bs
  | BList items => flat_map (flat_map (blk_kinds in_cell)) items
  end.
Definition doc_kinds (d : doc) : list N := flat_map (blk_kinds false) (body d).
