(* C02 / ODP — how a slide's paragraphs are assembled into its text:
   odp_extractor._extract_slide (per non-empty paragraph, frames already in position order):
       if not found_title and (title style): slide.title = text; found_title = True
       elif (body style):                     slide.body_text.append(text)
       else:                                  slide.other_text.append(text)
   OdpSlide.text_combined = [title] + body_text + other_text  (joined by "\n").
   A paragraph is (title-style?, body-style?, token); the two style tests ("Title" in name or name ==
   "TitleText"; "Body" in name or name == "BodyText") are recorded from Python in the correspondence. *)
From Coq Require Import List Bool NArith Permutation.
From S2T Require Import C02.Pptx.
Import ListNotations.

Definition para := (bool * bool * N)%type.
Definition p_title (p : para) : bool := fst (fst p).
Definition p_body (p : para) : bool := snd (fst p).
Definition p_id (p : para) : N := snd p.

Record acc := { found : bool; title : list N; bodyl : list N; otherl : list N }.

Definition step (a : acc) (p : para) : acc :=
  if negb (found a) && p_title p then {| found := true; title := [p_id p]; bodyl := bodyl a; otherl := otherl a |}
  else if p_body p then {| found := found a; title := title a; bodyl := bodyl a ++ [p_id p]; otherl := otherl a |}
  else {| found := found a; title := title a; bodyl := bodyl a; otherl := otherl a ++ [p_id p] |}.

Definition run_acc (l : list para) : acc := fold_left step l {| found := false; title := []; bodyl := []; otherl := [] |}.
Definition text_combined (l : list para) : list N := let a := run_acc l in title a ++ bodyl a ++ otherl a.

Definition corr_group (c : list para * list N) : bool := nlist_eqb (text_combined (fst c)) (snd c).

(* ---------------------------------------------------------------- proofs *)
Definition flatten (a : acc) : list N := title a ++ bodyl a ++ otherl a.

(* invariant: a title is only ever stored together with found = true *)
Definition inv (a : acc) : Prop := found a = false -> title a = [].
Lemma step_inv a p : inv a -> inv (step a p).
Proof.
  unfold inv, step. intro H. destruct (negb (found a) && p_title p) eqn:E; simpl; [discriminate|].
  destruct (p_body p); simpl; exact H.
Qed.

Lemma step_perm a p : inv a -> Permutation (flatten (step a p)) (p_id p :: flatten a).
Proof.
  unfold inv, flatten, step. intro H. destruct (negb (found a) && p_title p) eqn:E.
  - apply andb_true_iff in E as [E _]. apply negb_true_iff in E. rewrite (H E). reflexivity.
  - destruct (p_body p); simpl.
    + symmetry. rewrite <- app_assoc. simpl.
      rewrite (app_assoc (title a) (bodyl a) (p_id p :: otherl a)).
      apply Permutation_cons_app. rewrite <- app_assoc. reflexivity.
    + symmetry. rewrite !app_assoc. apply Permutation_cons_append.
Qed.

Lemma fold_perm l a : inv a -> Permutation (flatten (fold_left step l a)) (flatten a ++ map p_id l).
Proof.
  revert a. induction l as [|p l IH]; intros a Ha; simpl.
  - rewrite app_nil_r. reflexivity.
  - rewrite (IH (step a p) (step_inv a p Ha)), (step_perm a p Ha).
    simpl. apply Permutation_cons_app. reflexivity.
Qed.

(* every paragraph exactly once *)
Theorem combined_perm l : Permutation (text_combined l) (map p_id l).
Proof.
  change (text_combined l) with (flatten (run_acc l)). unfold run_acc.
  rewrite (fold_perm l) by (intro; reflexivity). reflexivity.
Qed.

(* without title-/body-styled paragraphs the order is the document order *)
Lemma fold_plain l a :
  forallb (fun p => negb (p_title p) && negb (p_body p)) l = true ->
  fold_left step l a = {| found := found a; title := title a; bodyl := bodyl a; otherl := otherl a ++ map p_id l |}.
Proof.
  revert a. induction l as [|p l IH]; intros a H; simpl.
  - rewrite app_nil_r. destruct a; reflexivity.
  - simpl in H. apply andb_true_iff in H as [Hp Hl]. apply andb_true_iff in Hp as [H1 H2].
    apply negb_true_iff in H1. apply negb_true_iff in H2.
    rewrite (IH _ Hl). unfold step. rewrite H1, H2, andb_false_r. simpl. rewrite <- app_assoc. reflexivity.
Qed.

Theorem combined_plain_order l :
  forallb (fun p => negb (p_title p) && negb (p_body p)) l = true -> text_combined l = map p_id l.
Proof. intro H. unfold text_combined, run_acc. rewrite (fold_plain l _ H). reflexivity. Qed.

(* in general the relative order of the source is NOT kept: body-styled paragraphs are moved before
   the others, the first title-styled paragraph to the front *)
Lemma combined_order_refuted : exists l, text_combined l <> map p_id l.
Proof. exists [(false, false, 1%N); (false, true, 2%N); (true, false, 3%N)]. vm_compute. discriminate. Qed.
