(* C02 / ODT — obligations re-decided by the kernel over the constants and shapes generated from the
   live modules of the repository on this run (Gen/C02Odt.v). *)
From Coq Require Import ZArith List Bool.
From S2T Require Import Lib.PyStr C02.Lib C02.Xml C02.Doc C02.OdtModel C02.OdtProofs C02.CorrOdt Gen.C02Odt.
Import ListNotations.
Open Scope N_scope.

(* the whitespace premises of the theorems hold for CPython's str.isspace table (and space, which
   text:s produces) *)
Theorem C02_odt_ws_premises :
  o_ws_tbl odt_py_ws 9 && o_ws_tbl odt_py_ws 10 && o_ws_tbl odt_py_ws 32 = true.
Proof. vm_compute. reflexivity. Qed.
Print Assumptions C02_odt_ws_premises.

(* the tag constants the code compares with are the qualified names of the tag constructors the
   model matches on *)
Theorem C02_odt_tags :
  forallb (fun nt => match assoc (fst nt) odt_consts with
                     | Some v => str_eqb v (qname (snd nt))
                     | None => false
                     end)
    [ (s "_TEXT_P_TAG", T_p); (s "_TEXT_H_TAG", T_h); (s "_TABLE_TABLE_TAG", TB_table);
      (s "_TABLE_ROW_TAG", TB_row); (s "_TABLE_CELL_TAG", TB_cell); (s "_TEXT_LIST_TAG", T_list);
      (s "_TEXT_LIST_ITEM_TAG", T_list_item); (s "_TEXT_SPACE_TAG", T_s); (s "_TEXT_TAB_TAG", T_tab);
      (s "_TEXT_LINE_BREAK_TAG", T_line_break) ] = true.
Proof. vm_compute. reflexivity. Qed.
Print Assumptions C02_odt_tags.

(* _TEXT_SKIP_TAGS (sorted) is exactly {office:annotation, text:note} = o_skip_inline *)
Theorem C02_odt_skip_tags : odt_text_skip_tags = [qname O_annotation; qname T_note].
Proof. vm_compute. reflexivity. Qed.
Print Assumptions C02_odt_skip_tags.

(* the two tags on which the (repaired) walker returns early = o_skip_block *)
Theorem C02_odt_walker_skip_tags :
  assoc (s "_TEXT_TRACKED_CHANGES_TAG") odt_consts = Some (qname T_tracked_changes) /\
  assoc (s "_TABLE_COVERED_CELL_TAG") odt_consts = Some (qname TB_covered_cell).
Proof. vm_compute. split; reflexivity. Qed.
Print Assumptions C02_odt_walker_skip_tags.

(* the attribute looked up on text:s: the prefixed name the model uses resolves to the code's
   qualified name *)
Definition qattr (a : str) : str :=
  let p := takeWhile (fun c => negb (c =? 58)) a in
  let l := match dropWhile (fun c => negb (c =? 58)) a with [] => [] | _ :: r => r end in
  s "{" ++ ns_of p ++ s "}" ++ l.

Theorem C02_odt_attr_text_c : assoc (s "_ATTR_TEXT_C") odt_consts = Some (qattr attr_text_c).
Proof. vm_compute. reflexivity. Qed.
Print Assumptions C02_odt_attr_text_c.

(* the statement skeleton of _append_full_text_from_element is the one `walk` models: paragraph /
   heading branch, early return on the two skipped tags, recursion over the children *)
Theorem C02_odt_walker_shape :
  odt_walker_shape =
  [ s "tag = elem.tag";
    s "if tag in _TEXT_P_TAG,_TEXT_H_TAG : Assign If Return";
    s "if tag in _TEXT_TRACKED_CHANGES_TAG,_TABLE_COVERED_CELL_TAG : Return";
    s "for child in elem : _append_full_text_from_element(child, output)" ].
Proof. vm_compute. reflexivity. Qed.
Print Assumptions C02_odt_walker_shape.

(* the branch order of _append_element_text's child loop is the one `child_text` models *)
Theorem C02_odt_element_text_shape :
  odt_element_text_shape =
  [ s "tag in skip_tags"; s "tag == text_space_tag"; s "tag == text_tab_tag";
    s "tag == text_line_break_tag"; s "else: recurse"; s "tail"; s "end" ].
Proof. vm_compute. reflexivity. Qed.
Print Assumptions C02_odt_element_text_shape.

(* the model compares constructors where the code compares strings: the qualified names of the
   OpenDocument vocabulary are pairwise different *)
Definition odf_tags : list tag :=
  [ O_document_content; O_body; O_text; O_annotation; O_annotation_end;
    T_p; T_h; T_span; T_a; T_s; T_tab; T_line_break; T_list; T_list_item; T_list_header; T_section;
    T_note; T_note_citation; T_note_body; T_tracked_changes; T_changed_region; T_deletion; T_insertion;
    T_change_start; T_change_end; T_change; T_soft_page_break; T_bookmark; T_sequence_decls;
    TB_table; TB_column; TB_row; TB_cell; TB_covered_cell; TB_header_rows; D_frame; D_text_box;
    DC_creator; DC_date; X_other 1; X_other 2; W_p; W_t ].

Fixpoint str_nodup (l : list str) : bool :=
  match l with [] => true | x :: r => negb (mem_str x r) && str_nodup r end.

Theorem C02_odt_qname_injective : str_nodup (map qname odf_tags) = true.
Proof. vm_compute. reflexivity. Qed.
Print Assumptions C02_odt_qname_injective.

(* the main theorem instantiated with the live whitespace table *)
Theorem C02_odt_separated_py :
  forall (cls_of : N -> N) (d : doc),
    wf_doc (o_ws_tbl odt_py_ws) cls_of d = true -> supported_odt d = true ->
    words (o_ws_tbl odt_py_ws) (odt_text (o_ws_tbl odt_py_ws) d) = segments d.
Proof.
  intros cls_of d. apply (odt_separated (o_ws_tbl odt_py_ws) cls_of); vm_compute; reflexivity.
Qed.
Print Assumptions C02_odt_separated_py.
