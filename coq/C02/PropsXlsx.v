(* C02 / XLSX — property theorems about the trimming of a sheet (statements only). *)
From Coq Require Import List Bool Arith.
From S2T Require Import C02.Xlsx.
Import ListNotations.

(* nothing lost: every non-empty cell of a (possibly ragged) sheet survives the trimming of trailing
   empty rows and columns at its own coordinates *)
Theorem C02_xlsx_trim_keeps_cells :
  forall (rows : list row) (r c : nat), cell rows r c = true -> cell (trim rows) r c = true.
Proof. exact trim_keeps_cells. Qed.
Print Assumptions C02_xlsx_trim_keeps_cells.

(* nothing invented or moved *)
Theorem C02_xlsx_trim_only_cells :
  forall (rows : list row) (r c : nat), cell (trim rows) r c = true -> cell rows r c = true.
Proof. exact trim_only_cells. Qed.
Print Assumptions C02_xlsx_trim_only_cells.

(* probing the columns from the width of the first row only loses the cells to the right of it *)
Theorem C02_xlsx_first_row_width_refuted :
  exists rows r c, cell rows r c = true /\ cell (map (firstn (last_col_first_row rows)) rows) r c = false.
Proof. exact first_row_probe_refuted. Qed.
Print Assumptions C02_xlsx_first_row_width_refuted.
