(* C02 / OpenDocument Text — proofs about the model in OdtModel.v. *)
From Coq Require Import ZArith List Bool Lia ZifyBool.
From S2T Require Import Lib.PyStr C02.Lib C02.Xml C02.Doc C02.DocProofs C02.OdtModel.
Import ListNotations.
Open Scope N_scope.

(* ---------------------------------------------------------------- mixed content *)
Definition piece_text (p : piece) : str :=
  match p with PText t => t | PElem e => child_text etext e end.

Lemma child_text_set_tail e l : child_text etext (set_tail e l) = child_text etext e.
Proof. destruct e as [t a x c l']. reflexivity. Qed.

Lemma xtail_set_tail e l : xtail (set_tail e l) = l.
Proof. destruct e; reflexivity. Qed.

Lemma assemble_text ps :
  fst (assemble ps) ++ flat_map (fun k => child_text etext k ++ xtail k) (snd (assemble ps))
  = flat_map piece_text ps.
Proof.
  induction ps as [|p ps IH]; [reflexivity|].
  destruct p as [t|e]; simpl; destruct (assemble ps) as [tx ks]; simpl in *.
  - rewrite <- app_assoc, IH. reflexivity.
  - rewrite child_text_set_tail, xtail_set_tail, <- app_assoc, IH. reflexivity.
Qed.

Lemma etext_mixed t a ps : etext (mixed t a ps) = flat_map piece_text ps.
Proof.
  unfold mixed. pose proof (assemble_text ps) as H. destruct (assemble ps) as [tx ks]. exact H.
Qed.

Lemma xtag_mixed t a ps : xtag (mixed t a ps) = t.
Proof. unfold mixed. destruct (assemble ps). reflexivity. Qed.

(* ---------------------------------------------------------------- inline content *)
Lemma wrap_child_text k ps :
  is_kins k = false ->
  child_text etext (mixed (o_wrap_tag k) [] ps) = flat_map piece_text ps.
Proof.
  intros _. unfold child_text. rewrite xtag_mixed.
  destruct k; simpl; apply etext_mixed.
Qed.

Lemma inl_text i : o_inl_sup i = true -> flat_map piece_text (r_inl i) = flat (inl_syms i).
Proof.
  induction i as [t| |b| |t|t|t|k l IH|v ps IH] using inl_ind'; intro H; simpl in *;
    try reflexivity.
  - assert (Hl : flat_map piece_text (flat_map r_inl l) = flat (flat_map inl_syms l)).
    { unfold flat. rewrite !flat_map_flat_map. apply flat_map_ext_in'. intros x Hx.
      rewrite Forall_forall in IH. apply (IH x Hx). exact (forallb_In _ _ _ H Hx). }
    destruct (is_kins k) eqn:Ek.
    + simpl. rewrite flat_map_app. simpl. rewrite app_nil_r. exact Hl.
    + simpl. rewrite app_nil_r, wrap_child_text by exact Ek. exact Hl.
  - discriminate.
Qed.

Lemma para_text l :
  forallb o_inl_sup l = true -> flat_map piece_text (flat_map r_inl l) = flat (para_syms l).
Proof.
  intro H. unfold para_syms, flat. rewrite !flat_map_flat_map. apply flat_map_ext_in'. intros x Hx.
  apply inl_text. exact (forallb_In _ _ _ H Hx).
Qed.

(* ---------------------------------------------------------------- the walker on rendered blocks *)
Section Main.
  Variable ws : N -> bool.
  Variable cls_of : N -> N.
  Hypothesis ws_tab : ws 9 = true.
  Hypothesis ws_nl : ws 10 = true.

  Lemma walk_p a ps : walk ws (mixed T_p a ps) = para_out ws (mixed T_p a ps).
  Proof. unfold mixed. destruct (assemble ps). reflexivity. Qed.

  Lemma walk_h a ps : walk ws (mixed T_h a ps) = para_out ws (mixed T_h a ps).
  Proof. unfold mixed. destruct (assemble ps). reflexivity. Qed.

  Lemma words_para_out t a l :
    forallb (inl_wf ws cls_of) l = true -> forallb o_inl_sup l = true ->
    flat_map (words ws) (para_out ws (mixed t a (flat_map r_inl l))) = groups (para_syms l ++ [Sep 10]).
  Proof.
    intros Hwf Hsup. unfold para_out. rewrite etext_mixed, para_text by exact Hsup.
    rewrite words_if_nonblank, groups_snoc_sep.
    apply words_flat. apply (spec_ok_syms_ok ws cls_of ws_tab ws_nl). apply para_syms_ok; assumption.
  Qed.

  Lemma walk_nest_list n x : walk ws (nest_list n x) = walk ws x.
  Proof. induction n as [|n IH]; simpl; rewrite ?IH, !app_nil_r; reflexivity. Qed.

  Lemma walk_para st l :
    forallb (inl_wf ws cls_of) l = true -> forallb o_inl_sup l = true ->
    flat_map (words ws) (walk ws (r_para st l)) = groups (blk_syms (BPara st l)).
  Proof.
    intros Hwf Hsup. destruct st as [|lvl|lvl]; simpl.
    - rewrite walk_p. apply words_para_out; assumption.
    - rewrite walk_h. apply words_para_out; assumption.
    - rewrite walk_nest_list, walk_p. apply words_para_out; assumption.
  Qed.

  Lemma groups_cells (cells : list (list block)) :
    groups (flat_map (flat_map blk_syms) cells) = flat_map (fun c => groups (flat_map blk_syms c)) cells.
  Proof.
    apply groups_flat_map. intros c _. apply closed_flat_map. intros b _. apply blk_syms_closed.
  Qed.

  Lemma groups_rows (rows : list (list (list block))) :
    groups (flat_map (flat_map (flat_map blk_syms)) rows)
    = flat_map (fun r => groups (flat_map (flat_map blk_syms) r)) rows.
  Proof.
    apply groups_flat_map. intros r _. apply closed_flat_map. intros c _.
    apply closed_flat_map. intros b _. apply blk_syms_closed.
  Qed.

  (* a list of blocks whose members satisfy the block equation *)
  Lemma walk_blocks_list (bs : list block) :
    Forall (fun b => blk_wf ws cls_of b = true -> o_blk_sup b = true ->
                     flat_map (words ws) (walk ws (r_block b)) = groups (blk_syms b)) bs ->
    forallb (blk_wf ws cls_of) bs = true -> forallb o_blk_sup bs = true ->
    flat_map (words ws) (flat_map (walk ws) (map r_block bs)) = groups (flat_map blk_syms bs).
  Proof.
    intros IH Hwf Hsup. rewrite groups_blocks, flat_map_map', flat_map_flat_map.
    apply flat_map_ext_in'. intros b Hb. rewrite Forall_forall in IH.
    apply (IH b Hb); [exact (forallb_In _ _ _ Hwf Hb) | exact (forallb_In _ _ _ Hsup Hb)].
  Qed.

  Lemma walk_block b :
    blk_wf ws cls_of b = true -> o_blk_sup b = true ->
    flat_map (words ws) (walk ws (r_block b)) = groups (blk_syms b).
  Proof.
    induction b as [st l | rows IH | bs IH | items IH] using block_ind'; intros Hwf Hsup.
    - apply walk_para; assumption.
    - simpl in *. rewrite groups_rows, flat_map_map', flat_map_flat_map.
      apply flat_map_ext_in'. intros row Hrow.
      rewrite Forall_forall in IH. specialize (IH row Hrow).
      pose proof (forallb_In _ _ _ Hwf Hrow) as Hwf1. pose proof (forallb_In _ _ _ Hsup Hrow) as Hsup1.
      simpl. rewrite groups_cells, flat_map_map', flat_map_flat_map.
      apply flat_map_ext_in'. intros cell Hcell.
      rewrite Forall_forall in IH. specialize (IH cell Hcell).
      simpl. apply walk_blocks_list;
        [exact IH | exact (forallb_In _ _ _ Hwf1 Hcell) | exact (forallb_In _ _ _ Hsup1 Hcell)].
    - simpl in *. apply walk_blocks_list; assumption.
    - simpl in *. rewrite groups_cells, flat_map_map', flat_map_flat_map.
      apply flat_map_ext_in'. intros it Hit.
      rewrite Forall_forall in IH. specialize (IH it Hit).
      simpl. apply walk_blocks_list;
        [exact IH | exact (forallb_In _ _ _ Hwf Hit) | exact (forallb_In _ _ _ Hsup Hit)].
  Qed.

  (* the walker returns early on text:tracked-changes *)
  Lemma walk_tracked d : flat_map (walk ws) (r_tracked d) = [].
  Proof. unfold r_tracked. destruct (flat_map blk_regions (body d)); reflexivity. Qed.

  (* read_odt finds the rendered body *)
  Lemma body_of_content d : body_of (content_xml d) = Some (r_body d).
  Proof. reflexivity. Qed.

  Lemma odt_text_eq d : odt_text ws d = join [10] (walk ws (r_body d)).
  Proof. reflexivity. Qed.

  Theorem odt_separated d :
    wf_doc ws cls_of d = true -> supported_odt d = true ->
    words ws (odt_text ws d) = segments d.
  Proof.
    intros Hwf Hsup. rewrite odt_text_eq, words_join by exact ws_nl.
    unfold r_body, el. cbn [walk o_is_p o_is_h o_skip_block orb].
    rewrite flat_map_app, walk_tracked. cbn [app flat_map walk o_is_p o_is_h o_skip_block orb].
    unfold segments, doc_syms.
    unfold wf_doc in Hwf. apply andb_true_iff in Hwf as [Hwf _]. apply andb_true_iff in Hwf as [Hwf _].
    apply walk_blocks_list; [|exact Hwf|exact Hsup].
    apply Forall_forall. intros b _. apply walk_block.
  Qed.

  Theorem odt_fidelity d :
    wf_doc ws cls_of d = true -> supported_odt d = true ->
    tokchars ws (odt_text ws d) = List.concat (visible d).
  Proof. intros Hwf Hsup. apply fidelity_of_words. apply odt_separated; assumption. Qed.

  Theorem odt_no_excluded d :
    wf_doc ws cls_of d = true -> supported_odt d = true ->
    forallb (fun c => ws c || (cls_of c =? 0)) (odt_text ws d) = true.
  Proof.
    intros Hwf Hsup.
    exact (no_excluded_of_words ws cls_of d _ Hwf (odt_separated d Hwf Hsup)).
  Qed.

  Theorem odt_excluded_absent d t c :
    wf_doc ws cls_of d = true -> supported_odt d = true ->
    In t (excluded d) -> In c t -> ~ In c (odt_text ws d).
  Proof.
    intros Hwf Hsup.
    exact (excluded_absent_of_words ws cls_of d _ Hwf (odt_separated d Hwf Hsup) t c).
  Qed.

  Theorem odt_only_documented_decoration d c :
    wf_doc ws cls_of d = true -> supported_odt d = true ->
    In c (odt_text ws d) -> ws c = false -> In c (List.concat (visible d)).
  Proof.
    intros Hwf Hsup. apply decoration_of_words. apply odt_separated; assumption.
  Qed.
End Main.

(* ================================================================ witnesses *)
Definition o_ws0 (c : N) : bool := c <=? 32.
Definition o_cls0 (c : N) : N := (c - 19968) / 1024.

Definition mkdoc (bs : list block) : doc := {| body := bs; headers := [[24064]]; footers := [[25088]] |}.

(* every construct except the text box, with the nestings the walker before the repair got wrong *)
Definition odt_rich_doc : doc :=
  mkdoc
    [ BPara (PHeading 0) [IRun [19968]; IWrap KLink [IRun [19969]]];
      BPara PNormal [IRun [19970]; IDel [20992]; ITab; IRun [19971]; IBreak BrLine; IMark; IWrap KIns [IRun [19972]];
                     IComment [23040]; IMovedFrom [22016]; IWrap KSpan [IRun [19973]; IWrap KSdt [IRun [19974]]]];
      BPara (PListItem 1) [IRun [19975]];
      BTable [[[BPara PNormal [IRun [19976]];
                BTable [[[BPara PNormal [IRun [19977]]]; [BPara (PHeading 1) [IRun [19978]]]]]];
               [BList [[BPara PNormal [IRun [19979]]; BList [[BPara PNormal [IRun [19980]]]]]]]]];
      BSdt [BPara PNormal [IRun [19981]]; BSdt [BPara PNormal [IRun [19982]]]];
      BList [[BPara (PHeading 0) [IRun [19983]]];
             [BPara PNormal [IRun [19984]]; BTable [[[BPara PNormal [IRun [19985]]]]]]] ].

Lemma odt_rich_doc_ok :
  wf_doc o_ws0 o_cls0 odt_rich_doc = true /\ supported_odt odt_rich_doc = true /\
  List.length (segments odt_rich_doc) = 15%nat /\ List.length (excluded odt_rich_doc) = 5%nat /\
  nodup N.eq_dec (odt_kinds odt_rich_doc) = [1; 3; 4; 5] /\
  words o_ws0 (odt_text o_ws0 odt_rich_doc) = segments odt_rich_doc.
Proof. vm_compute. repeat split; reflexivity. Qed.

(* text box anchored in a paragraph: its paragraphs are glued to the host paragraph's text *)
Definition odt_box_doc : doc :=
  mkdoc [BPara PNormal [IRun [19968]; IBox false [[IRun [19969]]; [IRun [19970]]]; IRun [19971]]].

Lemma odt_text_box_refuted :
  exists d, wf_doc o_ws0 o_cls0 d = true /\
            tokchars o_ws0 (odt_text o_ws0 d) = List.concat (visible d) /\
            words o_ws0 (odt_text o_ws0 d) <> segments d.
Proof. exists odt_box_doc. vm_compute. repeat split; try reflexivity. discriminate. Qed.

(* ---- the walker before the repair (fixes/C02-odt-full-text-walk.patch) *)
Lemma odt_asis_deletion_refuted :
  exists d, wf_doc o_ws0 o_cls0 d = true /\
            forallb (fun c => o_ws0 c || (o_cls0 c =? 0)) (odt_text_asis o_ws0 d) = false.
Proof. exists (mkdoc [BPara PNormal [IRun [19968]; IDel [20992]; IRun [19969]]]). vm_compute. split; reflexivity. Qed.

Lemma odt_asis_nested_table_refuted :
  exists d, wf_doc o_ws0 o_cls0 d = true /\
            tokchars o_ws0 (odt_text_asis o_ws0 d) <> List.concat (visible d).
Proof.
  exists (mkdoc [BTable [[[BPara PNormal [IRun [19968]]; BTable [[[BPara PNormal [IRun [19969]]]]]];
                          [BPara PNormal [IRun [19970]]]]]]).
  vm_compute. split; [reflexivity | discriminate].
Qed.

Lemma odt_asis_nested_list_refuted :
  exists d, wf_doc o_ws0 o_cls0 d = true /\
            tokchars o_ws0 (odt_text_asis o_ws0 d) <> List.concat (visible d).
Proof.
  exists (mkdoc [BPara (PListItem 0) [IRun [19968]]; BPara (PListItem 1) [IRun [19969]]]).
  vm_compute. split; [reflexivity | discriminate].
Qed.

Lemma odt_asis_heading_in_list_refuted :
  exists d, wf_doc o_ws0 o_cls0 d = true /\
            tokchars o_ws0 (odt_text_asis o_ws0 d) <> List.concat (visible d).
Proof.
  exists (mkdoc [BList [[BPara (PHeading 0) [IRun [19968]]]; [BPara PNormal [IRun [19969]]]]]).
  vm_compute. split; [reflexivity | discriminate].
Qed.

Lemma odt_asis_annotation_in_list_refuted :
  exists d, wf_doc o_ws0 o_cls0 d = true /\
            forallb (fun c => o_ws0 c || (o_cls0 c =? 0)) (odt_text_asis o_ws0 d) = false.
Proof.
  exists (mkdoc [BList [[BPara PNormal [IRun [19968]; IComment [22016]]]]]). vm_compute. split; reflexivity.
Qed.

(* the two walkers agree on documents without those constructs (sample) *)
Lemma odt_asis_agrees_flat :
  let d := mkdoc [BPara (PHeading 0) [IRun [19968]]; BTable [[[BPara PNormal [IRun [19969]]]]];
                  BList [[BPara PNormal [IRun [19970]]]]] in
  odt_text_asis o_ws0 d = odt_text o_ws0 d.
Proof. vm_compute. reflexivity. Qed.
