(* C02 — shared string machinery: Python str.split() (no argument) as `words`, str.join, the
   "is there a non-whitespace character" test behind `if text.strip():`, and the symbol-level
   specification vocabulary (leaf / separator symbols, groups).

   `ws : N -> bool` is Python's str.isspace() on code points.  It is a Section variable: every lemma
   holds for every classification of characters; the extractors only need that the separator
   characters they insert themselves are whitespace (premises of the theorems, instantiated for the
   table dumped from the live interpreter in C02/Inst.v). *)
From Coq Require Import ZArith List Bool Lia ZifyBool.
From S2T Require Import Lib.PyStr.
Import ListNotations.
Open Scope N_scope.

Fixpoint join (sep : str) (l : list str) : str :=
  match l with
  | [] => []
  | [x] => x
  | x :: r => x ++ sep ++ join sep r
  end.

Definition emit (cur : str) : list str := match cur with [] => [] | _ => [cur] end.

(* specification symbols: a leaf text, or a boundary rendered as the (whitespace) character c *)
Inductive sym := Leaf (t : str) | Sep (c : N).

Definition sym_str (x : sym) : str := match x with Leaf t => t | Sep c => [c] end.
Definition flat (l : list sym) : str := flat_map sym_str l.

Fixpoint leaves (l : list sym) : list str :=
  match l with
  | [] => []
  | Leaf t :: r => t :: leaves r
  | Sep _ :: r => leaves r
  end.

(* the segments of a symbol list: leaf texts between two boundaries are concatenated (adjacent
   runs form one word), boundaries separate, empty segments vanish *)
Fixpoint groups_aux (cur : str) (l : list sym) : list str :=
  match l with
  | [] => emit cur
  | Leaf t :: r => groups_aux (cur ++ t) r
  | Sep _ :: r => emit cur ++ groups_aux [] r
  end.
Definition groups (l : list sym) : list str := groups_aux [] l.

Section Ws.
  Variable ws : N -> bool.

  (* "".join(...).strip() != ""  /  bool(text.strip()) *)
  Definition nonblank (t : str) : bool := existsb (fun c => negb (ws c)) t.

  (* str.split() with no argument *)
  Fixpoint words_aux (cur : str) (x : str) : list str :=
    match x with
    | [] => emit cur
    | c :: r => if ws c then emit cur ++ words_aux [] r else words_aux (cur ++ [c]) r
    end.
  Definition words (x : str) : list str := words_aux [] x.

  (* the non-whitespace characters of a string, in order *)
  Definition tokchars (x : str) : str := filter (fun c => negb (ws c)) x.

  Definition all_ws (x : str) : bool := forallb ws x.
  Definition no_ws (x : str) : bool := forallb (fun c => negb (ws c)) x.

  Definition sym_ok (x : sym) : bool := match x with Leaf t => no_ws t | Sep c => ws c end.
  Definition syms_ok (l : list sym) : bool := forallb sym_ok l.

  (* ---------------------------------------------------------------- words algebra *)
  Lemma words_aux_sep cur a c b :
    ws c = true -> words_aux cur (a ++ c :: b) = words_aux cur a ++ words b.
  Proof.
    intro Hc. revert cur. induction a as [|x a IH]; intro cur; simpl.
    - rewrite Hc. reflexivity.
    - destruct (ws x); [rewrite IH, app_assoc; reflexivity | apply IH].
  Qed.

  Lemma words_aux_leaf cur t r : no_ws t = true -> words_aux cur (t ++ r) = words_aux (cur ++ t) r.
  Proof.
    revert cur. induction t as [|x t IH]; intros cur H; simpl.
    - rewrite app_nil_r. reflexivity.
    - simpl in H. apply andb_true_iff in H as [Hx Ht]. apply negb_true_iff in Hx. rewrite Hx.
      rewrite IH by exact Ht. rewrite <- app_assoc. reflexivity.
  Qed.

  Lemma words_aux_flat cur l : syms_ok l = true -> words_aux cur (flat l) = groups_aux cur l.
  Proof.
    revert cur. induction l as [|x l IH]; intros cur H; [reflexivity|].
    simpl in H. apply andb_true_iff in H as [Hx Hl]. destruct x as [t|c]; simpl in *.
    - unfold flat in *. simpl. rewrite words_aux_leaf by exact Hx. apply IH; exact Hl.
    - rewrite Hx. unfold flat in IH. rewrite IH by exact Hl. reflexivity.
  Qed.

  Lemma words_flat l : syms_ok l = true -> words (flat l) = groups l.
  Proof. apply words_aux_flat. Qed.

  Lemma words_join c ls : ws c = true -> words (join [c] ls) = flat_map words ls.
  Proof.
    intro Hc. induction ls as [|x ls IH]; [reflexivity|].
    destruct ls as [|y r].
    - simpl. rewrite app_nil_r. reflexivity.
    - change (join [c] (x :: y :: r)) with (x ++ c :: join [c] (y :: r)).
      unfold words at 1. rewrite words_aux_sep by exact Hc. rewrite IH. reflexivity.
  Qed.

  Lemma words_blank t : nonblank t = false -> words t = [].
  Proof.
    unfold words. induction t as [|c t IH]; intro H; [reflexivity|].
    simpl in H. apply orb_false_iff in H as [Hc Ht]. apply negb_false_iff in Hc.
    simpl. rewrite Hc. simpl. apply IH; exact Ht.
  Qed.

  (* `if text.strip(): out.append(text)` keeps exactly the strings that have words *)
  Lemma words_if_nonblank t : flat_map words (if nonblank t then [t] else []) = words t.
  Proof.
    destruct (nonblank t) eqn:E; simpl; [apply app_nil_r | symmetry; apply words_blank; exact E].
  Qed.

  Lemma flat_map_words_filter ls : flat_map words (filter nonblank ls) = flat_map words ls.
  Proof.
    induction ls as [|x ls IH]; [reflexivity|]. simpl.
    destruct (nonblank x) eqn:E; simpl; rewrite IH; [reflexivity|].
    rewrite (words_blank _ E). reflexivity.
  Qed.

  Lemma concat_emit cur : List.concat (emit cur) = cur.
  Proof. destruct cur; simpl; [reflexivity | rewrite app_nil_r; reflexivity]. Qed.

  Lemma concat_words_aux cur x : List.concat (words_aux cur x) = cur ++ tokchars x.
  Proof.
    revert cur. induction x as [|c x IH]; intro cur; simpl.
    - rewrite concat_emit, app_nil_r. reflexivity.
    - destruct (ws c); simpl.
      + rewrite List.concat_app, concat_emit, IH. reflexivity.
      + rewrite IH, <- app_assoc. reflexivity.
  Qed.

  Lemma concat_words x : List.concat (words x) = tokchars x.
  Proof. apply concat_words_aux. Qed.

  Lemma tokchars_In c x : In c (tokchars x) <-> In c x /\ ws c = false.
  Proof. unfold tokchars. rewrite filter_In, negb_true_iff. tauto. Qed.
End Ws.

(* ---------------------------------------------------------------- groups algebra *)
Lemma groups_aux_sep cur a c b : groups_aux cur (a ++ Sep c :: b) = groups_aux cur a ++ groups b.
Proof.
  revert cur. induction a as [|x a IH]; intro cur; simpl; [reflexivity|].
  destruct x; [apply IH | rewrite IH, app_assoc; reflexivity].
Qed.

Lemma groups_sep a c b : groups (a ++ Sep c :: b) = groups a ++ groups b.
Proof. apply groups_aux_sep. Qed.

Lemma groups_snoc_sep a c : groups (a ++ [Sep c]) = groups a.
Proof. rewrite groups_sep. apply app_nil_r. Qed.

Lemma concat_groups_aux cur l : List.concat (groups_aux cur l) = cur ++ List.concat (leaves l).
Proof.
  revert cur. induction l as [|x l IH]; intro cur; simpl.
  - rewrite concat_emit, app_nil_r. reflexivity.
  - destruct x; simpl.
    + rewrite IH, <- app_assoc. reflexivity.
    + rewrite List.concat_app, concat_emit, IH. reflexivity.
Qed.

Lemma concat_groups l : List.concat (groups l) = List.concat (leaves l).
Proof. apply concat_groups_aux. Qed.

Lemma leaves_app a b : leaves (a ++ b) = leaves a ++ leaves b.
Proof.
  induction a as [|x a IH]; [reflexivity|]. destruct x; simpl; rewrite IH; reflexivity.
Qed.

Lemma syms_ok_app ws a b : syms_ok ws (a ++ b) = syms_ok ws a && syms_ok ws b.
Proof. apply forallb_app. Qed.

(* a symbol list "ends with a boundary" (or is empty): its groups compose by concatenation *)
Definition closed (l : list sym) : Prop := l = [] \/ exists a c, l = a ++ [Sep c].

Lemma groups_closed_app a b : closed a -> groups (a ++ b) = groups a ++ groups b.
Proof.
  intros [->|[a' [c ->]]]; [reflexivity|].
  rewrite <- app_assoc. simpl. rewrite groups_sep, groups_snoc_sep. reflexivity.
Qed.

Lemma closed_app a b : closed a -> closed b -> closed (a ++ b).
Proof.
  intros Ha [->|[b' [c ->]]]; [rewrite app_nil_r; exact Ha|].
  right. exists (a ++ b'), c. rewrite app_assoc. reflexivity.
Qed.

Lemma closed_flat_map {A} (f : A -> list sym) l :
  (forall x, In x l -> closed (f x)) -> closed (flat_map f l).
Proof.
  induction l as [|x l IH]; intro H; [left; reflexivity|]. simpl.
  apply closed_app; [apply H; left; reflexivity | apply IH; intros y Hy; apply H; right; exact Hy].
Qed.

Lemma groups_flat_map {A} (f : A -> list sym) l :
  (forall x, In x l -> closed (f x)) -> groups (flat_map f l) = flat_map (fun x => groups (f x)) l.
Proof.
  induction l as [|x l IH]; intro H; [reflexivity|]. simpl.
  rewrite groups_closed_app by (apply H; left; reflexivity).
  rewrite IH by (intros y Hy; apply H; right; exact Hy). reflexivity.
Qed.
