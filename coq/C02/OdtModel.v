(* C02 / OpenDocument Text — executable definitions only.

   (a) the modelled code
       open_office/_shared.py      element_text / _append_element_text        -> etext
       open_office/odt_extractor.py _get_text_recursive (skip set, text:s/tab/line-break)
                                    _append_full_text_from_element             -> walk   (repaired walker,
                                                                                  fixes/C02-odt-full-text-walk.patch)
                                                                               -> walk_asis (walker before the repair)
                                    _extract_full_text ("\n".join)             -> odt_full_text
                                    read_odt: root.find(".//office:body/office:text") -> body_of
   (b) render_odt : doc -> parts, the idiomatic ODF rendering of every construct of Doc.v; the
       harness serialises exactly these trees (one source of truth).

   Oracles: ElementTree parsing (the model starts from the parsed tree), zipfile, `int()` on the
   text:c attribute (modelled for the forms  [+-]?[0-9]+ , the only ones the generators emit besides
   values int() rejects), str.strip()/str.split() whitespace = the Section variable / parameter `ws`. *)
From Coq Require Import ZArith List Bool Lia ZifyBool.
From S2T Require Import Lib.PyStr C02.Lib C02.Xml C02.Doc.
Import ListNotations.
Open Scope N_scope.

(* ---------------------------------------------------------------- tags the code compares with *)
Definition o_is_p (t : tag) : bool := match t with T_p => true | _ => false end.
Definition o_is_h (t : tag) : bool := match t with T_h => true | _ => false end.
Definition o_is_s (t : tag) : bool := match t with T_s => true | _ => false end.
Definition o_is_tab (t : tag) : bool := match t with T_tab => true | _ => false end.
Definition o_is_br (t : tag) : bool := match t with T_line_break => true | _ => false end.
Definition o_is_table (t : tag) : bool := match t with TB_table => true | _ => false end.
Definition o_is_row (t : tag) : bool := match t with TB_row => true | _ => false end.
Definition o_is_cell (t : tag) : bool := match t with TB_cell => true | _ => false end.
Definition o_is_list (t : tag) : bool := match t with T_list => true | _ => false end.
Definition o_is_item (t : tag) : bool := match t with T_list_item => true | _ => false end.
Definition o_is_body (t : tag) : bool := match t with O_body => true | _ => false end.
Definition o_is_text (t : tag) : bool := match t with O_text => true | _ => false end.
(* _TEXT_SKIP_TAGS *)
Definition o_skip_inline (t : tag) : bool := match t with T_note | O_annotation => true | _ => false end.
(* the repaired walker returns early on these *)
Definition o_skip_block (t : tag) : bool :=
  match t with T_tracked_changes | TB_covered_cell => true | _ => false end.

(* attribute names are kept in their prefixed form (what the serialiser writes); InstOdt.v proves that
   the prefixed name resolves to the qualified name the code looks up *)
Definition attr_text_c : str := s "text:c".

(* ---------------------------------------------------------------- int(raw) for [+-]?[0-9]+ *)
Definition digit_val (c : N) : option Z :=
  if (48 <=? c) && (c <=? 57) then Some (Z.of_N (c - 48)) else None.

Fixpoint parse_digits (acc : Z) (x : str) : option Z :=
  match x with
  | [] => Some acc
  | c :: r => match digit_val c with Some v => parse_digits (acc * 10 + v)%Z r | None => None end
  end.

Definition parse_int (x : str) : option Z :=
  match x with
  | [] => None
  | c :: r =>
      if c =? 45 then match r with [] => None | _ => option_map Z.opp (parse_digits 0 r) end
      else if c =? 43 then match r with [] => None | _ => parse_digits 0 r end
      else parse_digits 0 x
  end.

(* raw_count = child.get(attr_text_c, "1"); try: count = int(raw_count) except ValueError: count = 1 *)
Definition space_count (e : xml) : Z :=
  match assoc attr_text_c (xattrs e) with
  | None => 1%Z
  | Some raw => match parse_int raw with Some n => n | None => 1%Z end
  end.

(* ---------------------------------------------------------------- _append_element_text *)
Definition child_text (rec : xml -> str) (k : xml) : str :=
  let t := xtag k in
  if o_skip_inline t then []
  else if o_is_s t then (let n := space_count k in if (0 <? n)%Z then repeat 32 (Z.to_nat n) else [])
  else if o_is_tab t then [9]
  else if o_is_br t then [10]
  else rec k.

(* "".join(parts): element.text, then per child its contribution followed by its tail *)
Fixpoint etext (e : xml) : str :=
  match e with
  | Elem _ _ x c _ => x ++ flat_map (fun k => child_text etext k ++ xtail k) c
  end.

(* ---------------------------------------------------------------- _append_full_text_from_element *)
Section Walk.
  Variable ws : N -> bool.

  (* text = _get_text_recursive(elem); if text.strip(): output.append(text) *)
  Definition para_out (p : xml) : list str := let t := etext p in if nonblank ws t then [t] else [].

  (* the repaired walker *)
  Fixpoint walk (e : xml) : list str :=
    match e with
    | Elem t _ _ c _ =>
        if o_is_p t || o_is_h t then para_out e
        else if o_skip_block t then []
        else flat_map walk c
    end.

  (* the walker before the repair *)
  Fixpoint walk_asis (e : xml) : list str :=
    match e with
    | Elem t _ _ c _ =>
        if o_is_p t || o_is_h t then para_out e
        else if o_is_table t then
          flat_map (fun row => flat_map (fun cell => flat_map para_out (iter o_is_p cell))
                                        (findall o_is_cell row))
                   (iter o_is_row e)
        else if o_is_list t then
          flat_map (fun item => flat_map para_out (iter o_is_p item)) (iter o_is_item e)
        else flat_map walk_asis c
    end.

  (* _extract_full_text *)
  Definition odt_full_text (body : xml) : str := join [10] (walk body).
  Definition odt_full_text_asis (body : xml) : str := join [10] (walk_asis body).
End Walk.

(* content_root.find(".//office:body/office:text"): office:text children of office:body descendants *)
Definition body_of (root : xml) : option xml :=
  match flat_map (findall o_is_text) (flat_map (iter o_is_body) (xkids root)) with
  | [] => None
  | b :: _ => Some b
  end.

(* ================================================================ rendering *)
(* mixed content: character data and elements; ElementTree stores the data before the first child as
   the parent's .text and the data after a child as that child's .tail *)
Inductive piece := PText (t : str) | PElem (e : xml).

Definition set_tail (e : xml) (l : str) : xml := match e with Elem t a x c _ => Elem t a x c l end.

Fixpoint assemble (ps : list piece) : str * list xml :=
  match ps with
  | [] => ([], [])
  | PText t :: r => let '(tx, ks) := assemble r in (t ++ tx, ks)
  | PElem e :: r => let '(tx, ks) := assemble r in ([], set_tail e tx :: ks)
  end.

Definition mixed (t : tag) (a : list (str * str)) (ps : list piece) : xml :=
  let '(tx, ks) := assemble ps in Elem t a tx ks [].

Definition change_id (t : str) : str := s "ct" ++ flat_map dec t.

Definition o_wrap_tag (k : wrapk) : tag := match k with KLink => T_a | _ => T_span end.

Definition is_kins (k : wrapk) : bool := match k with KIns => true | _ => false end.

Fixpoint r_inl (i : inl) : list piece :=
  match i with
  | IRun t => [PText t]
  | ITab => [PElem (el T_tab [])]
  | IBreak _ => [PElem (el T_line_break [])]
  | IMark => [PElem (el T_soft_page_break [])]
  | IDel t | IMovedFrom t =>
      (* the deleted text lives in text:tracked-changes; the paragraph only carries the change point *)
      [PElem (Elem T_change [(s "text:change-id", change_id t)] [] [] [])]
  | IComment t =>
      [PElem (el O_annotation [Elem DC_creator [] (s "Reviewer") [] []; Elem T_p [] t [] []])]
  | IWrap k l =>
      if is_kins k
      then (* tracked insertion: milestones around the inserted content *)
        PElem (Elem T_change_start [(s "text:change-id", s "ins")] [] [] []) ::
        flat_map r_inl l ++ [PElem (Elem T_change_end [(s "text:change-id", s "ins")] [] [] [])]
      else [PElem (mixed (o_wrap_tag k) [] (flat_map r_inl l))]
  | IBox _ ps =>
      [PElem (el D_frame [el D_text_box (map (fun p => mixed T_p [] (flat_map r_inl p)) ps)])]
  end.

(* the changed regions of text:tracked-changes, in document order *)
Fixpoint inl_regions (i : inl) : list xml :=
  match i with
  | IDel t | IMovedFrom t =>
      [Elem T_changed_region [(s "text:id", change_id t)] [] [el T_deletion [Elem T_p [] t [] []]] []]
  | IWrap k l =>
      (if is_kins k then [Elem T_changed_region [(s "text:id", s "ins")] [] [el T_insertion []] []] else [])
      ++ flat_map inl_regions l
  | IBox _ ps => flat_map (flat_map inl_regions) ps
  | _ => []
  end.

Fixpoint blk_regions (b : block) : list xml :=
  match b with
  | BPara _ l => flat_map inl_regions l
  | BTable rows => flat_map (flat_map (flat_map blk_regions)) rows
  | BSdt bs => flat_map blk_regions bs
  | BList items => flat_map (flat_map blk_regions) items
  end.

(* a list-style paragraph of level n: n+1 nested text:list/text:list-item *)
Fixpoint nest_list (n : nat) (x : xml) : xml :=
  match n with
  | O => el T_list [el T_list_item [x]]
  | S m => el T_list [el T_list_item [nest_list m x]]
  end.

Definition r_para (st : pstyle) (l : list inl) : xml :=
  match st with
  | PNormal => mixed T_p [] (flat_map r_inl l)
  | PHeading lvl => mixed T_h [(s "text:outline-level", dec (lvl + 1))] (flat_map r_inl l)
  | PListItem lvl => nest_list (N.to_nat lvl) (mixed T_p [] (flat_map r_inl l))
  end.

Fixpoint r_block (b : block) : xml :=
  match b with
  | BPara st l => r_para st l
  | BTable rows =>
      el TB_table (el TB_column [] ::
                   map (fun row => el TB_row (map (fun cell => el TB_cell (map r_block cell)) row)) rows)
  | BSdt bs => el T_section (map r_block bs)
  | BList items => el T_list (map (fun it => el T_list_item (map r_block it)) items)
  end.

Definition r_tracked (d : doc) : list xml :=
  match flat_map blk_regions (body d) with
  | [] => []
  | rs => [el T_tracked_changes rs]
  end.

Definition r_body (d : doc) : xml :=
  el O_text (r_tracked d ++ el T_sequence_decls [] :: map r_block (body d)).

Definition content_xml (d : doc) : xml := el O_document_content [el O_body [r_body d]].

(* styles.xml (headers/footers) uses the style: namespace, which Xml.v does not know: the harness
   writes it from `headers d` / `footers d`; the full text never reads styles.xml *)
Definition render_odt (d : doc) : list (str * xml) := [(s "content.xml", content_xml d)].

(* the main text the extractor produces for the rendered document *)
Definition odt_text (ws : N -> bool) (d : doc) : str :=
  match body_of (content_xml d) with Some b => odt_full_text ws b | None => [] end.
Definition odt_text_asis (ws : N -> bool) (d : doc) : str :=
  match body_of (content_xml d) with Some b => odt_full_text_asis ws b | None => [] end.

(* ================================================================ supported fragment *)
(* (repaired walker) everything except a text box anchored in a paragraph: its paragraphs are merged
   into the host paragraph without a separator (C02_odt_text_box_refuted) *)
Fixpoint o_inl_sup (i : inl) : bool :=
  match i with
  | IWrap _ l => forallb o_inl_sup l
  | IBox _ _ => false
  | _ => true
  end.

Fixpoint o_blk_sup (b : block) : bool :=
  match b with
  | BPara _ l => forallb o_inl_sup l
  | BTable rows => forallb (forallb (forallb o_blk_sup)) rows
  | BSdt bs => forallb o_blk_sup bs
  | BList items => forallb (forallb o_blk_sup) items
  end.

Definition supported_odt (d : doc) : bool := forallb o_blk_sup (body d).

(* construct kinds used to attribute findings: 1 tracked deletion, 2 text box, 3 table nested in a table,
   4 list nested in a list (incl. list-style paragraphs of level > 0), 5 heading inside a list item or
   table cell, 6 annotation anchored inside a list item or table cell.  Kinds 1,3,4,5,6 are handled correctly by the repaired walker (they are the constructs the
   walker before the repair got wrong: C02_odt_asis_*_refuted). *)
Fixpoint o_inl_kinds (nested : bool) (i : inl) : list N :=
  match i with
  | IDel _ | IMovedFrom _ => [1]
  | IComment _ => if nested then [6] else []
  | IWrap _ l => flat_map (o_inl_kinds nested) l
  | IBox _ ps => 2 :: flat_map (flat_map (o_inl_kinds nested)) ps
  | _ => []
  end.

Fixpoint o_blk_kinds (in_table in_list : bool) (b : block) : list N :=
  match b with
  | BPara st l =>
      match st with
      | PNormal => []
      | PHeading _ => if in_table || in_list then [5] else []
      | PListItem lvl => if in_list || (0 <? lvl) then [4] else []
      end ++ flat_map (o_inl_kinds (in_table || in_list || match st with PListItem _ => true | _ => false end)) l
  | BTable rows =>
      (if in_table then [3] else []) ++ flat_map (flat_map (flat_map (o_blk_kinds true in_list))) rows
  | BSdt bs => flat_map (o_blk_kinds in_table in_list) bs
  | BList items =>
      (if in_list then [4] else []) ++ flat_map (flat_map (o_blk_kinds in_table true)) items
  end.

Definition odt_kinds (d : doc) : list N := flat_map (o_blk_kinds false false) (body d).
