(* C02 / RTF — executable definitions only.

   Code under study: sharepoint2text/parsing/extractors/ms_legacy/rtf_extractor.py
     _RtfParser._strip_rtf_full_with_pages, _is_skip_destination, _extract_body_text (incl. the
     seven _DEST_PATTERNS substitutions), the full_text assembly in parse(), RtfContent.get_full_text.

   The model follows the code REPAIRED by fixes/C02-rtf-skip-and-boundaries.patch:
     * the `{\` destination look-ahead only runs while no group is being skipped,
     * "cell", "row", "sect" are in SPECIAL_CHARS and \page / \sbkpage append "\n" to the result.
   (HEAD also has _repair_surrogates on the joined result: modelled as repair_surrogates.)
   Everything else is the code as it is (the `\u` branch that swallows `\u` of `\ul`, `\uc1`, ... included).

   Character predicates str.isalpha / str.isdigit, the regex classes \d and \s, re.IGNORECASE and
   int(.., 16) are modelled for ASCII sources only (the harness feeds ASCII bytes; _decode_rtf is then
   the identity).  `ws` (Python str.isspace / the set str.strip() removes) is a parameter.
   self.pages (flush_page) is not part of full_text and is not modelled. *)
From Coq Require Import ZArith List Bool Lia ZifyBool.
From S2T Require Import Lib.PyStr C02.Lib.
Import ListNotations.
Open Scope N_scope.

(* ---------------------------------------------------------------- tables (regenerated: Gen/C02Rtf.v) *)
Record tables := { SKIP : list str; SPECIAL : list (str * str) }.

(* ---------------------------------------------------------------- ASCII character classes *)
Definition is_upper (c : N) : bool := (65 <=? c) && (c <=? 90).
Definition is_lower (c : N) : bool := (97 <=? c) && (c <=? 122).
Definition is_alpha (c : N) : bool := is_upper c || is_lower c.
Definition is_digit (c : N) : bool := (48 <=? c) && (c <=? 57).
Definition is_dd (c : N) : bool := is_digit c || (c =? 45).
Definition is_hex (c : N) : bool := is_digit c || ((65 <=? c) && (c <=? 70)) || ((97 <=? c) && (c <=? 102)).
(* regex \s on a str pattern, ASCII part; also what int() strips *)
Definition is_re_space (c : N) : bool := ((9 <=? c) && (c <=? 13)) || ((28 <=? c) && (c <=? 32)).
Definition lower (c : N) : N := if is_upper c then c + 32 else c.
Definition is_brace (c : N) : bool := (c =? 123) || (c =? 125).
Definition is_special (c : N) : bool := (c =? 92) || (c =? 123) || (c =? 125).

Definition head_is (c : N) (x : str) : bool := match x with d :: _ => d =? c | [] => false end.

Definition is_hi (c : N) : bool := (55296 <=? c) && (c <=? 56319).
Definition is_lo (c : N) : bool := (56320 <=? c) && (c <=? 57343).
Definition is_surr (c : N) : bool := (55296 <=? c) && (c <=? 57343).

(* _repair_surrogates: text.encode("utf-16-le", "surrogatepass").decode("utf-16-le", "replace") :
   a high surrogate followed by a low one becomes the character they encode, any other surrogate
   code point becomes U+FFFD, everything else is unchanged *)
Fixpoint repair_surrogates (x : str) : str :=
  match x with
  | [] => []
  | c :: r =>
      if is_hi c then
        match r with
        | d :: r' => if is_lo d then (65536 + (c - 55296) * 1024 + (d - 56320)) :: repair_surrogates r'
                     else 65533 :: repair_surrogates r
        | [] => [65533]
        end
      else if is_lo c then 65533 :: repair_surrogates r
      else c :: repair_surrogates r
  end.

Definition hexval (c : N) : N :=
  if is_digit c then c - 48 else if is_lower c then c - 87 else c - 55.

Definition dec_val (x : str) : N := fold_left (fun a c => 10 * a + (c - 48)) x 0.

(* ---------------------------------------------------------------- the abstract document *)
Inductive item :=
| RText (t : str)                              (* visible leaf text, token characters *)
| RSpace                                       (* a literal space of the running text *)
| RUni (neg : bool) (digs : str) (fb : str)    (* \u[-]digs followed by its fallback: "?", one char, or
                                                  nothing (then the control word's delimiter space) *)
| RHex (h1 h2 : N)                             (* \'h1h2 *)
| RPar | RLine | RTab | RCell | RRow | RPage
| RCtrl (w : str) (param : str)                (* formatting control word, delimiter space *)
| RGroup (l : list item)
| RDest (star : bool) (kw : str) (l : list item)  (* {\kw ...} / {\*\kw ...} : not body text *)
| REsc (c : N).                                (* \\ \{ \} *)
Definition rdoc := list item.

Section ItemInd.
  Variable P : item -> Prop.
  Hypothesis Htext : forall t, P (RText t).
  Hypothesis Hspace : P RSpace.
  Hypothesis Huni : forall n d f, P (RUni n d f).
  Hypothesis Hhex : forall a b, P (RHex a b).
  Hypothesis Hpar : P RPar.  Hypothesis Hline : P RLine.  Hypothesis Htab : P RTab.
  Hypothesis Hcell : P RCell.  Hypothesis Hrow : P RRow.  Hypothesis Hpage : P RPage.
  Hypothesis Hctrl : forall w p, P (RCtrl w p).
  Hypothesis Hgroup : forall l, Forall P l -> P (RGroup l).
  Hypothesis Hdest : forall st kw l, Forall P l -> P (RDest st kw l).
  Hypothesis Hesc : forall c, P (REsc c).
  Fixpoint item_ind' (x : item) : P x :=
    let go := fix go (l : list item) : Forall P l :=
      match l with [] => Forall_nil P | y :: r => Forall_cons y (item_ind' y) (go r) end in
    match x with
    | RText t => Htext t | RSpace => Hspace | RUni n d f => Huni n d f | RHex a b => Hhex a b
    | RPar => Hpar | RLine => Hline | RTab => Htab | RCell => Hcell | RRow => Hrow | RPage => Hpage
    | RCtrl w p => Hctrl w p
    | RGroup l => Hgroup l (go l)
    | RDest st kw l => Hdest st kw l (go l)
    | REsc c => Hesc c
    end.
End ItemInd.

(* ---------------------------------------------------------------- the renderer (one source of truth) *)
Definition bs : N := 92.
Definition cw (w : str) : str := bs :: w ++ [32].

Fixpoint render_item (x : item) : str :=
  match x with
  | RText t => t
  | RSpace => [32]
  | RUni neg digs fb =>
      bs :: 117 :: (if neg then [45] else []) ++ digs ++ (match fb with [] => [32] | _ => fb end)
  | RHex a b => [bs; 39; a; b]
  | RPar => cw (s "par") | RLine => cw (s "line") | RTab => cw (s "tab")
  | RCell => cw (s "cell") | RRow => cw (s "row") | RPage => cw (s "page")
  | RCtrl w p => bs :: w ++ p ++ [32]
  | RGroup l => 123 :: flat_map render_item l ++ [125]
  | RDest st kw l => 123 :: (if st then [bs; 42] else []) ++ bs :: kw ++ 32 :: flat_map render_item l ++ [125]
  | REsc c => [bs; c]
  end.
Definition render_items (l : list item) : str := flat_map render_item l.
Definition rtf_prefix : str := s "{\rtf1\ansi ".
Definition render_rtf (d : rdoc) : str := rtf_prefix ++ render_items d ++ [125].

(* ---------------------------------------------------------------- _DEST_PATTERNS as brace matching *)
(* the regex tail: non-brace characters, then any number of one-level groups each followed by
   non-brace characters, then a closing brace (nest = false: no inner group).  Length of the match. *)
Fixpoint body_len (nest inner : bool) (x : str) : option nat :=
  match x with
  | [] => None
  | c :: r =>
      if c =? 123 then (if inner then None else if nest then option_map S (body_len nest true r) else None)
      else if c =? 125 then (if inner then option_map S (body_len nest false r) else Some 1%nat)
      else option_map S (body_len nest inner r)
  end.

(* case-insensitive literal prefix (p in lower case); returns the rest *)
Fixpoint ci_prefix (p x : str) : option str :=
  match p, x with
  | [], _ => Some x
  | c :: p', d :: x' => if lower d =? c then ci_prefix p' x' else None
  | _ :: _, [] => None
  end.

Definition add (k : nat) (o : option nat) : option nat := option_map (fun n => (k + n)%nat) o.

(* open brace, backslash, kw (ignoring case), body *)
Definition m_plain (kw : str) (nest : bool) (x : str) : option nat :=
  match ci_prefix (123 :: bs :: kw) x with
  | Some r => add (2 + List.length kw) (body_len nest false r)
  | None => None
  end.

Definition opt_char (f : N -> bool) (x : str) : nat * str :=
  match x with c :: r => if f c then (1%nat, r) else (0%nat, x) | [] => (0%nat, x) end.

(* open brace, backslash, optional star, optional backslash, kw, optional l/r/f, one or more
   whitespace, body *)
Definition m_hf (kw : str) (x : str) : option nat :=
  match x with
  | 123 :: 92 :: r0 =>
      let '(n1, r1) := opt_char (N.eqb 42) r0 in
      let '(n2, r2) := opt_char (N.eqb 92) r1 in
      match ci_prefix kw r2 with
      | Some r3 =>
          let '(n3, r4) := opt_char (fun c => let c := lower c in (c =? 108) || (c =? 114) || (c =? 102)) r3 in
          match r4 with
          | c :: _ => if is_re_space c
                      then add (2 + n1 + n2 + List.length kw + n3) (body_len true false r4)
                      else None
          | [] => None
          end
      | None => None
      end
  | _ => None
  end.

(* open brace, backslash, star, backslash, one or more letters, body *)
Definition m_star (x : str) : option nat :=
  match x with
  | 123 :: 92 :: 42 :: 92 :: c :: r => if is_alpha c then add 4 (body_len true false (c :: r)) else None
  | _ => None
  end.

(* pattern.sub("", x): k = characters of a running match still to drop *)
Fixpoint sub_pat (m : str -> option nat) (k : nat) (x : str) : str :=
  match x with
  | [] => []
  | c :: r =>
      match k with
      | S k' => sub_pat m k' r
      | O => match m x with
             | Some (S n) => sub_pat m n r
             | _ => c :: sub_pat m 0 r
             end
      end
  end.

Definition dest_matchers : list (str -> option nat) :=
  [ m_plain (s "fonttbl") true; m_plain (s "colortbl") false; m_plain (s "stylesheet") true;
    m_plain (s "info") true; m_hf (s "header"); m_hf (s "footer"); m_star ].

Definition remove_dests (x : str) : str := fold_left (fun acc m => sub_pat m 0 acc) dest_matchers x.

(* ---------------------------------------------------------------- _is_skip_destination *)
Definition is_skip (T : tables) (ahead : str) : bool :=
  startswith ahead [bs; 42] || existsb (fun kw => startswith ahead (bs :: kw)) (SKIP T).

(* `i + 1 < n and text[i + 1] == "\\"` and _is_skip_destination(text[i + 1 : i + 30]);  r = text[i+1:] *)
Definition look (T : tables) (r : str) : bool :=
  if head_is 92 r then is_skip T (firstn 29 r) else false.

(* ---------------------------------------------------------------- the backslash branch *)
(* int(text[i+2:i+4], 16) then chr(): Some code point, None = ValueError (caught) *)
Definition int16_chr (a b : N) : option N :=
  if is_hex a && is_hex b then Some (16 * hexval a + hexval b)
  else if is_re_space a && is_hex b then Some (hexval b)
  else if is_hex a && is_re_space b then Some (hexval a)
  else if (a =? 43) && is_hex b then Some (hexval b)
  else if (a =? 45) && is_hex b then (if hexval b =? 0 then Some 0 else None)
  else None.

(* _RE_UNICODE.match(text, i) with r = text[i+2:] : (chr(int(g1) & 0xFFFF), len(match) - 2) *)
Definition match_uni (r : str) : option (N * nat) :=
  let '(neg, r1) := match r with c :: t => if c =? 45 then (true, t) else (false, r) | [] => (false, r) end in
  let ds := takeWhile is_digit r1 in
  match ds with
  | [] => None
  | _ =>
      let q := if head_is 63 (dropWhile is_digit r1) then 1%nat else 0%nat in
      let v := Z.of_N (dec_val ds) in
      Some (Z.to_N (Z.modulo (if neg then Z.opp v else v) 65536),
            ((if neg then 1 else 0) + List.length ds + q)%nat)
  end.

Definition is_page_word (w : str) : bool := str_eqb w (s "page") || str_eqb w (s "sbkpage").

Definition ctrl_out (T : tables) (w : str) : str :=
  if is_page_word w then [10]
  else match assoc w (SPECIAL T) with Some v => v | None => [] end.

(* r = text[i+1:] at a backslash outside skipped groups; (appended text, characters of r consumed) *)
Definition lex_bs (T : tables) (r : str) : str * nat :=
  match r with
  | [] => ([], 0%nat)
  | c :: r1 =>
      if is_special c then ([c], 1%nat)
      else if c =? 117 then
        match match_uni r1 with
        | Some (v, n) => ([v], S n)
        | None => ([], 1%nat)
        end
      else if c =? 39 then
        match r1 with
        | a :: b :: _ => (match int16_chr a b with Some v => [v] | None => [] end, 3%nat)
        | _ => ([], 1%nat)
        end
      else if is_alpha c then
        let w := takeWhile is_alpha r in
        let r2 := dropWhile is_alpha r in
        let p := takeWhile is_dd r2 in
        let sp := if head_is 32 (dropWhile is_dd r2) then 1%nat else 0%nat in
        (ctrl_out T w, (List.length w + List.length p + sp)%nat)
      else if c =? 126 then ([160], 1%nat)
      else if c =? 95 then ([173], 1%nat)
      else ([], 1%nat)
  end.

(* ---------------------------------------------------------------- _strip_rtf_full_with_pages *)
(* k = characters still to consume of the construct lexed at an earlier backslash *)
Fixpoint go (T : tables) (k : nat) (depth : Z) (skip : option Z) (x : str) : str :=
  match x with
  | [] => []
  | c :: r =>
      match k with
      | S k' => go T k' depth skip r
      | O =>
          if c =? 123 then
            let depth' := (depth + 1)%Z in
            let skip' := match skip with
                         | Some sd => Some sd
                         | None => if look T r then Some depth' else None
                         end in
            go T 0 depth' skip' r
          else if c =? 125 then
            let skip' := match skip with
                         | Some sd => if (depth =? sd)%Z then None else Some sd
                         | None => None
                         end in
            go T 0 (depth - 1)%Z skip' r
          else match skip with
               | Some _ => go T 0 depth skip r
               | None =>
                   if c =? 92 then let '(out, n) := lex_bs T r in out ++ go T n depth None r
                   else if c =? 13 then go T 0 depth None r
                   else c :: go T 0 depth None r
               end
      end
  end.

(* joined = _repair_surrogates("".join(result)) *)
Definition strip_full (T : tables) (x : str) : str := repair_surrogates (go T 0 0%Z None x).

(* ---------------------------------------------------------------- paragraphs and full_text *)
Fixpoint split_aux (sep : N) (cur : str) (x : str) : list str :=
  match x with
  | [] => [cur]
  | c :: r => if c =? sep then cur :: split_aux sep [] r else split_aux sep (cur ++ [c]) r
  end.
Definition split_on (sep : N) (x : str) : list str := split_aux sep [] x.

Section Post.
  Variable ws : N -> bool.
  Definition strip (x : str) : str := rev (dropWhile ws (rev (dropWhile ws x))).
  Definition nonempty (x : str) : bool := match x with [] => false | _ => true end.
  (* paragraphs = [p.strip() for p in extracted.split("\n") if p.strip()];  "\n".join(...) *)
  Definition post (raw : str) : str := join [10] (filter nonempty (map strip (split_on 10 raw))).
End Post.

(* _extract_body_text + the join in parse() *)
Definition body_full_text (T : tables) (ws : N -> bool) (text : str) : str :=
  post ws (strip_full T (remove_dests text)).

(* parse() then get_full_text() on the decoded text (no exception path: nothing in between raises on
   the modelled steps; the other _extract_* steps do not touch paragraphs) *)
Definition full_text_of (T : tables) (ws : N -> bool) (text : str) : str :=
  if startswith text (s "{\rtf") then body_full_text T ws text else text.

(* ---------------------------------------------------------------- the specification *)
Definition uni_val (neg : bool) (digs : str) : N :=
  let v := Z.of_N (dec_val digs) in Z.to_N (Z.modulo (if neg then Z.opp v else v) 65536).
Definition hex_val (a b : N) : N := 16 * hexval a + hexval b.

Definition sep_of (T : tables) (w : str) : list sym :=
  match ctrl_out T w with c :: _ => [Sep c] | [] => [Sep 10] end.

Fixpoint syms (T : tables) (x : item) : list sym :=
  match x with
  | RText t => [Leaf t]
  | RSpace => [Sep 32]
  | RUni neg digs _ => [Leaf [uni_val neg digs]]
  | RHex a b => [Leaf [hex_val a b]]
  | RPar => sep_of T (s "par") | RLine => sep_of T (s "line") | RTab => sep_of T (s "tab")
  | RCell => sep_of T (s "cell") | RRow => sep_of T (s "row") | RPage => sep_of T (s "page")
  | RCtrl _ _ => []
  | RGroup l => flat_map (syms T) l
  | RDest _ _ _ => []
  | REsc c => [Leaf [c]]
  end.
Definition doc_syms (T : tables) (d : rdoc) : list sym := flat_map (syms T) d.
(* words expected in the output: leaf texts between two boundaries concatenated *)
Definition segments (T : tables) (d : rdoc) : list str := groups (doc_syms T d).
Definition visible (T : tables) (d : rdoc) : list str := leaves (doc_syms T d).

(* ---------------------------------------------------------------- well-formedness / support *)
Definition tok_char (ws : N -> bool) (c : N) : bool := negb (ws c) && negb (is_special c) && negb (is_surr c).

Definition boundary_words : list str := [s "par"; s "line"; s "tab"; s "cell"; s "row"; s "page"].

Fixpoint wf_item (T : tables) (ws : N -> bool) (x : item) : bool :=
  match x with
  | RText t => nonempty t && forallb (tok_char ws) t
  | RSpace => true
  | RUni neg digs fb =>
      nonempty digs && forallb is_digit digs && negb (ws (uni_val neg digs)) &&
      match fb with
      | [] => true
      | [c] => tok_char ws c && negb (is_digit c)
      | _ => false
      end
  | RHex a b => is_hex a && is_hex b && negb (ws (hex_val a b))
  | RPar | RLine | RTab | RCell | RRow | RPage => true
  | RCtrl w p =>
      nonempty w && forallb is_alpha w && forallb is_dd p &&
      negb (is_page_word w) && negb (has_key w (SPECIAL T))
  | RGroup l => forallb (wf_item T ws) l
  | RDest st kw l => nonempty kw && forallb is_alpha kw && forallb (wf_item T ws) l
  | REsc c => is_special c
  end.
Definition wf_rdoc T ws (d : rdoc) : bool := forallb (wf_item T ws) d.

(* no \{ / \} anywhere (inside a skipped destination the loop counts them as real braces) *)
Fixpoint no_esc_brace (x : item) : bool :=
  match x with
  | REsc c => negb (is_brace c)
  | RGroup l => forallb no_esc_brace l
  | RDest _ _ l => forallb no_esc_brace l
  | _ => true
  end.

Fixpoint supported_item (T : tables) (x : item) : bool :=
  match x with
  | RUni neg digs fb =>
      str_eqb fb [63] &&                                         (* fallback is exactly "?" *)
      negb ((55296 <=? uni_val neg digs) && (uni_val neg digs <=? 57343))   (* no surrogate halves *)
  | RHex a b => (hex_val a b <? 128) || (160 <=? hex_val a b)    (* cp1252 = latin-1 there *)
  | RCtrl w _ => negb (head_is 117 w)                            (* \ul \uc1 \up6 ... *)
  | RGroup l => negb (look T (render_items l ++ [125])) && forallb (supported_item T) l
  | RDest st kw l => (st || mem_str kw (SKIP T)) && forallb no_esc_brace l
  | _ => true
  end.
Definition supported_rtf T (d : rdoc) : bool := forallb (supported_item T) d.

(* remove the destinations pattern k removes (kind, nesting limit), top-down *)
Fixpoint flat_items (l : list item) : bool :=
  match l with
  | [] => true
  | (RGroup _ | RDest _ _ _) :: _ => false
  | _ :: r => flat_items r
  end.
Definition shallow (l : list item) : bool :=
  forallb (fun x => match x with RGroup l' | RDest _ _ l' => flat_items l' | _ => true end) l.

(* what the seven substitutions remove from a rendered document: pass k deletes the destinations of
   its kind whose content nests at most one level (colortbl: not at all), outermost first *)
Definition ci_starts (p x : str) : bool := match ci_prefix p x with Some _ => true | None => false end.
Definition is_hf (base kw : str) : bool :=
  let k := map lower kw in
  str_eqb k base || str_eqb k (base ++ [108]) || str_eqb k (base ++ [114]) || str_eqb k (base ++ [102]).

Definition pass_filters : list (bool -> str -> list item -> bool) :=
  [ (fun st kw l => negb st && ci_starts (s "fonttbl") kw && shallow l);
    (fun st kw l => negb st && ci_starts (s "colortbl") kw && flat_items l);
    (fun st kw l => negb st && ci_starts (s "stylesheet") kw && shallow l);
    (fun st kw l => negb st && ci_starts (s "info") kw && shallow l);
    (fun st kw l => is_hf (s "header") kw && shallow l);
    (fun st kw l => is_hf (s "footer") kw && shallow l);
    (fun st kw l => st && shallow l) ].

Fixpoint prune1 (f : bool -> str -> list item -> bool) (x : item) : list item :=
  match x with
  | RGroup l => [RGroup (flat_map (prune1 f) l)]
  | RDest st kw l => if f st kw l then [] else [RDest st kw (flat_map (prune1 f) l)]
  | _ => [x]
  end.
Definition prune (d : rdoc) : rdoc := fold_left (fun acc f => flat_map (prune1 f) acc) pass_filters d.

(* the premise under which the seven regex substitutions are known to act as the identity:
   no position of the text at which one of them matches *)
Fixpoint inert_at (ms : list (str -> option nat)) (x : str) : bool :=
  match x with
  | [] => true
  | _ :: r => forallb (fun m => match m x with None => true | Some _ => false end) ms && inert_at ms r
  end.
Definition pre_inert (x : str) : bool := inert_at dest_matchers x.

(* the premise used when they do act: what they leave is again a rendered document d' *)
Definition pre_to (d d' : rdoc) : bool := str_eqb (remove_dests (render_rtf d)) (render_rtf d').
Definition pre_ok (d : rdoc) : bool := pre_to d (prune d).
