(* C02 — DOCX: the extracted main text of a rendered supported document has exactly the
   specified words. *)
From Coq Require Import ZArith List Bool Lia ZifyBool.
From S2T Require Import Lib.PyStr C02.Lib C02.Xml C02.Doc C02.DocProofs C02.Model.
Import ListNotations.
Open Scope N_scope.

(* text appended by the walker for a sequence of sibling elements *)
Definition ptxt (l : list xml) : str := List.concat (flat_map pte l).

Lemma ptxt_app a b : ptxt (a ++ b) = ptxt a ++ ptxt b.
Proof. unfold ptxt. rewrite flat_map_app, List.concat_app. reflexivity. Qed.

Lemma ptxt_cons x l : ptxt (x :: l) = List.concat (pte x) ++ ptxt l.
Proof. unfold ptxt. simpl. rewrite List.concat_app. reflexivity. Qed.

Lemma ptxt_wrap k l : ptxt (r_inl (IWrap k l)) = ptxt (flat_map r_inl l).
Proof.
  unfold ptxt. destruct k; simpl; rewrite ?app_nil_r; reflexivity.
Qed.

Lemma ptxt_inls l :
  Forall (fun i => inl_sup i = true -> ptxt (r_inl i) = flat (inl_syms i)) l ->
  forallb inl_sup l = true -> ptxt (flat_map r_inl l) = flat (flat_map inl_syms l).
Proof.
  induction 1 as [|i l Hi _ IH]; intro H; [reflexivity|].
  simpl in H. apply andb_true_iff in H as [H1 H2]. simpl.
  rewrite ptxt_app, flat_app, Hi, IH by assumption. reflexivity.
Qed.

Lemma ptxt_inl i : inl_sup i = true -> ptxt (r_inl i) = flat (inl_syms i).
Proof.
  induction i as [t| |b| |t|t|t|k l IH|v ps IH] using inl_ind'; intro H; try discriminate H;
    try reflexivity; try (destruct b; reflexivity).
  - unfold ptxt. destruct t; simpl; rewrite ?app_nil_r; reflexivity.
  - rewrite ptxt_wrap. simpl in H. apply ptxt_inls; assumption.
Qed.

Lemma pte_p_props st : pte (p_props st) = [].
Proof. destruct st; reflexivity. Qed.

Lemma para_content_r_para st l :
  forallb inl_sup l = true -> para_content (r_para st l) = flat (para_syms l).
Proof.
  intro H. unfold para_content, r_para, el. simpl xkids.
  change (List.concat (flat_map pte (p_props st :: flat_map r_inl l))) with (ptxt (p_props st :: flat_map r_inl l)).
  rewrite ptxt_cons, pte_p_props. simpl. apply ptxt_inls; [|exact H].
  apply Forall_forall. intros i _. apply ptxt_inl.
Qed.

(* ---------------------------------------------------------------- Element.iter over rendered inlines *)
Definition blockf (f : tag -> bool) : Prop := f = is_p \/ f = is_tr \/ f = is_tc.

Lemma iter_inls_nil f l :
  Forall (fun i => inl_sup i = true -> flat_map (iter f) (r_inl i) = []) l ->
  forallb inl_sup l = true -> flat_map (iter f) (flat_map r_inl l) = [].
Proof.
  induction 1 as [|i l Hi _ IH]; intro H; [reflexivity|].
  simpl in H. apply andb_true_iff in H as [H1 H2]. simpl.
  rewrite flat_map_app, Hi, IH by assumption. reflexivity.
Qed.

Lemma iter_inl_nil f i : blockf f -> inl_sup i = true -> flat_map (iter f) (r_inl i) = [].
Proof.
  intro Hf. induction i as [t| |b| |t|t|t|k l IH|v ps IH] using inl_ind'; intro H; try discriminate H;
    try (destruct Hf as [-> | [-> | ->]]; reflexivity);
    try (destruct b; destruct Hf as [-> | [-> | ->]]; reflexivity).
  simpl in H. pose proof (iter_inls_nil f l IH H) as E.
  destruct Hf as [-> | [-> | ->]]; destruct k; simpl; rewrite ?app_nil_r; exact E.
Qed.

Lemma iter_para_inls_nil f l : blockf f -> forallb inl_sup l = true -> flat_map (iter f) (flat_map r_inl l) = [].
Proof.
  intros Hf H. apply iter_inls_nil; [|exact H]. apply Forall_forall. intros i _. apply iter_inl_nil; exact Hf.
Qed.

Lemma iter_p_props f st : blockf f -> iter f (p_props st) = [].
Proof. intros [-> | [-> | ->]]; destruct st; reflexivity. Qed.

Lemma iter_p_r_para st l : forallb inl_sup l = true -> iter is_p (r_para st l) = [r_para st l].
Proof.
  intro H. unfold r_para, el. simpl.
  rewrite iter_p_props by (left; reflexivity). simpl.
  rewrite iter_para_inls_nil by (try exact H; left; reflexivity). reflexivity.
Qed.

Lemma iter_r_para_nil f st l :
  f = is_tr \/ f = is_tc -> forallb inl_sup l = true -> iter f (r_para st l) = [].
Proof.
  intros Hf H. assert (Hb : blockf f) by (destruct Hf; [right; left | right; right]; assumption).
  unfold r_para, el. simpl. rewrite iter_p_props by exact Hb. simpl.
  rewrite iter_para_inls_nil by assumption. destruct Hf as [-> | ->]; reflexivity.
Qed.

(* ---------------------------------------------------------------- cells, rows, tables *)
Definition r_cell (cell : list block) : xml := el W_tc (el W_tcPr [] :: flat_map r_block cell).
Definition r_row (row : list (list block)) : xml := el W_tr (map r_cell row).
Definition r_tbl (rows : list (list (list block))) : xml := el W_tbl (el W_tblPr [] :: map r_row rows).

Lemma r_block_table rows : r_block (BTable rows) = [r_tbl rows].
Proof. reflexivity. Qed.

Lemma flat_map_flat_concat {A B} (f : A -> list B) ll :
  flat_map (flat_map f) ll = flat_map f (List.concat ll).
Proof. induction ll as [|l ll IH]; simpl; [reflexivity|]. rewrite flat_map_app, IH. reflexivity. Qed.

(* the paragraphs of a block of a table cell, in document order *)
Fixpoint blk_paras (b : block) : list (list inl) :=
  match b with
  | BPara _ l => [l]
  | BTable _ => []
  | BSdt bs => flat_map blk_paras bs
  | BList items => flat_map (flat_map blk_paras) items
  end.

Definition cell_paras (cell : list block) : list (list inl) := flat_map blk_paras cell.

Lemma iter_sdt f X :
  blockf f -> flat_map (iter f) [el W_sdt [el W_sdtPr []; el W_sdtContent X]] = flat_map (iter f) X.
Proof. intros [-> | [-> | ->]]; unfold el; simpl; rewrite !app_nil_r; reflexivity. Qed.

(* what Element.iter finds in the rendering of a supported cell block: no row, no cell, and exactly
   its paragraphs *)
Definition cell_good (bs : list block) : Prop :=
  (forall f, f = is_tr \/ f = is_tc -> flat_map (iter f) (flat_map r_block bs) = []) /\
  map para_content (flat_map (iter is_p) (flat_map r_block bs)) =
  map (fun l => flat (para_syms l)) (flat_map blk_paras bs).

Lemma cell_good_nil : cell_good [].
Proof. split; [intros; reflexivity | reflexivity]. Qed.

Lemma cell_good_app a b : cell_good a -> cell_good b -> cell_good (a ++ b).
Proof.
  intros [A1 A2] [B1 B2]. split.
  - intros f Hf. rewrite !flat_map_app, A1, B1 by exact Hf. reflexivity.
  - rewrite !flat_map_app, !map_app, A2, B2. reflexivity.
Qed.

Lemma cell_good_blocks bs :
  Forall (fun b => cell_blk_sup b = true -> cell_good [b]) bs ->
  forallb cell_blk_sup bs = true -> cell_good bs.
Proof.
  induction 1 as [|b bs Hb _ IH]; intro H; [apply cell_good_nil|].
  simpl in H. apply andb_true_iff in H as [H1 H2].
  change (b :: bs) with ([b] ++ bs). apply cell_good_app; [apply Hb; exact H1 | apply IH; exact H2].
Qed.

Lemma cell_good_block b : cell_blk_sup b = true -> cell_good [b].
Proof.
  induction b as [st l | rows IH | bs IH | items IH] using block_ind'; intro H.
  - simpl in H. split.
    + intros f Hf. change (flat_map r_block [BPara st l]) with [r_para st l].
      change (flat_map (iter f) [r_para st l]) with (iter f (r_para st l) ++ []).
      rewrite (iter_r_para_nil f st l Hf H). reflexivity.
    + change (flat_map r_block [BPara st l]) with [r_para st l].
      change (flat_map blk_paras [BPara st l]) with [l].
      change (flat_map (iter is_p) [r_para st l]) with (iter is_p (r_para st l) ++ []).
      rewrite (iter_p_r_para st l H). cbn [app map]. rewrite para_content_r_para by exact H. reflexivity.
  - discriminate H.
  - simpl in H. pose proof (cell_good_blocks bs IH H) as [G1 G2]. split.
    + intros f Hf.
      change (flat_map r_block [BSdt bs]) with [el W_sdt [el W_sdtPr []; el W_sdtContent (flat_map r_block bs)]].
      rewrite iter_sdt.
      * apply G1; exact Hf.
      * destruct Hf; [right; left | right; right]; assumption.
    + change (flat_map r_block [BSdt bs]) with [el W_sdt [el W_sdtPr []; el W_sdtContent (flat_map r_block bs)]].
      change (flat_map blk_paras [BSdt bs]) with (flat_map blk_paras bs ++ []). rewrite app_nil_r.
      rewrite iter_sdt by (left; reflexivity). exact G2.
  - simpl in H.
    assert (G : cell_good (List.concat items)).
    { induction IH as [|it items Hit _ IHitems]; [apply cell_good_nil|].
      simpl in H. apply andb_true_iff in H as [H1 H2]. simpl.
      apply cell_good_app; [apply cell_good_blocks; assumption | apply IHitems; exact H2]. }
    destruct G as [G1 G2].
    assert (E1 : flat_map r_block [BList items] = flat_map r_block (List.concat items)).
    { change (flat_map r_block [BList items]) with (flat_map (flat_map r_block) items ++ []).
      rewrite app_nil_r. apply flat_map_flat_concat. }
    assert (E2 : flat_map blk_paras [BList items] = flat_map blk_paras (List.concat items)).
    { change (flat_map blk_paras [BList items]) with (flat_map (flat_map blk_paras) items ++ []).
      rewrite app_nil_r. apply flat_map_flat_concat. }
    split.
    + intros f Hf. rewrite E1. apply G1; exact Hf.
    + rewrite E1, E2. exact G2.
Qed.

Lemma cell_good_cell cell : forallb cell_blk_sup cell = true -> cell_good cell.
Proof.
  intro H. apply cell_good_blocks; [|exact H]. apply Forall_forall. intros b _. apply cell_good_block.
Qed.

Lemma iter_cell_blocks_nil f cell :
  f = is_tr \/ f = is_tc -> forallb cell_blk_sup cell = true ->
  flat_map (iter f) (flat_map r_block cell) = [].
Proof. intros Hf H. exact (proj1 (cell_good_cell cell H) f Hf). Qed.

Lemma iter_p_cell_blocks cell :
  forallb cell_blk_sup cell = true ->
  map para_content (flat_map (iter is_p) (flat_map r_block cell)) =
  map (fun l => flat (para_syms l)) (cell_paras cell).
Proof. intro H. exact (proj2 (cell_good_cell cell H)). Qed.

Lemma iter_el_no f t c : f t = false -> iter f (el t c) = flat_map (iter f) c.
Proof. intro H. unfold el. simpl. rewrite H. reflexivity. Qed.

Lemma iter_el_yes f t c : f t = true -> iter f (el t c) = el t c :: flat_map (iter f) c.
Proof. intro H. unfold el. simpl. rewrite H. reflexivity. Qed.

Lemma flat_map_singleton {A B} (g : A -> B) l : flat_map (fun x => [g x]) l = map g l.
Proof. induction l as [|x l IH]; simpl; [reflexivity | rewrite IH; reflexivity]. Qed.

Lemma iter_p_r_cell cell :
  forallb cell_blk_sup cell = true ->
  map para_content (iter is_p (r_cell cell)) = map (fun l => flat (para_syms l)) (cell_paras cell).
Proof.
  intro H. unfold r_cell. rewrite iter_el_no by reflexivity. cbn [flat_map].
  change (iter is_p (el W_tcPr [])) with (@nil xml). cbn [app]. apply iter_p_cell_blocks; exact H.
Qed.

Lemma iter_tc_r_cell cell : forallb cell_blk_sup cell = true -> iter is_tc (r_cell cell) = [r_cell cell].
Proof.
  intro H. unfold r_cell. rewrite iter_el_yes by reflexivity. cbn [flat_map].
  change (iter is_tc (el W_tcPr [])) with (@nil xml). cbn [app].
  rewrite iter_cell_blocks_nil by auto. reflexivity.
Qed.

Lemma iter_tr_r_cell cell : forallb cell_blk_sup cell = true -> iter is_tr (r_cell cell) = [].
Proof.
  intro H. unfold r_cell. rewrite iter_el_no by reflexivity. cbn [flat_map].
  change (iter is_tr (el W_tcPr [])) with (@nil xml). cbn [app].
  apply iter_cell_blocks_nil; auto.
Qed.

Lemma iter_tc_r_row row :
  forallb (forallb cell_blk_sup) row = true -> iter is_tc (r_row row) = map r_cell row.
Proof.
  intro H. unfold r_row. rewrite iter_el_no by reflexivity. rewrite flat_map_map'.
  rewrite (flat_map_ext_in' _ (fun c => [r_cell c]))
    by (intros c Hc; apply iter_tc_r_cell; exact (forallb_In _ _ _ H Hc)).
  apply flat_map_singleton.
Qed.

Lemma iter_tr_r_row row :
  forallb (forallb cell_blk_sup) row = true -> iter is_tr (r_row row) = [r_row row].
Proof.
  intro H. unfold r_row at 1. rewrite iter_el_yes by reflexivity. fold (r_row row). f_equal.
  rewrite flat_map_map'. apply flat_map_nil_in. intros c Hc.
  apply iter_tr_r_cell; exact (forallb_In _ _ _ H Hc).
Qed.

Lemma iter_tr_r_tbl rows :
  forallb (forallb (forallb cell_blk_sup)) rows = true -> iter is_tr (r_tbl rows) = map r_row rows.
Proof.
  intro H. unfold r_tbl. rewrite iter_el_no by reflexivity. cbn [flat_map].
  change (iter is_tr (el W_tblPr [])) with (@nil xml). cbn [app]. rewrite flat_map_map'.
  rewrite (flat_map_ext_in' _ (fun r => [r_row r]))
    by (intros r Hr; apply iter_tr_r_row; exact (forallb_In _ _ _ H Hr)).
  apply flat_map_singleton.
Qed.

Section Words.
  Variable ws : N -> bool.
  Variable cls_of : N -> N.
  Hypothesis ws_tab : ws 9 = true.
  Hypothesis ws_nl : ws 10 = true.
  Hypothesis ws_sp : ws 32 = true.

  Notation wfi := (inl_wf ws cls_of).
  Notation wfb := (blk_wf ws cls_of).

  Lemma words_para st l :
    forallb inl_sup l = true -> forallb wfi l = true ->
    words ws (para_content (r_para st l)) = groups (para_syms l).
  Proof.
    intros Hs Hw. rewrite para_content_r_para by exact Hs. apply words_flat.
    apply (spec_ok_syms_ok ws cls_of ws_tab ws_nl). apply para_syms_ok; exact Hw.
  Qed.

  Lemma words_joined_parts (L : list str) :
    flat_map (words ws) (joined_parts L) = flat_map (words ws) L.
  Proof.
    destruct L as [|x L]; [reflexivity|].
    unfold joined_parts. cbn [flat_map]. rewrite app_nil_r. apply words_join; exact ws_sp.
  Qed.

  (* specification side: the groups of a supported cell block are the groups of its paragraphs,
     and each of these paragraphs is supported and well-formed *)
  Definition cell_spec (bs : list block) : Prop :=
    flat_map (fun l => groups (para_syms l)) (flat_map blk_paras bs) = groups (flat_map blk_syms bs) /\
    (forall l, In l (flat_map blk_paras bs) -> forallb inl_sup l = true /\ forallb wfi l = true).

  Lemma cell_spec_nil : cell_spec [].
  Proof. split; [reflexivity | intros l []]. Qed.

  Lemma cell_spec_app a b : cell_spec a -> cell_spec b -> cell_spec (a ++ b).
  Proof.
    intros [A1 A2] [B1 B2]. split.
    - rewrite !flat_map_app, A1, B1. symmetry. apply groups_closed_app.
      apply closed_flat_map. intros x _. apply blk_syms_closed.
    - intros l Hl. rewrite flat_map_app in Hl. apply in_app_iff in Hl as [Hl|Hl]; auto.
  Qed.

  Lemma cell_spec_blocks bs :
    Forall (fun b => cell_blk_sup b = true -> wfb b = true -> cell_spec [b]) bs ->
    forallb cell_blk_sup bs = true -> forallb wfb bs = true -> cell_spec bs.
  Proof.
    induction 1 as [|b bs Hb _ IH]; intros Hs Hw; [apply cell_spec_nil|].
    simpl in Hs, Hw. apply andb_true_iff in Hs as [S1 S2]. apply andb_true_iff in Hw as [W1 W2].
    change (b :: bs) with ([b] ++ bs). apply cell_spec_app; [apply Hb; assumption | apply IH; assumption].
  Qed.

  Lemma cell_spec_block b : cell_blk_sup b = true -> wfb b = true -> cell_spec [b].
  Proof.
    induction b as [st l | rows IH | bs IH | items IH] using block_ind'; intros Hs Hw.
    - simpl in Hs, Hw. split.
      + simpl. rewrite !app_nil_r. rewrite groups_snoc_sep. reflexivity.
      + simpl. intros l' [<-|[]]. split; assumption.
    - discriminate Hs.
    - simpl in Hs, Hw. destruct (cell_spec_blocks bs IH Hs Hw) as [G1 G2]. split.
      + simpl. rewrite !app_nil_r. exact G1.
      + simpl. rewrite app_nil_r. exact G2.
    - simpl in Hs, Hw.
      assert (G : cell_spec (List.concat items)).
      { induction IH as [|it items Hit _ IHitems]; [apply cell_spec_nil|].
        simpl in Hs, Hw. apply andb_true_iff in Hs as [S1 S2]. apply andb_true_iff in Hw as [W1 W2]. simpl.
        apply cell_spec_app; [apply cell_spec_blocks; assumption | apply IHitems; assumption]. }
      destruct G as [G1 G2].
      assert (E1 : flat_map blk_paras [BList items] = flat_map blk_paras (List.concat items)).
      { change (flat_map blk_paras [BList items]) with (flat_map (flat_map blk_paras) items ++ []).
      rewrite app_nil_r. apply flat_map_flat_concat. }
      assert (E2 : flat_map blk_syms [BList items] = flat_map blk_syms (List.concat items)).
      { change (flat_map blk_syms [BList items]) with (flat_map (flat_map blk_syms) items ++ []).
      rewrite app_nil_r. apply flat_map_flat_concat. }
      split; [rewrite E1, E2; exact G1 | rewrite E1; exact G2].
  Qed.

  Lemma cell_spec_cell cell : forallb cell_blk_sup cell = true -> forallb wfb cell = true -> cell_spec cell.
  Proof.
    intros Hs Hw. apply cell_spec_blocks; [|exact Hs|exact Hw]. apply Forall_forall. intros b _. apply cell_spec_block.
  Qed.

  Lemma cell_paras_groups cell :
    forallb cell_blk_sup cell = true -> forallb wfb cell = true ->
    flat_map (fun l => groups (para_syms l)) (cell_paras cell) = groups (flat_map blk_syms cell).
  Proof. intros Hs Hw. exact (proj1 (cell_spec_cell cell Hs Hw)). Qed.

  Lemma cell_paras_wf_sup cell l :
    forallb cell_blk_sup cell = true -> forallb wfb cell = true -> In l (cell_paras cell) ->
    forallb inl_sup l = true /\ forallb wfi l = true.
  Proof. intros Hs Hw. exact (proj2 (cell_spec_cell cell Hs Hw) l). Qed.

  Lemma words_cell cell :
    forallb cell_blk_sup cell = true -> forallb wfb cell = true ->
    flat_map (words ws) (cell_text ws (r_cell cell)) = groups (flat_map blk_syms cell).
  Proof.
    intros Hs Hw. unfold cell_text.
    rewrite words_joined_parts, flat_map_words_filter, iter_p_r_cell by exact Hs.
    rewrite flat_map_map'. rewrite <- cell_paras_groups by assumption.
    apply flat_map_ext_in'. intros l Hl.
    destruct (cell_paras_wf_sup cell l Hs Hw Hl) as [H1 H2].
    apply words_flat. apply (spec_ok_syms_ok ws cls_of ws_tab ws_nl). apply para_syms_ok; exact H2.
  Qed.

  Lemma words_row row :
    forallb (forallb cell_blk_sup) row = true -> forallb (forallb wfb) row = true ->
    flat_map (words ws) (flat_map (cell_text ws) (iter is_tc (r_row row))) =
    groups (flat_map (flat_map blk_syms) row).
  Proof.
    intros Hs Hw. rewrite iter_tc_r_row by exact Hs.
    rewrite flat_map_map', flat_map_flat_map.
    rewrite groups_flat_map by (intros c _; apply closed_flat_map; intros b _; apply blk_syms_closed).
    apply flat_map_ext_in'. intros c Hc.
    apply words_cell; [exact (forallb_In _ _ _ Hs Hc) | exact (forallb_In _ _ _ Hw Hc)].
  Qed.

  Lemma words_table rows :
    forallb (forallb (forallb cell_blk_sup)) rows = true -> forallb (forallb (forallb wfb)) rows = true ->
    flat_map (words ws) (table_text ws (r_tbl rows)) = groups (blk_syms (BTable rows)).
  Proof.
    intros Hs Hw. unfold table_text. rewrite iter_tr_r_tbl by exact Hs.
    rewrite flat_map_map', flat_map_flat_map. simpl blk_syms.
    rewrite groups_flat_map
      by (intros r _; apply closed_flat_map; intros c _; apply closed_flat_map; intros b _; apply blk_syms_closed).
    apply flat_map_ext_in'. intros r Hr.
    apply words_row; [exact (forallb_In _ _ _ Hs Hr) | exact (forallb_In _ _ _ Hw Hr)].
  Qed.

  (* words contributed by a sequence of body children *)
  Definition bw (l : list xml) : list str :=
    flat_map (words ws) (flat_map (body_elem_text ws) (flat_map block_elements l)).

  Lemma bw_app a b : bw (a ++ b) = bw a ++ bw b.
  Proof. unfold bw. rewrite !flat_map_app. reflexivity. Qed.

  Lemma bw_para st l : bw [r_para st l] = words ws (para_content (r_para st l)).
  Proof.
    unfold bw. change (flat_map block_elements [r_para st l]) with [r_para st l].
    cbn [flat_map]. unfold body_elem_text at 1. change (xtag (r_para st l)) with W_p. cbv iota.
    rewrite !app_nil_r. apply words_if_nonblank.
  Qed.

  Lemma bw_tbl rows : bw [r_tbl rows] = flat_map (words ws) (table_text ws (r_tbl rows)).
  Proof.
    unfold bw. change (flat_map block_elements [r_tbl rows]) with [r_tbl rows].
    cbn [flat_map]. unfold body_elem_text at 1. change (xtag (r_tbl rows)) with W_tbl. cbv iota.
    rewrite !app_nil_r. reflexivity.
  Qed.

  Lemma bw_sdt X : bw [el W_sdt [el W_sdtPr []; el W_sdtContent X]] = bw X.
  Proof.
    unfold bw.
    assert (E : flat_map block_elements [el W_sdt [el W_sdtPr []; el W_sdtContent X]] =
                el W_sdtPr [] :: flat_map block_elements X)
      by (unfold el; simpl; rewrite !app_nil_r; reflexivity).
    rewrite E. reflexivity.
  Qed.

  Lemma bw_blocks bs :
    Forall (fun b => blk_sup b = true -> wfb b = true -> bw (r_block b) = groups (blk_syms b)) bs ->
    forallb blk_sup bs = true -> forallb wfb bs = true ->
    bw (flat_map r_block bs) = flat_map (fun b => groups (blk_syms b)) bs.
  Proof.
    induction 1 as [|b bs Hb _ IH]; intros Hs Hw; [reflexivity|].
    simpl in Hs, Hw. apply andb_true_iff in Hs as [S1 S2]. apply andb_true_iff in Hw as [W1 W2].
    simpl. rewrite bw_app, Hb, IH by assumption. reflexivity.
  Qed.

  Lemma words_block b : blk_sup b = true -> wfb b = true -> bw (r_block b) = groups (blk_syms b).
  Proof.
    induction b as [st l | rows IH | bs IH | items IH] using block_ind'; intros Hs Hw.
    - simpl in Hs, Hw. simpl r_block. rewrite bw_para. simpl blk_syms. rewrite groups_snoc_sep.
      apply words_para; assumption.
    - simpl in Hs, Hw. rewrite r_block_table, bw_tbl. apply words_table; assumption.
    - simpl in Hs, Hw. simpl r_block. rewrite bw_sdt. simpl blk_syms. rewrite groups_blocks.
      apply bw_blocks; assumption.
    - simpl in Hs, Hw. simpl r_block. simpl blk_syms.
      rewrite groups_flat_map by (intros it _; apply closed_flat_map; intros b _; apply blk_syms_closed).
      induction IH as [|it items Hit _ IHitems]; [reflexivity|].
      simpl in Hs, Hw. apply andb_true_iff in Hs as [S1 S2]. apply andb_true_iff in Hw as [W1 W2].
      simpl. rewrite bw_app, IHitems by assumption.
      rewrite (bw_blocks it Hit S1 W1), groups_blocks. reflexivity.
  Qed.

  Theorem docx_words d :
    wf_doc ws cls_of d = true -> supported_docx d = true -> words ws (docx_text ws d) = segments d.
  Proof.
    intros Hw Hs. unfold wf_doc in Hw. apply andb_true_iff in Hw as [Hw _]. apply andb_true_iff in Hw as [Hw _].
    change (docx_text ws d) with (full_text_of_body ws (r_body d)).
    unfold full_text_of_body. rewrite words_join by exact ws_nl.
    change (xkids (r_body d)) with (flat_map r_block (body d) ++ [el W_sectPr []]).
    change (flat_map (words ws) (flat_map (body_elem_text ws)
              (flat_map block_elements (flat_map r_block (body d) ++ [el W_sectPr []]))))
      with (bw (flat_map r_block (body d) ++ [el W_sectPr []])).
    rewrite bw_app. rewrite segments_blocks.
    rewrite bw_blocks; [apply app_nil_r | | exact Hs | exact Hw].
    apply Forall_forall. intros b _. apply words_block.
  Qed.
End Words.
