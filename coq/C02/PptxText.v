(* C02 / PPTX — paragraph text of a shape or table cell:
   pptx_extractor._extract_text_from_paragraphs(elem):
     for p in elem.iter(A_P): for child in p:
        a:r / a:fld -> t = child.find(A_T); t.text if truthy      a:br -> "\x0b"      a:t -> child.text if truthy
     paragraph = "".join(texts);  result = "\n".join(paragraphs)
   with the abstract text body it is rendered from and the specification of its words. *)
From Coq Require Import ZArith List Bool Lia ZifyBool.
From S2T Require Import Lib.PyStr C02.Lib C02.Xml C02.DocProofs.
Import ListNotations.
Open Scope N_scope.

(* ---------------------------------------------------------------- the walker *)
Definition is_a_p (t : tag) : bool := match t with A_p => true | _ => false end.
Definition is_a_t (t : tag) : bool := match t with A_t => true | _ => false end.
Definition truthy (x : str) : list str := match x with [] => [] | _ => [x] end.

Definition a_child (c : xml) : list str :=
  match xtag c with
  | A_r | A_fld => match find is_a_t c with Some t => truthy (xtext t) | None => [] end
  | A_br => [[11]]
  | A_t => truthy (xtext c)
  | _ => []
  end.
Definition a_para (p : xml) : str := List.concat (flat_map a_child (xkids p)).
Definition a_text (e : xml) : str := join [10] (map a_para (iter is_a_p e)).

(* ---------------------------------------------------------------- abstract text body *)
Inductive ainl :=
| ARun (t : str)        (* a:r with a:rPr and a:t *)
| AField (t : str)      (* a:fld (slide number, date ...): its cached text is visible *)
| ABreak                (* a:br: vertical tab in the output, a boundary *)
| AEmptyRun             (* a:r without a:t *)
| ABareText (t : str).  (* a:t directly in the paragraph *)

Definition r_ainl (i : ainl) : xml :=
  match i with
  | ARun t => el A_r [el A_rPr []; Elem A_t [] t [] []]
  | AField t => el A_fld [el A_rPr []; el A_pPr []; Elem A_t [] t [] []]
  | ABreak => el A_br [el A_rPr []]
  | AEmptyRun => el A_r [el A_rPr []]
  | ABareText t => Elem A_t [] t [] []
  end.
Definition r_apara (l : list ainl) : xml := el A_p (el A_pPr [] :: map r_ainl l ++ [el A_endParaRPr []]).
Definition r_txbody (ps : list (list ainl)) : xml := el P_txBody (el A_bodyPr [] :: map r_apara ps).

Definition ainl_syms (i : ainl) : list sym :=
  match i with
  | ARun t | AField t | ABareText t => [Leaf t]
  | ABreak => [Sep 11]
  | AEmptyRun => []
  end.
Definition apara_syms (l : list ainl) : list sym := flat_map ainl_syms l ++ [Sep 10].
Definition txbody_segments (ps : list (list ainl)) : list str := groups (flat_map apara_syms ps).
Definition txbody_visible (ps : list (list ainl)) : list str := leaves (flat_map apara_syms ps).

Section Wf.
  Variable ws : N -> bool.
  Definition ainl_wf (i : ainl) : bool :=
    match i with
    | ARun t | AField t | ABareText t => negb (match t with [] => true | _ => false end) && no_ws ws t
    | _ => true
    end.
  Definition txbody_wf (ps : list (list ainl)) : bool := forallb (forallb ainl_wf) ps.
End Wf.

(* correspondence checkers *)
Definition corr_txbody (c : list (list ainl) * str) : bool := str_eqb (a_text (r_txbody (fst c))) (snd c).
Definition corr_atree (c : xml * str) : bool := str_eqb (a_text (fst c)) (snd c).

(* ---------------------------------------------------------------- proofs *)
Lemma a_child_r_ainl i : List.concat (a_child (r_ainl i)) = flat (ainl_syms i).
Proof. destruct i as [t|t| | |t]; try reflexivity; destruct t; reflexivity. Qed.

Lemma a_para_r_apara l : a_para (r_apara l) = flat (flat_map ainl_syms l).
Proof.
  unfold a_para, r_apara, el. simpl xkids. simpl flat_map at 1.
  rewrite flat_map_app, List.concat_app. simpl. rewrite app_nil_r.
  induction l as [|i l IH]; [reflexivity|].
  simpl. rewrite List.concat_app, a_child_r_ainl, IH, flat_app. reflexivity.
Qed.

Lemma iter_p_r_ainl i : iter is_a_p (r_ainl i) = [].
Proof. destruct i; reflexivity. Qed.

Lemma iter_p_r_apara l : iter is_a_p (r_apara l) = [r_apara l].
Proof.
  unfold r_apara at 1. unfold el at 1. simpl. f_equal.
  rewrite flat_map_app. simpl. rewrite app_nil_r.
  induction l as [|i l IH]; [reflexivity|]. simpl. rewrite iter_p_r_ainl, IH. reflexivity.
Qed.

Lemma iter_el f t c : iter f (el t c) = (if f t then [el t c] else []) ++ flat_map (iter f) c.
Proof. reflexivity. Qed.

Lemma iter_p_r_txbody ps : iter is_a_p (r_txbody ps) = map r_apara ps.
Proof.
  unfold r_txbody. rewrite iter_el. change (is_a_p P_txBody) with false. cbn [app flat_map].
  change (iter is_a_p (el A_bodyPr [])) with (@nil xml). cbn [app].
  induction ps as [|l ps IH]; [reflexivity|]. cbn [map flat_map]. rewrite iter_p_r_apara, IH. reflexivity.
Qed.

Lemma a_text_r_txbody ps : a_text (r_txbody ps) = join [10] (map (fun l => flat (flat_map ainl_syms l)) ps).
Proof.
  unfold a_text. rewrite iter_p_r_txbody, map_map. f_equal. apply map_ext. intro l. apply a_para_r_apara.
Qed.

Section Words.
  Variable ws : N -> bool.
  Hypothesis ws_nl : ws 10 = true.
  Hypothesis ws_vt : ws 11 = true.

  Lemma ainl_syms_ok i : ainl_wf ws i = true -> syms_ok ws (ainl_syms i) = true.
  Proof.
    destruct i as [t|t| | |t]; simpl; intro H; try reflexivity; try (rewrite ws_vt; reflexivity);
      apply andb_true_iff in H as [_ H]; rewrite H; reflexivity.
  Qed.

  Lemma para_syms_ok' l : forallb (ainl_wf ws) l = true -> syms_ok ws (flat_map ainl_syms l) = true.
  Proof.
    induction l as [|i l IH]; intro H; [reflexivity|].
    simpl in H. apply andb_true_iff in H as [H1 H2]. simpl. rewrite syms_ok_app, ainl_syms_ok, IH by assumption. reflexivity.
  Qed.

  Theorem txbody_words ps :
    txbody_wf ws ps = true -> words ws (a_text (r_txbody ps)) = txbody_segments ps.
  Proof.
    intro H. rewrite a_text_r_txbody, words_join by exact ws_nl. unfold txbody_segments.
    rewrite groups_flat_map by (intros l _; right; exists (flat_map ainl_syms l), 10; reflexivity).
    rewrite flat_map_map'. apply flat_map_ext_in'. intros l Hl.
    unfold apara_syms. rewrite groups_snoc_sep. apply words_flat. apply para_syms_ok'.
    exact (forallb_In _ _ _ H Hl).
  Qed.

  Theorem txbody_tokens ps :
    txbody_wf ws ps = true -> tokchars ws (a_text (r_txbody ps)) = List.concat (txbody_visible ps).
  Proof.
    intro H. rewrite <- concat_words, (txbody_words ps H). unfold txbody_segments, txbody_visible. apply concat_groups.
  Qed.
End Words.

(* if a:br contributed nothing (instead of "\x0b") the words on both sides would merge *)
Definition a_child_nobr (c : xml) : list str := match xtag c with A_br => [] | _ => a_child c end.
Definition a_text_nobr (e : xml) : str :=
  join [10] (map (fun p => List.concat (flat_map a_child_nobr (xkids p))) (iter is_a_p e)).
Lemma nobr_refuted :
  exists ps, txbody_wf (fun c => c <=? 32) ps = true /\
             words (fun c => c <=? 32) (a_text_nobr (r_txbody ps)) <> txbody_segments ps.
Proof. exists [[ARun [65]; ABreak; ARun [66]]]. split; [reflexivity | vm_compute; discriminate]. Qed.
