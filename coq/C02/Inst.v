(* C02 — obligations re-decided by the kernel over the tables generated from the live interpreter
   and the live modules of /repo on this run (Gen/C02Tables.v). *)
From Coq Require Import ZArith List Bool.
From S2T Require Import Lib.PyStr C02.Lib C02.Xml C02.Doc C02.Model C02.Proofs C02.Corr Gen.C02Tables.
Import ListNotations.
Open Scope N_scope.

(* the whitespace premises of the theorems hold for CPython's str.isspace table *)
Theorem C02_ws_premises :
  is_ws_tbl py_ws 9 && is_ws_tbl py_ws 10 && is_ws_tbl py_ws 32 = true.
Proof. vm_compute. reflexivity. Qed.
Print Assumptions C02_ws_premises.

(* the tag constants the DOCX walker compares with are the qualified names of the tag
   constructors the model matches on (W_TAB / W_CR exist only with fixes/C02-docx-tab-break.patch, W_SDT / W_SDT_CONTENT /
   W_CUSTOM_XML only with fixes/C02-docx-block-level-sdt.patch) *)
Theorem C02_docx_tags :
  forallb (fun nt => match assoc (fst nt) docx_consts with
                     | Some v => str_eqb v (qname (snd nt))
                     | None => false
                     end)
    [ (s "W_P", W_p); (s "W_R", W_r); (s "W_T", W_t); (s "W_TAB", W_tab); (s "W_BR", W_br);
      (s "W_CR", W_cr); (s "W_TBL", W_tbl); (s "W_TR", W_tr); (s "W_TC", W_tc);
      (s "W_BODY", W_body); (s "MC_CHOICE", MC_Choice);
      (s "W_SDT", W_sdt); (s "W_SDT_CONTENT", W_sdtContent); (s "W_CUSTOM_XML", W_customXml) ] = true.
Proof. vm_compute. reflexivity. Qed.
Print Assumptions C02_docx_tags.

(* the suffix tests `tag.endswith("}AlternateContent")` / `tag.endswith("}Fallback")` select the
   model's constructors *)
Theorem C02_docx_suffix_tags :
  endswith (qname MC_AlternateContent) (s "}AlternateContent") &&
  endswith (qname MC_Fallback) (s "}Fallback") = true.
Proof. vm_compute. reflexivity. Qed.
Print Assumptions C02_docx_suffix_tags.

(* the main theorem instantiated with the live whitespace table *)
Theorem C02_docx_separated_py :
  forall (cls_of : N -> N) (d : doc),
    wf_doc (is_ws_tbl py_ws) cls_of d = true -> supported_docx d = true ->
    words (is_ws_tbl py_ws) (docx_text (is_ws_tbl py_ws) d) = segments d.
Proof.
  intros cls_of d. apply (docx_words (is_ws_tbl py_ws) cls_of); vm_compute; reflexivity.
Qed.
Print Assumptions C02_docx_separated_py.
