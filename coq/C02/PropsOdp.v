(* C02 / ODP — property theorems about the frames of a slide (statements only). *)
From Coq Require Import ZArith List Bool Sorted Permutation.
From S2T Require Import Lib.PyStr C02.Xml C02.Pptx C02.Odp C02.OdpGroup.
Import ListNotations.

(* _iter_slide_frames on a rendered slide returns every frame of the slide — direct children and
   frames inside draw:g groups at any nesting depth — exactly once, in document order, and no frame
   of the attached notes page *)
Theorem C02_odp_frames_once :
  forall sl : slide, slide_frames (r_page sl) = map r_frame (slide_frame_list sl).
Proof. exact slide_frames_page. Qed.
Print Assumptions C02_odp_frames_once.

(* hence the processing order of the frames is a permutation of the slide's frames (each token once) *)
Theorem C02_odp_each_frame_once :
  forall sl : slide, Permutation (odp_order sl) (map fid (slide_frame_list sl)).
Proof. exact odp_order_perm. Qed.
Print Assumptions C02_odp_each_frame_once.

(* sorted by position, frames sharing a position in document order *)
Theorem C02_odp_position_order :
  forall sl : slide, Sorted le (ssort (map (fun f => (fkey f, f)) (slide_frame_list sl))).
Proof. intro sl. apply ssort_sorted. Qed.
Print Assumptions C02_odp_position_order.

Theorem C02_odp_ties_document_order :
  forall (sl : slide) (k : key),
    filter (has_key k) (ssort (map (fun f => (fkey f, f)) (slide_frame_list sl)))
    = filter (has_key k) (map (fun f => (fkey f, f)) (slide_frame_list sl)).
Proof. exact odp_order_stable. Qed.
Print Assumptions C02_odp_ties_document_order.

(* the two other ways of collecting frames are wrong: direct children only (the code before a0edc91)
   loses grouped frames; Element.iter enters the notes page *)
Theorem C02_odp_direct_children_refuted :
  exists sl, direct_frames (r_page sl) <> map r_frame (slide_frame_list sl).
Proof. exact direct_frames_refuted. Qed.
Print Assumptions C02_odp_direct_children_refuted.

Theorem C02_odp_iter_everywhere_refuted :
  exists sl, iter (fun t => match t with D_frame => true | _ => false end) (r_page sl) <> map r_frame (slide_frame_list sl).
Proof. exact iter_frames_refuted. Qed.
Print Assumptions C02_odp_iter_everywhere_refuted.

(* ---- assembly of the slide text from title / body / other paragraphs (text_combined) *)
(* every non-empty paragraph of the slide exactly once *)
Theorem C02_odp_grouping_each_once : forall l : list para, Permutation (text_combined l) (map p_id l).
Proof. exact combined_perm. Qed.
Print Assumptions C02_odp_grouping_each_once.

(* _partial: source order is kept when no paragraph carries a title or body style *)
Theorem C02_odp_grouping_order_partial :
  forall l : list para, forallb (fun p => negb (p_title p) && negb (p_body p)) l = true -> text_combined l = map p_id l.
Proof. exact combined_plain_order. Qed.
Print Assumptions C02_odp_grouping_order_partial.

(* the gap: with styled paragraphs the relative order of the source is NOT kept (first title-styled
   paragraph first, then all body-styled ones, then the rest) — documented behaviour of OdpSlide *)
Theorem C02_odp_grouping_order_refuted : exists l : list para, text_combined l <> map p_id l.
Proof. exact combined_order_refuted. Qed.
Print Assumptions C02_odp_grouping_order_refuted.
