(* C02 / OpenDocument — the shared helper open_office/_shared.py::element_text is used by the odt,
   ods, odp, odg and odf extractors, each with its own skip set.  `etext_g skip` is the helper with
   the skip set as a parameter; with ODT's set it IS the ODT inline walk `etext` (OdtModel.v), and
   with the set of the other formats ({office:annotation}) it yields the same text on every rendered
   paragraph — so the paragraph-level ODT results transfer to the paragraph text of ODS cells, ODP /
   ODG text boxes and ODF. *)
From Coq Require Import ZArith List Bool Lia ZifyBool.
From S2T Require Import Lib.PyStr C02.Lib C02.Xml C02.Doc C02.DocProofs C02.OdtModel C02.OdtProofs.
Import ListNotations.
Open Scope N_scope.

Definition child_text_g (skip : tag -> bool) (rec : xml -> str) (k : xml) : str :=
  let t := xtag k in
  if skip t then []
  else if o_is_s t then (let n := space_count k in if (0 <? n)%Z then repeat 32 (Z.to_nat n) else [])
  else if o_is_tab t then [9]
  else if o_is_br t then [10]
  else rec k.

Fixpoint etext_g (skip : tag -> bool) (e : xml) : str :=
  match e with
  | Elem _ _ x c _ => x ++ flat_map (fun k => child_text_g skip (etext_g skip) k ++ xtail k) c
  end.

(* the skip set of ods / odp / odg / odf: _TEXT_SKIP_TAGS = {office:annotation} *)
Definition skip_ann (t : tag) : bool := match t with O_annotation => true | _ => false end.

(* with ODT's skip set the parametrised helper is the ODT inline walk, on every tree *)
Lemma etext_g_odt e : etext_g o_skip_inline e = etext e.
Proof.
  induction e as [t a x c l IH] using xml_ind'. simpl. f_equal.
  induction IH as [|k c Hk _ IHc]; [reflexivity|]. simpl. rewrite IHc. f_equal. f_equal.
  unfold child_text_g, child_text. rewrite Hk. reflexivity.
Qed.

(* ---- the other formats' skip set on rendered paragraphs (same route as OdtProofs) *)
Definition piece_text_a (p : piece) : str :=
  match p with PText t => t | PElem e => child_text_g skip_ann (etext_g skip_ann) e end.

Lemma child_text_a_set_tail e l :
  child_text_g skip_ann (etext_g skip_ann) (set_tail e l) = child_text_g skip_ann (etext_g skip_ann) e.
Proof. destruct e as [t a x c l']. reflexivity. Qed.

Lemma assemble_text_a ps :
  fst (assemble ps) ++
  flat_map (fun k => child_text_g skip_ann (etext_g skip_ann) k ++ xtail k) (snd (assemble ps))
  = flat_map piece_text_a ps.
Proof.
  induction ps as [|p ps IH]; [reflexivity|].
  destruct p as [t|e]; simpl; destruct (assemble ps) as [tx ks]; simpl in *.
  - rewrite <- app_assoc, IH. reflexivity.
  - rewrite child_text_a_set_tail, xtail_set_tail, <- app_assoc, IH. reflexivity.
Qed.

Lemma etext_a_mixed t a ps : etext_g skip_ann (mixed t a ps) = flat_map piece_text_a ps.
Proof.
  unfold mixed. pose proof (assemble_text_a ps) as H. destruct (assemble ps) as [tx ks]. exact H.
Qed.

Lemma wrap_child_text_a k ps :
  child_text_g skip_ann (etext_g skip_ann) (mixed (o_wrap_tag k) [] ps) = flat_map piece_text_a ps.
Proof. unfold child_text_g. rewrite xtag_mixed. destruct k; simpl; apply etext_a_mixed. Qed.

Lemma inl_text_a i : o_inl_sup i = true -> flat_map piece_text_a (r_inl i) = flat (inl_syms i).
Proof.
  induction i as [t| |b| |t|t|t|k l IH|v ps IH] using inl_ind'; intro H; simpl in *;
    try reflexivity.
  - assert (Hl : flat_map piece_text_a (flat_map r_inl l) = flat (flat_map inl_syms l)).
    { unfold flat. rewrite !flat_map_flat_map. apply flat_map_ext_in'. intros x Hx.
      rewrite Forall_forall in IH. apply (IH x Hx). exact (forallb_In _ _ _ H Hx). }
    destruct (is_kins k) eqn:Ek.
    + simpl. rewrite flat_map_app. simpl. rewrite app_nil_r. exact Hl.
    + simpl. rewrite app_nil_r, wrap_child_text_a. exact Hl.
  - discriminate.
Qed.

Lemma para_text_a l :
  forallb o_inl_sup l = true -> flat_map piece_text_a (flat_map r_inl l) = flat (para_syms l).
Proof.
  intro H. unfold para_syms, flat. rewrite !flat_map_flat_map. apply flat_map_ext_in'. intros x Hx.
  apply inl_text_a. exact (forallb_In _ _ _ H Hx).
Qed.

(* the text of a rendered paragraph is the same under both skip sets, namely the flattened symbols *)
Lemma shared_para_text t a l :
  forallb o_inl_sup l = true ->
  etext_g skip_ann (mixed t a (flat_map r_inl l)) = flat (para_syms l) /\
  etext (mixed t a (flat_map r_inl l)) = flat (para_syms l).
Proof.
  intro H. split.
  - rewrite etext_a_mixed. apply para_text_a; exact H.
  - rewrite etext_mixed. apply para_text; exact H.
Qed.

Section Words.
  Variable ws : N -> bool.
  Variable cls_of : N -> N.
  Hypothesis ws_tab : ws 9 = true.
  Hypothesis ws_nl : ws 10 = true.

  Lemma shared_para_words t a l :
    forallb o_inl_sup l = true -> forallb (inl_wf ws cls_of) l = true ->
    words ws (etext_g skip_ann (mixed t a (flat_map r_inl l))) = groups (para_syms l).
  Proof.
    intros Hs Hw. rewrite (proj1 (shared_para_text t a l Hs)). apply words_flat.
    apply (spec_ok_syms_ok ws cls_of ws_tab ws_nl). apply para_syms_ok; exact Hw.
  Qed.
End Words.

(* an annotation nested in a span of a paragraph: excluded under the other formats' skip set too *)
Definition ann_witness : list inl := [IRun [19969]; IWrap KSpan [IRun [19970]; IComment [22017]; IBreak BrLine; IRun [19971]]].
Lemma ann_witness_text :
  etext_g skip_ann (mixed T_p [] (flat_map r_inl ann_witness)) = [19969; 19970; 10; 19971].
Proof. vm_compute. reflexivity. Qed.

(* correspondence checker: the paragraph rendered from l, under the other formats' skip set *)
Definition shared_para (l : list inl) : xml := mixed T_p [] (flat_map r_inl l).
Definition corr_para (c : list inl * str) : bool := str_eqb (etext_g skip_ann (shared_para (fst c))) (snd c).
