(* C02 / RTF — lemmas. *)
From Coq Require Import ZArith List Bool Lia ZifyBool.
From S2T Require Import Lib.PyStr C02.Lib C02.RtfModel.
Import ListNotations.
Open Scope N_scope.

(* ---------------------------------------------------------------- premises on tables and on ws *)
Definition ws_ok (ws : N -> bool) : bool :=
  ws 10 && ws 13 && ws 32 && negb (ws 92) && negb (ws 123) && negb (ws 125).

Definition one_ws (ws : N -> bool) (x : str) : bool := match x with [c] => ws c && negb (is_surr c) | _ => false end.

Definition tables_ok (T : tables) (ws : N -> bool) : bool :=
  forallb (fun kw => forallb is_alpha kw && (List.length kw <=? 28)%nat) (SKIP T) &&
  negb (look T (s "\rtf1")) &&
  forallb (fun w => one_ws ws (ctrl_out T w)) boundary_words &&
  negb (has_key (s "rtf") (SPECIAL T)) && negb (has_key (s "ansi") (SPECIAL T)).

(* ---------------------------------------------------------------- generic list / string lemmas *)
Definition stop_at (f : N -> bool) (x : str) : bool := match x with [] => true | c :: _ => negb (f c) end.

Lemma takeWhile_app_stop (f : N -> bool) a b :
  forallb f a = true -> stop_at f b = true -> takeWhile f (a ++ b) = a /\ dropWhile f (a ++ b) = b.
Proof.
  induction a as [|x a IH]; simpl; intros Ha Hb.
  - destruct b as [|c b]; simpl in *; [auto|]. apply negb_true_iff in Hb. rewrite Hb. auto.
  - apply andb_true_iff in Ha as [Hx Ha]. rewrite Hx. destruct (IH Ha Hb) as [E1 E2]. rewrite E1, E2. auto.
Qed.

Lemma startswith_firstn p : forall n x, (List.length p <= n)%nat -> startswith (firstn n x) p = startswith x p.
Proof.
  induction p as [|c p IH]; intros n x H; [reflexivity|].
  destruct n as [|n]; [simpl in H; lia|]. destruct x as [|d x]; [reflexivity|].
  simpl. rewrite IH by (simpl in H; lia). reflexivity.
Qed.

Lemma startswith_self p y : startswith (p ++ y) p = true.
Proof. apply startswith_app. exists y. reflexivity. Qed.

Lemma startswith_cut c p : ~ In c p -> forall a r, startswith (a ++ c :: r) p = startswith (a ++ [c]) p.
Proof.
  induction p as [|d p IH]; intros Hc a r; [reflexivity|].
  destruct a as [|x a]; simpl.
  - assert (d =? c = false) as E by (apply N.eqb_neq; intro; subst; apply Hc; left; reflexivity).
    rewrite E. reflexivity.
  - rewrite IH by (intro; apply Hc; right; assumption). reflexivity.
Qed.

Lemma existsb_ext_in {A} (f g : A -> bool) l : (forall x, In x l -> f x = g x) -> existsb f l = existsb g l.
Proof.
  induction l as [|x l IH]; intro H; [reflexivity|]. simpl.
  rewrite H by (left; reflexivity). rewrite IH by (intros; apply H; right; assumption). reflexivity.
Qed.

(* ---------------------------------------------------------------- words of the assembled full_text *)
Section PostWords.
  Variable ws : N -> bool.
  Hypothesis ws10 : ws 10 = true.

  Lemma words_aux_allws cur t : all_ws ws t = true -> words_aux ws cur t = emit cur.
  Proof.
    revert cur. induction t as [|c t IH]; intros cur H; [reflexivity|].
    simpl in H. apply andb_true_iff in H as [Hc Ht]. simpl. rewrite Hc, IH by exact Ht. simpl. apply app_nil_r.
  Qed.

  Lemma words_aux_app_allws cur a t : all_ws ws t = true -> words_aux ws cur (a ++ t) = words_aux ws cur a.
  Proof.
    revert cur. induction a as [|c a IH]; intros cur H; simpl.
    - apply words_aux_allws; exact H.
    - destruct (ws c); rewrite IH by exact H; reflexivity.
  Qed.

  Lemma words_dropWhile x : words ws (dropWhile ws x) = words ws x.
  Proof.
    induction x as [|c x IH]; [reflexivity|]. simpl. destruct (ws c) eqn:E.
    - rewrite IH. unfold words. simpl. rewrite E. reflexivity.
    - reflexivity.
  Qed.

  Lemma rstrip_decomp y : exists t, all_ws ws t = true /\ y = rev (dropWhile ws (rev y)) ++ t.
  Proof.
    exists (rev (takeWhile ws (rev y))). split.
    - unfold all_ws. apply forallb_forall. intros c Hc. apply in_rev in Hc.
      pose proof (takeWhile_all ws (rev y)) as Ha. rewrite forallb_forall in Ha. apply Ha; exact Hc.
    - rewrite <- rev_app_distr, takeWhile_dropWhile, rev_involutive. reflexivity.
  Qed.

  Lemma words_strip x : words ws (strip ws x) = words ws x.
  Proof.
    unfold strip. destruct (rstrip_decomp (dropWhile ws x)) as [t [Ht E]].
    rewrite <- (words_dropWhile x). rewrite E at 2. unfold words.
    rewrite words_aux_app_allws by exact Ht. reflexivity.
  Qed.

  Lemma words_split_aux cur x : flat_map (words ws) (split_aux 10 cur x) = words ws (cur ++ x).
  Proof.
    revert cur. induction x as [|c x IH]; intro cur; simpl.
    - rewrite !app_nil_r. reflexivity.
    - destruct (c =? 10) eqn:E.
      + apply N.eqb_eq in E. subst c. simpl. rewrite IH. simpl.
        unfold words at 3. rewrite words_aux_sep by exact ws10. reflexivity.
      + rewrite IH, <- app_assoc. reflexivity.
  Qed.

  Lemma flat_map_words_nonempty ls : flat_map (words ws) (filter nonempty ls) = flat_map (words ws) ls.
  Proof.
    induction ls as [|x ls IH]; [reflexivity|]. simpl. destruct x; simpl; rewrite IH; reflexivity.
  Qed.

  Lemma flat_map_words_strip ls : flat_map (words ws) (map (strip ws) ls) = flat_map (words ws) ls.
  Proof. induction ls as [|x ls IH]; [reflexivity|]. simpl. rewrite words_strip, IH. reflexivity. Qed.

  Lemma words_post raw : words ws (post ws raw) = words ws raw.
  Proof.
    unfold post. rewrite words_join by exact ws10.
    rewrite flat_map_words_nonempty, flat_map_words_strip. unfold split_on.
    rewrite words_split_aux. reflexivity.
  Qed.

  (* every character of full_text is a character of the stripped text *)
  Lemma In_join c ls : In c (join [10] ls) -> c = 10 \/ exists x, In x ls /\ In c x.
  Proof.
    induction ls as [|x ls IH]; [intros []|].
    destruct ls as [|y r].
    - simpl. intro H. right. exists x. auto.
    - change (join [10] (x :: y :: r)) with (x ++ 10 :: join [10] (y :: r)).
      intro H. apply in_app_or in H as [H|[H|H]].
      + right. exists x. split; [left; reflexivity | exact H].
      + left. symmetry. exact H.
      + destruct (IH H) as [E|[z [Hz Hc]]]; [left; exact E | right; exists z; split; [right; exact Hz | exact Hc]].
  Qed.

  Lemma In_dropWhile (f : N -> bool) c x : In c (dropWhile f x) -> In c x.
  Proof. induction x as [|d x IH]; simpl; [tauto|]. destruct (f d); [right; auto | simpl; tauto]. Qed.

  Lemma In_strip c x : In c (strip ws x) -> In c x.
  Proof.
    unfold strip. intro H. apply in_rev in H. apply In_dropWhile in H. apply in_rev in H.
    apply In_dropWhile in H. exact H.
  Qed.

  Lemma In_split_aux c y cur x : In y (split_aux 10 cur x) -> In c y -> In c (cur ++ x).
  Proof.
    revert cur. induction x as [|d x IH]; intros cur Hy Hc; simpl in Hy.
    - destruct Hy as [<-|[]]. rewrite app_nil_r. exact Hc.
    - destruct (d =? 10).
      + destruct Hy as [<-|Hy]; [apply in_or_app; left; exact Hc|].
        specialize (IH [] Hy Hc). apply in_or_app. right. right. exact IH.
      + specialize (IH _ Hy Hc). rewrite <- app_assoc in IH. exact IH.
  Qed.

  Lemma In_post c raw : In c (post ws raw) -> c = 10 \/ In c raw.
  Proof.
    unfold post. intro H. apply In_join in H as [E|[x [Hx Hc]]]; [left; exact E|].
    right. apply filter_In in Hx as [Hx _]. apply in_map_iff in Hx as [y [<- Hy]].
    apply In_strip in Hc. unfold split_on in Hy. apply (In_split_aux c y [] raw Hy Hc).
  Qed.
End PostWords.

(* ---------------------------------------------------------------- character class facts *)
Lemma alpha_not_special c : is_alpha c = true -> is_special c = false /\ (c =? 39) = false /\ is_dd c = false /\ is_brace c = false.
Proof. unfold is_alpha, is_upper, is_lower, is_special, is_dd, is_digit, is_brace. intro H. repeat split; lia. Qed.

Lemma dd_not_alpha c : is_dd c = true -> is_alpha c = false /\ is_brace c = false.
Proof. unfold is_alpha, is_upper, is_lower, is_dd, is_digit, is_brace. intro H. repeat split; lia. Qed.

Lemma digit_facts c : is_digit c = true -> (c =? 45) = false /\ is_brace c = false /\ is_dd c = true.
Proof. unfold is_dd, is_digit, is_brace. intro H. repeat split; lia. Qed.

Lemma hex_not_brace c : is_hex c = true -> is_brace c = false.
Proof. unfold is_hex, is_digit, is_brace. lia. Qed.

Lemma special_cases c : is_special c = true -> c = 92 \/ c = 123 \/ c = 125.
Proof. unfold is_special. lia. Qed.

(* ---------------------------------------------------------------- the loop: consuming, text *)
Section Loop.
  Variable T : tables.
  Variable ws : N -> bool.
  Hypothesis Hws : ws_ok ws = true.
  Hypothesis HT : tables_ok T ws = true.

  Lemma ws_facts : ws 10 = true /\ ws 13 = true /\ ws 32 = true /\ ws 92 = false /\ ws 123 = false /\ ws 125 = false.
  Proof.
    unfold ws_ok in Hws. repeat (apply andb_true_iff in Hws as [Hws ?]).
    repeat match goal with H : negb _ = true |- _ => apply negb_true_iff in H end. auto 10.
  Qed.

  Lemma go_drop x : forall dp sk r, go T (List.length x) dp sk (x ++ r) = go T 0 dp sk r.
  Proof. induction x as [|c x IH]; intros; simpl; [destruct r; reflexivity | apply IH]. Qed.

  Lemma tok_char_facts c : tok_char ws c = true ->
    (c =? 123) = false /\ (c =? 125) = false /\ (c =? 92) = false /\ (c =? 13) = false /\ ws c = false.
  Proof.
    unfold tok_char, is_special. intro H. apply andb_true_iff in H as [H _]. apply andb_true_iff in H as [H1 H2].
    apply negb_true_iff in H1. destruct ws_facts as [_ [H13 _]].
    assert ((c =? 13) = false) by (apply N.eqb_neq; intro; subst; congruence). lia.
  Qed.

  Lemma go_text t dp r : forallb (tok_char ws) t = true -> go T 0 dp None (t ++ r) = t ++ go T 0 dp None r.
  Proof.
    induction t as [|c t IH]; intro H; [reflexivity|].
    simpl in H. apply andb_true_iff in H as [Hc Ht].
    destruct (tok_char_facts c Hc) as [E1 [E2 [E3 [E4 _]]]].
    simpl. rewrite E1, E2, E3, E4, IH by exact Ht. reflexivity.
  Qed.

  Lemma go_bs x dp r out : lex_bs T (x ++ r) = (out, List.length x) ->
    go T 0 dp None (92 :: x ++ r) = out ++ go T 0 dp None r.
  Proof.
    intro H.
    change (go T 0 dp None (92 :: x ++ r)) with (let '(o, n) := lex_bs T (x ++ r) in o ++ go T n dp None (x ++ r)).
    rewrite H, go_drop. reflexivity.
  Qed.

  (* ---------------------------------------------------------------- the lexer on rendered constructs *)
  Definition stop2 (x : str) : bool := match x with [] => true | c :: _ => negb (is_alpha c) && negb (is_dd c) end.

  Lemma lex_ctrl w p r :
    nonempty w = true -> forallb is_alpha w = true -> head_is 117 w = false -> forallb is_dd p = true ->
    stop2 r = true ->
    lex_bs T (w ++ p ++ r) = (ctrl_out T w, (List.length w + List.length p + (if head_is 32%N r then 1 else 0))%nat).
  Proof.
    intros Hne Hw Hu Hp Hr.
    assert (stop_at is_dd r = true) as Sdd by (destruct r; simpl in *; [reflexivity | lia]).
    assert (stop_at is_alpha (p ++ r) = true) as Sal.
    { destruct p as [|d p]; simpl in *; [destruct r; simpl in *; [reflexivity | lia]|].
      apply andb_true_iff in Hp as [Hd _]. destruct (dd_not_alpha d Hd) as [E _]. rewrite E. reflexivity. }
    destruct (takeWhile_app_stop is_alpha w (p ++ r) Hw Sal) as [E1 E2].
    destruct (takeWhile_app_stop is_dd p r Hp Sdd) as [E3 E4].
    destruct w as [|c w']; [discriminate|].
    simpl in Hw. apply andb_true_iff in Hw as [Hc Hw']. destruct (alpha_not_special c Hc) as [A1 [A2 _]].
    simpl in Hu.
    change ((c :: w') ++ p ++ r) with (c :: (w' ++ p ++ r)) in *.
    unfold lex_bs. rewrite A1, Hu, A2, Hc, E1, E2, E3, E4. reflexivity.
  Qed.

  Lemma go_ctrl_sp w p dp r :
    nonempty w = true -> forallb is_alpha w = true -> head_is 117 w = false -> forallb is_dd p = true ->
    go T 0 dp None (92 :: w ++ p ++ 32 :: r) = ctrl_out T w ++ go T 0 dp None r.
  Proof.
    intros Hne Hw Hu Hp.
    replace (w ++ p ++ 32 :: r) with ((w ++ p ++ [32]) ++ r) by (rewrite <- !app_assoc; reflexivity).
    apply go_bs. rewrite <- !app_assoc. simpl.
    rewrite (lex_ctrl w p (32 :: r)) by (assumption || reflexivity).
    f_equal. rewrite !app_length. simpl. lia.
  Qed.

  Lemma go_ctrl_nosp w p dp r :
    nonempty w = true -> forallb is_alpha w = true -> head_is 117 w = false -> forallb is_dd p = true ->
    stop2 r = true -> head_is 32 r = false ->
    go T 0 dp None (92 :: w ++ p ++ r) = ctrl_out T w ++ go T 0 dp None r.
  Proof.
    intros Hne Hw Hu Hp Hr H32.
    rewrite app_assoc. apply go_bs. rewrite <- app_assoc.
    rewrite (lex_ctrl w p r) by assumption. rewrite H32, app_length. f_equal. lia.
  Qed.

  Lemma go_uni (neg : bool) digs dp r :
    nonempty digs = true -> forallb is_digit digs = true ->
    go T 0 dp None (92 :: 117 :: (if neg then [45] else []) ++ digs ++ 63 :: r) =
    [uni_val neg digs] ++ go T 0 dp None r.
  Proof.
    intros Hne Hd.
    assert (stop_at is_digit (63 :: r) = true) as S by reflexivity.
    destruct (takeWhile_app_stop is_digit digs (63 :: r) Hd S) as [E1 E2].
    replace (117 :: (if neg then [45] else []) ++ digs ++ 63 :: r)
      with ((117 :: (if neg then [45] else []) ++ digs ++ [63]) ++ r)
      by (simpl; rewrite <- !app_assoc; reflexivity).
    apply go_bs.
    assert (exists d0 digs', digs = d0 :: digs' /\ (d0 =? 45) = false) as [d0 [digs' [ED D45]]].
    { destruct digs as [|d0 digs']; [discriminate|]. exists d0, digs'. split; [reflexivity|].
      simpl in Hd. apply andb_true_iff in Hd as [Hd0 _]. apply digit_facts in Hd0. tauto. }
    assert (nonempty digs = true -> forall A (a b : A), match digs with [] => a | _ :: _ => b end = b) as Hm
      by (rewrite ED; reflexivity).
    unfold lex_bs, match_uni. destruct neg; simpl app; rewrite <- ?app_assoc; simpl app.
    - change (is_special 117) with false. change (117 =? 117) with true. change (45 =? 45) with true.
      cbv iota. rewrite E1, E2, Hm by exact Hne.
      change (head_is 63 (63 :: r)) with true. cbv iota. unfold uni_val.
      f_equal. cbn [List.length]. rewrite app_length. cbn [List.length]. lia.
    - change (is_special 117) with false. change (117 =? 117) with true. cbv iota.
      rewrite ED at 1. simpl app. cbv iota. rewrite D45. cbv iota.
      rewrite E1, E2, Hm by exact Hne.
      change (head_is 63 (63 :: r)) with true. cbv iota. unfold uni_val.
      f_equal. cbn [List.length]. rewrite app_length. cbn [List.length]. lia.
  Qed.

  Lemma go_hex a b dp r : is_hex a = true -> is_hex b = true ->
    go T 0 dp None (92 :: 39 :: a :: b :: r) = [hex_val a b] ++ go T 0 dp None r.
  Proof.
    intros Ha Hb. change (39 :: a :: b :: r) with ([39; a; b] ++ r). apply go_bs.
    unfold lex_bs. change (is_special 39) with false. change (39 =? 117) with false. change (39 =? 39) with true.
    cbv iota. simpl. unfold int16_chr. rewrite Ha, Hb. reflexivity.
  Qed.

  Lemma go_esc c dp r : is_special c = true -> go T 0 dp None (92 :: c :: r) = [c] ++ go T 0 dp None r.
  Proof.
    intro H. change (c :: r) with ([c] ++ r). apply go_bs. simpl. rewrite H. reflexivity.
  Qed.
(* ---------------------------------------------------------------- skipped destinations, groups, documents *)
  Definition nobrace (x : str) : bool := forallb (fun c => negb (is_brace c)) x.

  Lemma go_skip_nobrace x dp sd r : nobrace x = true -> go T 0 dp (Some sd) (x ++ r) = go T 0 dp (Some sd) r.
  Proof.
    induction x as [|c x IH]; intro H; [reflexivity|].
    simpl in H. apply andb_true_iff in H as [Hc Hx]. apply negb_true_iff in Hc. unfold is_brace in Hc.
    apply orb_false_iff in Hc as [E1 E2]. simpl. rewrite E1, E2. apply IH; exact Hx.
  Qed.

  Lemma nobrace_app a b : nobrace (a ++ b) = nobrace a && nobrace b.
  Proof. apply forallb_app. Qed.

  Lemma nobrace_of (f : N -> bool) x : (forall c, f c = true -> is_brace c = false) -> forallb f x = true -> nobrace x = true.
  Proof.
    intros Hf H. unfold nobrace. apply forallb_forall. intros c Hc. rewrite forallb_forall in H.
    rewrite (Hf c (H c Hc)). reflexivity.
  Qed.

  Lemma nobrace_alpha x : forallb is_alpha x = true -> nobrace x = true.
  Proof. apply nobrace_of. intros c H. apply alpha_not_special in H. tauto. Qed.
  Lemma nobrace_dd x : forallb is_dd x = true -> nobrace x = true.
  Proof. apply nobrace_of. intros c H. apply dd_not_alpha in H. tauto. Qed.
  Lemma nobrace_digit x : forallb is_digit x = true -> nobrace x = true.
  Proof. apply nobrace_of. intros c H. apply digit_facts in H. tauto. Qed.
  Lemma nobrace_tok x : forallb (tok_char ws) x = true -> nobrace x = true.
  Proof.
    apply nobrace_of. intros c H. destruct (tok_char_facts c H) as [E1 [E2 _]]. unfold is_brace. rewrite E1, E2. reflexivity.
  Qed.

  Definition render_item_dest_hdr (st : bool) (kw : str) : str := (if st then [92; 42] else []) ++ 92 :: kw ++ [32].

  Definition is_leaf (x : item) : bool := match x with RGroup _ | RDest _ _ _ => false | _ => true end.

  Lemma leaf_nobrace x : is_leaf x = true -> wf_item T ws x = true -> no_esc_brace x = true -> nobrace (render_item x) = true.
  Proof.
    destruct x; simpl; intros HL Hwf Hne; try discriminate; try reflexivity.
    - apply andb_true_iff in Hwf as [_ H]. apply nobrace_tok; exact H.
    - repeat (apply andb_true_iff in Hwf as [Hwf ?]).
      change (92 :: 117 :: (if neg then [45] else []) ++ digs ++ match fb with [] => [32] | _ :: _ => fb end)
        with ([92; 117] ++ (if neg then [45] else []) ++ digs ++ match fb with [] => [32] | _ :: _ => fb end).
      rewrite !nobrace_app. rewrite (nobrace_digit digs) by assumption.
      destruct fb as [|c [|? ?]]; try discriminate; [destruct neg; reflexivity|].
      apply andb_true_iff in H as [H _]. destruct (tok_char_facts c H) as [E1 [E2 _]].
      destruct neg; simpl; unfold is_brace; rewrite E1, E2; reflexivity.
    - repeat (apply andb_true_iff in Hwf as [Hwf ?]). simpl.
      rewrite (hex_not_brace h1), (hex_not_brace h2) by assumption. reflexivity.
    - repeat (apply andb_true_iff in Hwf as [Hwf ?]).
      change (92 :: w ++ param ++ [32]) with ([92] ++ w ++ param ++ [32]).
      rewrite !nobrace_app, (nobrace_alpha w), (nobrace_dd param) by assumption. reflexivity.
    - simpl. rewrite Hne. reflexivity.
  Qed.

  Lemma dest_shape (st : bool) kw (body r : str) :
    render_item_dest_hdr st kw ++ body ++ 125 :: r =
    ((if st then [92; 42] else []) ++ 92 :: kw ++ 32 :: body ++ [125]) ++ r.
  Proof. unfold render_item_dest_hdr. destruct st; simpl; repeat (rewrite <- app_assoc; simpl); reflexivity. Qed.

  Lemma dest_hdr_nobrace (st : bool) kw : forallb is_alpha kw = true -> nobrace (render_item_dest_hdr st kw) = true.
  Proof.
    intro H. unfold render_item_dest_hdr. rewrite nobrace_app. change (92 :: kw ++ [32]) with ([92] ++ kw ++ [32]).
    rewrite !nobrace_app, (nobrace_alpha kw) by assumption. destruct st; reflexivity.
  Qed.

  Lemma go_skip_item : forall x, wf_item T ws x = true -> no_esc_brace x = true ->
    forall dp sd r, (sd <= dp)%Z -> go T 0 dp (Some sd) (render_item x ++ r) = go T 0 dp (Some sd) r.
  Proof.
    assert (forall l, Forall (fun x => wf_item T ws x = true -> no_esc_brace x = true ->
              forall dp sd r, (sd <= dp)%Z -> go T 0 dp (Some sd) (render_item x ++ r) = go T 0 dp (Some sd) r) l ->
            forallb (wf_item T ws) l = true -> forallb no_esc_brace l = true ->
            forall dp sd r, (sd <= dp)%Z -> go T 0 dp (Some sd) (flat_map render_item l ++ r) = go T 0 dp (Some sd) r) as Hlist.
    { induction 1 as [|y l Hy _ IH]; intros Hw Hn dp sd r Hle; [reflexivity|].
      simpl in Hw, Hn. apply andb_true_iff in Hw as [Hw1 Hw2]. apply andb_true_iff in Hn as [Hn1 Hn2].
      simpl. rewrite <- app_assoc, Hy, IH by assumption. reflexivity. }
    assert (forall dp sd r, (sd <= dp)%Z -> go T 0 (dp + 1) (Some sd) (125 :: r) = go T 0 dp (Some sd) r) as Hclose.
    { intros dp sd r Hle. simpl. replace (dp + 1 =? sd)%Z with false by lia.
      replace (dp + 1 - 1)%Z with dp by lia. reflexivity. }
    intro x. induction x using item_ind'; intros Hwf Hne dp sd r Hle;
      try (apply go_skip_nobrace; apply leaf_nobrace; [reflexivity | exact Hwf | exact Hne]).
    - (* group *)
      simpl in Hwf, Hne.
      change (render_item (RGroup l) ++ r) with (123 :: (flat_map render_item l ++ [125]) ++ r).
      change (go T 0 dp (Some sd) (123 :: (flat_map render_item l ++ [125]) ++ r))
        with (go T 0 (dp + 1) (Some sd) ((flat_map render_item l ++ [125]) ++ r)).
      rewrite <- app_assoc. rewrite (Hlist l H Hwf Hne) by lia. apply Hclose; exact Hle.
    - (* destination *)
      simpl in Hwf, Hne. repeat (apply andb_true_iff in Hwf as [Hwf ?]).
      change (render_item (RDest st kw l) ++ r)
        with (123 :: ((if st then [92; 42] else []) ++ 92 :: kw ++ 32 :: flat_map render_item l ++ [125]) ++ r).
      rewrite <- dest_shape.
      change (go T 0 dp (Some sd) (123 :: render_item_dest_hdr st kw ++ flat_map render_item l ++ 125 :: r))
        with (go T 0 (dp + 1) (Some sd) (render_item_dest_hdr st kw ++ flat_map render_item l ++ 125 :: r)).
      rewrite go_skip_nobrace by (apply dest_hdr_nobrace; assumption).
      rewrite (Hlist l H) by (assumption || lia). apply Hclose; exact Hle.
  Qed.

  (* ---------------------------------------------------------------- the look-ahead *)
  Lemma skip_kw_facts kw : In kw (SKIP T) -> forallb is_alpha kw = true /\ (List.length kw <= 28)%nat.
  Proof.
    intro Hin. unfold tables_ok in HT. repeat (apply andb_true_iff in HT as [HT ?]).
    rewrite forallb_forall in HT. specialize (HT kw Hin). apply andb_true_iff in HT as [A B].
    split; [exact A | apply Nat.leb_le; exact B].
  Qed.

  Lemma look_cut c a r : (c =? 92) = false -> (c =? 42) = false -> is_alpha c = false ->
    look T (a ++ c :: r) = look T (a ++ [c]).
  Proof.
    intros C1 C2 C3. unfold look. destruct a as [|x a]; [simpl; rewrite C1; reflexivity|].
    change (head_is 92 ((x :: a) ++ c :: r)) with (x =? 92). change (head_is 92 ((x :: a) ++ [c])) with (x =? 92).
    destruct (x =? 92) eqn:Ex; [|reflexivity].
    unfold is_skip. f_equal.
    - rewrite !startswith_firstn by (simpl; lia). apply startswith_cut.
      intros [E|[E|[]]]; subst; discriminate.
    - apply existsb_ext_in. intros kw Hin. destruct (skip_kw_facts kw Hin) as [Ha Hl].
      rewrite !startswith_firstn by (simpl; lia). apply startswith_cut.
      intros [E|E]; [subst; discriminate|]. rewrite forallb_forall in Ha. rewrite (Ha c E) in C3. discriminate.
  Qed.

  Lemma look_dest (st : bool) kw Y : (st || mem_str kw (SKIP T)) = true ->
    look T ((if st then [92; 42] else []) ++ 92 :: kw ++ Y) = true.
  Proof.
    intro H. destruct st; [reflexivity|]. simpl in H. apply mem_str_In in H.
    destruct (skip_kw_facts kw H) as [_ Hl].
    unfold look. change ([] ++ 92 :: kw ++ Y) with ((92 :: kw) ++ Y). 
    change (head_is 92 ((92 :: kw) ++ Y)) with true. cbv iota.
    unfold is_skip. apply orb_true_iff. right. apply existsb_exists. exists kw. split; [exact H|].
    rewrite startswith_firstn by (simpl; lia). apply startswith_self.
  Qed.

  (* ---------------------------------------------------------------- main induction *)
  Lemma boundary_out w : In w boundary_words -> exists c, ctrl_out T w = [c] /\ ws c = true.
  Proof.
    intro Hin. unfold tables_ok in HT. repeat (apply andb_true_iff in HT as [HT ?]).
    rewrite forallb_forall in H1. specialize (H1 w Hin). unfold one_ws in H1.
    destruct (ctrl_out T w) as [|c [|? ?]]; try discriminate. apply andb_true_iff in H1 as [A _]. exists c. auto.
  Qed.

  Lemma boundary_nosurr w : In w boundary_words -> exists c, ctrl_out T w = [c] /\ is_surr c = false.
  Proof.
    intro Hin. unfold tables_ok in HT. repeat (apply andb_true_iff in HT as [HT ?]).
    rewrite forallb_forall in H1. specialize (H1 w Hin). unfold one_ws in H1.
    destruct (ctrl_out T w) as [|c [|? ?]]; try discriminate. apply andb_true_iff in H1 as [_ B].
    apply negb_true_iff in B. exists c. auto.
  Qed.

  Lemma go_boundary w dp r : In w boundary_words -> go T 0 dp None (cw w ++ r) = flat (sep_of T w) ++ go T 0 dp None r.
  Proof.
    intro Hin. destruct (boundary_out w Hin) as [c [Ec _]].
    replace (cw w ++ r) with (92 :: w ++ [] ++ 32 :: r) by (unfold cw; simpl; rewrite <- app_assoc; reflexivity).
    unfold sep_of. rewrite Ec.
    rewrite go_ctrl_sp; [rewrite Ec; reflexivity | | | | reflexivity];
      simpl in Hin; repeat (destruct Hin as [<-|Hin]; [reflexivity|]); destruct Hin.
  Qed.

  Lemma go_item : forall x, wf_item T ws x = true -> supported_item T x = true ->
    forall dp r, go T 0 dp None (render_item x ++ r) = flat (syms T x) ++ go T 0 dp None r.
  Proof.
    assert (forall l, Forall (fun x => wf_item T ws x = true -> supported_item T x = true ->
              forall dp r, go T 0 dp None (render_item x ++ r) = flat (syms T x) ++ go T 0 dp None r) l ->
            forallb (wf_item T ws) l = true -> forallb (supported_item T) l = true ->
            forall dp r, go T 0 dp None (flat_map render_item l ++ r) = flat (flat_map (syms T) l) ++ go T 0 dp None r) as Hlist.
    { induction 1 as [|y l Hy _ IH]; intros Hw Hn dp r; [reflexivity|].
      simpl in Hw, Hn. apply andb_true_iff in Hw as [Hw1 Hw2]. apply andb_true_iff in Hn as [Hn1 Hn2].
      simpl. unfold flat in *. rewrite flat_map_app, <- !app_assoc, Hy, IH by assumption. reflexivity. }
    intro x. induction x using item_ind'; intros Hwf Hsup dp r.
    - simpl in Hwf. apply andb_true_iff in Hwf as [_ Ht]. simpl. rewrite app_nil_r. apply go_text; assumption.
    - reflexivity.
    - simpl in Hwf, Hsup. repeat (apply andb_true_iff in Hwf as [Hwf ?]).
      apply andb_true_iff in Hsup as [Hfb _]. apply str_eqb_eq in Hfb. subst f.
      simpl. rewrite <- !app_assoc. simpl. apply go_uni; assumption.
    - simpl in Hwf. repeat (apply andb_true_iff in Hwf as [Hwf ?]). simpl. apply go_hex; assumption.
    - apply (go_boundary (s "par")). simpl. tauto.
    - apply (go_boundary (s "line")). simpl. tauto.
    - apply (go_boundary (s "tab")). simpl. tauto.
    - apply (go_boundary (s "cell")). simpl. tauto.
    - apply (go_boundary (s "row")). simpl. tauto.
    - apply (go_boundary (s "page")). simpl. tauto.
    - simpl in Hwf, Hsup. repeat (apply andb_true_iff in Hwf as [Hwf ?]).
      apply negb_true_iff in Hsup, H, H0.
      change (render_item (RCtrl w p) ++ r) with (92 :: (w ++ p ++ [32]) ++ r).
      rewrite <- !app_assoc. change ([32] ++ r) with (32 :: r). rewrite go_ctrl_sp by assumption.
      unfold ctrl_out. rewrite H0. unfold has_key in H. simpl. destruct (assoc w (SPECIAL T)); [discriminate | reflexivity].
    - (* group *)
      simpl in Hwf, Hsup. apply andb_true_iff in Hsup as [Hlook Hsup]. apply negb_true_iff in Hlook.
      change (render_item (RGroup l) ++ r) with (123 :: (flat_map render_item l ++ [125]) ++ r).
      rewrite <- app_assoc. change ([125] ++ r) with (125 :: r).
      change (go T 0 dp None (123 :: flat_map render_item l ++ 125 :: r))
        with (go T 0 (dp + 1) (if look T (flat_map render_item l ++ 125 :: r) then Some (dp + 1)%Z else None)
                (flat_map render_item l ++ 125 :: r)).
      rewrite look_cut by reflexivity. unfold render_items in Hlook. rewrite Hlook.
      rewrite (Hlist l H Hwf Hsup). simpl. replace (dp + 1 - 1)%Z with dp by lia. reflexivity.
    - (* destination *)
      simpl in Hwf, Hsup. repeat (apply andb_true_iff in Hwf as [Hwf ?]). apply andb_true_iff in Hsup as [Hk Hne].
      change (render_item (RDest st kw l) ++ r)
        with (123 :: ((if st then [92; 42] else []) ++ 92 :: kw ++ 32 :: flat_map render_item l ++ [125]) ++ r).
      rewrite <- dest_shape.
      change (go T 0 dp None (123 :: render_item_dest_hdr st kw ++ flat_map render_item l ++ 125 :: r))
        with (go T 0 (dp + 1) (if look T (render_item_dest_hdr st kw ++ flat_map render_item l ++ 125 :: r) then Some (dp + 1)%Z else None)
                (render_item_dest_hdr st kw ++ flat_map render_item l ++ 125 :: r)).
      assert (look T (render_item_dest_hdr st kw ++ flat_map render_item l ++ 125 :: r) = true) as HL.
      { unfold render_item_dest_hdr. rewrite <- !app_assoc. simpl. rewrite <- app_assoc. apply look_dest; exact Hk. }
      rewrite HL.
      rewrite go_skip_nobrace by (apply dest_hdr_nobrace; assumption).
      assert (forall l0, forallb (wf_item T ws) l0 = true -> forallb no_esc_brace l0 = true ->
                forall dp0 sd r0, (sd <= dp0)%Z ->
                go T 0 dp0 (Some sd) (flat_map render_item l0 ++ r0) = go T 0 dp0 (Some sd) r0) as Hsk.
      { induction l0 as [|y l0 IH]; intros Hw Hn dp0 sd r0 Hle; [reflexivity|].
        simpl in Hw, Hn. apply andb_true_iff in Hw as [Hw1 Hw2]. apply andb_true_iff in Hn as [Hn1 Hn2].
        simpl. rewrite <- app_assoc, go_skip_item, IH by assumption. reflexivity. }
      rewrite Hsk by (assumption || lia). simpl. rewrite Z.eqb_refl.
      replace (dp + 1 - 1)%Z with dp by lia. reflexivity.
    - simpl in Hwf. simpl. apply go_esc; assumption.
  Qed.

  Lemma go_items l : forallb (wf_item T ws) l = true -> forallb (supported_item T) l = true ->
    forall dp r, go T 0 dp None (render_items l ++ r) = flat (doc_syms T l) ++ go T 0 dp None r.
  Proof.
    induction l as [|y l IH]; intros Hw Hn dp r; [reflexivity|].
    simpl in Hw, Hn. apply andb_true_iff in Hw as [Hw1 Hw2]. apply andb_true_iff in Hn as [Hn1 Hn2].
    unfold render_items, doc_syms, flat in *. simpl. rewrite flat_map_app, <- !app_assoc, go_item, IH by assumption. reflexivity.
  Qed.

  (* ---------------------------------------------------------------- no surrogate reaches the result *)
  Definition nosurr (x : str) : bool := forallb (fun c => negb (is_surr c)) x.

  Lemma repair_id x : nosurr x = true -> repair_surrogates x = x.
  Proof.
    induction x as [|c x IH]; intro H; [reflexivity|].
    simpl in H. apply andb_true_iff in H as [Hc Hx]. apply negb_true_iff in Hc.
    assert (is_hi c = false /\ is_lo c = false) as [E1 E2] by (unfold is_surr, is_hi, is_lo in *; split; lia).
    cbn [repair_surrogates]. rewrite E1, E2, IH by exact Hx. reflexivity.
  Qed.

  Lemma hexval_le c : is_hex c = true -> hexval c <= 15.
  Proof.
    unfold is_hex, hexval. intro H. destruct (is_digit c) eqn:D; [unfold is_digit in D; lia|].
    destruct (is_lower c) eqn:L; unfold is_digit, is_lower in *; lia.
  Qed.

  Lemma nosurr_item : forall x, wf_item T ws x = true -> supported_item T x = true -> nosurr (flat (syms T x)) = true.
  Proof.
    assert (forall w, In w boundary_words -> nosurr (flat (sep_of T w)) = true) as Hb.
    { intros w Hin. destruct (boundary_nosurr w Hin) as [c [Ec Hc]]. unfold sep_of. rewrite Ec. simpl. rewrite Hc. reflexivity. }
    intro x. induction x using item_ind'; intros Hwf Hsup; try reflexivity; try (apply Hb; simpl; tauto).
    - simpl in Hwf. apply andb_true_iff in Hwf as [_ Ht]. simpl. rewrite app_nil_r.
      unfold nosurr. apply forallb_forall. intros c Hc. rewrite forallb_forall in Ht. specialize (Ht c Hc).
      unfold tok_char in Ht. apply andb_true_iff in Ht as [_ Ht]. exact Ht.
    - simpl in Hsup. apply andb_true_iff in Hsup as [_ Hs]. simpl. unfold is_surr. rewrite Hs. reflexivity.
    - simpl in Hwf. repeat (apply andb_true_iff in Hwf as [Hwf ?]).
      pose proof (hexval_le a Hwf) as A. pose proof (hexval_le b H0) as B. simpl. unfold hex_val, is_surr.
      replace ((55296 <=? 16 * hexval a + hexval b) && (16 * hexval a + hexval b <=? 57343)) with false by lia. reflexivity.
    - simpl in Hwf, Hsup. apply andb_true_iff in Hsup as [_ Hsup]. simpl.
      induction H as [|y l Hy _ IH]; [reflexivity|].
      simpl in Hwf, Hsup. apply andb_true_iff in Hwf as [Hw1 Hw2]. apply andb_true_iff in Hsup as [Hs1 Hs2].
      simpl. unfold flat, nosurr in *. rewrite flat_map_app, forallb_app, Hy, IH by assumption. reflexivity.
    - simpl in Hwf. simpl. destruct (special_cases c Hwf) as [-> | [-> | ->]]; reflexivity.
  Qed.

  Lemma nosurr_doc d : wf_rdoc T ws d = true -> supported_rtf T d = true -> nosurr (flat (doc_syms T d)) = true.
  Proof.
    induction d as [|y l IH]; intros Hw Hs; [reflexivity|].
    simpl in Hw, Hs. apply andb_true_iff in Hw as [Hw1 Hw2]. apply andb_true_iff in Hs as [Hs1 Hs2].
    pose proof (nosurr_item y Hw1 Hs1) as Hy. unfold doc_syms, flat, nosurr in *. simpl.
    rewrite flat_map_app, forallb_app, Hy, IH by assumption. reflexivity.
  Qed.

  Lemma go_open dp r : go T 0 dp None (123 :: r) = go T 0 (dp + 1) (if look T r then Some (dp + 1)%Z else None) r.
  Proof. reflexivity. Qed.

  Lemma prefix_shape X : rtf_prefix ++ X = 123 :: s "\rtf" ++ 49 :: (92 :: s "ansi" ++ [] ++ 32 :: X).
  Proof. reflexivity. Qed.

  Lemma prefix_shape2 X : s "\rtf" ++ 49 :: X = 92 :: s "rtf" ++ s "1" ++ X.
  Proof. reflexivity. Qed.

  (* the stripper on a rendered document: exactly the characters of the specification symbols *)
  Lemma strip_rendered d : wf_rdoc T ws d = true -> supported_rtf T d = true ->
    strip_full T (render_rtf d) = flat (doc_syms T d).
  Proof.
    intros Hw Hs. rewrite <- (repair_id _ (nosurr_doc d Hw Hs)) at 1. unfold strip_full, render_rtf. f_equal.
    pose proof HT as HT'. unfold tables_ok in HT'. repeat (apply andb_true_iff in HT' as [HT' ?]).
    apply negb_true_iff in H, H0, H2.
    rewrite prefix_shape, go_open.
    rewrite look_cut by reflexivity. change (s "\rtf" ++ [49]) with (s "\rtf1"). rewrite H2.
    rewrite prefix_shape2.
    rewrite go_ctrl_nosp by reflexivity. rewrite go_ctrl_sp by reflexivity.
    assert (ctrl_out T (s "rtf") = []) as -> .
    { unfold ctrl_out, has_key in *. change (is_page_word (s "rtf")) with false. cbv iota.
      destruct (assoc (s "rtf") (SPECIAL T)); [discriminate | reflexivity]. }
    assert (ctrl_out T (s "ansi") = []) as -> .
    { unfold ctrl_out, has_key in *. change (is_page_word (s "ansi")) with false. cbv iota.
      destruct (assoc (s "ansi") (SPECIAL T)); [discriminate | reflexivity]. }
    rewrite !app_nil_l. rewrite (go_items d Hw Hs). simpl. apply app_nil_r.
  Qed.

  (* ---------------------------------------------------------------- the symbols are well-formed *)
  Lemma syms_ok_item : forall x, wf_item T ws x = true -> syms_ok ws (syms T x) = true.
  Proof.
    destruct ws_facts as [W10 [W13 [W32 [W92 [W123 W125]]]]].
    assert (forall w, In w boundary_words -> syms_ok ws (sep_of T w) = true) as Hb.
    { intros w Hin. destruct (boundary_out w Hin) as [c [Ec Hc]]. unfold sep_of. rewrite Ec. simpl. rewrite Hc. reflexivity. }
    intro x. induction x using item_ind'; intro Hwf; simpl; try reflexivity; try (apply Hb; simpl; tauto).
    - simpl in Hwf. apply andb_true_iff in Hwf as [_ Ht]. rewrite andb_true_r.
      unfold no_ws. apply forallb_forall. intros c Hc. rewrite forallb_forall in Ht.
      destruct (tok_char_facts c (Ht c Hc)) as [_ [_ [_ [_ E]]]]. rewrite E. reflexivity.
    - rewrite W32. reflexivity.
    - simpl in Hwf. repeat (apply andb_true_iff in Hwf as [Hwf ?]). rewrite H0. reflexivity.
    - simpl in Hwf. repeat (apply andb_true_iff in Hwf as [Hwf ?]). rewrite H. reflexivity.
    - rewrite W10. reflexivity.
    - simpl in Hwf. induction H as [|y l Hy _ IH]; [reflexivity|].
      simpl in Hwf. apply andb_true_iff in Hwf as [Hw1 Hw2]. simpl. unfold syms_ok in *. rewrite forallb_app, Hy, IH by assumption. reflexivity.
    - simpl in Hwf. destruct (special_cases c Hwf) as [-> | [-> | ->]]; rewrite ?W92, ?W123, ?W125; reflexivity.
  Qed.

  Lemma syms_ok_doc d : wf_rdoc T ws d = true -> syms_ok ws (doc_syms T d) = true.
  Proof.
    induction d as [|y l IH]; intro Hwf; [reflexivity|].
    simpl in Hwf. apply andb_true_iff in Hwf as [Hw1 Hw2]. pose proof (syms_ok_item y Hw1) as Hy.
    unfold doc_syms, syms_ok in *. simpl.
    rewrite forallb_app, Hy, IH by assumption. reflexivity.
  Qed.
End Loop.

(* ---------------------------------------------------------------- the regex passes *)
Lemma sub_pat_inert m x : (forall y, m y = None) \/ inert_at [m] x = true -> sub_pat m 0 x = x.
Proof.
  intros [H|H].
  - induction x as [|c x IH]; [reflexivity|]. simpl. rewrite H, IH. reflexivity.
  - induction x as [|c x IH]; [reflexivity|].
    cbn [inert_at forallb] in H. apply andb_true_iff in H as [H1 H2]. rewrite andb_true_r in H1.
    cbn [sub_pat]. destruct (m (c :: x)); [discriminate|]. rewrite IH by exact H2. reflexivity.
Qed.

Lemma inert_at_in ms m x : In m ms -> inert_at ms x = true -> inert_at [m] x = true.
Proof.
  intros Hin. induction x as [|c x IH]; intro H; [reflexivity|].
  cbn [inert_at] in *. apply andb_true_iff in H as [H1 H2]. rewrite forallb_forall in H1.
  cbn [forallb]. rewrite (H1 m Hin), IH by exact H2. reflexivity.
Qed.

Lemma remove_dests_inert x : pre_inert x = true -> remove_dests x = x.
Proof.
  unfold pre_inert, remove_dests. generalize dest_matchers as ms. intros ms H.
  assert (forall l, (forall m, In m l -> In m ms) -> fold_left (fun acc m => sub_pat m 0 acc) l x = x) as G.
  { induction l as [|m l IH]; intro Hsub; [reflexivity|]. simpl.
    rewrite (sub_pat_inert m x) by (right; apply (inert_at_in ms); [apply Hsub; left; reflexivity | exact H]).
    apply IH. intros m' Hm'. apply Hsub. right. exact Hm'. }
  apply G. auto.
Qed.

(* pruning removes destinations only: the specification does not change *)
Lemma prune1_syms T f : forall x, flat_map (syms T) (prune1 f x) = syms T x.
Proof.
  intro x. induction x using item_ind'; try (simpl; rewrite ?app_nil_r; reflexivity).
  - simpl. rewrite app_nil_r. induction H as [|y l Hy _ IH]; [reflexivity|].
    simpl. rewrite flat_map_app, Hy, IH. reflexivity.
  - simpl. destruct (f st kw l); reflexivity.
Qed.

Lemma prune_syms T d : doc_syms T (prune d) = doc_syms T d.
Proof.
  unfold prune. generalize pass_filters as fs. intro fs. revert d.
  induction fs as [|f fs IH]; intro d; [reflexivity|]. simpl. rewrite IH.
  unfold doc_syms. induction d as [|y d IHd]; [reflexivity|]. simpl. rewrite flat_map_app, prune1_syms, IHd. reflexivity.
Qed.

(* ---------------------------------------------------------------- the property statements *)
Section Final.
  Variable T : tables.
  Variable ws : N -> bool.
  Hypothesis Hws : ws_ok ws = true.
  Hypothesis HT : tables_ok T ws = true.

  Lemma ws10 : ws 10 = true.
  Proof. destruct (ws_facts ws Hws) as [H _]. exact H. Qed.

  Lemma words_body d : wf_rdoc T ws d = true -> supported_rtf T d = true ->
    words ws (post ws (strip_full T (render_rtf d))) = segments T d.
  Proof.
    intros Hw Hs. rewrite (words_post ws ws10). rewrite (strip_rendered T ws Hws HT d Hw Hs).
    apply words_flat. apply (syms_ok_doc T ws Hws HT d Hw).
  Qed.

  Lemma full_text_pre d d' : pre_to d d' = true ->
    full_text_of T ws (render_rtf d) = post ws (strip_full T (render_rtf d')).
  Proof.
    intro H. apply str_eqb_eq in H. unfold full_text_of, body_full_text.
    change (startswith (render_rtf d) (s "{\rtf")) with true. cbv iota. rewrite H. reflexivity.
  Qed.

  Lemma words_main d d' : wf_rdoc T ws d' = true -> supported_rtf T d' = true -> pre_to d d' = true ->
    words ws (full_text_of T ws (render_rtf d)) = segments T d'.
  Proof. intros Hw Hs Hp. rewrite (full_text_pre d d' Hp). apply words_body; assumption. Qed.

  Lemma pre_to_inert d : pre_inert (render_rtf d) = true -> pre_to d d = true.
  Proof. intro H. unfold pre_to. rewrite (remove_dests_inert _ H). apply str_eqb_refl. Qed.

  Lemma words_pruned d : wf_rdoc T ws (prune d) = true -> supported_rtf T (prune d) = true -> pre_ok d = true ->
    words ws (full_text_of T ws (render_rtf d)) = segments T d.
  Proof.
    intros Hw Hs Hp. rewrite (words_main d (prune d) Hw Hs Hp). unfold segments. rewrite prune_syms. reflexivity.
  Qed.

  Lemma tokens_main d : wf_rdoc T ws (prune d) = true -> supported_rtf T (prune d) = true -> pre_ok d = true ->
    tokchars ws (full_text_of T ws (render_rtf d)) = List.concat (visible T d).
  Proof.
    intros Hw Hs Hp. rewrite <- concat_words, (words_pruned d Hw Hs Hp). apply concat_groups.
  Qed.

  Lemma no_excluded_main d : wf_rdoc T ws (prune d) = true -> supported_rtf T (prune d) = true -> pre_ok d = true ->
    forall c, In c (full_text_of T ws (render_rtf d)) -> ws c = false -> In c (List.concat (visible T d)).
  Proof.
    intros Hw Hs Hp c Hc Hn. rewrite <- (tokens_main d Hw Hs Hp). apply tokchars_In. auto.
  Qed.

  Lemma decoration_main d : wf_rdoc T ws (prune d) = true -> supported_rtf T (prune d) = true -> pre_ok d = true ->
    forall c, In c (full_text_of T ws (render_rtf d)) -> c = 10 \/ In c (flat (doc_syms T d)).
  Proof.
    intros Hw Hs Hp c Hc. unfold pre_ok in Hp. rewrite (full_text_pre d (prune d) Hp) in Hc.
    apply In_post in Hc. rewrite (strip_rendered T ws Hws HT _ Hw Hs), prune_syms in Hc. exact Hc.
  Qed.
End Final.

Lemma words_inert T ws d : ws_ok ws = true -> tables_ok T ws = true ->
  wf_rdoc T ws d = true -> supported_rtf T d = true -> pre_inert (render_rtf d) = true ->
  words ws (full_text_of T ws (render_rtf d)) = segments T d.
Proof. intros Hws HT Hw Hs Hp. apply (words_main T ws Hws HT d d Hw Hs (pre_to_inert d Hp)). Qed.
