(* C20 <-> C08: the PKCS#7 layer is modelled twice (C08/Pad.v for the "empty password = plain original"
   property, C20/Model.v for the stream wrapper).  This obligation states that the two models are the same
   function, so C08's theorems (unpad_pad, pad_full_block, unpad_rejects_bad_byte etc.) apply to C20's wrapper and
   C20's correspondence ties C08's model to the code as well. *)
From Coq Require Import Arith NArith List Bool Lia.
From S2T Require Import Lib.PyStr C08.Pad C20.Spec C20.Model.
Import ListNotations.

Definition ures_of (r : result C20.Spec.bytes) : ures := match r with Ok d => UOk d | Raise _ => UErr end.

Lemma bytes_eqb_str_eqb a : forall b, bytes_eqb a b = str_eqb a b.
Proof. induction a as [|x a IH]; intros [|y b]; reflexivity. Qed.
Print Assumptions bytes_eqb_str_eqb.

Theorem C20_pkcs7_is_C08_pkcs7 : forall (d : list N) (bs : nat),
  C20.Model.pkcs7_pad d bs = C08.Pad.pkcs7_pad bs d /\
  ures_of (C20.Model.pkcs7_unpad d bs) = C08.Pad.pkcs7_unpad bs d.
Proof.
  intros d bs. split. reflexivity.
  unfold C20.Model.pkcs7_unpad, C08.Pad.pkcs7_unpad, lastn. destruct d as [|x l]. reflexivity.
  change (List.length (x :: l) =? 0)%nat with false. cbv iota.
  rewrite N2Nat.id. rewrite bytes_eqb_str_eqb.
  destruct ((N.to_nat (last (x :: l) 0%N) <? 1)%nat || (bs <? N.to_nat (last (x :: l) 0%N))%nat); [reflexivity|].
  destruct (str_eqb _ _); reflexivity.
Qed.
Print Assumptions C20_pkcs7_is_C08_pkcs7.
