(* C20 — correspondence case checkers: the model evaluated on recorded inputs, compared with the
   implementation's recorded (canonicalised) answers. *)
From Coq Require Import Arith NArith List Bool.
From S2T Require Import C20.Spec C20.Model C20.Tables.
Import ListNotations.
Open Scope N_scope.

Definition res_eqb (r : result bytes) (e : option bytes) : bool :=
  match r, e with Ok a, Some b => bytes_eqb a b | Raise ValueError, None => true | _, _ => false end.
Fixpoint lbytes_eqb (a b : list bytes) : bool :=
  match a, b with [] , [] => true | x :: a', y :: b' => bytes_eqb x y && lbytes_eqb a' b' | _, _ => false end.
Definition lr_is (r : loop_result) (v : N) : bool := match r with Done x => x =? v | OutOfFuel => false end.

Inductive ccase :=
| CXtime (a r : N)
| CGfMul (a b r : N)
| CState (fn : nat) (st : bytes) (out : bytes)            (* 0 sub 1 invsub 2 shift 3 invshift 4 mix 5 invmix *)
| CArk (st rk out : bytes)
| CExpand (key : bytes) (out : option (list bytes))
| CBlock (dec : bool) (key block : bytes) (out : option bytes)
| CEcb (dec : bool) (history : list bytes) (key data : bytes) (out : option bytes)
| CCbc (dec : bool) (history : list bytes) (key iv data : bytes) (out : option bytes)
| CPad (data : bytes) (bs : nat) (out : bytes)
| CUnpad (data : bytes) (bs : nat) (out : option bytes)
| CStreamEnc (key iv data : bytes) (out : option bytes)
| CStreamDec (key data : bytes) (out : option bytes)
| CCache (history : list bytes) (keys_after : list bytes).

Definition corr_case (T : tables) (c : ccase) : bool :=
  match c with
  | CXtime a r => xtime a =? r
  | CGfMul a b r => lr_is (gf_mul a b) r
  | CState fn st out =>
      bytes_eqb out (match fn with
        | 0%nat => Model.sub_bytes T st | 1%nat => Model.inv_sub_bytes T st | 2%nat => Model.shift_rows st
        | 3%nat => Model.inv_shift_rows st | 4%nat => Model.mix_columns T st | _ => Model.inv_mix_columns T st end)
  | CArk st rk out => bytes_eqb out (Model.add_round_key st rk)
  | CExpand key out =>
      match expand_key T key, out with
      | Ok a, Some b => lbytes_eqb a b | Raise ValueError, None => true | _, _ => false end
  | CBlock dec key block out =>
      match expand_key T key with
      | Ok rks => res_eqb (if dec then decrypt_block T block rks else encrypt_block T block rks) out
      | Raise _ => false
      end
  | CEcb dec h key data out =>
      res_eqb (fst ((if dec then aes_ecb_decrypt else aes_ecb_encrypt) T (cache_after T h) key data)) out
  | CCbc dec h key iv data out =>
      res_eqb (fst ((if dec then aes_cbc_decrypt else aes_cbc_encrypt) T (cache_after T h) key iv data)) out
  | CPad data bs out => bytes_eqb (pkcs7_pad data bs) out
  | CUnpad data bs out => res_eqb (pkcs7_unpad data bs) out
  | CStreamEnc key iv data out => res_eqb (fst (cryptaes_encrypt T [] key iv data)) out
  | CStreamDec key data out => res_eqb (fst (cryptaes_decrypt T [] key data)) out
  | CCache h keys => lbytes_eqb (map fst (cache_after T h)) keys
  end.
